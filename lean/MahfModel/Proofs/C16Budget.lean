/- Soundness of the pass-count prediction `predict` for every execution of `bexec`, and closed forms of `firstStop`. -/
import MahfModel.Model.TemplatesBudget
namespace MahfModel.Tpl
set_option linter.unusedSimpArgs false

/-! ### Conditions -/

theorem BCond.evalAt_static (c : BCond) (it ev : Option Nat) (ob : Bool) (hs : c.static = true) :
    c.evalAt it ev ob = c.evalAt it ev false := by
  induction c with
  | iterLt n => rfl
  | evalLt n => rfl
  | and a b iha ihb =>
    simp only [BCond.static, Bool.and_eq_true] at hs
    simp only [BCond.evalAt, iha hs.1, ihb hs.2]
  | or a b iha ihb =>
    simp only [BCond.static, Bool.and_eq_true] at hs
    simp only [BCond.evalAt, iha hs.1, ihb hs.2]
  | «opaque» => simp [BCond.static] at hs

/-- What the condition sees through the chain of registries is what it sees in the innermost one, as long as the
innermost one holds every counter the condition reads. -/
theorem BCond.evalAt_vis (c : BCond) (i : Nat) (v : Option Nat) (L : List Lvl) (ob r : Bool)
    (h : c.evalAt (some i) v ob = some r) :
    c.evalAt (visIters (⟨some i, v⟩ :: L)) (visEvals (⟨some i, v⟩ :: L)) ob = some r := by
  induction c generalizing r with
  | iterLt n => simpa [BCond.evalAt, visIters] using h
  | evalLt n =>
    cases v with
    | none => simp [BCond.evalAt] at h
    | some v => simpa [BCond.evalAt, visEvals] using h
  | and a b iha ihb =>
    simp only [BCond.evalAt] at h ⊢
    cases ha : a.evalAt (some i) v ob with
    | none => simp [ha] at h
    | some x =>
      cases hb : b.evalAt (some i) v ob with
      | none => simp [ha, hb] at h
      | some y => simpa [iha x ha, ihb y hb, ha, hb] using h
  | or a b iha ihb =>
    simp only [BCond.evalAt] at h ⊢
    cases ha : a.evalAt (some i) v ob with
    | none => simp [ha] at h
    | some x =>
      cases hb : b.evalAt (some i) v ob with
      | none => simp [ha, hb] at h
      | some y => simpa [iha x ha, ihb y hb, ha, hb] using h
  | «opaque» => simpa [BCond.evalAt] using h

/-! ### Components that touch no counter -/

mutual
  theorem quiet_noop (o : BOracle) : ∀ (fuel d : Nat) (c : BComp) (s s' : BSt),
      quiet c = true → bexec o fuel d c s = some s' → s'.lvls = s.lvls ∧ s'.runs = s.runs
    | 0, _, _, _, _, _, h => by simp [bexec] at h
    | fuel + 1, d, .leaf, s, s', _, h => by
      simp only [bexec] at h
      split at h
      · cases h
      · injection h with h; subst h; simp
    | fuel + 1, d, .seq cs, s, s', hq, h => by
      simp only [quiet] at hq
      simp only [bexec] at h
      exact quiets_noop o fuel d cs s s' hq h
    | fuel + 1, d, .branch t e, s, s', hq, h => by
      simp only [quiet, Bool.and_eq_true] at hq
      simp only [bexec] at h
      split at h
      · simpa using quiet_noop o fuel d t _ s' hq.1 h
      · simpa using quiet_noop o fuel d e _ s' hq.2 h
    | _ + 1, _, .eval _, _, _, hq, _ => by simp [quiet] at hq
    | _ + 1, _, .evalAny, _, _, hq, _ => by simp [quiet] at hq
    | _ + 1, _, .addAny, _, _, hq, _ => by simp [quiet] at hq
    | _ + 1, _, .loop _ _, _, _, hq, _ => by simp [quiet] at hq
    | _ + 1, _, .scope _, _, _, hq, _ => by simp [quiet] at hq
  theorem quiets_noop (o : BOracle) : ∀ (fuel d : Nat) (cs : BComps) (s s' : BSt),
      quiets cs = true → bexecs o fuel d cs s = some s' → s'.lvls = s.lvls ∧ s'.runs = s.runs
    | 0, _, _, _, _, _, h => by simp [bexecs] at h
    | fuel + 1, d, .nil, s, s', _, h => by
      simp only [bexecs] at h
      injection h with h; subst h; simp
    | fuel + 1, d, .cons c rest, s, s', hq, h => by
      simp only [quiets, Bool.and_eq_true] at hq
      simp only [bexecs] at h
      cases h1 : bexec o fuel d c s with
      | none => simp [h1] at h
      | some s1 =>
        simp only [h1] at h
        have g1 := quiet_noop o fuel d c s s1 hq.1 h1
        have g2 := quiets_noop o fuel d rest s1 s' hq.2 h
        exact ⟨g2.1.trans g1.1, g2.2.trans g1.2⟩
end

/-! ### A component without a loop of its level has the same effect in every registry -/

theorem map_add_add (v : Option Nat) (a b : Nat) : (v.map (· + a)).map (· + b) = v.map (· + (a + b)) := by
  cases v <;> simp [Nat.add_assoc]

theorem map_add_zero (v : Option Nat) : v.map (· + 0) = v := by
  cases v <;> simp

mutual
  theorem predict_loopfree (F : Nat) : ∀ (d : Nat) (c : BComp) (l l1 : Lvl) (g : List (Nat × Nat)),
      directB c = 0 → predict F d c l = some (l1, g) →
      ∀ l' : Lvl, l'.evals.isSome = l.evals.isSome →
        predict F d c l' = some (⟨l'.iters, l'.evals.map (· + evalsOf c)⟩, g)
    | d, .leaf, l, l1, g, _, h => by
      intro l' _
      simp only [predict, Option.some.injEq, Prod.mk.injEq] at h ⊢
      obtain ⟨_, rfl⟩ := h
      simp [evalsOf, map_add_zero]
    | d, .eval n, l, l1, g, _, h => by
      intro l' hl
      simp only [predict] at h ⊢
      cases hv : l.evals with
      | none => simp [hv] at h
      | some v =>
        simp only [hv, Option.some.injEq, Prod.mk.injEq] at h
        obtain ⟨_, rfl⟩ := h
        cases hv' : l'.evals with
        | none => simp [hv, hv'] at hl
        | some v' => simp [evalsOf]
    | d, .evalAny, l, l1, g, _, h => by simp [predict] at h
    | d, .addAny, l, l1, g, _, h => by simp [predict] at h
    | d, .seq cs, l, l1, g, hd, h => by
      intro l' hl
      simp only [directB] at hd
      simp only [predict] at h ⊢
      simpa [evalsOf] using predicts_loopfree F d cs l l1 g hd h l' hl
    | d, .loop c b, l, l1, g, hd, h => by
      simp only [directB] at hd
      omega
    | d, .branch t e, l, l1, g, _, h => by
      intro l' _
      simp only [predict] at h ⊢
      split at h
      · rename_i hq
        simp only [Option.some.injEq, Prod.mk.injEq] at h
        obtain ⟨_, rfl⟩ := h
        simp [hq, evalsOf, map_add_zero]
      · cases h
    | d, .scope b, l, l1, g, _, h => by
      intro l' _
      simp only [predict] at h ⊢
      cases hp : predict F d b (binit b Lvl.empty) with
      | none => simp [hp] at h
      | some r =>
        simp only [hp, Option.map_some, Option.some.injEq, Prod.mk.injEq] at h
        obtain ⟨_, rfl⟩ := h
        simp [evalsOf, map_add_zero]
  theorem predicts_loopfree (F : Nat) : ∀ (d : Nat) (cs : BComps) (l l1 : Lvl) (g : List (Nat × Nat)),
      directBs cs = 0 → predicts F d cs l = some (l1, g) →
      ∀ l' : Lvl, l'.evals.isSome = l.evals.isSome →
        predicts F d cs l' = some (⟨l'.iters, l'.evals.map (· + evalsOfL cs)⟩, g)
    | d, .nil, l, l1, g, _, h => by
      intro l' _
      simp only [predicts, Option.some.injEq, Prod.mk.injEq] at h ⊢
      obtain ⟨_, rfl⟩ := h
      simp [evalsOfL, map_add_zero]
    | d, .cons c rest, l, l1, g, hd, h => by
      intro l' hl
      simp only [directBs] at hd
      simp only [predicts] at h ⊢
      cases h1 : predict F d c l with
      | none => simp [h1] at h
      | some r1 =>
        obtain ⟨la, ga⟩ := r1
        simp only [h1] at h
        cases h2 : predicts F d rest la with
        | none => simp [h2] at h
        | some r2 =>
          obtain ⟨lb, gb⟩ := r2
          simp only [h2, Option.some.injEq, Prod.mk.injEq] at h
          obtain ⟨_, rfl⟩ := h
          have e1 := predict_loopfree F d c l la ga (by omega) h1
          have hla := e1 l rfl
          rw [h1] at hla
          simp only [Option.some.injEq, Prod.mk.injEq, and_true] at hla
          have e1' := e1 l' hl
          have e2 := predicts_loopfree F d rest la lb gb (by omega) h2
            ⟨l'.iters, l'.evals.map (· + evalsOf c)⟩ (by
              rw [hla]
              cases h3 : l'.evals <;> cases h4 : l.evals <;> simp_all)
          simp only [e1', e2, evalsOfL, map_add_add]
end

/-! ### `init` replaces the counters of the level -/

theorem ite_comb (a b : Nat) (x : Option Nat) :
    (if b == 0 then (if a == 0 then x else some 0) else some 0) = if a + b == 0 then x else some 0 := by
  cases a <;> cases b <;> simp

theorem ite_succ (a : Nat) (x : Option Nat) :
    (if a == 0 then some 0 else some 0) = (if 1 + a == 0 then x else some 0) := by
  have : (1 + a == 0) = false := by simp
  simp [this]

mutual
  theorem binit_spec : ∀ (c : BComp) (l : Lvl),
      binit c l = ⟨if directB c == 0 then l.iters else some 0, if evalLeaves c == 0 then l.evals else some 0⟩
    | .leaf, l => by simp [binit, directB, evalLeaves]
    | .eval _, l => by simp [binit, directB, evalLeaves]
    | .evalAny, l => by simp [binit, directB, evalLeaves]
    | .addAny, l => by simp [binit, directB, evalLeaves]
    | .seq cs, l => by
      rw [binit, binits_spec cs]
      simp only [directB, evalLeaves]
      rfl
    | .loop _ b, l => by
      rw [binit, binit_spec b]
      simp only [directB, evalLeaves, ite_succ (directB b) l.iters]
      rfl
    | .branch t e, l => by
      rw [binit, binit_spec e, binit_spec t]
      simp only [directB, evalLeaves, ite_comb]
      rfl
    | .scope _, l => by simp [binit, directB, evalLeaves]
  theorem binits_spec : ∀ (cs : BComps) (l : Lvl),
      binits cs l = ⟨if directBs cs == 0 then l.iters else some 0, if evalLeavesL cs == 0 then l.evals else some 0⟩
    | .nil, l => by simp [binits, directBs, evalLeavesL]
    | .cons c cs, l => by
      rw [binits, binits_spec cs, binit_spec c]
      simp only [directBs, evalLeavesL, ite_comb]
      rfl
end

/-- A configuration with a loop and an evaluator at its top level starts every run from `(0, 0)`, whatever an
earlier run left in the state. -/
theorem binit_overwrites (c : BComp) (prior : Lvl) (hl : 1 ≤ directB c) (he : 1 ≤ evalLeaves c) :
    binit c prior = ⟨some 0, some 0⟩ := by
  rw [binit_spec]
  have h1 : (directB c == 0) = false := by simp; omega
  have h2 : (evalLeaves c == 0) = false := by simp; omega
  simp [h1, h2]

/-! ### Soundness of the prediction -/

theorem repLog_succ_right (p : Nat) (bl : List (Nat × Nat)) : repLog (p + 1) bl = repLog p bl ++ bl := by
  induction p with
  | zero => simp [repLog]
  | succ p ih =>
    calc repLog (p + 2) bl = bl ++ repLog (p + 1) bl := rfl
      _ = bl ++ (repLog p bl ++ bl) := by rw [ih]
      _ = (bl ++ repLog p bl) ++ bl := by simp
      _ = repLog (p + 1) bl ++ bl := rfl

mutual
  /-- Wherever `predict` answers, every terminating execution (all oracles, any fuel, inside any chain of enclosing
  registries `L`) leaves exactly the predicted counters in the component's registry, leaves `L` alone, and has made
  exactly the predicted loop executions. -/
  theorem bexec_sound (o : BOracle) (F : Nat) : ∀ (fuel d : Nat) (c : BComp) (s s' : BSt) (l l' : Lvl) (L : List Lvl)
      (g : List (Nat × Nat)),
      s.lvls = l :: L → predict F d c l = some (l', g) → bexec o fuel d c s = some s' →
      s'.lvls = l' :: L ∧ s'.runs = s.runs ++ g
    | 0, _, _, _, _, _, _, _, _, _, _, h => by simp [bexec] at h
    | fuel + 1, d, .leaf, s, s', l, l', L, g, hs, hp, h => by
      simp only [predict, Option.some.injEq, Prod.mk.injEq] at hp
      obtain ⟨rfl, rfl⟩ := hp
      simp only [bexec] at h
      split at h
      · cases h
      · injection h with h; subst h; simp [hs]
    | fuel + 1, d, .eval n, s, s', l, l', L, g, hs, hp, h => by
      simp only [predict] at hp
      cases hv : l.evals with
      | none => simp [hv] at hp
      | some v =>
        simp only [hv, Option.some.injEq, Prod.mk.injEq] at hp
        obtain ⟨rfl, rfl⟩ := hp
        simp only [bexec] at h
        split at h
        · cases h
        · simp only [hs, addEvals, hv] at h
          injection h with h; subst h; simp
    | fuel + 1, d, .evalAny, s, s', l, l', L, g, _, hp, _ => by simp [predict] at hp
    | fuel + 1, d, .addAny, s, s', l, l', L, g, _, hp, _ => by simp [predict] at hp
    | fuel + 1, d, .seq cs, s, s', l, l', L, g, hs, hp, h => by
      simp only [predict] at hp
      simp only [bexec] at h
      exact bexecs_sound o F fuel d cs s s' l l' L g hs hp h
    | fuel + 1, d, .loop c b, s, s', l, l', L, g, hs, hp, h => by
      simp only [predict] at hp
      split at hp
      · rename_i hcb
        simp only [Bool.and_eq_true, beq_iff_eq] at hcb
        cases hi : l.iters with
        | none => simp [hi] at hp
        | some i =>
          cases hb : predict F (d + 1) b l with
          | none => simp [hi, hb] at hp
          | some r =>
            obtain ⟨lb, bl⟩ := r
            simp only [hi, hb] at hp
            cases hq : firstStop c (evalsOf b) F i l.evals with
            | none => simp [hq] at hp
            | some q =>
              simp only [hq, Option.map_some, Option.some.injEq, Prod.mk.injEq] at hp
              obtain ⟨rfl, rfl⟩ := hp
              simp only [bexec] at h
              have hl : l = ⟨some i, l.evals⟩ := by cases l; simp_all
              have := bloop_sound o F fuel d c b 0 s s' i l.evals L bl F q hcb.1 hcb.2
                (fun i' v' hv' => by
                  have := predict_loopfree F (d + 1) b l lb bl hcb.2 hb ⟨some i', v'⟩ hv'
                  simpa using this)
                (by rw [hs]; exact congrArg (· :: L) hl) hq h
              simpa [List.append_assoc] using this
      · cases hp
    | fuel + 1, d, .branch t e, s, s', l, l', L, g, hs, hp, h => by
      simp only [predict] at hp
      split at hp
      · rename_i hq
        simp only [Bool.and_eq_true] at hq
        simp only [Option.some.injEq, Prod.mk.injEq] at hp
        obtain ⟨rfl, rfl⟩ := hp
        simp only [bexec] at h
        split at h
        · have := quiet_noop o fuel d t _ s' hq.1 h
          simpa [hs] using this
        · have := quiet_noop o fuel d e _ s' hq.2 h
          simpa [hs] using this
      · cases hp
    | fuel + 1, d, .scope b, s, s', l, l', L, g, hs, hp, h => by
      simp only [predict] at hp
      cases hb : predict F d b (binit b Lvl.empty) with
      | none => simp [hb] at hp
      | some r =>
        obtain ⟨lb, bl⟩ := r
        simp only [hb, Option.map_some, Option.some.injEq, Prod.mk.injEq] at hp
        obtain ⟨rfl, rfl⟩ := hp
        simp only [bexec] at h
        cases h1 : bexec o fuel d b { s with lvls := binit b Lvl.empty :: s.lvls } with
        | none => simp [h1] at h
        | some s1 =>
          simp only [h1] at h
          injection h with h; subst h
          have := bexec_sound o F fuel d b _ s1 (binit b Lvl.empty) lb s.lvls bl rfl hb h1
          simp [this.1, this.2, hs]
  theorem bexecs_sound (o : BOracle) (F : Nat) : ∀ (fuel d : Nat) (cs : BComps) (s s' : BSt) (l l' : Lvl) (L : List Lvl)
      (g : List (Nat × Nat)),
      s.lvls = l :: L → predicts F d cs l = some (l', g) → bexecs o fuel d cs s = some s' →
      s'.lvls = l' :: L ∧ s'.runs = s.runs ++ g
    | 0, _, _, _, _, _, _, _, _, _, _, h => by simp [bexecs] at h
    | fuel + 1, d, .nil, s, s', l, l', L, g, hs, hp, h => by
      simp only [predicts, Option.some.injEq, Prod.mk.injEq] at hp
      obtain ⟨rfl, rfl⟩ := hp
      simp only [bexecs] at h
      injection h with h; subst h; simp [hs]
    | fuel + 1, d, .cons c rest, s, s', l, l', L, g, hs, hp, h => by
      simp only [predicts] at hp
      cases h1 : predict F d c l with
      | none => simp [h1] at hp
      | some r1 =>
        obtain ⟨la, ga⟩ := r1
        simp only [h1] at hp
        cases h2 : predicts F d rest la with
        | none => simp [h2] at hp
        | some r2 =>
          obtain ⟨lb, gb⟩ := r2
          simp only [h2, Option.some.injEq, Prod.mk.injEq] at hp
          obtain ⟨rfl, rfl⟩ := hp
          simp only [bexecs] at h
          cases hx : bexec o fuel d c s with
          | none => simp [hx] at h
          | some s1 =>
            simp only [hx] at h
            have g1 := bexec_sound o F fuel d c s s1 l la L ga hs h1 hx
            have g2 := bexecs_sound o F fuel d rest s1 s' la lb L gb g1.1 h2 h
            exact ⟨g2.1, by rw [g2.2, g1.2, List.append_assoc]⟩
  /-- A running loop whose body has no loop of its level: from `(i, v)` it makes exactly the `q` further passes
  `firstStop` computes. -/
  theorem bloop_sound (o : BOracle) (F : Nat) : ∀ (fuel d : Nat) (c : BCond) (b : BComp) (p : Nat) (s s' : BSt)
      (i : Nat) (v : Option Nat) (L : List Lvl) (bl : List (Nat × Nat)) (Fq q : Nat),
      c.static = true → directB b = 0 →
      (∀ (i' : Nat) (v' : Option Nat), v'.isSome = v.isSome →
        predict F (d + 1) b ⟨some i', v'⟩ = some (⟨some i', v'.map (· + evalsOf b)⟩, bl)) →
      s.lvls = ⟨some i, v⟩ :: L → firstStop c (evalsOf b) Fq i v = some q →
      bloop o fuel d c b p s = some s' →
      s'.lvls = ⟨some (i + q), v.map (· + q * evalsOf b)⟩ :: L ∧ s'.runs = s.runs ++ repLog q bl ++ [(d, p + q)]
    | 0, _, _, _, _, _, _, _, _, _, _, _, _, _, _, _, _, _, h => by simp [bloop] at h
    | fuel + 1, d, c, b, p, s, s', i, v, L, bl, Fq, q, hc, hd, hind, hs, hq, h => by
      cases Fq with
      | zero => simp [firstStop] at hq
      | succ Fq =>
        simp only [firstStop] at hq
        simp only [bloop] at h
        cases hev : c.evalAt (some i) v false with
        | none => simp [hev] at hq
        | some r =>
          have hvis : c.evalAt (visIters s.lvls) (visEvals s.lvls) (o.cond s.tick) = some r := by
            rw [hs]
            apply BCond.evalAt_vis
            rw [BCond.evalAt_static c _ _ _ hc]; exact hev
          simp only [hev] at hq
          simp only [hvis] at h
          cases r with
          | false =>
            simp only [Option.some.injEq] at hq
            subst hq
            injection h with h; subst h
            simp [hs, repLog, map_add_zero]
          | true =>
            simp only at hq h
            cases hq' : firstStop c (evalsOf b) Fq (i + 1) (v.map (· + evalsOf b)) with
            | none => simp [hq'] at hq
            | some q' =>
              simp only [hq', Option.map_some, Option.some.injEq] at hq
              subst hq
              cases h1 : bexec o fuel (d + 1) b { s with tick := s.tick + 1 } with
              | none => simp [h1] at h
              | some s1 =>
                simp only [h1] at h
                have g1 := bexec_sound o F fuel (d + 1) b { s with tick := s.tick + 1 } s1 ⟨some i, v⟩
                  ⟨some i, v.map (· + evalsOf b)⟩ L bl hs (hind i v rfl) h1
                simp only [g1.1, bumpIters] at h
                have hind' : ∀ (i' : Nat) (v' : Option Nat), v'.isSome = (v.map (· + evalsOf b)).isSome →
                    predict F (d + 1) b ⟨some i', v'⟩ = some (⟨some i', v'.map (· + evalsOf b)⟩, bl) :=
                  fun i' v' hv' => hind i' v' (by simpa using hv')
                have g2 := bloop_sound o F fuel d c b (p + 1) _ s' (i + 1) (v.map (· + evalsOf b)) L bl Fq q' hc hd
                  hind' rfl hq' h
                refine ⟨?_, ?_⟩
                · rw [g2.1]
                  have h3 : i + 1 + q' = i + (q' + 1) := by omega
                  have h4 : evalsOf b + q' * evalsOf b = (q' + 1) * evalsOf b := by rw [Nat.add_mul]; omega
                  rw [h3, map_add_add, h4]
                · rw [g2.2]
                  simp only [g1.2]
                  have : p + 1 + q' = p + (q' + 1) := by omega
                  rw [this]
                  simp [repLog, List.append_assoc]
end

/-! ### `firstStop`: characterisation and closed forms -/

/-- value of a static condition after `j` passes -/
def BCond.at (c : BCond) (e i : Nat) (v : Option Nat) (j : Nat) : Option Bool :=
  c.evalAt (some (i + j)) (v.map (· + j * e)) false

theorem firstStop_spec (c : BCond) (e : Nat) : ∀ (f i : Nat) (v : Option Nat) (p : Nat),
    firstStop c e f i v = some p →
    p < f ∧ c.at e i v p = some false ∧ ∀ j, j < p → c.at e i v j = some true
  | 0, _, _, _, h => by simp [firstStop] at h
  | f + 1, i, v, p, h => by
    simp only [firstStop] at h
    cases hev : c.evalAt (some i) v false with
    | none => simp [hev] at h
    | some r =>
      simp only [hev] at h
      cases r with
      | false =>
        simp only [Option.some.injEq] at h
        subst h
        refine ⟨by omega, by simpa [BCond.at, map_add_zero] using hev, fun j hj => by omega⟩
      | true =>
        simp only at h
        cases hq : firstStop c e f (i + 1) (v.map (· + e)) with
        | none => simp [hq] at h
        | some q =>
          simp only [hq, Option.map_some, Option.some.injEq] at h
          subst h
          have ih := firstStop_spec c e f (i + 1) (v.map (· + e)) q hq
          have shift : ∀ j, c.at e (i + 1) (v.map (· + e)) j = c.at e i v (j + 1) := by
            intro j
            simp only [BCond.at, map_add_add]
            have h1 : i + 1 + j = i + (j + 1) := by omega
            have h2 : e + j * e = (j + 1) * e := by rw [Nat.add_mul]; omega
            rw [h1, h2]
          refine ⟨by omega, by rw [← shift]; exact ih.2.1, fun j hj => ?_⟩
          cases j with
          | zero => simpa [BCond.at, map_add_zero] using hev
          | succ j => rw [← shift]; exact ih.2.2 j (by omega)

/-- Conversely: the first index at which the condition is false, if it lies within the search bound. -/
theorem firstStop_of_spec (c : BCond) (e : Nat) : ∀ (f i : Nat) (v : Option Nat) (p : Nat),
    p < f → c.at e i v p = some false → (∀ j, j < p → c.at e i v j = some true) →
    firstStop c e f i v = some p
  | 0, _, _, _, hf, _, _ => by omega
  | f + 1, i, v, p, hf, hstop, hgo => by
    simp only [firstStop]
    cases p with
    | zero =>
      have : c.evalAt (some i) v false = some false := by simpa [BCond.at, map_add_zero] using hstop
      simp [this]
    | succ p =>
      have h0 : c.evalAt (some i) v false = some true := by
        simpa [BCond.at, map_add_zero] using hgo 0 (by omega)
      have shift : ∀ j, c.at e (i + 1) (v.map (· + e)) j = c.at e i v (j + 1) := by
        intro j
        simp only [BCond.at, map_add_add]
        have h1 : i + 1 + j = i + (j + 1) := by omega
        have h2 : e + j * e = (j + 1) * e := by rw [Nat.add_mul]; omega
        rw [h1, h2]
      have ih := firstStop_of_spec c e f (i + 1) (v.map (· + e)) p (by omega)
        (by rw [shift]; exact hstop) (fun j hj => by rw [shift]; exact hgo (j + 1) (by omega))
      simp [h0, ih]

/-- An iteration bound: exactly the missing iterations. -/
theorem firstStop_iterLt (n e f i : Nat) (v : Option Nat) (hf : n - i < f) :
    firstStop (.iterLt n) e f i v = some (n - i) := by
  apply firstStop_of_spec _ _ _ _ _ _ hf
  · simp only [BCond.at, BCond.evalAt, Option.map_some, Option.some.injEq, decide_eq_false_iff_not]; omega
  · intro j hj
    simp only [BCond.at, BCond.evalAt, Option.map_some, Option.some.injEq, decide_eq_true_eq]; omega

/-- `⌈a / e⌉` -/
def ceilDiv (a e : Nat) : Nat := (a + e - 1) / e

theorem ceilDiv_spec (a e : Nat) (he : 1 ≤ e) : a ≤ ceilDiv a e * e ∧ ∀ j, j < ceilDiv a e → j * e < a := by
  unfold ceilDiv
  constructor
  · have h1 := Nat.div_add_mod (a + e - 1) e
    have h2 := Nat.mod_lt (a + e - 1) (show 0 < e by omega)
    have h3 : (a + e - 1) / e * e = e * ((a + e - 1) / e) := Nat.mul_comm _ _
    omega
  · intro j hj
    have h1 : (j + 1) ≤ (a + e - 1) / e := hj
    have h2 : (j + 1) * e ≤ a + e - 1 := by
      have := Nat.mul_le_mul_right e h1
      have h3 := Nat.div_mul_le_self (a + e - 1) e
      omega
    have : (j + 1) * e = j * e + e := by rw [Nat.add_mul]; omega
    omega

/-- An evaluation budget `k`, `e ≥ 1` evaluations per pass, `v` evaluations made before: `⌈(k - v) / e⌉` passes. -/
theorem firstStop_evalLt (k e f i v : Nat) (he : 1 ≤ e) (hf : ceilDiv (k - v) e < f) :
    firstStop (.evalLt k) e f i (some v) = some (ceilDiv (k - v) e) := by
  have hs := ceilDiv_spec (k - v) e he
  apply firstStop_of_spec _ _ _ _ _ _ hf
  · simp only [BCond.at, BCond.evalAt, Option.map_some, Option.some.injEq, decide_eq_false_iff_not]; omega
  · intro j hj
    have := hs.2 j hj
    simp only [BCond.at, BCond.evalAt, Option.map_some, Option.some.injEq, decide_eq_true_eq]; omega

/-- `a & b` stops with the first of the two. -/
theorem firstStop_and (a b : BCond) (e f i : Nat) (v : Option Nat) (pa pb : Nat)
    (ha : firstStop a e f i v = some pa) (hb : firstStop b e f i v = some pb) :
    firstStop (.and a b) e f i v = some (min pa pb) := by
  have sa := firstStop_spec a e f i v pa ha
  have sb := firstStop_spec b e f i v pb hb
  apply firstStop_of_spec
  · have := sa.1; omega
  · simp only [BCond.at, BCond.evalAt] at sa sb ⊢
    rcases Nat.le_total pa pb with h | h
    · rw [Nat.min_eq_left h]
      rcases Nat.lt_or_eq_of_le h with h' | h'
      · simp [sa.2.1, sb.2.2 pa h']
      · subst h'; simp [sa.2.1, sb.2.1]
    · rw [Nat.min_eq_right h]
      rcases Nat.lt_or_eq_of_le h with h' | h'
      · simp [sb.2.1, sa.2.2 pb h']
      · subst h'; simp [sa.2.1, sb.2.1]
  · intro j hj
    simp only [BCond.at, BCond.evalAt] at sa sb ⊢
    simp [sa.2.2 j (by omega), sb.2.2 j (by omega)]

/-- The conditions built from the two bounds never become true again: both counters only grow. -/
theorem BCond.at_antitone (c : BCond) (hc : c.static = true) (e i : Nat) (v : Option Nat) (j j' : Nat) (hj : j ≤ j')
    (h : c.at e i v j = some false) (hd : (c.at e i v j').isSome) : c.at e i v j' = some false := by
  induction c with
  | iterLt n =>
    simp only [BCond.at, BCond.evalAt, Option.map_some, Option.some.injEq, decide_eq_false_iff_not] at h ⊢; omega
  | evalLt n =>
    cases v with
    | none => simp [BCond.at, BCond.evalAt] at h
    | some v =>
      simp only [BCond.at, BCond.evalAt, Option.map_some, Option.some.injEq, decide_eq_false_iff_not] at h ⊢
      have := Nat.mul_le_mul_right e hj
      omega
  | and a b iha ihb =>
    simp only [BCond.static, Bool.and_eq_true] at hc
    simp only [BCond.at, BCond.evalAt] at h hd iha ihb ⊢
    cases ha : a.evalAt (some (i + j)) (v.map (· + j * e)) false with
    | none => simp [ha] at h
    | some x =>
      cases hb : b.evalAt (some (i + j)) (v.map (· + j * e)) false with
      | none => simp [ha, hb] at h
      | some y =>
        cases ha' : a.evalAt (some (i + j')) (v.map (· + j' * e)) false with
        | none => simp [ha'] at hd
        | some x' =>
          cases hb' : b.evalAt (some (i + j')) (v.map (· + j' * e)) false with
          | none => simp [ha', hb'] at hd
          | some y' =>
            simp only [ha, hb, Option.some.injEq, Bool.and_eq_false_iff] at h
            simp only [Option.some.injEq, Bool.and_eq_false_iff]
            rcases h with h | h
            · subst h
              have := iha hc.1 ha (by simp [ha'])
              rw [ha'] at this; simp_all
            · subst h
              have := ihb hc.2 hb (by simp [hb'])
              rw [hb'] at this; simp_all
  | or a b iha ihb =>
    simp only [BCond.static, Bool.and_eq_true] at hc
    simp only [BCond.at, BCond.evalAt] at h hd iha ihb ⊢
    cases ha : a.evalAt (some (i + j)) (v.map (· + j * e)) false with
    | none => simp [ha] at h
    | some x =>
      cases hb : b.evalAt (some (i + j)) (v.map (· + j * e)) false with
      | none => simp [ha, hb] at h
      | some y =>
        cases ha' : a.evalAt (some (i + j')) (v.map (· + j' * e)) false with
        | none => simp [ha'] at hd
        | some x' =>
          cases hb' : b.evalAt (some (i + j')) (v.map (· + j' * e)) false with
          | none => simp [ha', hb'] at hd
          | some y' =>
            simp only [ha, hb, Option.some.injEq, Bool.or_eq_false_iff] at h
            obtain ⟨rfl, rfl⟩ := h
            have h1 := iha hc.1 ha (by simp [ha'])
            have h2 := ihb hc.2 hb (by simp [hb'])
            rw [ha'] at h1; rw [hb'] at h2
            simp_all
  | «opaque» => simp [BCond.static] at hc

/-- Whether a condition can be evaluated does not depend on the pass. -/
theorem BCond.at_defined (c : BCond) (e i : Nat) (v : Option Nat) (j j' : Nat)
    (h : (c.at e i v j).isSome) : (c.at e i v j').isSome := by
  induction c with
  | iterLt n => simp [BCond.at, BCond.evalAt]
  | evalLt n => cases v <;> simp_all [BCond.at, BCond.evalAt]
  | and a b iha ihb =>
    simp only [BCond.at, BCond.evalAt] at h iha ihb ⊢
    cases ha : a.evalAt (some (i + j)) (v.map (· + j * e)) false with
    | none => simp [ha] at h
    | some x =>
      cases hb : b.evalAt (some (i + j)) (v.map (· + j * e)) false with
      | none => simp [ha, hb] at h
      | some y =>
        have h1 := iha (by simp [ha])
        have h2 := ihb (by simp [hb])
        obtain ⟨x', hx'⟩ := Option.isSome_iff_exists.1 h1
        obtain ⟨y', hy'⟩ := Option.isSome_iff_exists.1 h2
        simp [hx', hy']
  | or a b iha ihb =>
    simp only [BCond.at, BCond.evalAt] at h iha ihb ⊢
    cases ha : a.evalAt (some (i + j)) (v.map (· + j * e)) false with
    | none => simp [ha] at h
    | some x =>
      cases hb : b.evalAt (some (i + j)) (v.map (· + j * e)) false with
      | none => simp [ha, hb] at h
      | some y =>
        have h1 := iha (by simp [ha])
        have h2 := ihb (by simp [hb])
        obtain ⟨x', hx'⟩ := Option.isSome_iff_exists.1 h1
        obtain ⟨y', hy'⟩ := Option.isSome_iff_exists.1 h2
        simp [hx', hy']
  | «opaque» => simp [BCond.at, BCond.evalAt]

/-- `a | b` stops with the last of the two. -/
theorem firstStop_or (a b : BCond) (ha' : a.static = true) (hb' : b.static = true) (e f i : Nat) (v : Option Nat)
    (pa pb : Nat) (ha : firstStop a e f i v = some pa) (hb : firstStop b e f i v = some pb) :
    firstStop (.or a b) e f i v = some (max pa pb) := by
  have sa := firstStop_spec a e f i v pa ha
  have sb := firstStop_spec b e f i v pb hb
  have da : ∀ j, (a.at e i v j).isSome := fun j => BCond.at_defined a e i v pa j (by simp [sa.2.1])
  have db : ∀ j, (b.at e i v j).isSome := fun j => BCond.at_defined b e i v pb j (by simp [sb.2.1])
  apply firstStop_of_spec
  · have := sa.1; have := sb.1; omega
  · have h1 := BCond.at_antitone a ha' e i v pa (max pa pb) (by omega) sa.2.1 (da _)
    have h2 := BCond.at_antitone b hb' e i v pb (max pa pb) (by omega) sb.2.1 (db _)
    simp only [BCond.at, BCond.evalAt] at h1 h2 ⊢
    simp [h1, h2]
  · intro j hj
    obtain ⟨x, hx⟩ := Option.isSome_iff_exists.1 (da j)
    obtain ⟨y, hy⟩ := Option.isSome_iff_exists.1 (db j)
    have hlt : j < pa ∨ j < pb := by omega
    simp only [BCond.at, BCond.evalAt] at hx hy sa sb ⊢
    rcases hlt with h | h
    · have := sa.2.2 j h
      rw [hx] at this
      simp_all
    · have := sb.2.2 j h
      rw [hy] at this
      simp_all

end MahfModel.Tpl
