/- C02 — the PROPOSED repair of `State::holding` (`Model/BorrowRepair.lean`) refines the abstract machine for
every body, including nested holdings of the same type. -/
import MahfModel.Model.BorrowRepair
import MahfModel.Proofs.C02
namespace MahfModel.Borrow
open MahfModel.Registry

mutual
  /-- Scopes are opened by `with_inner_state` only (no raw `into_child` / `into_parent` on the state). -/
  def Stmt.flat : Stmt → Prop
    | .op o => ROp.flat o = true
    | .hold _ _ _ body => Prog.flat body
    | .inner _ body => Prog.flat body
  def Prog.flat : Prog → Prop
    | .nil => True
    | .cons s rest => Stmt.flat s ∧ Prog.flat rest
end

theorem abs_length (r : Reg) : (abs r).length = r.length := by simp [abs]

theorem abs_erase_at (r : Reg) (i : Nat) (k : Key) :
    abs (modifyAt r i (·.erase k)) = modifyAt (abs r) i (fun m : PMap => m.set k none) :=
  map_modifyAt r i _ _ Scope.view [] (Scope.view_erase _ k)

theorem abs_put_at (r : Reg) (i : Nat) (k : Key) (c : Cell) :
    abs (modifyAt r i (·.put k c)) = modifyAt (abs r) i (fun m : PMap => m.set k (some c.val)) :=
  map_modifyAt r i _ _ Scope.view [] (Scope.view_put _ k c)

mutual
  theorem execStmtFix_refines (s : Stmt) (r : Reg) (h : Inv r) (hf : Stmt.flat s) :
      Inv (execStmtFix r s).1 ∧ (execStmtFix r s).2 = (specExecStmt (abs r) s).2 ∧
        abs (execStmtFix r s).1 = (specExecStmt (abs r) s).1 ∧ (execStmtFix r s).1.length = r.length := by
    cases s with
    | op o =>
      simp only [Stmt.flat] at hf
      obtain ⟨h1, h2, h3⟩ := step_refines r o h
      simp only [execStmtFix, specExecStmt]
      exact ⟨h1, by rw [h2], h3, step_length r o h hf⟩
    | hold k d ok body =>
      simp only [Stmt.flat] at hf
      simp only [execStmtFix, specExecStmt]
      cases hfind : find r k with
      | none =>
        have hd : (abs r).depthOf k = none := by rw [← find_abs]; exact hfind
        simp only [hd]
        exact ⟨h, by trivial, by trivial, by trivial⟩
      | some i =>
        obtain ⟨c, hc⟩ := find_cell r k i hfind
        have hi := find_lt r k i hfind
        have hd : (abs r).depthOf k = some i := by rw [← find_abs]; exact hfind
        have hl := lookup_found r k i c hfind hc
        have h2 := inv_erase_at r i k h
        obtain ⟨i1, i2, i3, i4⟩ := execProgFix_refines body (modifyAt r i (·.erase k)) h2 hf
        rw [abs_erase_at] at i2 i3
        rw [modifyAt_length] at i4
        simp only [hc, hd, hl, abs_length]
        rw [← i2, ← i3]
        generalize (execProgFix (modifyAt r i (·.erase k)) body).1 = r3 at *
        generalize (execProgFix (modifyAt r i (·.erase k)) body).2 = outs at *
        have hlt : r.length - 1 - i < r3.length := by omega
        have hidx : r3.length - 1 - (r.length - 1 - i) = i := by omega
        simp only [hlt, if_true, abs_length, hidx]
        refine ⟨inv_put_at r3 i k _ i1, by trivial, ?_, ?_⟩
        · rw [abs_put_at]; rfl
        · rw [modifyAt_length]; exact i4
    | inner ok body =>
      simp only [Stmt.flat] at hf
      have hc : Inv (intoChild r) := ⟨by simp [intoChild], by simp [intoChild, quiet_cons, h.2, Scope.quiet]⟩
      obtain ⟨i1, i2, i3, i4⟩ := execProgFix_refines body (intoChild r) hc hf
      have habs : abs (intoChild r) = PMap.empty :: abs r := rfl
      rw [habs] at i2 i3
      simp only [execStmtFix, specExecStmt]
      rw [← i2, ← i3]
      generalize (execProgFix (intoChild r) body).1 = r2 at *
      generalize (execProgFix (intoChild r) body).2 = outs at *
      simp only [intoChild, List.length_cons] at i4
      rcases intoParent_cases r2 with ⟨c, p, rfl, hp, hip⟩ | ⟨hlen, c, hip⟩
      · rw [hip]
        obtain ⟨_, hq⟩ := i1
        simp only [quiet_cons, Bool.and_eq_true] at hq
        cases p with
        | nil => exact absurd rfl hp
        | cons s' p' =>
          simp only [abs_cons]
          refine ⟨⟨by simp, hq.2⟩, by trivial, by trivial, ?_⟩
          simp only [List.length_cons] at i4 ⊢; omega
      · exfalso
        have : 0 < r.length := List.length_pos_iff.mpr h.1
        omega
  theorem execProgFix_refines (p : Prog) (r : Reg) (h : Inv r) (hf : Prog.flat p) :
      Inv (execProgFix r p).1 ∧ (execProgFix r p).2 = (specExecProg (abs r) p).2 ∧
        abs (execProgFix r p).1 = (specExecProg (abs r) p).1 ∧ (execProgFix r p).1.length = r.length := by
    cases p with
    | nil => exact ⟨h, rfl, rfl, rfl⟩
    | cons s rest =>
      simp only [Prog.flat] at hf
      obtain ⟨h1, h2, h3, h4⟩ := execStmtFix_refines s r h hf.1
      obtain ⟨i1, i2, i3, i4⟩ := execProgFix_refines rest _ h1 hf.2
      simp only [execProgFix, specExecProg]
      rw [← h3, ← h2]
      exact ⟨i1, by rw [i2], i3, by rw [i4, h4]⟩
end

/-- The repaired `holding` puts the value back where it was taken from — for EVERY body. -/
theorem holdingFix_restores (r : Reg) (k : Key) (d : Nat) (ok : Bool) (body : Prog) (i : Nat) (c : Cell)
    (hI : Inv r) (hf : find r k = some i) (hc : cellAt r i k = some c) (hb : Prog.flat body) :
    (execStmtFix r (.hold k d ok body)).2 = (execProgFix (modifyAt r i (·.erase k)) body).2 ++ [resOut ok] ∧
    cellAt (execStmtFix r (.hold k d ok body)).1 i k = some (fresh (c.val + d)) ∧
    (∀ j q, ¬ (j = i ∧ q = k) →
      cellAt (execStmtFix r (.hold k d ok body)).1 j q =
        cellAt (execProgFix (modifyAt r i (·.erase k)) body).1 j q) := by
  have hi := find_lt r k i hf
  obtain ⟨_, _, _, i4⟩ := execProgFix_refines body (modifyAt r i (·.erase k)) (inv_erase_at r i k hI) hb
  rw [modifyAt_length] at i4
  simp only [execStmtFix, hf, hc]
  generalize (execProgFix (modifyAt r i (·.erase k)) body).1 = r3 at *
  have hlt : r.length - 1 - i < r3.length := by omega
  have hidx : r3.length - 1 - (r.length - 1 - i) = i := by omega
  simp only [hlt, if_true, hidx]
  refine ⟨by trivial, ?_, ?_⟩
  · rw [cellAt_put_at _ i k _ i k (by omega)]; simp
  · intro j q hjq
    rw [cellAt_put_at _ i k _ j q (by omega)]; simp [hjq]

end MahfModel.Borrow
