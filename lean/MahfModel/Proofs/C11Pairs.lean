/- C11 — helper lemmas: individuals are (solution, objective) pairs. -/
import MahfModel.Proofs.C11Err
namespace MahfModel.Selection

variable {F : Type} [Field F] [LinearOrder F] [IsStrictOrderedRing F]

theorem sameInd_iff (a b : Ind F) : sameInd a b = true ↔ a = b := by
  rcases a with ⟨ta, oa⟩
  rcases b with ⟨tb, ob⟩
  cases oa <;> cases ob <;> simp [sameInd, eqF_iff]

theorem pool_length (pop : Pop F) (ind : Ind F) :
    (pop.filter (fun j => !sameInd j ind)).length + pop.count ind = pop.length := by
  induction pop with
  | nil => simp
  | cons x xs ih =>
    by_cases h : x = ind
    · have hs : sameInd x ind = true := (sameInd_iff _ _).2 h
      have hb : (x == ind) = true := by simpa using h
      rw [List.filter_cons, List.count_cons, List.length_cons]
      simp only [hs, hb]
      simp
      omega
    · have hs : sameInd x ind = false := by
        rw [Bool.eq_false_iff]; intro c; exact h ((sameInd_iff _ _).1 c)
      have hb : (x == ind) = false := by simpa using h
      rw [List.filter_cons, List.count_cons, List.length_cons]
      simp only [hs, hb]
      simp
      omega

end MahfModel.Selection
