/-
C03 — helper lemmas for `Props/C03Real.lean` (shipped conditions, `State::holding` leaves).
-/
import MahfModel.Model.ConfigReal
import MahfModel.Proofs.C03
namespace MahfModel.ConfigReal
open MahfModel.Config

/-! ### The code-shaped interpreter coincides with the structured program -/

mutual
  theorem rcondPhase_eq (s : Script) (trg : RConds) (f : Nat) (ph : Phase) :
      ∀ (c : RCond) (σ : St), rcondPhase s ph c σ = rsrun s trg f (rcondProg ph c) σ
    | .script id, σ => by simp [rcondPhase, rcondProg, rsrun, ropRun, effOf_nil]
    | .ltN lens n, σ => by
      simp only [rcondPhase, rcondProg]
      split <;> simp [rsrun, ropRun]
    | .everyN _, σ => by simp [rcondPhase, rcondProg, rsrun]
    | .chance _, σ => by simp [rcondPhase, rcondProg, rsrun]
    | .all cs, σ => by simp only [rcondPhase, rcondProg]; exact rcondsPhase_eq s trg f ph cs σ
    | .any cs, σ => by simp only [rcondPhase, rcondProg]; exact rcondsPhase_eq s trg f ph cs σ
    | .not c, σ => by simp only [rcondPhase, rcondProg]; exact rcondPhase_eq s trg f ph c σ
  theorem rcondsPhase_eq (s : Script) (trg : RConds) (f : Nat) (ph : Phase) :
      ∀ (cs : RConds) (σ : St), rcondsPhase s ph cs σ = rsrun s trg f (rcondsProg ph cs) σ
    | .nil, σ => by simp [rcondsPhase, rcondsProg, rsrun]
    | .cons c cs, σ => by
      simp only [rcondsPhase, rcondsProg, rsrun]
      rw [rcondPhase_eq s trg f ph c σ]
      exact andThen_congr (rcondsPhase_eq s trg f ph cs)
end

mutual
  theorem rinitC_eq (s : Script) (trg : RConds) (f : Nat) :
      ∀ (c : RComp) (σ : St), rinitC s trg c σ = rsrun s trg f (rinitProg c) σ
    | .leaf id acts, σ => by simp [rinitC, rinitProg, rsrun, ropRun, effOf]
    | .hold id k acts, σ => by simp [rinitC, rinitProg, rsrun, ropRun, effOf]
    | .logger, σ => by simp [rinitC, rinitProg, rsrun, ropRun]
    | .block cs, σ => by simp only [rinitC, rinitProg]; exact rinitCs_eq s trg f cs σ
    | .loop c b, σ => by
      simp only [rinitC, rinitProg, rsrun, ropRun, andThen]
      rw [rcondPhase_eq s trg f .cinit c]
      exact andThen_congr (rinitC_eq s trg f b)
    | .branch c t e he, σ => by
      simp only [rinitC, rinitProg, rsrun]
      rw [rcondPhase_eq s trg f .cinit c]
      refine andThen_congr fun σ1 => ?_
      rw [rinitC_eq s trg f t]
      refine andThen_congr fun σ2 => ?_
      cases he
      · simp [rsrun]
      · simp only [if_true]; exact rinitC_eq s trg f e σ2
    | .scope _, σ => by simp [rinitC, rinitProg, rsrun]
  theorem rinitCs_eq (s : Script) (trg : RConds) (f : Nat) :
      ∀ (cs : RComps) (σ : St), rinitCs s trg cs σ = rsrun s trg f (rinitProgs cs) σ
    | .nil, σ => by simp [rinitCs, rinitProgs, rsrun]
    | .cons c cs, σ => by
      simp only [rinitCs, rinitProgs, rsrun]
      rw [rinitC_eq s trg f c]
      exact andThen_congr (rinitCs_eq s trg f cs)
end

mutual
  theorem rreqC_eq (s : Script) (trg : RConds) (f : Nat) :
      ∀ (c : RComp) (σ : St), rreqC s c σ = rsrun s trg f (rreqProg c) σ
    | .leaf id acts, σ => by simp [rreqC, rreqProg, rsrun, ropRun, effOf]
    | .hold id k acts, σ => by simp [rreqC, rreqProg, rsrun, ropRun, effOf]
    | .logger, σ => by simp [rreqC, rreqProg, rsrun]
    | .block cs, σ => by simp only [rreqC, rreqProg]; exact rreqCs_eq s trg f cs σ
    | .loop c b, σ => by
      simp only [rreqC, rreqProg, rsrun]
      rw [rcondPhase_eq s trg f .creq c]
      exact andThen_congr (rreqC_eq s trg f b)
    | .branch c t e he, σ => by
      simp only [rreqC, rreqProg, rsrun]
      rw [rcondPhase_eq s trg f .creq c]
      refine andThen_congr fun σ1 => ?_
      rw [rreqC_eq s trg f t]
      refine andThen_congr fun σ2 => ?_
      cases he
      · simp [rsrun]
      · simp only [if_true]; exact rreqC_eq s trg f e σ2
    | .scope _, σ => by simp [rreqC, rreqProg, rsrun]
  theorem rreqCs_eq (s : Script) (trg : RConds) (f : Nat) :
      ∀ (cs : RComps) (σ : St), rreqCs s cs σ = rsrun s trg f (rreqProgs cs) σ
    | .nil, σ => by simp [rreqCs, rreqProgs, rsrun]
    | .cons c cs, σ => by
      simp only [rreqCs, rreqProgs, rsrun]
      rw [rreqC_eq s trg f c]
      exact andThen_congr (rreqCs_eq s trg f cs)
end

theorem rloopN_eq_rwhileN (cond : St → St × RCRes) (body body' : St → St × Res)
    (h : ∀ σ, body' σ = andThen (body σ) bump) :
    ∀ (n : Nat) (σ : St), rloopN cond body n σ = rwhileN cond body' n σ := by
  intro n
  induction n with
  | zero => intro σ; simp [rloopN, rwhileN]
  | succ n ih =>
    intro σ
    simp only [rloopN, rwhileN]
    split <;> try rfl
    rw [h]
    exact andThen_congr (ih)

mutual
  theorem rexec_eq (s : Script) (trg : RConds) (f : Nat) :
      ∀ (c : RComp) (σ : St), rexec s trg f c σ = rsrun s trg f (rexecProg c) σ
    | .leaf id acts, σ => by simp [rexec, rexecProg, rsrun, ropRun, effOf]
    | .hold id k acts, σ => by simp [rexec, rexecProg, rsrun, ropRun]
    | .logger, σ => by simp [rexec, rexecProg, rsrun, ropRun]
    | .block cs, σ => by simp only [rexec, rexecProg]; exact rexecs_eq s trg f cs σ
    | .loop c b, σ => by
      simp only [rexec, rexecProg, rsrun]
      rw [rcondPhase_eq s trg f .cinit c]
      refine andThen_congr fun σ1 => ?_
      refine rloopN_eq_rwhileN _ _ _ (fun σ2 => ?_) f σ1
      show rsrun s trg f (.seq (rexecProg b) (.atom .bump)) σ2 = andThen (rexec s trg f b σ2) bump
      simp only [rsrun]
      rw [rexec_eq s trg f b]
      rfl
    | .branch c t e he, σ => by
      simp only [rexec, rexecProg, rsrun]
      split
      · exact rexec_eq s trg f t _
      · cases he
        · simp [rsrun]
        · simp only [if_true]; exact rexec_eq s trg f e _
      · rfl
      · rfl
    | .scope b, σ => by
      simp only [rexec, rexecProg, rsrun]
      rw [rinitC_eq s trg f b]
      have : ∀ σ1, andThen (rreqC s b σ1) (rexec s trg f b) =
          andThen (rsrun s trg f (rreqProg b) σ1) (rsrun s trg f (rexecProg b)) := by
        intro σ1
        rw [rreqC_eq s trg f b]
        exact andThen_congr (rexec_eq s trg f b)
      rw [andThen_congr this]
  theorem rexecs_eq (s : Script) (trg : RConds) (f : Nat) :
      ∀ (cs : RComps) (σ : St), rexecs s trg f cs σ = rsrun s trg f (rexecProgs cs) σ
    | .nil, σ => by simp [rexecs, rexecProgs, rsrun]
    | .cons c cs, σ => by
      simp only [rexecs, rexecProgs, rsrun]
      rw [rexec_eq s trg f c]
      exact andThen_congr (rexecs_eq s trg f cs)
end

theorem rrun_eq (s : Script) (trg : RConds) (f : Nat) (c : RComp) (σ : St) :
    rrun s trg f c σ = rsrun s trg f (rprog c) σ := by
  simp only [rrun, rprog, rsrun]
  rw [rinitC_eq s trg f c]
  refine andThen_congr fun σ1 => ?_
  rw [rreqC_eq s trg f c]
  exact andThen_congr (rexec_eq s trg f c)

/-! ### Generic relational invariants of the structured language -/

structure RInv (s : Script) (trg : RConds) (φ : ROp → Bool) (P : St → St → Prop) : Prop where
  refl : ∀ σ, P σ σ
  trans : ∀ a b c, P a b → P b c → P a c
  op : ∀ o, φ o = true → ∀ σ, P σ (ropRun s trg o σ).1
  cond : ∀ c σ, P σ (rcondEval s c σ).1
  scope : ∀ σ σ2, P (push σ) σ2 → P σ (pop σ2)

theorem rwhileN_pres {P : St → St → Prop} (hrefl : ∀ σ, P σ σ) (htr : ∀ a b c, P a b → P b c → P a c)
    {cond : St → St × RCRes} {body : St → St × Res}
    (hc : ∀ σ, P σ (cond σ).1) (hb : ∀ σ, P σ (body σ).1) :
    ∀ (n : Nat) (σ : St), P σ (rwhileN cond body n σ).1 := by
  intro n
  induction n with
  | zero => intro σ; simp [rwhileN, hrefl]
  | succ n ih =>
    intro σ
    simp only [rwhileN]
    have h := hc σ
    split
    · rename_i σ1 ph id heq; rw [heq] at h; exact h
    · rename_i σ1 heq; rw [heq] at h; exact h
    · rename_i σ1 heq; rw [heq] at h; exact h
    · rename_i σ1 heq; rw [heq] at h
      exact htr _ _ _ h (andThen_pres htr (hb σ1) ih)

theorem rsrun_pres {s : Script} {trg : RConds} {φ : ROp → Bool} {P : St → St → Prop}
    (I : RInv s trg φ P) (f : Nat) : ∀ (p : RStmt), p.all φ = true → ∀ σ, P σ (rsrun s trg f p σ).1
  | .skip, _, σ => by simp [rsrun, I.refl]
  | .atom o, h, σ => by simp only [rsrun]; exact I.op o (by simpa [RStmt.all] using h) σ
  | .seq a b, h, σ => by
    simp only [RStmt.all, Bool.and_eq_true] at h
    simp only [rsrun]
    exact andThen_pres I.trans (rsrun_pres I f a h.1 σ) (rsrun_pres I f b h.2)
  | .loop c b, h, σ => by
    simp only [RStmt.all] at h
    simp only [rsrun]
    exact rwhileN_pres I.refl I.trans (I.cond c) (rsrun_pres I f b h) f σ
  | .ite c t e, h, σ => by
    simp only [RStmt.all, Bool.and_eq_true] at h
    simp only [rsrun]
    have hc := I.cond c σ
    split
    · rename_i σ1 heq; rw [heq] at hc; exact I.trans _ _ _ hc (rsrun_pres I f t h.1 σ1)
    · rename_i σ1 heq; rw [heq] at hc; exact I.trans _ _ _ hc (rsrun_pres I f e h.2 σ1)
    · rename_i σ1 ph id heq; rw [heq] at hc; exact hc
    · rename_i σ1 heq; rw [heq] at hc; exact hc
  | .inScope b, h, σ => by
    simp only [RStmt.all] at h
    simp only [rsrun]
    have := rsrun_pres I f b h (push σ)
    exact I.scope _ _ this

/-! ### From side conditions on the tree to side conditions on its program -/

mutual
  theorem rcondProg_all (φ : ROp → Bool) (hp : ∀ ev, φ (.prim ev []) = true) (h0 : ∀ l, φ (.progress0 l) = true)
      (ph : Phase) : ∀ (c : RCond), (rcondProg ph c).all φ = true
    | .script id => by simp [rcondProg, RStmt.all, hp]
    | .ltN lens n => by simp only [rcondProg]; split <;> simp [RStmt.all, h0]
    | .everyN _ => by simp [rcondProg, RStmt.all]
    | .chance _ => by simp [rcondProg, RStmt.all]
    | .all cs => by simp only [rcondProg]; exact rcondsProg_all φ hp h0 ph cs
    | .any cs => by simp only [rcondProg]; exact rcondsProg_all φ hp h0 ph cs
    | .not c => by simp only [rcondProg]; exact rcondProg_all φ hp h0 ph c
  theorem rcondsProg_all (φ : ROp → Bool) (hp : ∀ ev, φ (.prim ev []) = true) (h0 : ∀ l, φ (.progress0 l) = true)
      (ph : Phase) : ∀ (cs : RConds), (rcondsProg ph cs).all φ = true
    | .nil => by simp [rcondsProg, RStmt.all]
    | .cons c cs => by
      simp only [rcondsProg, RStmt.all, Bool.and_eq_true]
      exact ⟨rcondProg_all φ hp h0 ph c, rcondsProg_all φ hp h0 ph cs⟩
end

theorem ropSat_prim_nil (A : Act → Bool) (H : Nat → Bool) (ev : Ev) : ROp.sat A H (.prim ev []) = true := by
  simp [ROp.sat]

mutual
  theorem rinitProg_all (A : Act → Bool) (H : Nat → Bool) :
      ∀ (c : RComp), c.sat A H = true → (rinitProg c).all (ROp.sat A H) = true
    | .leaf id acts, h => by simpa [rinitProg, RStmt.all, ROp.sat, RComp.sat] using h
    | .hold id k acts, h => by
      simp only [RComp.sat, Bool.and_eq_true] at h
      simpa [rinitProg, RStmt.all, ROp.sat] using h.2
    | .logger, _ => by simp [rinitProg, RStmt.all, ROp.sat]
    | .block cs, h => by simp only [rinitProg]; exact rinitProgs_all A H cs (by simpa [RComp.sat] using h)
    | .loop c b, h => by
      simp only [RComp.sat] at h
      simp only [rinitProg, RStmt.all, Bool.and_eq_true]
      exact ⟨by simp [ROp.sat], rcondProg_all _ (ropSat_prim_nil A H) (by simp [ROp.sat]) _ c, rinitProg_all A H b h⟩
    | .branch c t e he, h => by
      simp only [RComp.sat, Bool.and_eq_true, Bool.or_eq_true, Bool.not_eq_true'] at h
      simp only [rinitProg, RStmt.all, Bool.and_eq_true]
      refine ⟨rcondProg_all _ (ropSat_prim_nil A H) (by simp [ROp.sat]) _ c, rinitProg_all A H t h.1, ?_⟩
      cases he
      · simp [RStmt.all]
      · simp only [if_true]; exact rinitProg_all A H e (by simpa using h.2)
    | .scope _, _ => by simp [rinitProg, RStmt.all]
  theorem rinitProgs_all (A : Act → Bool) (H : Nat → Bool) :
      ∀ (cs : RComps), cs.sat A H = true → (rinitProgs cs).all (ROp.sat A H) = true
    | .nil, _ => by simp [rinitProgs, RStmt.all]
    | .cons c cs, h => by
      simp only [RComps.sat, Bool.and_eq_true] at h
      simp only [rinitProgs, RStmt.all, Bool.and_eq_true]
      exact ⟨rinitProg_all A H c h.1, rinitProgs_all A H cs h.2⟩
end

mutual
  theorem rreqProg_all (A : Act → Bool) (H : Nat → Bool) :
      ∀ (c : RComp), c.sat A H = true → (rreqProg c).all (ROp.sat A H) = true
    | .leaf id acts, h => by simpa [rreqProg, RStmt.all, ROp.sat, RComp.sat] using h
    | .hold id k acts, h => by
      simp only [RComp.sat, Bool.and_eq_true] at h
      simpa [rreqProg, RStmt.all, ROp.sat] using h.2
    | .logger, _ => by simp [rreqProg, RStmt.all]
    | .block cs, h => by simp only [rreqProg]; exact rreqProgs_all A H cs (by simpa [RComp.sat] using h)
    | .loop c b, h => by
      simp only [RComp.sat] at h
      simp only [rreqProg, RStmt.all, Bool.and_eq_true]
      exact ⟨rcondProg_all _ (ropSat_prim_nil A H) (by simp [ROp.sat]) _ c, rreqProg_all A H b h⟩
    | .branch c t e he, h => by
      simp only [RComp.sat, Bool.and_eq_true, Bool.or_eq_true, Bool.not_eq_true'] at h
      simp only [rreqProg, RStmt.all, Bool.and_eq_true]
      refine ⟨rcondProg_all _ (ropSat_prim_nil A H) (by simp [ROp.sat]) _ c, rreqProg_all A H t h.1, ?_⟩
      cases he
      · simp [RStmt.all]
      · simp only [if_true]; exact rreqProg_all A H e (by simpa using h.2)
    | .scope _, _ => by simp [rreqProg, RStmt.all]
  theorem rreqProgs_all (A : Act → Bool) (H : Nat → Bool) :
      ∀ (cs : RComps), cs.sat A H = true → (rreqProgs cs).all (ROp.sat A H) = true
    | .nil, _ => by simp [rreqProgs, RStmt.all]
    | .cons c cs, h => by
      simp only [RComps.sat, Bool.and_eq_true] at h
      simp only [rreqProgs, RStmt.all, Bool.and_eq_true]
      exact ⟨rreqProg_all A H c h.1, rreqProgs_all A H cs h.2⟩
end

mutual
  theorem rexecProg_all (A : Act → Bool) (H : Nat → Bool) :
      ∀ (c : RComp), c.sat A H = true → (rexecProg c).all (ROp.sat A H) = true
    | .leaf id acts, h => by simpa [rexecProg, RStmt.all, ROp.sat, RComp.sat] using h
    | .hold id k acts, h => by simpa [rexecProg, RStmt.all, ROp.sat, RComp.sat] using h
    | .logger, _ => by simp [rexecProg, RStmt.all, ROp.sat]
    | .block cs, h => by simp only [rexecProg]; exact rexecProgs_all A H cs (by simpa [RComp.sat] using h)
    | .loop c b, h => by
      simp only [RComp.sat] at h
      simp only [rexecProg, RStmt.all, Bool.and_eq_true]
      exact ⟨rcondProg_all _ (ropSat_prim_nil A H) (by simp [ROp.sat]) _ c, rexecProg_all A H b h, by simp [ROp.sat]⟩
    | .branch c t e he, h => by
      simp only [RComp.sat, Bool.and_eq_true, Bool.or_eq_true, Bool.not_eq_true'] at h
      simp only [rexecProg, RStmt.all, Bool.and_eq_true]
      refine ⟨rexecProg_all A H t h.1, ?_⟩
      cases he
      · simp [RStmt.all]
      · simp only [if_true]; exact rexecProg_all A H e (by simpa using h.2)
    | .scope b, h => by
      simp only [RComp.sat] at h
      simp only [rexecProg, RStmt.all, Bool.and_eq_true]
      exact ⟨rinitProg_all A H b h, rreqProg_all A H b h, rexecProg_all A H b h⟩
  theorem rexecProgs_all (A : Act → Bool) (H : Nat → Bool) :
      ∀ (cs : RComps), cs.sat A H = true → (rexecProgs cs).all (ROp.sat A H) = true
    | .nil, _ => by simp [rexecProgs, RStmt.all]
    | .cons c cs, h => by
      simp only [RComps.sat, Bool.and_eq_true] at h
      simp only [rexecProgs, RStmt.all, Bool.and_eq_true]
      exact ⟨rexecProg_all A H c h.1, rexecProgs_all A H cs h.2⟩
end

theorem rprog_all (A : Act → Bool) (H : Nat → Bool) (c : RComp) (h : c.sat A H = true) :
    (rprog c).all (ROp.sat A H) = true := by
  simp only [rprog, RStmt.all, Bool.and_eq_true]
  exact ⟨rinitProg_all A H c h, rreqProg_all A H c h, rexecProg_all A H c h⟩

/-! ### Scope by scope: a state that a scope holds stays in that scope -/

/-- The depth is kept and every scope that holds a `k` still holds one. -/
def Mono (k : Nat) (r r' : Reg) : Prop := r'.length = r.length ∧ ∀ L, HasAt k L r → HasAt k L r'

theorem mono_refl (k : Nat) (r : Reg) : Mono k r r := ⟨rfl, fun _ h => h⟩

theorem mono_trans {k : Nat} {a b c : Reg} (h1 : Mono k a b) (h2 : Mono k b c) : Mono k a c :=
  ⟨h2.1.trans h1.1, fun L h => h2.2 L (h1.2 L h)⟩

theorem mono_insert (k k' v : Nat) (r : Reg) : Mono k r (r.insert k' v) :=
  ⟨Reg.length_insert r k' v, fun L h =>
    (stable_hasAt k L true).insert rfl .exec k' v r (by simp [Act.keeps, Act.isRem]) h⟩

theorem mono_setv (k k' v : Nat) (r : Reg) : Mono k r (r.setv k' v) :=
  ⟨Reg.length_setv r k' v, fun L h =>
    (stable_hasAt k L true).setv .exec k' v r (by simp [Act.keeps, Act.isRem]) h⟩

theorem mono_remove (k k' : Nat) (hne : k' ≠ k) (r : Reg) : Mono k r (r.remove k') :=
  ⟨Reg.length_remove r k', fun L h =>
    (stable_hasAt k L true).remove .exec k' r (by simp [Act.keeps, Act.isRem, Act.key, hne]) h⟩

theorem mono_incr (k : Nat) (r r' : Reg) (hi : r.incr = some r') : Mono k r r' :=
  ⟨Reg.length_incr r r' hi, fun L h => (stable_hasAt k L true).incr rfl r r' hi h⟩

theorem mono_apply (k : Nat) (ph : Phase) (a : Act) (ha : a.keeps k = true) (r : Reg) : Mono k r (a.apply ph r) := by
  cases a with
  | ins p k' v => simp only [Act.apply]; split; exact mono_insert k k' v r; exact mono_refl k r
  | set p k' v => simp only [Act.apply]; split; exact mono_setv k k' v r; exact mono_refl k r
  | rem p k' =>
    simp only [Act.apply]; split
    · exact mono_remove k k' (by simpa [Act.keeps, Act.isRem, Act.key] using ha) r
    · exact mono_refl k r
  | need k' => exact mono_refl k r

theorem mono_applyActs (k : Nat) (ph : Phase) (acts : List Act) (ha : acts.all (Act.keeps k) = true) (r : Reg) :
    Mono k r (applyActs ph acts r) := by
  unfold applyActs
  induction acts generalizing r with
  | nil => exact mono_refl k r
  | cons a acts ih =>
    simp only [List.all_cons, Bool.and_eq_true] at ha
    simp only [List.foldl_cons]
    exact mono_trans (mono_apply k ph a ha.1 r) (ih ha.2 _)

theorem mono_effOf (k : Nat) (ph : Phase) (acts : List Act) (ha : acts.all (Act.keeps k) = true) (r r' : Reg)
    (h : effOf ph acts r = some r') : Mono k r r' := by
  cases ph <;> simp only [effOf, leafEff, needEff] at h
  · injection h with h; subst h; exact mono_applyActs k _ acts ha r
  · split at h
    · injection h with h; subst h; exact mono_refl k r
    · cases h
  · injection h with h; subst h; exact mono_applyActs k _ acts ha r
  all_goals (injection h with h; subst h; exact mono_refl k r)

theorem mono_step (k : Nat) (s : Script) (ev : Ev) (eff : Reg → Option Reg)
    (he : ∀ r r', eff r = some r' → Mono k r r') (σ : St) : Mono k σ.reg (step s ev eff σ).1.reg := by
  rcases step_cases s ev eff σ with h | ⟨r, hr, h⟩
  · rw [h]; exact mono_refl k _
  · rw [h]; exact he _ _ hr

/-- `Mono` lifted to interpreter states. -/
def MonoS (k : Nat) (σ σ' : St) : Prop := Mono k σ.reg σ'.reg

theorem monoS_trans (k : Nat) : ∀ a b c : St, MonoS k a b → MonoS k b c → MonoS k a c :=
  fun _ _ _ h1 h2 => mono_trans h1 h2

mutual
  theorem rcondPhase_mono (k : Nat) (s : Script) (ph : Phase) :
      ∀ (c : RCond) (σ : St), MonoS k σ (rcondPhase s ph c σ).1
    | .script id, σ => by
      simp only [rcondPhase]
      exact mono_step k s _ some (fun r r' h => by injection h with h; subst h; exact mono_refl k r) σ
    | .ltN lens n, σ => by
      simp only [rcondPhase]
      split
      · exact mono_insert k _ _ σ.reg
      · exact mono_refl k _
    | .everyN _, σ => by simp only [rcondPhase]; exact mono_refl k _
    | .chance _, σ => by simp only [rcondPhase]; exact mono_refl k _
    | .all cs, σ => by simp only [rcondPhase]; exact rcondsPhase_mono k s ph cs σ
    | .any cs, σ => by simp only [rcondPhase]; exact rcondsPhase_mono k s ph cs σ
    | .not c, σ => by simp only [rcondPhase]; exact rcondPhase_mono k s ph c σ
  theorem rcondsPhase_mono (k : Nat) (s : Script) (ph : Phase) :
      ∀ (cs : RConds) (σ : St), MonoS k σ (rcondsPhase s ph cs σ).1
    | .nil, σ => by simp only [rcondsPhase]; exact mono_refl k _
    | .cons c cs, σ => by
      simp only [rcondsPhase]
      exact andThen_pres (monoS_trans k) (rcondPhase_mono k s ph c σ) (rcondsPhase_mono k s ph cs)
end

theorem ltEval_mono (k lens n : Nat) (σ : St) : MonoS k σ (ltEval lens n σ).1 := by
  simp only [ltEval]
  split
  · exact mono_refl k _
  · exact mono_setv k _ _ σ.reg

mutual
  theorem rcondEval_mono (k : Nat) (s : Script) : ∀ (c : RCond) (σ : St), MonoS k σ (rcondEval s c σ).1
    | .script id, σ => by
      simp only [rcondEval, scriptEval]
      split <;> exact mono_refl k _
    | .ltN lens n, σ => by simp only [rcondEval]; exact ltEval_mono k lens n σ
    | .everyN n, σ => by
      simp only [rcondEval, everyEval]
      split <;> exact mono_refl k _
    | .chance b, σ => by
      simp only [rcondEval, chanceEval]
      split <;> exact mono_refl k _
    | .all cs, σ => by simp only [rcondEval]; exact revalAll_mono k s cs σ
    | .any cs, σ => by simp only [rcondEval]; exact revalAny_mono k s cs σ
    | .not c, σ => by
      have h := rcondEval_mono k s c σ
      simp only [rcondEval]
      split
      · rename_i σ1 b heq; rw [heq] at h; exact h
      · exact h
  theorem revalAll_mono (k : Nat) (s : Script) : ∀ (cs : RConds) (σ : St), MonoS k σ (revalAll s cs σ).1
    | .nil, σ => by simp only [revalAll]; exact mono_refl k _
    | .cons c cs, σ => by
      have h := rcondEval_mono k s c σ
      simp only [revalAll]
      split
      · rename_i σ1 b heq
        rw [heq] at h
        have h2 := revalAll_mono k s cs σ1
        split
        · rename_i σ2 b' heq2; rw [heq2] at h2; exact mono_trans h h2
        · exact mono_trans h h2
      · exact h
  theorem revalAny_mono (k : Nat) (s : Script) : ∀ (cs : RConds) (σ : St), MonoS k σ (revalAny s cs σ).1
    | .nil, σ => by simp only [revalAny]; exact mono_refl k _
    | .cons c cs, σ => by
      have h := rcondEval_mono k s c σ
      simp only [revalAny]
      split
      · rename_i σ1 b heq
        rw [heq] at h
        have h2 := revalAny_mono k s cs σ1
        split
        · rename_i σ2 b' heq2; rw [heq2] at h2; exact mono_trans h h2
        · exact mono_trans h h2
      · exact h
end

theorem runRules_mono (k : Nat) (s : Script) : ∀ (cs : RConds) (any : Bool) (σ : St), MonoS k σ (runRules s cs any σ).1
  | .nil, any, σ => by simp only [runRules]; exact mono_refl k _
  | .cons c cs, any, σ => by
    have h := rcondEval_mono k s c σ
    simp only [runRules]
    split
    · rename_i σ1 b heq; rw [heq] at h; exact mono_trans h (runRules_mono k s cs _ σ1)
    · rename_i σ1 ph id heq; rw [heq] at h; exact h
    · rename_i σ1 heq; rw [heq] at h; exact h

theorem logPush_mono (k : Nat) (σ : St) : MonoS k σ (logPush σ).1 := by
  simp only [logPush]
  split
  · exact mono_setv k _ _ σ.reg
  · exact mono_refl k _

/-! #### `takeAt` / `putAt` -/

theorem takeAt_length : ∀ (r : Reg) (k i v : Nat) (r1 : Reg), takeAt r k = some (i, v, r1) →
    r1.length = r.length ∧ i < r.length
  | [], _, _, _, _, h => by simp [takeAt] at h
  | m :: r, k, i, v, r1, h => by
    simp only [takeAt] at h
    split at h
    · injection h with h; injection h with h1 h2; injection h2 with h2 h3; subst h1; subst h3; simp
    · cases ht : takeAt r k with
      | none => simp [ht] at h
      | some x =>
        obtain ⟨i', v', r1'⟩ := x
        simp only [ht] at h
        injection h with h; injection h with h1 h2; injection h2 with h2 h3; subst h1; subst h3
        have := takeAt_length r k i' v' r1' ht
        simp [this.1, this.2]

theorem putAt_length : ∀ (r : Reg) (i k v : Nat), (putAt r i k v).length = r.length
  | [], _, _, _ => rfl
  | m :: r, 0, _, _ => rfl
  | m :: r, i + 1, k, v => by simp [putAt, putAt_length r i k v]

/-- Taking `k` out of the scope at level `i` keeps `k` in every other scope. -/
theorem takeAt_hasAt_same (k : Nat) : ∀ (r : Reg) (L : List Bool) (i v : Nat) (r1 : Reg),
    takeAt r k = some (i, v, r1) → HasAt k L r → HasAt k (L.set i false) r1
  | [], _, _, _, _, h, _ => by simp [takeAt] at h
  | m :: r, L, i, v, r1, h, hq => by
    simp only [takeAt] at h
    split at h
    · injection h with h; injection h with h1 h2; injection h2 with h2 h3; subst h1; subst h3
      cases L with
      | nil => trivial
      | cons l L => exact ⟨fun hl => by simp at hl, hq.2⟩
    · cases ht : takeAt r k with
      | none => simp [ht] at h
      | some x =>
        obtain ⟨i', v', r1'⟩ := x
        simp only [ht] at h
        injection h with h; injection h with h1 h2; injection h2 with h2 h3; subst h1; subst h3
        cases L with
        | nil => trivial
        | cons l L => exact ⟨hq.1, takeAt_hasAt_same k r L i' v' r1' ht hq.2⟩

/-- Taking another state type out changes nothing for `k`. -/
theorem takeAt_hasAt_ne (k k' : Nat) (hne : k' ≠ k) : ∀ (r : Reg) (L : List Bool) (i v : Nat) (r1 : Reg),
    takeAt r k' = some (i, v, r1) → HasAt k L r → HasAt k L r1
  | [], _, _, _, _, h, _ => by simp [takeAt] at h
  | m :: r, L, i, v, r1, h, hq => by
    simp only [takeAt] at h
    split at h
    · injection h with h; injection h with h1 h2; injection h2 with h2 h3; subst h1; subst h3
      cases L with
      | nil => trivial
      | cons l L => exact ⟨fun hl => by rw [Scope.has_erase]; simp [hq.1 hl, hne], hq.2⟩
    · cases ht : takeAt r k' with
      | none => simp [ht] at h
      | some x =>
        obtain ⟨i', v', r1'⟩ := x
        simp only [ht] at h
        injection h with h; injection h with h1 h2; injection h2 with h2 h3; subst h1; subst h3
        cases L with
        | nil => trivial
        | cons l L => exact ⟨hq.1, takeAt_hasAt_ne k k' hne r L i' v' r1' ht hq.2⟩

/-- Putting `k` back into the scope at level `i` makes up for its absence there. -/
theorem putAt_hasAt_same (k v : Nat) : ∀ (r : Reg) (L : List Bool) (i : Nat),
    HasAt k (L.set i false) r → HasAt k L (putAt r i k v)
  | [], L, _, _ => by cases L <;> trivial
  | m :: r, [], _, _ => by trivial
  | m :: r, l :: L, 0, hq => ⟨fun _ => by rw [Scope.has_put]; simp, hq.2⟩
  | m :: r, l :: L, i + 1, hq => ⟨hq.1, putAt_hasAt_same k v r L i hq.2⟩

theorem putAt_hasAt_ne (k k' v : Nat) : ∀ (r : Reg) (L : List Bool) (i : Nat),
    HasAt k L r → HasAt k L (putAt r i k' v)
  | [], L, _, _ => by cases L <;> trivial
  | m :: r, [], _, _ => by trivial
  | m :: r, l :: L, 0, hq => ⟨fun hl => by rw [Scope.has_put]; simp [hq.1 hl], hq.2⟩
  | m :: r, l :: L, i + 1, hq => ⟨hq.1, putAt_hasAt_ne k k' v r L i hq.2⟩

/-- `State::holding` keeps every state of every scope where it is (the held one included), if its
closure does. -/
theorem holding_mono (k k' : Nat) (f : Nat → St → Nat × (St × Res))
    (hf : ∀ v σ, MonoS k σ (f v σ).2.1) (σ : St) : MonoS k σ (holding k' f σ).1 := by
  simp only [holding]
  cases ht : takeAt σ.reg k' with
  | none => exact mono_refl k _
  | some x =>
    obtain ⟨i, v, r1⟩ := x
    simp only
    have hm := hf v { σ with reg := r1 }
    obtain ⟨hl1, hi⟩ := takeAt_length σ.reg k' i v r1 ht
    cases hfv : f v { σ with reg := r1 } with
    | mk v' x2 =>
      obtain ⟨σ2, res⟩ := x2
      rw [hfv] at hm
      simp only [MonoS] at hm ⊢
      refine ⟨by rw [putAt_length, hm.1, hl1], fun L hq => ?_⟩
      by_cases hk : k' = k
      · subst hk
        exact putAt_hasAt_same k' v' σ2.reg L i (hm.2 _ (takeAt_hasAt_same k' σ.reg L i v r1 ht hq))
      · exact putAt_hasAt_ne k k' v' σ2.reg L i (hm.2 _ (takeAt_hasAt_ne k k' hk σ.reg L i v r1 ht hq))

theorem holdBody_mono (k : Nat) (s : Script) (id : Nat) (acts : List Act) (ha : acts.all (Act.keeps k) = true)
    (v : Nat) (σ : St) : MonoS k σ (holdBody s id acts v σ).2.1 := by
  simp only [holdBody, MonoS]
  exact mono_applyActs k .exec acts ha σ.reg

theorem loggerBody_mono (k : Nat) (s : Script) (trg : RConds) (v : Nat) (σ : St) :
    MonoS k σ (loggerBody s trg v σ).2.1 := by
  have h := runRules_mono k s trg false σ
  simp only [loggerBody]
  split
  · rename_i σ1 heq; rw [heq] at h; exact mono_trans h (logPush_mono k σ1)
  · rename_i σ1 r b _ heq; rw [heq] at h; exact h

theorem ropRun_mono (k : Nat) (s : Script) (trg : RConds) (o : ROp)
    (ho : ROp.sat (Act.keeps k) (fun _ => true) o = true) (σ : St) : MonoS k σ (ropRun s trg o σ).1 := by
  cases o with
  | prim ev acts =>
    simp only [ropRun]
    exact mono_step k s ev _ (fun r r' h => mono_effOf k ev.1 acts (by simpa [ROp.sat] using ho) r r' h) σ
  | counter0 => simp only [ropRun, newCounter]; exact mono_insert k 0 0 σ.reg
  | bump =>
    simp only [ropRun, bump]
    split
    · rename_i r hr; exact mono_incr k σ.reg r hr
    · exact mono_refl k _
  | progress0 lens => simp only [ropRun]; exact mono_insert k _ _ σ.reg
  | held id k' acts =>
    simp only [ropRun]
    exact holding_mono k k' _ (holdBody_mono k s id acts (by simpa [ROp.sat] using ho)) σ
  | logInit =>
    simp only [ropRun, loggerInit]
    split
    · exact holding_mono k 7 _ (fun v σ' => rcondsPhase_mono k s .cinit trg σ') σ
    · exact mono_refl k _
  | logExec =>
    simp only [ropRun, loggerExec]
    split
    · exact holding_mono k 7 _ (loggerBody_mono k s trg) σ
    · exact mono_refl k _

theorem hasAt_tail (k : Nat) (L : List Bool) (m : Scope) (t : Reg) (h : HasAt k (false :: L) (m :: t)) : HasAt k L t := h.2

theorem rinv_mono (k : Nat) (s : Script) (trg : RConds) :
    RInv s trg (ROp.sat (Act.keeps k) (fun _ => true)) (MonoS k) where
  refl σ := mono_refl k σ.reg
  trans := monoS_trans k
  op o ho σ := ropRun_mono k s trg o ho σ
  cond c σ := rcondEval_mono k s c σ
  scope σ σ2 h := by
    simp only [MonoS, push, pop] at h ⊢
    obtain ⟨hl, hq⟩ := h
    cases hr : σ2.reg with
    | nil => rw [hr] at hl; simp at hl
    | cons m t =>
      rw [hr] at hl hq
      refine ⟨by simpa using hl, fun L hL => ?_⟩
      exact hasAt_tail k L m t (hq (false :: L) ⟨fun h => (by cases h), hL⟩)

/-- Scope by scope, nothing else is removed from the caller's state — for trees with shipped
conditions, `State::holding` leaves and the `Logger`, on every outcome. -/
theorem rrun_mono (k : Nat) (s : Script) (trg : RConds) (f : Nat) (c : RComp)
    (hc : c.sat (Act.keeps k) (fun _ => true) = true) (σ : St) : MonoS k σ (rrun s trg f c σ).1 := by
  rw [rrun_eq]
  exact rsrun_pres (rinv_mono k s trg) f (rprog c) (rprog_all _ _ c hc) σ

/-! ### Scope discipline -/

theorem holding_length (k' : Nat) (f : Nat → St → Nat × (St × Res))
    (hf : ∀ v σ, (f v σ).2.1.reg.length = σ.reg.length) (σ : St) :
    (holding k' f σ).1.reg.length = σ.reg.length := by
  simp only [holding]
  cases ht : takeAt σ.reg k' with
  | none => rfl
  | some x =>
    obtain ⟨i, v, r1⟩ := x
    simp only
    have hm := hf v { σ with reg := r1 }
    obtain ⟨hl1, _⟩ := takeAt_length σ.reg k' i v r1 ht
    cases hfv : f v { σ with reg := r1 } with
    | mk v' x2 =>
      obtain ⟨σ2, res⟩ := x2
      rw [hfv] at hm
      simp only at hm ⊢
      rw [putAt_length, hm, hl1]

theorem ropRun_length (s : Script) (trg : RConds) (o : ROp) (σ : St) :
    (ropRun s trg o σ).1.reg.length = σ.reg.length := by
  cases o with
  | prim ev acts =>
    simp only [ropRun]
    rcases step_cases s ev (effOf ev.1 acts) σ with h | ⟨r, hr, h⟩
    · rw [h]
    · rw [h]; exact effOf_length ev.1 acts σ.reg r hr
  | counter0 => simp only [ropRun, newCounter]; exact Reg.length_insert _ _ _
  | bump =>
    simp only [ropRun, bump]
    split
    · rename_i r hr; exact Reg.length_incr σ.reg r hr
    · rfl
  | progress0 lens => simp only [ropRun]; exact Reg.length_insert _ _ _
  | held id k' acts =>
    simp only [ropRun]
    exact holding_length k' _ (fun v σ' => by simp only [holdBody]; exact length_applyActs _ _ _) σ
  | logInit =>
    simp only [ropRun, loggerInit]
    split
    · exact holding_length 7 _ (fun v σ' => (rcondsPhase_mono 0 s .cinit trg σ').1) σ
    · rfl
  | logExec =>
    simp only [ropRun, loggerExec]
    split
    · exact holding_length 7 _ (fun v σ' => (loggerBody_mono 0 s trg v σ').1) σ
    · rfl

theorem rinv_depth (s : Script) (trg : RConds) :
    RInv s trg (fun _ => true) (fun σ σ' => σ'.reg.length = σ.reg.length) where
  refl _ := rfl
  trans _ _ _ h1 h2 := h2.trans h1
  op o _ σ := ropRun_length s trg o σ
  cond c σ := (rcondEval_mono 0 s c σ).1
  scope σ σ2 h := by
    simp only [push, pop, List.length_cons] at h ⊢
    cases hr : σ2.reg with
    | nil => rw [hr] at h; simp at h
    | cons m t => rw [hr] at h; simpa using h

theorem RStmt.all_true : ∀ (p : RStmt), p.all (fun _ => true) = true
  | .skip => rfl
  | .atom _ => rfl
  | .seq a b => by simp [RStmt.all, RStmt.all_true a, RStmt.all_true b]
  | .loop _ b => by simp [RStmt.all, RStmt.all_true b]
  | .ite _ t e => by simp [RStmt.all, RStmt.all_true t, RStmt.all_true e]
  | .inScope b => by simp [RStmt.all, RStmt.all_true b]

theorem rsrun_depth (s : Script) (trg : RConds) (f : Nat) (p : RStmt) (σ : St) :
    (rsrun s trg f p σ).1.reg.length = σ.reg.length :=
  rsrun_pres (rinv_depth s trg) f p (RStmt.all_true p) σ

/-! ### Shipped conditions never invent an error -/

/-- Same depth, and the same value under every key other than the two `Progress` keys. -/
def Off56 (r r' : Reg) : Prop := ∀ k, k ≠ 5 → k ≠ 6 → r'.get? k = r.get? k

theorem progKey_cases (lens : Nat) : progKey lens = 5 ∨ progKey lens = 6 := by
  unfold progKey; split <;> simp

theorem off56_setv (r : Reg) (lens v : Nat) : Off56 r (r.setv (progKey lens) v) := by
  intro k h5 h6
  apply Reg.get_setv_ne
  rcases progKey_cases lens with h | h <;> rw [h] <;> omega

mutual
  theorem den_congr (r r' : Reg) (h : Off56 r r') : ∀ (c : RCond), c.lensOk = true → c.den r' = c.den r
    | .script _, _ => rfl
    | .ltN lens n, hl => by
      have : lens = 0 ∨ lens = 4 := by simpa [RCond.lensOk] using hl
      simp only [RCond.den]
      rw [h lens (by omega) (by omega)]
    | .everyN n, _ => by simp only [RCond.den]; rw [h 0 (by omega) (by omega)]
    | .chance _, _ => rfl
    | .all cs, hl => by simp only [RCond.den]; exact denAll_congr r r' h cs (by simpa [RCond.lensOk] using hl)
    | .any cs, hl => by simp only [RCond.den]; exact denAny_congr r r' h cs (by simpa [RCond.lensOk] using hl)
    | .not c, hl => by simp only [RCond.den]; rw [den_congr r r' h c (by simpa [RCond.lensOk] using hl)]
  theorem denAll_congr (r r' : Reg) (h : Off56 r r') : ∀ (cs : RConds), cs.lensOk = true → cs.denAll r' = cs.denAll r
    | .nil, _ => rfl
    | .cons c cs, hl => by
      simp only [RConds.lensOk, Bool.and_eq_true] at hl
      simp only [RConds.denAll]; rw [den_congr r r' h c hl.1, denAll_congr r r' h cs hl.2]
  theorem denAny_congr (r r' : Reg) (h : Off56 r r') : ∀ (cs : RConds), cs.lensOk = true → cs.denAny r' = cs.denAny r
    | .nil, _ => rfl
    | .cons c cs, hl => by
      simp only [RConds.lensOk, Bool.and_eq_true] at hl
      simp only [RConds.denAny]; rw [den_congr r r' h c hl.1, denAny_congr r r' h cs hl.2]
end

mutual
  theorem sourcesIn_congr (r r' : Reg) (h : Off56 r r') :
      ∀ (c : RCond), c.lensOk = true → c.sourcesIn r' = c.sourcesIn r
    | .script _, _ => rfl
    | .ltN lens n, hl => by
      have : lens = 0 ∨ lens = 4 := by simpa [RCond.lensOk] using hl
      simp only [RCond.sourcesIn, Reg.contains_iff_get]
      rw [h lens (by omega) (by omega)]
    | .everyN n, _ => by simp only [RCond.sourcesIn, Reg.contains_iff_get]; rw [h 0 (by omega) (by omega)]
    | .chance _, _ => by simp only [RCond.sourcesIn, Reg.contains_iff_get]; rw [h 9 (by omega) (by omega)]
    | .all cs, hl => by simp only [RCond.sourcesIn]; exact sourcesIns_congr r r' h cs (by simpa [RCond.lensOk] using hl)
    | .any cs, hl => by simp only [RCond.sourcesIn]; exact sourcesIns_congr r r' h cs (by simpa [RCond.lensOk] using hl)
    | .not c, hl => by simp only [RCond.sourcesIn]; exact sourcesIn_congr r r' h c (by simpa [RCond.lensOk] using hl)
  theorem sourcesIns_congr (r r' : Reg) (h : Off56 r r') :
      ∀ (cs : RConds), cs.lensOk = true → cs.sourcesIn r' = cs.sourcesIn r
    | .nil, _ => rfl
    | .cons c cs, hl => by
      simp only [RConds.lensOk, Bool.and_eq_true] at hl
      simp only [RConds.sourcesIn]; rw [sourcesIn_congr r r' h c hl.1, sourcesIns_congr r r' h cs hl.2]
end

/-- What `shipped_condition_never_fails` says about one evaluation. -/
def EvalsTo (σ : St) (b : Bool) (x : St × RCRes) : Prop :=
  x.2 = .val b ∧ x.1.tr = σ.tr ∧ x.1.reg.length = σ.reg.length ∧ Off56 σ.reg x.1.reg

theorem off56_trans {a b c : Reg} (h1 : Off56 a b) (h2 : Off56 b c) : Off56 a c :=
  fun k h5 h6 => (h2 k h5 h6).trans (h1 k h5 h6)

mutual
  theorem rcondEval_shipped (s : Script) : ∀ (c : RCond) (σ : St), c.shipped = true → c.lensOk = true →
      c.sourcesIn σ.reg = true → EvalsTo σ (c.den σ.reg) (rcondEval s c σ)
    | .script _, _, hs, _, _ => by simp [RCond.shipped] at hs
    | .ltN lens n, σ, _, _, hsrc => by
      simp only [RCond.sourcesIn, Reg.contains_iff_get, Option.isSome_iff_exists] at hsrc
      obtain ⟨v, hv⟩ := hsrc
      simp only [rcondEval, ltEval, hv, RCond.den, Option.getD_some]
      exact ⟨rfl, rfl, Reg.length_setv _ _ _, off56_setv _ _ _⟩
    | .everyN n, σ, _, _, hsrc => by
      simp only [RCond.sourcesIn, Reg.contains_iff_get, Option.isSome_iff_exists] at hsrc
      obtain ⟨v, hv⟩ := hsrc
      simp only [rcondEval, everyEval, hv, RCond.den, Option.getD_some]
      exact ⟨rfl, rfl, rfl, fun _ _ _ => rfl⟩
    | .chance b, σ, _, _, hsrc => by
      simp only [RCond.sourcesIn] at hsrc
      simp only [rcondEval, chanceEval, hsrc, if_true, RCond.den]
      exact ⟨rfl, rfl, rfl, fun _ _ _ => rfl⟩
    | .all cs, σ, hs, hl, hsrc => by
      simp only [rcondEval, RCond.den]
      exact revalAll_shipped s cs σ (by simpa [RCond.shipped] using hs) (by simpa [RCond.lensOk] using hl)
        (by simpa [RCond.sourcesIn] using hsrc)
    | .any cs, σ, hs, hl, hsrc => by
      simp only [rcondEval, RCond.den]
      exact revalAny_shipped s cs σ (by simpa [RCond.shipped] using hs) (by simpa [RCond.lensOk] using hl)
        (by simpa [RCond.sourcesIn] using hsrc)
    | .not c, σ, hs, hl, hsrc => by
      have ih := rcondEval_shipped s c σ (by simpa [RCond.shipped] using hs) (by simpa [RCond.lensOk] using hl)
        (by simpa [RCond.sourcesIn] using hsrc)
      simp only [rcondEval, RCond.den]
      cases hx : rcondEval s c σ with
      | mk σ1 r1 =>
        rw [hx] at ih
        obtain ⟨h1, h2, h3, h4⟩ := ih
        simp only at h1; subst h1
        exact ⟨rfl, h2, h3, h4⟩
  theorem revalAll_shipped (s : Script) : ∀ (cs : RConds) (σ : St), cs.shipped = true → cs.lensOk = true →
      cs.sourcesIn σ.reg = true → EvalsTo σ (cs.denAll σ.reg) (revalAll s cs σ)
    | .nil, σ, _, _, _ => by simp only [revalAll, RConds.denAll]; exact ⟨rfl, rfl, rfl, fun _ _ _ => rfl⟩
    | .cons c cs, σ, hs, hl, hsrc => by
      simp only [RConds.shipped, Bool.and_eq_true] at hs
      simp only [RConds.lensOk, Bool.and_eq_true] at hl
      simp only [RConds.sourcesIn, Bool.and_eq_true] at hsrc
      have ih := rcondEval_shipped s c σ hs.1 hl.1 hsrc.1
      simp only [revalAll, RConds.denAll]
      cases hx : rcondEval s c σ with
      | mk σ1 r1 =>
        rw [hx] at ih
        obtain ⟨h1, h2, h3, h4⟩ := ih
        simp only at h1 h2 h3 h4; subst h1
        have ih2 := revalAll_shipped s cs σ1 hs.2 hl.2 (by rw [sourcesIns_congr σ.reg σ1.reg h4 cs hl.2]; exact hsrc.2)
        cases hy : revalAll s cs σ1 with
        | mk σ2 r2 =>
          rw [hy] at ih2
          obtain ⟨g1, g2, g3, g4⟩ := ih2
          simp only at g1 g2 g3 g4; subst g1
          simp only [hy]
          rw [denAll_congr σ.reg σ1.reg h4 cs hl.2]
          exact ⟨rfl, g2.trans h2, g3.trans h3, off56_trans h4 g4⟩
  theorem revalAny_shipped (s : Script) : ∀ (cs : RConds) (σ : St), cs.shipped = true → cs.lensOk = true →
      cs.sourcesIn σ.reg = true → EvalsTo σ (cs.denAny σ.reg) (revalAny s cs σ)
    | .nil, σ, _, _, _ => by simp only [revalAny, RConds.denAny]; exact ⟨rfl, rfl, rfl, fun _ _ _ => rfl⟩
    | .cons c cs, σ, hs, hl, hsrc => by
      simp only [RConds.shipped, Bool.and_eq_true] at hs
      simp only [RConds.lensOk, Bool.and_eq_true] at hl
      simp only [RConds.sourcesIn, Bool.and_eq_true] at hsrc
      have ih := rcondEval_shipped s c σ hs.1 hl.1 hsrc.1
      simp only [revalAny, RConds.denAny]
      cases hx : rcondEval s c σ with
      | mk σ1 r1 =>
        rw [hx] at ih
        obtain ⟨h1, h2, h3, h4⟩ := ih
        simp only at h1 h2 h3 h4; subst h1
        have ih2 := revalAny_shipped s cs σ1 hs.2 hl.2 (by rw [sourcesIns_congr σ.reg σ1.reg h4 cs hl.2]; exact hsrc.2)
        cases hy : revalAny s cs σ1 with
        | mk σ2 r2 =>
          rw [hy] at ih2
          obtain ⟨g1, g2, g3, g4⟩ := ih2
          simp only at g1 g2 g3 g4; subst g1
          simp only [hy]
          rw [denAny_congr σ.reg σ1.reg h4 cs hl.2]
          exact ⟨rfl, g2.trans h2, g3.trans h3, off56_trans h4 g4⟩
end

/-! ### Loops whose test is false at once; counting loops -/

theorem loop_skipped (s : Script) (trg : RConds) (fuel : Nat) (c : RCond) (b : RComp) (σ σ0 σ1 : St)
    (hf : 0 < fuel) (hi : rcondPhase s .cinit c σ = (σ0, .ok)) (he : rcondEval s c σ0 = (σ1, .val false)) :
    rexec s trg fuel (.loop c b) σ = (σ1, .ok) := by
  obtain ⟨n, rfl⟩ : ∃ n, fuel = n + 1 := ⟨fuel - 1, by omega⟩
  simp only [rexec, hi, andThen]
  simp only [rloopN, he]

theorem get_of_some_ne_nil {r : Reg} {k v : Nat} (h : r.get? k = some v) : r ≠ [] := by
  intro hr; subst hr; simp [Reg.get?] at h

theorem progKey_ne (lens : Nat) (h : lens = 0 ∨ lens = 4) : progKey lens ≠ lens := by
  rcases progKey_cases lens with h' | h' <;> rw [h'] <;> omega

theorem incr_of_get {r : Reg} {i : Nat} (h : r.get? 0 = some i) : ∃ r', r.incr = some r' ∧ r'.get? 0 = some (i + 1) := by
  have : r.incr.isSome = true := by rw [Reg.incr_isSome_iff, h]; rfl
  obtain ⟨r', hr'⟩ := Option.isSome_iff_exists.mp this
  exact ⟨r', hr', by rw [Reg.get_incr r r' 0 hr', h]; rfl⟩

theorem counting_loop (s : Script) (n : Nat) (body : St → St × Res)
    (hb : ∀ σ, ∃ σ', body σ = (σ', .ok) ∧ σ'.reg.get? 0 = σ.reg.get? 0) :
    ∀ (m : Nat) (σ : St) (i : Nat), σ.reg.get? 0 = some i → n - i < m →
      ∃ σ', rloopN (rcondEval s (.ltN 0 n)) body m σ = (σ', .ok) ∧
        RPasses (rcondEval s (.ltN 0 n)) (fun σ => andThen (body σ) bump) (n - i) σ σ' ∧
        σ'.reg.get? 0 = some (max i n) := by
  intro m
  induction m with
  | zero => intro σ i _ hm; omega
  | succ m ih =>
    intro σ i hi hm
    have hc : rcondEval s (.ltN 0 n) σ =
        ({ σ with reg := σ.reg.setv 5 (encP i n) }, .val (decide (i < n))) := by
      simp [rcondEval, ltEval, hi, progKey]
    by_cases hlt : i < n
    · obtain ⟨σ2, hb2, hg2⟩ := hb { σ with reg := σ.reg.setv 5 (encP i n) }
      have hg2' : σ2.reg.get? 0 = some i := by
        rw [hg2]; simp only; rw [Reg.get_setv_ne _ _ _ _ (by omega)]; exact hi
      obtain ⟨r3, hr3, hg3⟩ := incr_of_get hg2'
      have hbump : bump σ2 = ({ σ2 with reg := r3 }, .ok) := by simp [bump, hr3]
      obtain ⟨σ', hl, hp, hg⟩ := ih { σ2 with reg := r3 } (i + 1) hg3 (by omega)
      refine ⟨σ', ?_, ?_, ?_⟩
      · simp only [rloopN, hc, decide_eq_true hlt, hb2, andThen, hbump]
        exact hl
      · have : n - i = (n - (i + 1)) + 1 := by omega
        rw [this]
        exact RPasses.pass (by rw [hc, decide_eq_true hlt]) (by simp only [hb2, andThen, hbump]) hp
      · rw [hg]; congr 1; omega
    · have hn : n - i = 0 := by omega
      refine ⟨{ σ with reg := σ.reg.setv 5 (encP i n) }, ?_, ?_, ?_⟩
      · simp only [rloopN, hc, decide_eq_false hlt]
      · rw [hn]; exact RPasses.done (by rw [hc, decide_eq_false hlt])
      · simp only; rw [Reg.get_setv_ne _ _ _ _ (by omega), hi]; congr 1; omega

/-! ### One `HoldLeaf` -/

theorem takeAt_get : ∀ (r : Reg) (k i v : Nat) (r1 : Reg), takeAt r k = some (i, v, r1) → r.get? k = some v
  | [], _, _, _, _, h => by simp [takeAt] at h
  | m :: r, k, i, v, r1, h => by
    simp only [takeAt] at h
    split at h
    · rename_i v' hv
      injection h with h; injection h with h1 h2; injection h2 with h2 h3; subst h2
      simp only [Reg.get?, Scope.has_iff_get, hv, Option.isSome_some, if_true]
    · rename_i hv
      cases ht : takeAt r k with
      | none => simp [ht] at h
      | some x =>
        obtain ⟨i', v', r1'⟩ := x
        simp only [ht] at h
        injection h with h; injection h with h1 h2; injection h2 with h2 h3; subst h2
        simp only [Reg.get?, Scope.has_iff_get, hv, Option.isSome_none]
        exact takeAt_get r k i' v' r1' ht

theorem takeAt_none : ∀ (r : Reg) (k : Nat), takeAt r k = none → r.get? k = none
  | [], _, _ => rfl
  | m :: r, k, h => by
    simp only [takeAt] at h
    split at h
    · cases h
    · rename_i hv
      cases ht : takeAt r k with
      | none =>
        simp only [Reg.get?, Scope.has_iff_get, hv, Option.isSome_none]
        exact takeAt_none r k ht
      | some x => obtain ⟨i', v', r1'⟩ := x; simp [ht] at h

theorem putAt_get (k v : Nat) : ∀ (r : Reg) (i : Nat), i < r.length →
    ∃ m, (putAt r i k v)[i]? = some m ∧ m.get? k = some v
  | [], _, h => by simp at h
  | m :: r, 0, _ => ⟨m.put k v, rfl, by rw [Scope.get_put]; simp⟩
  | m :: r, i + 1, h => by
    obtain ⟨m', h1, h2⟩ := putAt_get k v r i (by simpa using h)
    exact ⟨m', by simpa [putAt] using h1, h2⟩

end MahfModel.ConfigReal
