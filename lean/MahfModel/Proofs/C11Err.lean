/- Helper lemmas for C11, part 3: weights at the operator level, error conditions, SUS, IWO, tournament. -/
import MahfModel.Proofs.C11Select
import MahfModel.Proofs.C11Sus
import Mathlib.Data.Rat.Floor
namespace MahfModel.Selection
set_option linter.unusedSectionVars false
set_option linter.unusedSimpArgs false

section
variable {F : Type} [Field F] [LinearOrder F] [IsStrictOrderedRing F]

/-- every individual of the population carries an objective value -/
def Evaluated (pop : Pop F) : Prop := ∀ x ∈ pop, x.obj.isSome

theorem objectives_of_evaluated {pop : Pop F} (h : Evaluated pop) :
    ∃ objs, objectives pop = some objs ∧ objs.length = pop.length ∧ pop.map (·.obj) = objs.map some := by
  induction pop with
  | nil => exact ⟨[], rfl, rfl, rfl⟩
  | cons a l ih =>
    obtain ⟨objs, h1, h2, h3⟩ := ih (fun x hx => h x (by simp [hx]))
    obtain ⟨o, ho⟩ := Option.isSome_iff_exists.mp (h a (by simp))
    refine ⟨o :: objs, ?_, by simp [h2], by simp [ho, h3]⟩
    simp only [objectives] at h1
    simp [objectives, List.mapM_cons, ho, h1]

theorem objs_eq_nil_iff {pop : Pop F} {objs : List F} (h : objs.length = pop.length) : objs = [] ↔ pop = [] := by
  constructor
  · intro hh; subst hh; exact List.eq_nil_of_length_eq_zero (by simpa using h.symm)
  · intro hh; subst hh; exact List.eq_nil_of_length_eq_zero (by simpa using h)

/-- weights of the non-normalising call: all non-negative; the total is zero exactly in the
degenerate case "offset 0 and all objectives equal and positive". -/
theorem propWeights_nonneg (O : Ops F) (objs : List F) (offset : F) (ws : List F)
    (h : proportionalWeights O objs offset false = .ok (some ws)) : ∀ w ∈ ws, 0 ≤ w := by
  obtain ⟨hoff, mx, mn, hb, _, hcase⟩ := proportionalWeights_form O objs offset false ws h
  obtain ⟨hrange, _, _⟩ := objectiveBounds_spec hb
  rcases hcase with ⟨_, hw⟩ | ⟨_, _, hw⟩ | ⟨_, _, _, hw⟩ | ⟨_, _, hn, _⟩
  · intro w hw'; rw [hw] at hw'
    obtain ⟨o, ho, rfl⟩ := List.mem_map.mp hw'
    have := (hrange o ho).2; linarith
  · intro w hw'; rw [hw] at hw'
    simp only [Bool.false_eq_true, if_false] at hw'
    rw [(List.mem_replicate.mp hw').2]; exact zero_le_one
  · intro w hw'; rw [hw] at hw'
    obtain ⟨o, ho, rfl⟩ := List.mem_map.mp hw'
    rw [shiftW_eq]; have := (hrange o ho).2; linarith
  · cases hn

theorem propWeights_length (O : Ops F) (objs : List F) (offset : F) (normalize : Bool) (ws : List F)
    (h : proportionalWeights O objs offset normalize = .ok (some ws)) : ws.length = objs.length := by
  obtain ⟨g, _, hw⟩ := proportionalWeights_antitone_map O objs offset normalize ws h
  rw [hw]; simp

theorem propWeights_sum_zero_iff (O : Ops F) (objs : List F) (offset : F) (ws : List F)
    (h : proportionalWeights O objs offset false = .ok (some ws)) :
    sum ws = 0 ↔ offset = 0 ∧ ∃ c, 0 < c ∧ ∀ o ∈ objs, o = c := by
  have hnn := propWeights_nonneg O objs offset ws h
  obtain ⟨hoff, mx, mn, hb, _, hcase⟩ := proportionalWeights_form O objs offset false ws h
  obtain ⟨hrange, hmx, hmn⟩ := objectiveBounds_spec hb
  rcases hcase with ⟨hpos, hw⟩ | ⟨hnpos, hall, hw⟩ | ⟨hnpos, hall, _, hw⟩ | ⟨_, _, hn, _⟩
  · rw [sum_eq_zero_iff ws hnn, hw]
    constructor
    · intro hz
      have h1 := hz (mx - mn + offset) (List.mem_map.mpr ⟨mn, hmn, rfl⟩)
      have h2 : mn ≤ mx := (hrange mx hmx).1
      have hoff0 : offset = 0 := by linarith
      have hmm : mx = mn := by linarith
      refine ⟨hoff0, mn, hpos, ?_⟩
      intro o ho
      have := hrange o ho
      rw [hmm] at this
      exact le_antisymm this.2 this.1
    · rintro ⟨hoff0, c, hc, hall⟩ w hw'
      obtain ⟨o, ho, rfl⟩ := List.mem_map.mp hw'
      rw [hall o ho, hall mx hmx, hoff0]; ring
  · constructor
    · intro hz
      rw [hw] at hz
      simp only [Bool.false_eq_true, if_false, sum_replicate, mul_one] at hz
      have : objs.length = 0 := by exact_mod_cast hz
      have : objs = [] := List.eq_nil_of_length_eq_zero this
      subst this; simp at hmx
    · rintro ⟨_, c, hc, hallc⟩
      exfalso
      have := hallc mn hmn
      rw [this] at hnpos; exact hnpos hc
  · constructor
    · intro hz
      have := shiftW_total_pos hoff hb hall
      rw [← hw] at this; linarith
    · rintro ⟨_, c, hc, hallc⟩
      exfalso
      have := hallc mn hmn
      rw [this] at hnpos; exact hnpos hc
  · cases hn

/-- `WeightedIndex::new` on non-negative finite weights fails exactly when there is no item or the total is 0 -/
theorem weightedIndexNew_of_nonneg (O : Ops F) (hfin : ∀ x, O.fin x = true) (ws : List F)
    (hnn : ∀ w ∈ ws, 0 ≤ w) :
    (weightedIndexNew O ws = .error .exec ↔ ws = [] ∨ sum ws = 0) ∧
    weightedIndexNew O ws ≠ .error .panic ∧
    (weightedIndexNew O ws = .ok () ↔ ws ≠ [] ∧ sum ws ≠ 0) := by
  unfold weightedIndexNew
  cases ws with
  | nil => simp
  | cons w rest =>
    have hany : (w :: rest).any (fun w => !decide (0 ≤ w)) = false := by
      rw [List.any_eq_false]; intro x hx; simp [hnn x hx]
    simp only [List.isEmpty_cons, Bool.false_eq_true, if_false, hany, hfin, Bool.not_true]
    by_cases hz : sum (w :: rest) = 0
    · have h0 : eqF (0 : F) 0 = true := (eqF_iff _ _).mpr rfl
      simp [hz, h0]
    · have : eqF (sum (w :: rest)) 0 = false := by
        cases hc : eqF (sum (w :: rest)) 0 with
        | false => rfl
        | true => exact absurd ((eqF_iff _ _).mp hc) hz
      simp [hz, this]

theorem forall_objs_iff {pop : Pop F} {objs : List F} (h : pop.map (·.obj) = objs.map some) (c : F) :
    (∀ o ∈ objs, o = c) ↔ ∀ x ∈ pop, x.obj = some c := by
  constructor
  · intro ho x hx
    have : x.obj ∈ objs.map some := h ▸ List.mem_map_of_mem hx
    obtain ⟨o, ho', he⟩ := List.mem_map.mp this
    rw [← he, ho o ho']
  · intro hp o ho
    have : some o ∈ pop.map (·.obj) := h ▸ List.mem_map_of_mem ho
    obtain ⟨x, hx, he⟩ := List.mem_map.mp this
    have := hp x hx
    rw [he] at this; injection this

/-- `RouletteWheel` on an evaluated population, exact arithmetic -/
theorem roulette_outcome (O : Ops F) (hfin : ∀ x, O.fin x = true) (n : Nat) (offset : F) (is : List Nat)
    (pop : Pop F) (hev : Evaluated pop) (hoff : 0 ≤ offset) :
    (select O (.rouletteWheel n offset) (.idx is) pop = .error .exec ↔
      pop = [] ∨ (offset = 0 ∧ ∃ c, 0 < c ∧ ∀ x ∈ pop, x.obj = some c)) ∧
    select O (.rouletteWheel n offset) (.idx is) pop ≠ .error .panic := by
  obtain ⟨objs, h1, h2, h3⟩ := objectives_of_evaluated hev
  rw [select_roulette, h1]
  simp only
  cases hp : proportionalWeights O objs offset false with
  | error e =>
    exact absurd hoff ((proportionalWeights_panic_iff O objs offset false).mp ⟨e, hp⟩)
  | ok r =>
    cases r with
    | none =>
      simp only
      have := (proportionalWeights_none_iff O objs offset false hoff).mp hp
      rcases this with hnil | ⟨mx, mn, _, hf⟩
      · simp [(objs_eq_nil_iff h2).mp hnil]
      · rw [hfin] at hf; cases hf
    | some ws =>
      simp only [sampleWeighted]
      have hnn := propWeights_nonneg O objs offset ws hp
      obtain ⟨w1, w2, w3⟩ := weightedIndexNew_of_nonneg O hfin ws hnn
      have hlen := propWeights_length O objs offset false ws hp
      have hne : objs ≠ [] := by
        intro hc
        have := (proportionalWeights_none_iff O objs offset false hoff).mpr (Or.inl hc)
        rw [this] at hp; cases hp
      have hpne : pop ≠ [] := fun hc => hne ((objs_eq_nil_iff h2).mpr hc)
      have hwne : ws ≠ [] := by
        intro hc; rw [hc] at hlen; exact hne (List.eq_nil_of_length_eq_zero hlen.symm)
      have hz := propWeights_sum_zero_iff O objs offset ws hp
      cases hw : weightedIndexNew O ws with
      | error e =>
        cases e with
        | exec =>
          have := w1.mp hw
          simp only [hwne, false_or] at this
          have hz' := hz.mp this
          simp only [true_iff, ne_eq, not_false_eq_true, and_true]
          refine ⟨Or.inr ⟨hz'.1, hz'.2.imp fun c hc => ⟨hc.1, (forall_objs_iff h3 c).mp hc.2⟩⟩, by simp⟩
        | panic => exact absurd hw w2
      | ok u =>
        have := w3.mp hw
        simp only [hpne, false_or, ne_eq, not_false_eq_true, and_true, reduceCtorEq, false_iff, not_and,
          not_exists]
        intro ho c hc hall
        exact this.2 (hz.mpr ⟨ho, c, hc, (forall_objs_iff h3 c).mpr hall⟩)

/-- `StochasticUniversalSampling` on an evaluated population, exact arithmetic: `Err` on an empty
population and on a zero weight total, never a panic (for every `n`, every draw). -/
theorem sus_outcome (O : Ops F) (hfin : ∀ x, O.fin x = true) (n : Nat) (offset u : F) (pop : Pop F)
    (hev : Evaluated pop) (hoff : 0 ≤ offset) :
    (select O (.sus n offset) (.draw u) pop = .error .exec ↔
      pop = [] ∨ (offset = 0 ∧ ∃ c, 0 < c ∧ ∀ x ∈ pop, x.obj = some c)) ∧
    select O (.sus n offset) (.draw u) pop ≠ .error .panic := by
  obtain ⟨objs, h1, h2, h3⟩ := objectives_of_evaluated hev
  rw [select_sus, h1]
  simp only
  cases hp : proportionalWeights O objs offset false with
  | error e =>
    exact absurd hoff ((proportionalWeights_panic_iff O objs offset false).mp ⟨e, hp⟩)
  | ok r =>
    cases r with
    | none =>
      simp only
      have := (proportionalWeights_none_iff O objs offset false hoff).mp hp
      rcases this with hnil | ⟨mx, mn, _, hf⟩
      · simp [(objs_eq_nil_iff h2).mp hnil]
      · rw [hfin] at hf; cases hf
    | some ws =>
      simp only
      have hnn := propWeights_nonneg O objs offset ws hp
      have hlen := propWeights_length O objs offset false ws hp
      have hne : objs ≠ [] := by
        intro hc
        have := (proportionalWeights_none_iff O objs offset false hoff).mpr (Or.inl hc)
        rw [this] at hp; cases hp
      have hpne : pop ≠ [] := fun hc => hne ((objs_eq_nil_iff h2).mpr hc)
      have hwne : ws ≠ [] := by
        intro hc; rw [hc] at hlen; exact hne (List.eq_nil_of_length_eq_zero hlen.symm)
      have hz := propWeights_sum_zero_iff O objs offset ws hp
      obtain ⟨w0, rest, rfl⟩ := List.exists_cons_of_ne_nil hwne
      by_cases hzero : sum (w0 :: rest) = 0
      · have hnpos : ¬ 0 < sum (w0 :: rest) := by rw [hzero]; exact lt_irrefl _
        simp only [susIndices, hnpos, not_false_eq_true, if_true, true_iff, ne_eq, reduceCtorEq, and_true]
        have := hz.mp hzero
        exact ⟨Or.inr ⟨this.1, this.2.imp fun c hc => ⟨hc.1, (forall_objs_iff h3 c).mp hc.2⟩⟩, by simp⟩
      · have hpos : 0 < sum (w0 :: rest) := lt_of_le_of_ne (sum_nonneg _ hnn) (Ne.symm hzero)
        simp only [susIndices, hpos, not_true_eq_false, if_false, reduceCtorEq, false_iff, ne_eq,
          not_false_eq_true, and_true, hpne, false_or, not_and, not_exists]
        intro ho c hc hall
        exact hzero (hz.mpr ⟨ho, c, hc, (forall_objs_iff h3 c).mpr hall⟩)

/-! ### tournament -/

theorem tournamentRounds_ok_of {pop : Pop F} {ss : List (List Nat)}
    (h : ∀ c ∈ ss, ∃ win, tournamentRound pop c = .ok win) : ∃ sel, tournamentRounds pop ss = .ok sel := by
  induction ss with
  | nil => exact ⟨[], rfl⟩
  | cons c cs ih =>
    obtain ⟨win, hw⟩ := h c (by simp)
    obtain ⟨sel, hs⟩ := ih (fun c' hc' => h c' (by simp [hc']))
    exact ⟨win :: sel, by simp [tournamentRounds, hw, hs]⟩

theorem tournament_outcome (O : Ops F) (n size : Nat) (ss : List (List Nat)) (pop : Pop F)
    (hev : Evaluated pop) (hl : Legal (.tournament n size) pop (.sets ss)) :
    (select O (.tournament n size) (.sets ss) pop = .error .exec ↔ pop.length < size ∨ (size = 0 ∧ n ≠ 0)) ∧
    select O (.tournament n size) (.sets ss) pop ≠ .error .panic := by
  simp only [Legal] at hl
  rw [select_tournament]
  by_cases hlt : pop.length < size
  · simp [hlt]
  · simp only [hlt, if_false, false_or]
    by_cases hs : size = 0
    · subst hs
      cases ss with
      | nil => simp [tournamentRounds, ← hl.1]
      | cons c cs =>
        have hc := hl.2 c (by simp)
        have : c = [] := List.eq_nil_of_length_eq_zero (by simpa using hc.1)
        subst this
        have hn : n ≠ 0 := by rw [← hl.1]; simp
        simp [tournamentRounds, tournamentRound_err_of_empty (pop := pop) (c := []) rfl, hn]
    · have : ∀ c ∈ ss, ∃ win, tournamentRound pop c = .ok win := by
        intro c hc
        obtain ⟨h1, _, h3⟩ := hl.2 c hc
        apply tournamentRound_ok_of hev
        intro hnil
        have := pick_length pop c h3
        rw [hnil, h1] at this
        simp at this; omega
      obtain ⟨sel, hsel⟩ := tournamentRounds_ok_of this
      simp [hsel, hs]

theorem forall₂_exists_left {α β : Type} {R : α → β → Prop} {l1 : List α} {l2 : List β}
    (h : List.Forall₂ R l1 l2) {b : β} (hb : b ∈ l2) : ∃ a ∈ l1, R a b := by
  induction h with
  | nil => simp at hb
  | cons hr _ ih =>
    rcases List.mem_cons.mp hb with rfl | hb
    · exact ⟨_, by simp, hr⟩
    · obtain ⟨a, ha, hR⟩ := ih hb
      exact ⟨a, by simp [ha], hR⟩

/-- every winner is the first minimum of its competitor list -/
theorem tournament_winners (O : Ops F) (n size : Nat) (ss : List (List Nat)) (pop sel : Pop F)
    (h : select O (.tournament n size) (.sets ss) pop = .ok sel) :
    List.Forall₂ (fun c win => ∃ a, win.obj = some a ∧
        (∀ x ∈ pick pop c, ∃ b, x.obj = some b ∧ a ≤ b) ∧
        ∃ pre post, pick pop c = pre ++ win :: post ∧ ∀ y ∈ pre, ∃ b, y.obj = some b ∧ a < b) ss sel := by
  rw [select_tournament] at h
  split_ifs at h
  exact (tournamentRounds_spec h).imp fun _ _ hc => tournamentRound_spec hc

theorem tournament_whole_population (O : Ops F) (n : Nat) (ss : List (List Nat)) (pop sel : Pop F)
    (hl : Legal (.tournament n pop.length) pop (.sets ss))
    (h : select O (.tournament n pop.length) (.sets ss) pop = .ok sel) :
    ∀ win ∈ sel, ∃ a, win.obj = some a ∧ ∀ x ∈ pop, ∃ b, x.obj = some b ∧ a ≤ b := by
  have hw := tournament_winners O n pop.length ss pop sel h
  simp only [Legal] at hl
  intro win hwin
  obtain ⟨c, hc, a, ha, hmin, _⟩ := forall₂_exists_left hw hwin
  obtain ⟨h1, h2, h3⟩ := hl.2 c hc
  have hperm := pick_perm_of_full pop c (by simpa using h1) h2 h3
  exact ⟨a, ha, fun x hx => hmin x (hperm.mem_iff.mpr hx)⟩

/-- position `j` holds a member whose objective is strictly lower than `a` -/
def posBetter (pop : Pop F) (a : F) (j : Nat) : Bool :=
  match pop[j]? with
  | some x => match x.obj with
    | some b => decide (b < a)
    | none => false
  | none => false

/-- A tournament winner can be beaten by at most `len - size` members: the positions holding a
strictly better member are disjoint from the `size` distinct competitor positions. -/
theorem tournament_winner_rank (O : Ops F) (n size : Nat) (ss : List (List Nat)) (pop sel : Pop F)
    (hl : Legal (.tournament n size) pop (.sets ss))
    (h : select O (.tournament n size) (.sets ss) pop = .ok sel) :
    ∀ win ∈ sel, ∃ a, win.obj = some a ∧
      ((List.range pop.length).filter (posBetter pop a)).length + size ≤ pop.length := by
  have hw := tournament_winners O n size ss pop sel h
  have hsz : size ≤ pop.length := by
    rw [select_tournament] at h
    split_ifs at h with hlt
    omega
  simp only [Legal] at hl
  intro win hwin
  obtain ⟨c, hc, a, ha, hmin, _⟩ := forall₂_exists_left hw hwin
  obtain ⟨h1, h2, h3⟩ := hl.2 c hc
  refine ⟨a, ha, ?_⟩
  have hclen : c.length = size := by rw [h1]; omega
  have hdisj : ∀ j ∈ (List.range pop.length).filter (posBetter pop a), j ∉ c := by
    intro j hj hjc
    obtain ⟨hjr, hjb⟩ := List.mem_filter.mp hj
    have hjl : j < pop.length := by simpa using hjr
    have hmem : pop[j] ∈ pick pop c := by
      simp only [pick, List.mem_filterMap]
      exact ⟨j, hjc, List.getElem?_eq_getElem hjl⟩
    obtain ⟨b, hb, hab⟩ := hmin _ hmem
    simp only [posBetter, List.getElem?_eq_getElem hjl, hb, decide_eq_true_eq] at hjb
    exact absurd hjb (not_lt.mpr hab)
  have hnd : ((List.range pop.length).filter (posBetter pop a) ++ c).Nodup := by
    rw [List.nodup_append]
    refine ⟨List.nodup_range.filter _, h2, ?_⟩
    intro x hx y hy hxy
    subst hxy
    exact hdisj x hx hy
  have hsub : ((List.range pop.length).filter (posBetter pop a) ++ c) ⊆ List.range pop.length := by
    intro x hx
    rcases List.mem_append.mp hx with hx | hx
    · exact (List.mem_filter.mp hx).1
    · simpa using h3 x hx
  have := (List.subperm_of_subset hnd hsub).length_le
  simp only [List.length_append, List.length_range, hclen] at this
  exact this

/-! ### ranking operators -/

theorem reverseRank_ge_one (objs : List F) : ∀ r ∈ reverseRank objs, 1 ≤ r := by
  intro r hr
  obtain ⟨i, hi, rfl⟩ := List.getElem_of_mem hr
  have hi' : i < objs.length := by rw [← reverseRank_length objs]; exact hi
  exact (reverseRank_spec objs i i hi' hi' hi hi).2.2.1

theorem maxNat_pos_of_mem (l : List Nat) (r : Nat) (hr : r ∈ l) (h1 : 1 ≤ r) : 1 ≤ maxNat l :=
  le_trans h1 (le_maxNat l r hr)

theorem linearRank_outcome (O : Ops F) (n : Nat) (is : List Nat) (pop : Pop F) (hev : Evaluated pop) :
    (select O (.linearRank n) (.idx is) pop = .error .exec ↔ pop = []) ∧
    select O (.linearRank n) (.idx is) pop ≠ .error .panic := by
  obtain ⟨objs, h1, h2, _⟩ := objectives_of_evaluated hev
  rw [select_linearRank, h1]
  simp only
  cases pop with
  | nil =>
    have : objs = [] := List.eq_nil_of_length_eq_zero (by simpa using h2)
    subst this; simp [reverseRank, linearRankWeights]
  | cons x xs =>
    have hlen : (reverseRank objs).length = xs.length + 1 := by rw [reverseRank_length, h2]; simp
    have hne : (linearRankWeights (reverseRank objs)).isEmpty = false := by
      cases hr : reverseRank objs with
      | nil => rw [hr] at hlen; simp at hlen
      | cons r rs => simp [linearRankWeights]
    have hpos : maxNat (linearRankWeights (reverseRank objs)) ≠ 0 := by
      cases hr : reverseRank objs with
      | nil => rw [hr] at hlen; simp at hlen
      | cons r rs =>
        have hrm : r ≤ maxNat (r :: rs) := le_maxNat _ r (by simp)
        have : maxNat (r :: rs) + 1 - r ∈ linearRankWeights (r :: rs) := by simp [linearRankWeights]
        have := le_maxNat _ _ this
        omega
    simp [hne, hpos]

theorem exponentialRank_outcome (O : Ops F) (hfin : ∀ x, O.fin x = true) (hpow : ∀ (b : F) (k : Nat), O.powi b k = b ^ k)
    (n : Nat) (base : F) (hb0 : 0 < base) (hb1 : base < 1) (is : List Nat) (pop : Pop F) (hev : Evaluated pop) :
    (select O (.exponentialRank n base) (.idx is) pop = .error .exec ↔ pop = []) ∧
    select O (.exponentialRank n base) (.idx is) pop ≠ .error .panic := by
  obtain ⟨objs, h1, h2, _⟩ := objectives_of_evaluated hev
  rw [select_exponentialRank, h1]
  simp only [sampleWeighted]
  have hpos : ∀ w ∈ exponentialRankWeights O base (reverseRank objs), 0 < w := by
    intro w hw
    simp only [exponentialRankWeights, hpow] at hw
    obtain ⟨r, hr, rfl⟩ := List.mem_map.mp hw
    exact expWeight_pos base hb0 hb1 _ _ (maxNat_pos_of_mem _ r hr (reverseRank_ge_one objs r hr))
  obtain ⟨w1, w2, w3⟩ := weightedIndexNew_of_nonneg O hfin _ (fun w hw => le_of_lt (hpos w hw))
  have hwlen : (exponentialRankWeights O base (reverseRank objs)).length = pop.length := by
    simp [exponentialRankWeights, reverseRank_length, h2]
  cases pop with
  | nil =>
    have : exponentialRankWeights O base (reverseRank objs) = [] := List.eq_nil_of_length_eq_zero (by simpa using hwlen)
    rw [this]; simp [weightedIndexNew]
  | cons x xs =>
    have hne : exponentialRankWeights O base (reverseRank objs) ≠ [] := by
      intro hc; rw [hc] at hwlen; simp at hwlen
    have hsum : sum (exponentialRankWeights O base (reverseRank objs)) ≠ 0 := by
      obtain ⟨w, hw⟩ := List.exists_mem_of_ne_nil _ hne
      exact ne_of_gt (sum_pos_of_mem _ (fun w hw => le_of_lt (hpos w hw)) w hw (hpos w hw))
    rw [w3.mpr ⟨hne, hsum⟩]
    simp

/-! ### DE selections and IWO -/

theorem best_outcome (pop : Pop F) (hev : Evaluated pop) :
    (pop = [] → best pop = .ok none) ∧ (pop ≠ [] → ∃ b, best pop = .ok (some b)) := by
  obtain ⟨ks, hks⟩ := withKeys_isSome_of_evaluated hev
  simp only [best, hks]
  have hfst := withKeys_map_fst hks
  constructor
  · intro hp; subst hp
    have : ks = [] := by simpa using hfst
    subst this; rfl
  · intro hp
    cases hm : firstMin ks with
    | none =>
      have : ks = [] := firstMin_eq_none.mp hm
      subst this; exact absurd hfst.symm hp
    | some m => exact ⟨m.1, rfl⟩

/-- a legal "best" position: `None` exactly on the empty population, never a panic on evaluated input -/
theorem bestAt_outcome (pop : Pop F) (hev : Evaluated pop) (i : Nat) (hb : BestIdx pop i) :
    (pop = [] → bestAt pop i = .ok none) ∧ (pop ≠ [] → ∃ b, bestAt pop i = .ok (some b)) := by
  obtain ⟨ks, hks⟩ := withKeys_isSome_of_evaluated hev
  simp only [bestAt, hks]
  constructor
  · intro hp; subst hp; rfl
  · intro hp
    rcases hb with rfl | ⟨x, _, hx, _⟩
    · exact absurd rfl hp
    · exact ⟨x, by rw [hx]⟩

/-- The code's own choice (`min_by_key`: the first minimum) is a legal "best" position, and the model run
with that position does what `best` does. -/
theorem best_is_legal_choice (pop : Pop F) (b : Ind F) (h : best pop = .ok (some b)) :
    ∃ i, pop[i]? = some b ∧ BestIdx pop i ∧ bestAt pop i = best pop := by
  simp only [best] at h
  cases hk : withKeys pop with
  | none => simp [hk] at h
  | some ks =>
    simp only [hk] at h
    injection h with h
    cases hm : firstMin ks with
    | none => simp [hm] at h
    | some m =>
      simp only [hm, Option.map_some, Option.some.injEq] at h
      obtain ⟨h1, pre, post, h2, _⟩ := firstMin_spec hm
      have hfst := withKeys_map_fst hk
      have hobj := withKeys_obj hk
      have hget : pop[pre.length]? = some b := by
        rw [← hfst, h2, ← h]; simp
      refine ⟨pre.length, hget, Or.inr ⟨b, m.2, hget, ?_, ?_⟩, ?_⟩
      · rw [← h]; exact hobj m (firstMin_mem hm)
      · intro x hx c hc
        rw [← hfst] at hx
        obtain ⟨p, hp, rfl⟩ := List.mem_map.mp hx
        have := hobj p hp
        rw [this] at hc; injection hc with hc; subst hc
        exact h1 p hp
      · simp only [bestAt, best, hk, hm, Option.map_some, hget, h]

theorem de_rand_outcome (O : Ops F) (y : Nat) (ss : List (List Nat)) (pop : Pop F) :
    (select O (.deRand y) (.sets ss) pop = .error .exec ↔ pop.length < 2 * y + 1) ∧
    select O (.deRand y) (.sets ss) pop ≠ .error .panic := by
  rw [select_deRand]
  by_cases h : pop.length < 2 * y + 1 <;> simp [h]

theorem de_outcome (O : Ops F) (y bi : Nat) (ss : List (List Nat)) (pop : Pop F) (hev : Evaluated pop)
    (hbi : BestIdx pop bi) :
    (select O (.deBest y) (.setsBest bi ss) pop = .error .exec ↔ pop.length < 2 * y ∨ pop = []) ∧
    select O (.deBest y) (.setsBest bi ss) pop ≠ .error .panic ∧
    (select O (.deCurrentToBest y) (.setsBest bi ss) pop = .error .exec ↔
      pop = [] ∨ ∃ ind ∈ pop, (pop.filter (fun j => !sameInd j ind)).length < 2 * y - 1) ∧
    select O (.deCurrentToBest y) (.setsBest bi ss) pop ≠ .error .panic := by
  obtain ⟨hb1, hb2⟩ := bestAt_outcome pop hev bi hbi
  rw [select_deBest, select_deCurrentToBest]
  refine ⟨?_, ?_, ?_, ?_⟩
  · by_cases h : pop.length < 2 * y
    · simp [h]
    · by_cases hp : pop = []
      · rw [hb1 hp]; simp [h, hp]
      · obtain ⟨b, hb⟩ := hb2 hp
        rw [hb]; simp [h, hp]
  · by_cases h : pop.length < 2 * y
    · simp [h]
    · by_cases hp : pop = []
      · rw [hb1 hp]; simp [h]
      · obtain ⟨b, hb⟩ := hb2 hp
        rw [hb]; simp [h]
  · by_cases hp : pop = []
    · rw [hb1 hp]; simp [hp]
    · obtain ⟨b, hb⟩ := hb2 hp
      rw [hb]
      simp only [hp, false_or]
      by_cases hany : pop.any (fun ind => decide ((pop.filter (fun j => !sameInd j ind)).length < 2 * y - 1)) = true
      · simp only [hany, if_true, true_iff]
        obtain ⟨ind, hi, hd⟩ := List.any_eq_true.mp hany
        exact ⟨ind, hi, by simpa using hd⟩
      · simp only [hany, Bool.false_eq_true, if_false, reduceCtorEq, false_iff, not_exists, not_and]
        intro ind hi hc
        exact hany (List.any_eq_true.mpr ⟨ind, hi, by simpa using hc⟩)
  · by_cases hp : pop = []
    · rw [hb1 hp]; simp
    · obtain ⟨b, hb⟩ := hb2 hp
      rw [hb]
      split_ifs <;> simp

theorem iwo_outcome (O : Ops F) (hfin : ∀ x, O.fin x = true) (a b : Nat) (w : Witness F) (pop : Pop F)
    (hev : Evaluated pop) :
    (select O (.iwo a b) w pop = .error .exec ↔ b < a ∨ pop = []) ∧
    select O (.iwo a b) w pop ≠ .error .panic ∧
    (pop ≠ [] → a ≤ b → ∃ objs worst bst, objectives pop = some objs ∧ objectiveBounds objs = some (worst, bst) ∧
      select O (.iwo a b) w pop =
        .ok ((pop.zip objs).flatMap fun (ind, o) => List.replicate (iwoCount O a b worst bst o) ind)) := by
  obtain ⟨objs, h1, h2, _⟩ := objectives_of_evaluated hev
  rw [select_iwo]
  by_cases hab : b < a
  · simp [hab]
  · simp only [hab, if_false, false_or]
    cases pop with
    | nil => simp
    | cons x xs =>
      simp only [h1]
      cases hb : objectiveBounds objs with
      | none =>
        have := objectiveBounds_eq_none.mp hb
        subst this; simp at h2
      | some p =>
        obtain ⟨worst, bst⟩ := p
        simp only [hfin, Bool.not_true, Bool.false_eq_true, if_false]
        refine ⟨by simp, by simp, fun _ _ => ⟨objs, worst, bst, rfl, hb, rfl⟩⟩

/-- `min_selected > max_selected` is an `Err` on every population, evaluated or not -/
theorem iwo_min_gt_max (O : Ops F) (a b : Nat) (w : Witness F) (pop : Pop F) (hba : b < a) :
    select O (.iwo a b) w pop = .error .exec := by
  rw [select_iwo]; simp [hba]

end
end MahfModel.Selection
