/- The pass-count prediction on the single-loop templates as functions of their parameters: for every parameter value
the run is `v0` evaluations followed by a loop with `e` evaluations per pass (`budgetOf`). -/
import MahfModel.Proofs.C16BudgetParam
namespace MahfModel.Tpl
set_option linter.unusedSimpArgs false

/-- Evaluations per pass of the loop and before it, where the parameters determine them (not: invasive weed
optimisation — the number of seeds varies, firefly — the position update evaluates by itself, chemical reaction —
one or two molecules react; iterated local search has its own theorem). -/
def budgetOf : Tid → List Nat → Option (Nat × Nat)
  | .real_ga, [n, _] | .binary_ga, [n, _] | .real_de, [n, _] => some (n, n)
  | .real_es, [mu, lam] => some (lam, mu)
  | .real_pso, [n] => some (n, n)
  | .real_sa, [] | .permutation_sa, [_] | .real_rs, [] | .permutation_rs, [] => some (1, 1)
  | .real_ls, [k] | .permutation_ls, [k, _] => some (k, 1)
  | .real_rw, [] | .permutation_rw, [_] => some (1, 0)
  | .real_bh, [n] => some (n + n, n)
  | .ant_system, [ants] | .max_min_ant_system, [ants] => some (ants + 1, 0)
  | _, _ => none

/-- The tree of a single-loop template carries these amounts: whatever the (static) termination condition `c`, the
prediction for a run on any state is one loop execution of `firstStop c e 0 v0` passes. -/
def SingleLoop (t : SComp) (c : BCond) (e v0 : Nat) : Prop :=
  ∃ b, toBTop t [c] = some b ∧
    ∀ (F p : Nat) (prior : Lvl), c.static = true → firstStop c e F 0 (some v0) = some p →
      predictRun F b prior = some (⟨some p, some (v0 + p * e)⟩, [(0, p)])

theorem toB_loop_one (body : SComp) (cs : List BCond) (st out inv out2 : AbsStack) (b0 b : BComp) (cs0 cs' : List BCond)
    (hb : toB body cs.tail st = some (b0, out, cs0)) (hj : stackJoin st out = some inv) (hne : inv ≠ st)
    (hb2 : toB body cs.tail inv = some (b, out2, cs')) (hj2 : stackJoin inv out2 = some inv)
    (h1 : stackLe st inv = true) (h2 : stackLe out2 inv = true) :
    toB (.loop body) cs st = some (.loop (cs.headD .opaque) b, inv, cs') := by
  have hf := findInv_one (fun s => (toB body cs.tail s).map (·.2.1)) 6 2 st out inv out2 (by simp [hb]) hj hne
    (by simp [hb2]) hj2
  simp only [toB, hf, hb2, h1, h2, Bool.and_self, if_true]

macro "tob_simp" : tactic =>
  `(tactic| simp [sq, SComps.ofList, l0, evalUpd, toB, toBs, sizeStep, opOf, astep, Itv.exact, stackJoin, leafB, evalLeaf,
      Itv.join, Itv.hiMax, Itv.hiMin, Itv.hiAdd, Itv.hiLe, Itv.mulC, Itv.divC, Itv.add, Itv.capC, Itv.meet, Itv.half,
      bsq, BComps.ofList, stackLe, Itv.le])

macro "top_simp" hl:ident : tactic =>
  `(tactic| (simp [toBTop, toB, toBs, sizeStep, opOf, astep, Itv.exact, leafB, evalLeaf, $hl:ident]; rfl))

macro "pred_simp" hc:ident hp:ident : tactic =>
  `(tactic| simp [predictRun, bsq, BComps.ofList, predict, predicts, binit, binits, directB, directBs, evalsOf, evalsOfL,
      quiet, quiets, $hc:ident, $hp:ident, repLog, repLog_nil, Nat.add_comm, Nat.mul_comm])

theorem exact1 (n : Nat) :
    stackJoin [⟨n, some n⟩] [⟨n, some n⟩] = some [⟨n, some n⟩] ∧ stackLe [⟨n, some n⟩] [⟨n, some n⟩] = true := by
  simp [stackJoin, Itv.join, Itv.hiMax, stackLe, Itv.le, Itv.hiLe]

theorem real_ga_single (n ts : Nat) (c : BCond) :
    SingleLoop (gaS .RandomSpread .NormalMutation .Saturation n ts) c (n) (n) := by
  have hl := toB_loop_fix (sq ([.leaf .Tournament n ts, .leaf .UniformCrossover 1 0, .branch (sq [l0 .NormalMutation]) (sq []), l0 .Saturation] ++ evalUpd ++ [l0 .Generational, l0 .Logger]))
      [c] [⟨n, some (n)⟩] [⟨n, some (n)⟩]
      (bsq [.leaf, .leaf, .branch (bsq [.leaf]) (bsq []), .leaf, .eval n, .leaf, .leaf, .leaf]) []
      (by tob_simp) (exact1 (n)).1 (exact1 (n)).2 (exact1 (n)).2
  simp only [gaS, lsLoop, sq, SComps.ofList, List.cons_append, List.nil_append, evalUpd, l0] at hl ⊢
  generalize SComp.loop _ = L at hl ⊢
  refine ⟨_, by top_simp hl, ?_⟩
  intro F p prior hc hp
  cases prior
  pred_simp hc hp

theorem binary_ga_single (n ts : Nat) (c : BCond) :
    SingleLoop (gaS .RandomBitstring .BitFlipMutation .Noop n ts) c (n) (n) := by
  have hl := toB_loop_fix (sq ([.leaf .Tournament n ts, .leaf .UniformCrossover 1 0, .branch (sq [l0 .BitFlipMutation]) (sq []), l0 .Noop] ++ evalUpd ++ [l0 .Generational, l0 .Logger]))
      [c] [⟨n, some (n)⟩] [⟨n, some (n)⟩]
      (bsq [.leaf, .leaf, .branch (bsq [.leaf]) (bsq []), .leaf, .eval n, .leaf, .leaf, .leaf]) []
      (by tob_simp) (exact1 (n)).1 (exact1 (n)).2 (exact1 (n)).2
  simp only [gaS, lsLoop, sq, SComps.ofList, List.cons_append, List.nil_append, evalUpd, l0] at hl ⊢
  generalize SComp.loop _ = L at hl ⊢
  refine ⟨_, by top_simp hl, ?_⟩
  intro F p prior hc hp
  cases prior
  pred_simp hc hp

theorem real_es_single (mu lam : Nat) (c : BCond) :
    SingleLoop (esS mu lam) c (lam) (mu) := by
  have hl := toB_loop_fix (sq ([.leaf .FullyRandom lam 0, l0 .NormalMutation, l0 .Saturation] ++ evalUpd ++ [.leaf .MuPlusLambda mu 0, l0 .Logger]))
      [c] [⟨mu, some (mu)⟩] [⟨mu, some (mu)⟩]
      (bsq [.leaf, .leaf, .leaf, .eval lam, .leaf, .leaf, .leaf]) []
      (by tob_simp) (exact1 (mu)).1 (exact1 (mu)).2 (exact1 (mu)).2
  simp only [esS, lsLoop, sq, SComps.ofList, List.cons_append, List.nil_append, evalUpd, l0] at hl ⊢
  generalize SComp.loop _ = L at hl ⊢
  refine ⟨_, by top_simp hl, ?_⟩
  intro F p prior hc hp
  cases prior
  pred_simp hc hp

theorem real_de_single (n y : Nat) (c : BCond) :
    SingleLoop (deS n y) c (n) (n) := by
  have hl := toB_loop_fix (sq ([.leaf .DEBest y 0, .leaf .DEMutation y 0, l0 .DEBinomialCrossover, l0 .Saturation] ++ evalUpd ++ [l0 .KeepBetterAtIndex, l0 .Logger]))
      [c] [⟨n, some (n)⟩] [⟨n, some (n)⟩]
      (bsq [.leaf, .leaf, .leaf, .leaf, .eval n, .leaf, .leaf, .leaf]) []
      (by tob_simp) (exact1 (n)).1 (exact1 (n)).2 (exact1 (n)).2
  simp only [deS, lsLoop, sq, SComps.ofList, List.cons_append, List.nil_append, evalUpd, l0] at hl ⊢
  generalize SComp.loop _ = L at hl ⊢
  refine ⟨_, by top_simp hl, ?_⟩
  intro F p prior hc hp
  cases prior
  pred_simp hc hp

theorem real_pso_single (n : Nat) (c : BCond) :
    SingleLoop (psoS n) c (n) (n) := by
  have hl := toB_loop_fix (sq ([l0 .ParticleVelocitiesUpdate, l0 .Saturation] ++ evalUpd ++ [l0 .Linear, sq [l0 .PersonalBestParticlesUpdate, l0 .GlobalBestParticleUpdate], l0 .Logger]))
      [c] [⟨n, some (n)⟩] [⟨n, some (n)⟩]
      (bsq [.leaf, .leaf, .eval n, .leaf, .leaf, bsq [.leaf, .leaf], .leaf]) []
      (by tob_simp) (exact1 (n)).1 (exact1 (n)).2 (exact1 (n)).2
  simp only [psoS, lsLoop, sq, SComps.ofList, List.cons_append, List.nil_append, evalUpd, l0] at hl ⊢
  generalize SComp.loop _ = L at hl ⊢
  refine ⟨_, by top_simp hl, ?_⟩
  intro F p prior hc hp
  cases prior
  pred_simp hc hp

theorem real_sa_single  (c : BCond) :
    SingleLoop (saS .RandomSpread .NormalMutation .Saturation) c (1) (1) := by
  have hl := toB_loop_fix (sq ([l0 .All, l0 .NormalMutation, l0 .Saturation] ++ evalUpd ++ [l0 .GeometricCooling, l0 .ExponentialAnnealingAcceptance, l0 .Logger]))
      [c] [⟨1, some (1)⟩] [⟨1, some (1)⟩]
      (bsq [.leaf, .leaf, .leaf, .eval 1, .leaf, .leaf, .leaf, .leaf]) []
      (by tob_simp) (exact1 (1)).1 (exact1 (1)).2 (exact1 (1)).2
  simp only [saS, lsLoop, sq, SComps.ofList, List.cons_append, List.nil_append, evalUpd, l0] at hl ⊢
  generalize SComp.loop _ = L at hl ⊢
  refine ⟨_, by top_simp hl, ?_⟩
  intro F p prior hc hp
  cases prior
  pred_simp hc hp

theorem permutation_sa_single  (c : BCond) :
    SingleLoop (saS .RandomPermutation .SwapMutation .Noop) c (1) (1) := by
  have hl := toB_loop_fix (sq ([l0 .All, l0 .SwapMutation, l0 .Noop] ++ evalUpd ++ [l0 .GeometricCooling, l0 .ExponentialAnnealingAcceptance, l0 .Logger]))
      [c] [⟨1, some (1)⟩] [⟨1, some (1)⟩]
      (bsq [.leaf, .leaf, .leaf, .eval 1, .leaf, .leaf, .leaf, .leaf]) []
      (by tob_simp) (exact1 (1)).1 (exact1 (1)).2 (exact1 (1)).2
  simp only [saS, lsLoop, sq, SComps.ofList, List.cons_append, List.nil_append, evalUpd, l0] at hl ⊢
  generalize SComp.loop _ = L at hl ⊢
  refine ⟨_, by top_simp hl, ?_⟩
  intro F p prior hc hp
  cases prior
  pred_simp hc hp

theorem real_ls_single (k : Nat) (c : BCond) :
    SingleLoop (realLsS k) c (k) (1) := by
  have hl := toB_loop_fix (sq ([.leaf .CloneSingle k 0, l0 .NormalMutation, l0 .Saturation] ++ evalUpd ++ [.leaf .MuPlusLambda 1 0, l0 .Logger]))
      [c] [⟨1, some (1)⟩] [⟨1, some (1)⟩]
      (bsq [.leaf, .leaf, .leaf, .eval k, .leaf, .leaf, .leaf]) []
      (by tob_simp) (exact1 (1)).1 (exact1 (1)).2 (exact1 (1)).2
  simp only [realLsS, lsLoop, sq, SComps.ofList, List.cons_append, List.nil_append, evalUpd, l0] at hl ⊢
  generalize SComp.loop _ = L at hl ⊢
  refine ⟨_, by top_simp hl, ?_⟩
  intro F p prior hc hp
  cases prior
  pred_simp hc hp

theorem permutation_ls_single (k : Nat) (c : BCond) :
    SingleLoop (permLsS k) c (k) (1) := by
  have hl := toB_loop_fix (sq ([.leaf .CloneSingle k 0, l0 .SwapMutation, l0 .Noop] ++ evalUpd ++ [.leaf .MuPlusLambda 1 0, l0 .Logger]))
      [c] [⟨1, some (1)⟩] [⟨1, some (1)⟩]
      (bsq [.leaf, .leaf, .leaf, .eval k, .leaf, .leaf, .leaf]) []
      (by tob_simp) (exact1 (1)).1 (exact1 (1)).2 (exact1 (1)).2
  simp only [permLsS, lsLoop, sq, SComps.ofList, List.cons_append, List.nil_append, evalUpd, l0] at hl ⊢
  generalize SComp.loop _ = L at hl ⊢
  refine ⟨_, by top_simp hl, ?_⟩
  intro F p prior hc hp
  cases prior
  pred_simp hc hp

theorem real_rs_single  (c : BCond) :
    SingleLoop (rsS .RandomSpread .PartialRandomSpread) c (1) (1) := by
  have hl := toB_loop_fix (sq ([l0 .All, l0 .PartialRandomSpread] ++ evalUpd ++ [.leaf .MuPlusLambda 1 0, l0 .Logger]))
      [c] [⟨1, some (1)⟩] [⟨1, some (1)⟩]
      (bsq [.leaf, .leaf, .eval 1, .leaf, .leaf, .leaf]) []
      (by tob_simp) (exact1 (1)).1 (exact1 (1)).2 (exact1 (1)).2
  simp only [rsS, lsLoop, sq, SComps.ofList, List.cons_append, List.nil_append, evalUpd, l0] at hl ⊢
  generalize SComp.loop _ = L at hl ⊢
  refine ⟨_, by top_simp hl, ?_⟩
  intro F p prior hc hp
  cases prior
  pred_simp hc hp

theorem permutation_rs_single  (c : BCond) :
    SingleLoop (rsS .RandomPermutation .ScrambleMutation) c (1) (1) := by
  have hl := toB_loop_fix (sq ([l0 .All, l0 .ScrambleMutation] ++ evalUpd ++ [.leaf .MuPlusLambda 1 0, l0 .Logger]))
      [c] [⟨1, some (1)⟩] [⟨1, some (1)⟩]
      (bsq [.leaf, .leaf, .eval 1, .leaf, .leaf, .leaf]) []
      (by tob_simp) (exact1 (1)).1 (exact1 (1)).2 (exact1 (1)).2
  simp only [rsS, lsLoop, sq, SComps.ofList, List.cons_append, List.nil_append, evalUpd, l0] at hl ⊢
  generalize SComp.loop _ = L at hl ⊢
  refine ⟨_, by top_simp hl, ?_⟩
  intro F p prior hc hp
  cases prior
  pred_simp hc hp

theorem real_rw_single  (c : BCond) :
    SingleLoop (rwS .RandomSpread .NormalMutation .Saturation) c (1) (0) := by
  have hl := toB_loop_fix (sq ([l0 .All, l0 .NormalMutation, l0 .Saturation] ++ evalUpd ++ [l0 .Generational, l0 .Logger]))
      [c] [⟨1, some (1)⟩] [⟨1, some (1)⟩]
      (bsq [.leaf, .leaf, .leaf, .eval 1, .leaf, .leaf, .leaf]) []
      (by tob_simp) (exact1 (1)).1 (exact1 (1)).2 (exact1 (1)).2
  simp only [rwS, lsLoop, sq, SComps.ofList, List.cons_append, List.nil_append, evalUpd, l0] at hl ⊢
  generalize SComp.loop _ = L at hl ⊢
  refine ⟨_, by top_simp hl, ?_⟩
  intro F p prior hc hp
  cases prior
  pred_simp hc hp

theorem permutation_rw_single  (c : BCond) :
    SingleLoop (rwS .RandomPermutation .SwapMutation .Noop) c (1) (0) := by
  have hl := toB_loop_fix (sq ([l0 .All, l0 .SwapMutation, l0 .Noop] ++ evalUpd ++ [l0 .Generational, l0 .Logger]))
      [c] [⟨1, some (1)⟩] [⟨1, some (1)⟩]
      (bsq [.leaf, .leaf, .leaf, .eval 1, .leaf, .leaf, .leaf]) []
      (by tob_simp) (exact1 (1)).1 (exact1 (1)).2 (exact1 (1)).2
  simp only [rwS, lsLoop, sq, SComps.ofList, List.cons_append, List.nil_append, evalUpd, l0] at hl ⊢
  generalize SComp.loop _ = L at hl ⊢
  refine ⟨_, by top_simp hl, ?_⟩
  intro F p prior hc hp
  cases prior
  pred_simp hc hp

theorem real_bh_single (n : Nat) (c : BCond) :
    SingleLoop (bhS n) c (n + n) (n) := by
  have hl := toB_loop_fix (sq ([l0 .BlackHoleParticlesUpdate, l0 .Saturation] ++ evalUpd ++ [l0 .EventHorizon] ++ evalUpd ++ [l0 .Logger]))
      [c] [⟨n, some (n)⟩] [⟨n, some (n)⟩]
      (bsq [.leaf, .leaf, .eval n, .leaf, .leaf, .eval n, .leaf, .leaf]) []
      (by tob_simp) (exact1 (n)).1 (exact1 (n)).2 (exact1 (n)).2
  simp only [bhS, lsLoop, sq, SComps.ofList, List.cons_append, List.nil_append, evalUpd, l0] at hl ⊢
  generalize SComp.loop _ = L at hl ⊢
  refine ⟨_, by top_simp hl, ?_⟩
  intro F p prior hc hp
  cases prior
  pred_simp hc hp

/-- Ant colony: the loop is entered on the empty population; the generation replaces it by `ants + 1` routes (loop
invariant `[0, ants + 1]`, found after one round), all of which are evaluated. -/
theorem ant_system_single (ants : Nat) (c : BCond) : SingleLoop (acoS .AsPheromoneUpdate ants) c (ants + 1) 0 := by
  have hbody : ∀ x : Itv, toB (sq ([.leaf .AcoGeneration ants 0] ++ evalUpd ++ [l0 .AsPheromoneUpdate, l0 .Logger])) ([c] : List BCond).tail [x]
      = some (bsq [.leaf, .eval (ants + 1), .leaf, .leaf, .leaf], [⟨ants + 1, some (ants + 1)⟩], []) := by
    intro x
    tob_simp
  have hl := toB_loop_one _ [c] [⟨0, some 0⟩] [⟨ants + 1, some (ants + 1)⟩] [⟨0, some (ants + 1)⟩]
    [⟨ants + 1, some (ants + 1)⟩] _ _ _ _ (hbody _)
    (by simp [stackJoin, Itv.join, Itv.hiMax]) (by simp) (hbody _)
    (by simp [stackJoin, Itv.join, Itv.hiMax]) (by simp [stackLe, Itv.le, Itv.hiLe]) (by simp [stackLe, Itv.le, Itv.hiLe])
  simp only [acoS, sq, SComps.ofList, List.cons_append, List.nil_append, evalUpd, l0] at hl ⊢
  generalize SComp.loop _ = L at hl ⊢
  refine ⟨_, by top_simp hl, ?_⟩
  intro F p prior hc hp
  cases prior
  pred_simp hc hp

/-- Ant colony: the loop is entered on the empty population; the generation replaces it by `ants + 1` routes (loop
invariant `[0, ants + 1]`, found after one round), all of which are evaluated. -/
theorem max_min_ant_system_single (ants : Nat) (c : BCond) : SingleLoop (acoS .MinMaxPheromoneUpdate ants) c (ants + 1) 0 := by
  have hbody : ∀ x : Itv, toB (sq ([.leaf .AcoGeneration ants 0] ++ evalUpd ++ [l0 .MinMaxPheromoneUpdate, l0 .Logger])) ([c] : List BCond).tail [x]
      = some (bsq [.leaf, .eval (ants + 1), .leaf, .leaf, .leaf], [⟨ants + 1, some (ants + 1)⟩], []) := by
    intro x
    tob_simp
  have hl := toB_loop_one _ [c] [⟨0, some 0⟩] [⟨ants + 1, some (ants + 1)⟩] [⟨0, some (ants + 1)⟩]
    [⟨ants + 1, some (ants + 1)⟩] _ _ _ _ (hbody _)
    (by simp [stackJoin, Itv.join, Itv.hiMax]) (by simp) (hbody _)
    (by simp [stackJoin, Itv.join, Itv.hiMax]) (by simp [stackLe, Itv.le, Itv.hiLe]) (by simp [stackLe, Itv.le, Itv.hiLe])
  simp only [acoS, sq, SComps.ofList, List.cons_append, List.nil_append, evalUpd, l0] at hl ⊢
  generalize SComp.loop _ = L at hl ⊢
  refine ⟨_, by top_simp hl, ?_⟩
  intro F p prior hc hp
  cases prior
  pred_simp hc hp

/-- All 16 single-loop templates whose evaluation amounts the parameters determine, at every parameter value. -/
theorem tpl_single_loop_all (name : Tid) (ps : List Nat) (cool : Bool) (t : SComp) (e v0 : Nat) (c : BCond)
    (h : tplT name ps cool = some t) (hb : budgetOf name ps = some (e, v0)) : SingleLoop t c e v0 := by
  unfold tplT at h
  split at h
  next =>      -- real_ga
    injection h with h; subst h
    simp only [budgetOf, Option.some.injEq, Prod.mk.injEq] at hb
    obtain ⟨rfl, rfl⟩ := hb
    exact real_ga_single _ _ c
  next =>      -- binary_ga
    injection h with h; subst h
    simp only [budgetOf, Option.some.injEq, Prod.mk.injEq] at hb
    obtain ⟨rfl, rfl⟩ := hb
    exact binary_ga_single _ _ c
  next =>      -- real_es
    injection h with h; subst h
    simp only [budgetOf, Option.some.injEq, Prod.mk.injEq] at hb
    obtain ⟨rfl, rfl⟩ := hb
    exact real_es_single _ _ c
  next =>      -- real_de
    injection h with h; subst h
    simp only [budgetOf, Option.some.injEq, Prod.mk.injEq] at hb
    obtain ⟨rfl, rfl⟩ := hb
    exact real_de_single _ _ c
  next =>      -- real_pso
    injection h with h; subst h
    simp only [budgetOf, Option.some.injEq, Prod.mk.injEq] at hb
    obtain ⟨rfl, rfl⟩ := hb
    exact real_pso_single _ c
  next =>      -- real_sa
    injection h with h; subst h
    simp only [budgetOf, Option.some.injEq, Prod.mk.injEq] at hb
    obtain ⟨rfl, rfl⟩ := hb
    exact real_sa_single c
  next =>      -- permutation_sa
    injection h with h; subst h
    simp only [budgetOf, Option.some.injEq, Prod.mk.injEq] at hb
    obtain ⟨rfl, rfl⟩ := hb
    exact permutation_sa_single c
  next =>      -- real_ls
    injection h with h; subst h
    simp only [budgetOf, Option.some.injEq, Prod.mk.injEq] at hb
    obtain ⟨rfl, rfl⟩ := hb
    exact real_ls_single _ c
  next =>      -- permutation_ls
    injection h with h; subst h
    simp only [budgetOf, Option.some.injEq, Prod.mk.injEq] at hb
    obtain ⟨rfl, rfl⟩ := hb
    exact permutation_ls_single _ c
  next => simp [budgetOf] at hb   -- real_ils
  next => simp [budgetOf] at hb   -- permutation_ils
  next =>      -- real_rs
    injection h with h; subst h
    simp only [budgetOf, Option.some.injEq, Prod.mk.injEq] at hb
    obtain ⟨rfl, rfl⟩ := hb
    exact real_rs_single c
  next =>      -- permutation_rs
    injection h with h; subst h
    simp only [budgetOf, Option.some.injEq, Prod.mk.injEq] at hb
    obtain ⟨rfl, rfl⟩ := hb
    exact permutation_rs_single c
  next =>      -- real_rw
    injection h with h; subst h
    simp only [budgetOf, Option.some.injEq, Prod.mk.injEq] at hb
    obtain ⟨rfl, rfl⟩ := hb
    exact real_rw_single c
  next =>      -- permutation_rw
    injection h with h; subst h
    simp only [budgetOf, Option.some.injEq, Prod.mk.injEq] at hb
    obtain ⟨rfl, rfl⟩ := hb
    exact permutation_rw_single c
  next => simp [budgetOf] at hb   -- real_iwo
  next => simp [budgetOf] at hb   -- real_fa
  next =>      -- real_bh
    injection h with h; subst h
    simp only [budgetOf, Option.some.injEq, Prod.mk.injEq] at hb
    obtain ⟨rfl, rfl⟩ := hb
    exact real_bh_single _ c
  next => simp [budgetOf] at hb   -- real_cro
  next =>      -- ant_system
    injection h with h; subst h
    simp only [budgetOf, Option.some.injEq, Prod.mk.injEq] at hb
    obtain ⟨rfl, rfl⟩ := hb
    exact ant_system_single _ c
  next =>      -- max_min_ant_system
    injection h with h; subst h
    simp only [budgetOf, Option.some.injEq, Prod.mk.injEq] at hb
    obtain ⟨rfl, rfl⟩ := hb
    exact max_min_ant_system_single _ c
  next => cases h

end MahfModel.Tpl
