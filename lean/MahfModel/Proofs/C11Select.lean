/- Helper lemmas for C11, part 2: the `select` function of every operator. -/
import MahfModel.Proofs.C11
namespace MahfModel.Selection
set_option linter.unusedSectionVars false
set_option linter.unusedSimpArgs false

section
variable {F : Type} [Field F] [LinearOrder F] [IsStrictOrderedRing F]

theorem mem_of_mem_replicate' {α : Type} {n : Nat} {a x : α} (h : x ∈ List.replicate n a) : x = a :=
  (List.mem_replicate.mp h).2

theorem tournamentRounds_mem {pop : Pop F} {ss : List (List Nat)} {sel : Pop F}
    (h : tournamentRounds pop ss = .ok sel) : ∀ x ∈ sel, x ∈ pop := by
  induction ss generalizing sel with
  | nil => simp [tournamentRounds] at h; subst h; simp
  | cons c cs ih =>
    simp only [tournamentRounds] at h
    cases hc : tournamentRound pop c with
    | error e => simp [hc] at h
    | ok x =>
      simp only [hc] at h
      cases hcs : tournamentRounds pop cs with
      | error e => simp [hcs] at h
      | ok xs =>
        simp only [hcs] at h
        injection h with h; subst h
        intro y hy
        rcases List.mem_cons.mp hy with rfl | hy
        · obtain ⟨a, _, _, pre, post, hpp, _⟩ := tournamentRound_spec hc
          exact mem_of_mem_pick (by rw [hpp]; simp)
        · exact ih hcs y hy

theorem tournamentRounds_length {pop : Pop F} {ss : List (List Nat)} {sel : Pop F}
    (h : tournamentRounds pop ss = .ok sel) : sel.length = ss.length :=
  (tournamentRounds_spec h).length_eq.symm

theorem best_mem {pop : Pop F} {b : Ind F} (h : best pop = .ok (some b)) : b ∈ pop := by
  simp only [best] at h
  cases hk : withKeys pop with
  | none => simp [hk] at h
  | some ks =>
    simp only [hk] at h
    injection h with h
    cases hm : firstMin ks with
    | none => simp [hm] at h
    | some m =>
      simp only [hm, Option.map_some, Option.some.injEq] at h
      rw [← h, ← withKeys_map_fst hk]
      exact List.mem_map_of_mem (firstMin_mem hm)

theorem bestAt_mem {pop : Pop F} {i : Nat} {b : Ind F} (h : bestAt pop i = .ok (some b)) : b ∈ pop := by
  simp only [bestAt] at h
  cases hk : withKeys pop with
  | none => simp [hk] at h
  | some ks =>
    simp only [hk] at h
    injection h with h
    exact List.mem_of_getElem? h

theorem sampleWeighted_ok {O : Ops F} {pop : Pop F} {ws : List F} {is : List Nat} {sel : Pop F}
    (h : sampleWeighted O pop ws is = .ok sel) : sel = pick pop is := by
  simp only [sampleWeighted] at h
  cases hw : weightedIndexNew O ws with
  | error e => simp [hw] at h
  | ok u => simp [hw] at h; exact h.symm

/-! unfolding equations of `select`, one per operator -/
theorem select_all (O : Ops F) (w : Witness F) (pop : Pop F) : select O .all w pop = .ok pop := rfl
theorem select_none (O : Ops F) (w : Witness F) (pop : Pop F) : select O .none w pop = .ok [] := rfl
theorem select_clone (O : Ops F) (n : Nat) (w : Witness F) (pop : Pop F) :
    select O (.cloneSingle n) w pop = match pop with | [x] => .ok (List.replicate n x) | _ => .error .exec := rfl
theorem select_fullyRandom (O : Ops F) (n : Nat) (is : List Nat) (pop : Pop F) :
    select O (.fullyRandom n) (.idx is) pop =
      if n = 0 then .ok [] else if pop.isEmpty then .error .exec else .ok (pick pop is) := rfl
theorem select_rwor (O : Ops F) (n : Nat) (is : List Nat) (pop : Pop F) :
    select O (.randomWithoutRepetition n) (.idx is) pop =
      if pop.length < n then .error .exec else .ok (pick pop is) := rfl
theorem select_roulette (O : Ops F) (n : Nat) (offset : F) (is : List Nat) (pop : Pop F) :
    select O (.rouletteWheel n offset) (.idx is) pop =
      match objectives pop with
      | none => .error .panic
      | some objs =>
        match proportionalWeights O objs offset false with
        | .error e => .error e
        | .ok none => .error .exec
        | .ok (some ws) => sampleWeighted O pop ws is := rfl
theorem select_sus (O : Ops F) (n : Nat) (offset u : F) (pop : Pop F) :
    select O (.sus n offset) (.draw u) pop =
      match objectives pop with
      | none => .error .panic
      | some objs =>
        match proportionalWeights O objs offset false with
        | .error e => .error e
        | .ok none => .error .exec
        | .ok (some ws) =>
          match susIndices O ws n u with
          | .error e => .error e
          | .ok is => .ok (pick pop is) := rfl
theorem select_tournament (O : Ops F) (n size : Nat) (ss : List (List Nat)) (pop : Pop F) :
    select O (.tournament n size) (.sets ss) pop =
      if pop.length < size then .error .exec else tournamentRounds pop ss := rfl
theorem select_linearRank (O : Ops F) (n : Nat) (is : List Nat) (pop : Pop F) :
    select O (.linearRank n) (.idx is) pop =
      match objectives pop with
      | none => .error .panic
      | some objs =>
        if (linearRankWeights (reverseRank objs)).isEmpty then .error .exec
        else if maxNat (linearRankWeights (reverseRank objs)) = 0 then .error .exec else .ok (pick pop is) := rfl
theorem select_exponentialRank (O : Ops F) (n : Nat) (base : F) (is : List Nat) (pop : Pop F) :
    select O (.exponentialRank n base) (.idx is) pop =
      match objectives pop with
      | none => .error .panic
      | some objs => sampleWeighted O pop (exponentialRankWeights O base (reverseRank objs)) is := rfl
theorem select_deRand (O : Ops F) (y : Nat) (ss : List (List Nat)) (pop : Pop F) :
    select O (.deRand y) (.sets ss) pop =
      if pop.length < 2 * y + 1 then .error .exec else .ok (ss.flatMap fun s => pick pop s) := rfl
theorem select_deBest (O : Ops F) (y bi : Nat) (ss : List (List Nat)) (pop : Pop F) :
    select O (.deBest y) (.setsBest bi ss) pop =
      if pop.length < 2 * y then .error .exec else
      match bestAt pop bi with
      | .error e => .error e
      | .ok none => .error .exec
      | .ok (some b) => .ok (ss.flatMap fun s => b :: pick pop s) := rfl
theorem select_deCurrentToBest (O : Ops F) (y bi : Nat) (ss : List (List Nat)) (pop : Pop F) :
    select O (.deCurrentToBest y) (.setsBest bi ss) pop =
      match bestAt pop bi with
      | .error e => .error e
      | .ok none => .error .exec
      | .ok (some b) =>
        if pop.any (fun ind => decide ((pop.filter (fun j => !sameInd j ind)).length < 2 * y - 1)) then .error .exec
        else .ok ((pop.zip ss).flatMap fun (ind, s) => ind :: b :: pick (pop.filter (fun j => !sameInd j ind)) s) := rfl
theorem select_iwo (O : Ops F) (a b : Nat) (w : Witness F) (pop : Pop F) :
    select O (.iwo a b) w pop =
      if b < a then .error .exec else
      match pop with
      | [] => .error .exec
      | _ =>
        match objectives pop with
        | none => .error .panic
        | some objs =>
          match objectiveBounds objs with
          | none => .error .exec
          | some (worst, bst) =>
            if !O.fin worst then .error .exec
            else .ok ((pop.zip objs).flatMap fun (ind, o) => List.replicate (iwoCount O a b worst bst o) ind) := rfl

theorem select_mem (O : Ops F) (op : Op F) (w : Witness F) (pop sel : Pop F)
    (h : select O op w pop = .ok sel) : ∀ x ∈ sel, x ∈ pop := by
  unfold select at h
  split at h
  · injection h with h; subst h; exact fun x hx => hx
  · injection h with h; subst h; simp
  · split at h
    · injection h with h; subst h
      intro x hx; rw [mem_of_mem_replicate' hx]; simp
    · cases h
  · split_ifs at h
    · injection h with h; subst h; simp
    · injection h with h; subst h; exact fun x hx => mem_of_mem_pick hx
  · split_ifs at h
    injection h with h; subst h; exact fun x hx => mem_of_mem_pick hx
  · split at h
    · cases h
    · split at h
      · cases h
      · cases h
      · rw [sampleWeighted_ok h]; exact fun x hx => mem_of_mem_pick hx
  · split at h
    · cases h
    · split at h
      · cases h
      · cases h
      · split at h
        · cases h
        · injection h with h; subst h; exact fun x hx => mem_of_mem_pick hx
  · split_ifs at h
    exact tournamentRounds_mem h
  · split at h
    · cases h
    · simp only at h
      split_ifs at h
      injection h with h; subst h; exact fun x hx => mem_of_mem_pick hx
  · split at h
    · cases h
    · rw [sampleWeighted_ok h]; exact fun x hx => mem_of_mem_pick hx
  · split_ifs at h
    injection h with h; subst h
    intro x hx
    obtain ⟨s, _, hs⟩ := List.mem_flatMap.mp hx
    exact mem_of_mem_pick hs
  · split_ifs at h
    split at h
    · cases h
    · cases h
    · next b hb =>
      injection h with h; subst h
      intro x hx
      obtain ⟨s, _, hs⟩ := List.mem_flatMap.mp hx
      rcases List.mem_cons.mp hs with rfl | hs
      · exact bestAt_mem hb
      · exact mem_of_mem_pick hs
  · split at h
    · cases h
    · cases h
    · next b hb =>
      split_ifs at h
      injection h with h; subst h
      intro x hx
      obtain ⟨p, hp, hs⟩ := List.mem_flatMap.mp hx
      obtain ⟨ind, s⟩ := p
      simp only at hs
      rcases List.mem_cons.mp hs with rfl | hs
      · exact (List.of_mem_zip hp).1
      · rcases List.mem_cons.mp hs with rfl | hs
        · exact bestAt_mem hb
        · exact (List.mem_filter.mp (mem_of_mem_pick hs)).1
  · split_ifs at h
    split at h
    · cases h
    · split at h
      · cases h
      · split at h
        · cases h
        · split_ifs at h
          injection h with h; subst h
          intro x hx
          obtain ⟨p, hp, hs⟩ := List.mem_flatMap.mp hx
          obtain ⟨ind, o⟩ := p
          simp only at hs
          rw [mem_of_mem_replicate' hs]
          exact (List.of_mem_zip hp).1
  · cases h

/-- index-sampling operators: the selection is the source read at the witness indices -/
theorem select_idx_eq_pick (O : Ops F) (op : Op F) (is : List Nat) (pop sel : Pop F)
    (hop : match op with
      | .fullyRandom _ | .randomWithoutRepetition _ | .rouletteWheel _ _ | .linearRank _
      | .exponentialRank _ _ => True
      | _ => False)
    (hl : Legal op pop (.idx is)) (h : select O op (.idx is) pop = .ok sel) :
    sel = pick pop is ∧ inRange pop.length is := by
  cases op <;> simp only at hop
  case fullyRandom n =>
    simp only [Legal] at hl
    rw [select_fullyRandom] at h
    split_ifs at h with h0
    · injection h with h; subst h
      have : is = [] := List.eq_nil_of_length_eq_zero (by omega)
      subst this; exact ⟨rfl, hl.2⟩
    · injection h with h; exact ⟨h.symm, hl.2⟩
  case randomWithoutRepetition n =>
    simp only [Legal, ChooseMultiple] at hl
    rw [select_rwor] at h
    split_ifs at h
    injection h with h; exact ⟨h.symm, hl.2.2⟩
  case rouletteWheel n offset =>
    simp only [Legal] at hl
    rw [select_roulette] at h
    split at h
    · cases h
    · split at h
      · cases h
      · cases h
      · exact ⟨sampleWeighted_ok h, hl.2⟩
  case linearRank n =>
    simp only [Legal] at hl
    rw [select_linearRank] at h
    split at h
    · cases h
    · split_ifs at h
      injection h with h; exact ⟨h.symm, hl.2⟩
  case exponentialRank n base =>
    simp only [Legal] at hl
    rw [select_exponentialRank] at h
    split at h
    · cases h
    · exact ⟨sampleWeighted_ok h, hl.2⟩

theorem select_at_witness (O : Ops F) (op : Op F) (is : List Nat) (pop sel : Pop F)
    (hop : match op with
      | .fullyRandom _ | .randomWithoutRepetition _ | .rouletteWheel _ _ | .linearRank _
      | .exponentialRank _ _ => True
      | _ => False)
    (hl : Legal op pop (.idx is)) (h : select O op (.idx is) pop = .ok sel) :
    ∀ k : Nat, sel[k]? = is[k]?.bind (pop[·]?) := by
  obtain ⟨h1, h2⟩ := select_idx_eq_pick O op is pop sel hop hl h
  rw [h1]; exact pick_getElem? pop is h2

/-- the number of individuals an operator is asked for (`none`: determined by the fitness values) -/
def requested (op : Op F) (pop : Pop F) : Option Nat :=
  match op with
  | .all => some pop.length
  | .none => some 0
  | .cloneSingle n | .fullyRandom n | .randomWithoutRepetition n | .rouletteWheel n _ | .sus n _
  | .tournament n _ | .linearRank n | .exponentialRank n _ => some n
  | .deRand y | .deBest y | .deCurrentToBest y => some (pop.length * (2 * y + 1))
  | .iwo _ _ => none

theorem select_count_simple (O : Ops F) (op : Op F) (w : Witness F) (pop sel : Pop F)
    (hop : match op with
      | .sus _ _ | .deRand _ | .deBest _ | .deCurrentToBest _ | .iwo _ _ => False
      | _ => True)
    (hl : Legal op pop w) (h : select O op w pop = .ok sel) : some sel.length = requested op pop := by
  cases op <;> simp only at hop
  case all => rw [select_all] at h; injection h with h; subst h; rfl
  case none => rw [select_none] at h; injection h with h; subst h; rfl
  case cloneSingle n =>
    rw [select_clone] at h
    split at h
    · injection h with h; subst h; simp [requested]
    · cases h
  case fullyRandom n =>
    cases w <;> try (simp only [Legal] at hl; done)
    case idx is =>
      obtain ⟨h1, h2⟩ := select_idx_eq_pick O _ is pop sel trivial hl h
      simp only [Legal, ChooseMultiple] at hl
      rw [h1, pick_length pop is h2, hl.1]; rfl
  case randomWithoutRepetition n =>
    cases w <;> try (simp only [Legal] at hl; done)
    case idx is =>
      obtain ⟨h1, h2⟩ := select_idx_eq_pick O _ is pop sel trivial hl h
      simp only [Legal, ChooseMultiple] at hl
      rw [select_rwor] at h
      split_ifs at h with hlt
      rw [h1, pick_length pop is h2, hl.1]
      simp only [requested, Option.some.injEq]
      omega
  case rouletteWheel n offset =>
    cases w <;> try (simp only [Legal] at hl; done)
    case idx is =>
      obtain ⟨h1, h2⟩ := select_idx_eq_pick O _ is pop sel trivial hl h
      simp only [Legal, ChooseMultiple] at hl
      rw [h1, pick_length pop is h2, hl.1]; rfl
  case tournament n size =>
    cases w <;> try (simp only [Legal] at hl; done)
    case sets ss =>
      simp only [Legal] at hl
      rw [select_tournament] at h
      split_ifs at h
      rw [tournamentRounds_length h, hl.1]; rfl
  case linearRank n =>
    cases w <;> try (simp only [Legal] at hl; done)
    case idx is =>
      obtain ⟨h1, h2⟩ := select_idx_eq_pick O _ is pop sel trivial hl h
      simp only [Legal, ChooseMultiple] at hl
      rw [h1, pick_length pop is h2, hl.1]; rfl
  case exponentialRank n base =>
    cases w <;> try (simp only [Legal] at hl; done)
    case idx is =>
      obtain ⟨h1, h2⟩ := select_idx_eq_pick O _ is pop sel trivial hl h
      simp only [Legal, ChooseMultiple] at hl
      rw [h1, pick_length pop is h2, hl.1]; rfl

/-- `RandomWithoutRepetition`: the selected individuals sit at pairwise distinct positions of the source -/
theorem rwor_distinct (O : Ops F) (n : Nat) (is : List Nat) (pop sel : Pop F)
    (hl : Legal (.randomWithoutRepetition n) pop (.idx is))
    (h : select O (.randomWithoutRepetition n) (.idx is) pop = .ok sel) :
    is.Nodup ∧ inRange pop.length is ∧ sel = pick pop is ∧ (pop.Nodup → sel.Nodup) := by
  obtain ⟨h1, h2⟩ := select_idx_eq_pick O _ is pop sel trivial hl h
  simp only [Legal, ChooseMultiple] at hl
  exact ⟨hl.2.1, h2, h1, fun hp => h1 ▸ pick_nodup pop is hp hl.2.1 h2⟩

theorem length_flatMap_const {α β : Type} (l : List α) (f : α → List β) (c : Nat) (h : ∀ a ∈ l, (f a).length = c) :
    (l.flatMap f).length = l.length * c := by
  induction l with
  | nil => simp
  | cons a l ih =>
    simp only [List.flatMap_cons, List.length_append, List.length_cons]
    rw [h a (by simp), ih (fun x hx => h x (by simp [hx]))]
    rw [Nat.succ_mul]; omega

theorem bestAt_some {pop : Pop F} {i : Nat} {b : Ind F} (h : bestAt pop i = .ok (some b)) : pop[i]? = some b := by
  simp only [bestAt] at h
  cases hk : withKeys pop with
  | none => simp [hk] at h
  | some ks => simp only [hk] at h; injection h with h

/-- a legal "best" position holds a member whose objective is minimal -/
theorem bestIdx_spec {pop : Pop F} {i : Nat} {b : Ind F} (hb : BestIdx pop i) (h : pop[i]? = some b) :
    b ∈ pop ∧ ∃ a, b.obj = some a ∧ ∀ x ∈ pop, ∀ c, x.obj = some c → a ≤ c := by
  refine ⟨List.mem_of_getElem? h, ?_⟩
  rcases hb with rfl | ⟨x, a, hx, ha, hmin⟩
  · simp at h
  · rw [h] at hx; injection hx with hx; subst hx
    exact ⟨a, ha, hmin⟩

/-- `DERand`: one block per member; a block is the source read at `2y+1` pairwise distinct positions. -/
theorem de_rand_shape (O : Ops F) (y : Nat) (ss : List (List Nat)) (pop sel : Pop F)
    (hl : Legal (.deRand y) pop (.sets ss)) (h : select O (.deRand y) (.sets ss) pop = .ok sel) :
    sel = (ss.map fun s => pick pop s).flatten ∧ ss.length = pop.length ∧
    ∀ s ∈ ss, s.length = 2 * y + 1 ∧ s.Nodup ∧ inRange pop.length s := by
  simp only [Legal] at hl
  rw [select_deRand] at h
  split_ifs at h with hlt
  injection h with h; subst h
  refine ⟨by rw [List.flatMap_def], hl.1, fun s hs => ?_⟩
  obtain ⟨h1, h2, h3⟩ := hl.2 s hs
  exact ⟨by rw [h1]; omega, h2, h3⟩

/-- `DEBest`: every block is `[best, 2y distinct members]`; `best` is one member of minimal objective,
the same in every block. -/
theorem de_best_shape (O : Ops F) (y bi : Nat) (ss : List (List Nat)) (pop sel : Pop F)
    (hl : Legal (.deBest y) pop (.setsBest bi ss)) (h : select O (.deBest y) (.setsBest bi ss) pop = .ok sel) :
    ∃ b a, pop[bi]? = some b ∧ b.obj = some a ∧ (∀ x ∈ pop, ∀ c, x.obj = some c → a ≤ c) ∧
      sel = (ss.map fun s => b :: pick pop s).flatten ∧ ss.length = pop.length ∧
      ∀ s ∈ ss, s.length = 2 * y ∧ s.Nodup ∧ inRange pop.length s := by
  simp only [Legal] at hl
  rw [select_deBest] at h
  split_ifs at h with hlt
  split at h
  · cases h
  · cases h
  · next b hb =>
    injection h with h; subst h
    have hbi := bestAt_some hb
    obtain ⟨_, a, ha, hmin⟩ := bestIdx_spec hl.2 hbi
    refine ⟨b, a, hbi, ha, hmin, by rw [List.flatMap_def], hl.1.1, fun s hs => ?_⟩
    obtain ⟨h1, h2, h3⟩ := hl.1.2 s hs
    exact ⟨by rw [h1]; omega, h2, h3⟩

/-- `DECurrentToBest` (`y ≥ 1`): the block of a member is `[that member, best, 2y-1 distinct members that
differ from it]`; `best` is one member of minimal objective, the same in every block. -/
theorem de_ctb_shape (O : Ops F) (y bi : Nat) (ss : List (List Nat)) (pop sel : Pop F)
    (hl : Legal (.deCurrentToBest y) pop (.setsBest bi ss))
    (h : select O (.deCurrentToBest y) (.setsBest bi ss) pop = .ok sel) :
    ∃ b a, pop[bi]? = some b ∧ b.obj = some a ∧ (∀ x ∈ pop, ∀ c, x.obj = some c → a ≤ c) ∧
      sel = ((pop.zip ss).map fun (p : Ind F × List Nat) =>
        p.1 :: b :: pick (pop.filter (fun j => !sameInd j p.1)) p.2).flatten ∧ ss.length = pop.length ∧
      ∀ p ∈ pop.zip ss, p.2.length = 2 * y - 1 ∧ p.2.Nodup ∧
        inRange (pop.filter (fun j => !sameInd j p.1)).length p.2 := by
  simp only [Legal] at hl
  rw [select_deCurrentToBest] at h
  split at h
  · cases h
  · cases h
  · next b hb =>
    split_ifs at h with hany
    injection h with h; subst h
    have hbi := bestAt_some hb
    obtain ⟨_, a, ha, hmin⟩ := bestIdx_spec hl.2 hbi
    refine ⟨b, a, hbi, ha, hmin, by rw [List.flatMap_def], hl.1.1, fun p hp => ?_⟩
    obtain ⟨h1, h2, h3⟩ := hl.1.2 p hp
    refine ⟨?_, h2, h3⟩
    have hbig : ¬ (pop.filter (fun j => !sameInd j p.1)).length < 2 * y - 1 := by
      intro hc
      apply hany
      rw [List.any_eq_true]
      exact ⟨p.1, (List.of_mem_zip hp).1, by simpa using hc⟩
    rw [h1]; omega

/-- DE family: an `Ok` result consists of one block of exactly `2y+1` individuals per member. -/
theorem de_blocks (O : Ops F) (op : Op F) (y : Nat) (hop : op = .deRand y ∨ op = .deBest y ∨ (op = .deCurrentToBest y ∧ 1 ≤ y))
    (w : Witness F) (pop sel : Pop F)
    (hl : Legal op pop w) (h : select O op w pop = .ok sel) :
    ∃ blocks : List (Pop F), sel = blocks.flatten ∧ blocks.length = pop.length ∧
      ∀ blk ∈ blocks, blk.length = 2 * y + 1 := by
  rcases hop with rfl | rfl | ⟨rfl, hy⟩
  · cases w <;> try (simp only [Legal] at hl; done)
    next ss =>
    obtain ⟨h1, h2, h3⟩ := de_rand_shape O y ss pop sel hl h
    refine ⟨_, h1, by simp [h2], ?_⟩
    intro blk hb
    obtain ⟨s, hs, rfl⟩ := List.mem_map.mp hb
    obtain ⟨h4, _, h5⟩ := h3 s hs
    rw [pick_length pop s h5, h4]
  · cases w <;> try (simp only [Legal] at hl; done)
    next bi ss =>
    obtain ⟨b, a, _, _, _, h1, h2, h3⟩ := de_best_shape O y bi ss pop sel hl h
    refine ⟨_, h1, by simp [h2], ?_⟩
    intro blk hb
    obtain ⟨s, hs, rfl⟩ := List.mem_map.mp hb
    obtain ⟨h4, _, h5⟩ := h3 s hs
    simp only [List.length_cons]
    rw [pick_length pop s h5, h4]
  · cases w <;> try (simp only [Legal] at hl; done)
    next bi ss =>
    obtain ⟨b, a, _, _, _, h1, h2, h3⟩ := de_ctb_shape O y bi ss pop sel hl h
    refine ⟨_, h1, by simp [h2], ?_⟩
    intro blk hb
    obtain ⟨p, hp, rfl⟩ := List.mem_map.mp hb
    obtain ⟨h4, _, h5⟩ := h3 p hp
    simp only [List.length_cons]
    rw [pick_length _ p.2 h5, h4]; omega

theorem length_flatten_const {α : Type} (l : List (List α)) (c : Nat) (h : ∀ a ∈ l, a.length = c) :
    l.flatten.length = l.length * c := by
  induction l with
  | nil => simp
  | cons a l ih =>
    simp only [List.flatten_cons, List.length_append, List.length_cons]
    rw [h a (by simp), ih (fun x hx => h x (by simp [hx]))]
    rw [Nat.succ_mul]; omega

end
end MahfModel.Selection
