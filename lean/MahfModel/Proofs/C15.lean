/- Helper lemmas for C15 (experiment records). Core only. -/
import MahfModel.Model.Log
namespace MahfModel.Log

section Core
variable {N V : Type} [DecidableEq N]

theorem contains_iff (s : Step N V) (n : N) : contains s n = true ↔ n ∈ s.map Prod.fst := by
  simp only [contains, List.any_eq_true, decide_eq_true_eq, List.mem_map]

theorem contains_false_iff (s : Step N V) (n : N) : contains s n = false ↔ n ∉ s.map Prod.fst := by
  rw [← contains_iff]; simp

def noFail (rules : List (Rule N V)) : Prop := ∀ r ∈ rules, r.trig = .fire ∨ r.trig = .skip

theorem dedupAux_congr (es : List (Entry N V)) (s1 s2 : List N) (h : ∀ n, n ∈ s1 ↔ n ∈ s2) :
    dedupAux s1 es = dedupAux s2 es := by
  induction es generalizing s1 s2 with
  | nil => rfl
  | cons e es ih =>
    simp only [dedupAux]
    by_cases h1 : e.1 ∈ s1
    · have h2 : e.1 ∈ s2 := (h _).1 h1
      simp only [h1, h2, if_true]; exact ih _ _ h
    · have h2 : e.1 ∉ s2 := fun x => h1 ((h _).2 x)
      simp only [h1, h2, if_false]
      rw [ih (e.1 :: s1) (e.1 :: s2) (by intro n; simp [h n])]

/-- The push-fold is "append the first occurrences not yet present". -/
theorem execRules_eq (rules : List (Rule N V)) (h : noFail rules) (acc : Step N V) :
    execRules rules acc = .ok (acc ++ dedupAux (acc.map Prod.fst) (fired rules)) := by
  induction rules generalizing acc with
  | nil => simp [execRules, fired, dedupAux]
  | cons r rs ih =>
    have hr := h r (by simp)
    have hrs : noFail rs := fun x hx => h x (by simp [hx])
    rcases hr with hf | hs
    · simp only [execRules, hf]
      rw [ih hrs]
      simp only [fired, List.filter_cons, hf, decide_true, if_true, List.map_cons, dedupAux]
      by_cases hc : r.name ∈ acc.map Prod.fst
      · have : contains acc r.name = true := (contains_iff _ _).2 hc
        simp [push, this, hc]
      · have : contains acc r.name = false := (contains_false_iff _ _).2 hc
        simp only [push, this, hc, if_false, Bool.false_eq_true]
        simp only [List.map_append, List.map_cons, List.map_nil, List.append_assoc, List.singleton_append]
        rw [dedupAux_congr _ (List.map Prod.fst acc ++ [r.name]) (r.name :: List.map Prod.fst acc)
          (by intro n; simp [or_comm])]
    · simp only [execRules, hs]
      rw [ih hrs]
      simp [fired, hs]

theorem execRules_nil_eq (rules : List (Rule N V)) (h : noFail rules) :
    execRules rules [] = .ok (dedup (fired rules)) := by
  rw [execRules_eq rules h]; simp [dedup]

/-- A failing trigger that is reached makes the whole pass fail. -/
theorem execRules_ok_noFail (rules : List (Rule N V)) (acc s : Step N V)
    (h : execRules rules acc = .ok s) : noFail rules := by
  induction rules generalizing acc with
  | nil => intro r hr; cases hr
  | cons r rs ih =>
    simp only [execRules] at h
    intro x hx
    cases ht : r.trig <;> simp only [ht] at h
    · rcases List.mem_cons.1 hx with rfl | hx
      · exact Or.inl ht
      · exact ih _ h x hx
    · rcases List.mem_cons.1 hx with rfl | hx
      · exact Or.inr ht
      · exact ih _ h x hx
    · cases h
    · cases h

/-! dedup: first occurrence wins, names are distinct -/

theorem dedupAux_names (es : List (Entry N V)) (seen : List N) :
    (∀ n ∈ (dedupAux seen es).map Prod.fst, n ∉ seen ∧ n ∈ es.map Prod.fst) ∧
    ((dedupAux seen es).map Prod.fst).Nodup := by
  induction es generalizing seen with
  | nil => simp [dedupAux]
  | cons e es ih =>
    simp only [dedupAux]
    by_cases h : e.1 ∈ seen
    · simp only [h, if_true]
      refine ⟨fun n hn => ?_, (ih seen).2⟩
      have := (ih seen).1 n hn
      exact ⟨this.1, by simp [List.mem_map] at this ⊢; exact Or.inr this.2⟩
    · simp only [h, if_false, List.map_cons, List.nodup_cons]
      have ih' := ih (e.1 :: seen)
      refine ⟨fun n hn => ?_, ⟨fun hm => ?_, ih'.2⟩⟩
      · rcases List.mem_cons.1 hn with rfl | hn
        · exact ⟨h, by simp⟩
        · have := ih'.1 n hn
          refine ⟨fun hs => this.1 (by simp [hs]), ?_⟩
          simp only [List.map_cons, List.mem_cons]; exact Or.inr this.2
      · exact (ih'.1 _ hm).1 (by simp)

theorem lookup_dedupAux (es : List (Entry N V)) (seen : List N) (n : N) (hn : n ∉ seen) :
    lookup (dedupAux seen es) n = lookup es n := by
  induction es generalizing seen with
  | nil => rfl
  | cons e es ih =>
    simp only [dedupAux]
    by_cases h : e.1 ∈ seen
    · have hne : e.1 ≠ n := fun x => hn (x ▸ h)
      simp only [h, if_true]
      rw [ih seen hn]
      simp [lookup, List.find?_cons, hne]
    · simp only [h, if_false]
      by_cases hen : e.1 = n
      · simp [lookup, List.find?_cons, hen]
      · have := ih (e.1 :: seen) (by simp [hn, Ne.symm hen])
        simp only [lookup, List.find?_cons, hen, decide_false] at this ⊢
        exact this

/-! ### Compressed export -/

theorem addName_spec (names : List N) (n : N) (hnd : names.Nodup) :
    (∃ ext, addName names n = names ++ ext) ∧ (addName names n).Nodup ∧ n ∈ addName names n ∧
    (addName names n).idxOf n = names.idxOf n := by
  unfold addName
  by_cases h : n ∈ names
  · simp only [h, if_true]
    exact ⟨⟨[], by simp⟩, hnd, trivial, rfl⟩
  · simp only [h, if_false]
    refine ⟨⟨[n], rfl⟩, ?_, by simp, ?_⟩
    · rw [List.nodup_append]
      refine ⟨hnd, by simp, ?_⟩
      intro a ha b hb
      simp only [List.mem_singleton] at hb
      subst hb
      exact fun hab => h (hab ▸ ha)
    · rw [List.idxOf_append, if_neg h, List.idxOf_eq_length h]; simp

theorem idxOf_inj_of_mem {l : List N} {a b : N} (ha : a ∈ l) (hb : b ∈ l) (h : l.idxOf a = l.idxOf b) : a = b := by
  have h1 : l.idxOf a < l.length := List.idxOf_lt_length_of_mem ha
  have h2 : l.idxOf b < l.length := List.idxOf_lt_length_of_mem hb
  have e1 : l[l.idxOf a] = a := List.getElem_idxOf h1
  have e2 : l[l.idxOf b] = b := List.getElem_idxOf h2
  rw [← e1, ← e2]
  simp only [h]

theorem compressStep_spec (s : Step N V) (names : List N) (hnd : names.Nodup) (hs : (s.map Prod.fst).Nodup) :
    (∃ ext, (compressStep names s).1 = names ++ ext) ∧ (compressStep names s).1.Nodup ∧
    (∀ n ∈ s.map Prod.fst, n ∈ (compressStep names s).1) ∧
    (compressStep names s).2 = s.map (fun e => ((compressStep names s).1.idxOf e.1, e.2)) := by
  induction s generalizing names with
  | nil => simp [compressStep, hnd]
  | cons e es ih =>
    obtain ⟨⟨ext0, h0⟩, hnd1, hmem1, hidx1⟩ := addName_spec names e.1 hnd
    simp only [List.map_cons, List.nodup_cons] at hs
    obtain ⟨⟨ext1, h1⟩, hnd2, hmem2, hm⟩ := ih (addName names e.1) hnd1 hs.2
    simp only [compressStep]
    generalize hF : (compressStep (addName names e.1) es).1 = F at *
    generalize hM : (compressStep (addName names e.1) es).2 = m' at *
    have heF : e.1 ∈ F := by rw [h1]; exact List.mem_append_left _ hmem1
    have hk : F.idxOf e.1 = names.idxOf e.1 := by
      rw [h1, List.idxOf_append, if_pos hmem1, hidx1]
    refine ⟨⟨ext0 ++ ext1, by rw [h1, h0, List.append_assoc]⟩, hnd2, ?_, ?_⟩
    · intro n hn
      rcases List.mem_cons.1 hn with rfl | hn
      · exact heF
      · exact hmem2 n hn
    · have hno : (m'.any fun p => p.1 == names.idxOf e.1) = false := by
        rw [hm]
        simp only [List.any_map, List.any_eq_false, Function.comp, beq_iff_eq]
        intro x hx hxe
        have hxF : x.1 ∈ F := hmem2 _ (List.mem_map_of_mem hx)
        have : x.1 = e.1 := idxOf_inj_of_mem hxF heF (by rw [hxe, hk])
        exact hs.1 (this ▸ List.mem_map_of_mem hx)
      simp only [putFirst, hno, List.map_cons, hk, Bool.false_eq_true, if_false]
      rw [hm]

theorem getElem?_idxOf_append {l ext : List N} {n : N} (h : n ∈ l) : (l ++ ext)[l.idxOf n]? = some n := by
  have h1 : l.idxOf n < l.length := List.idxOf_lt_length_of_mem h
  rw [List.getElem?_append_left h1, List.getElem?_eq_getElem h1, List.getElem_idxOf h1]

theorem decodeStep_map (F ext : List N) (s : Step N V) (h : ∀ n ∈ s.map Prod.fst, n ∈ F) :
    decodeStep (F ++ ext) (s.map (fun e => (F.idxOf e.1, e.2))) = some s := by
  induction s with
  | nil => rfl
  | cons e es ih =>
    have he : e.1 ∈ F := h _ (by simp)
    have := ih (fun n hn => h n (by simp only [List.map_cons, List.mem_cons]; exact Or.inr hn))
    simp only [List.map_cons, decodeStep, getElem?_idxOf_append he, this]

theorem compressFrom_spec (log : Log N V) (names : List N) (hnd : names.Nodup)
    (hs : ∀ s ∈ log, (s.map Prod.fst).Nodup) :
    (∃ ext, (compressFrom names log).1 = names ++ ext) ∧ (compressFrom names log).1.Nodup ∧
    ∀ ext, decodeAll ((compressFrom names log).1 ++ ext) (compressFrom names log).2 = some log := by
  induction log generalizing names with
  | nil => simp [compressFrom, hnd, decodeAll]
  | cons s rest ih =>
    obtain ⟨⟨e0, h0⟩, hnd1, hmem, hm⟩ := compressStep_spec s names hnd (hs s (by simp))
    obtain ⟨⟨e1, h1⟩, hnd2, hdec⟩ := ih (compressStep names s).1 hnd1 (fun t ht => hs t (by simp [ht]))
    simp only [compressFrom]
    refine ⟨⟨e0 ++ e1, by rw [h1, h0, List.append_assoc]⟩, hnd2, ?_⟩
    intro ext
    simp only [decodeAll, hdec ext]
    rw [hm, h1, List.append_assoc, decodeStep_map _ _ _ hmem]

/-! ### Order of a step's entries in the export does not matter -/

theorem decodeStep_perm (names : List N) {m m' : List (Nat × Option V)} (h : m.Perm m') :
    ∀ s, decodeStep names m = some s → ∃ s', decodeStep names m' = some s' ∧ s.Perm s' := by
  induction h with
  | nil => intro s hs; exact ⟨s, hs, List.Perm.refl _⟩
  | cons p _ ih =>
    intro s hs
    simp only [decodeStep] at hs
    split at hs
    · rename_i n r hn hr
      obtain ⟨r', hr', hp⟩ := ih r hr
      cases hs
      exact ⟨(n, p.2) :: r', by simp [decodeStep, hn, hr'], List.Perm.cons _ hp⟩
    · cases hs
  | swap p q l =>
    intro s hs
    simp only [decodeStep] at hs
    split at hs
    · rename_i n r hn hr
      split at hr
      · rename_i n2 r2 hn2 hr2
        cases hr; cases hs
        exact ⟨(n2, p.2) :: (n, q.2) :: r2, by simp [decodeStep, hn, hn2, hr2], List.Perm.swap _ _ _⟩
      · cases hr
    · cases hs
  | trans _ _ ih1 ih2 =>
    intro s hs
    obtain ⟨s1, h1, p1⟩ := ih1 s hs
    obtain ⟨s2, h2, p2⟩ := ih2 s1 h1
    exact ⟨s2, h2, p1.trans p2⟩

theorem lookup_some_iff (s : Step N V) (hnd : (s.map Prod.fst).Nodup) (n : N) (v : Option V) :
    lookup s n = some v ↔ (n, v) ∈ s := by
  induction s with
  | nil => simp [lookup]
  | cons e es ih =>
    simp only [List.map_cons, List.nodup_cons] at hnd
    by_cases hen : e.1 = n
    · simp only [lookup, List.find?_cons, hen, decide_true, Option.map_some, Option.some.injEq, List.mem_cons]
      constructor
      · intro h; left; rw [← h, ← hen]
      · rintro (h | h)
        · rw [← h]
        · exact absurd (List.mem_map_of_mem (f := Prod.fst) h) (hen ▸ hnd.1)
    · have := ih hnd.2
      simp only [lookup, List.find?_cons, hen, decide_false, List.mem_cons] at this ⊢
      rw [this]
      constructor
      · exact Or.inr
      · rintro (h | h)
        · exact absurd (by rw [← h]) hen
        · exact h

theorem lookup_none_iff (s : Step N V) (n : N) : lookup s n = none ↔ n ∉ s.map Prod.fst := by
  simp only [lookup, Option.map_eq_none_iff, List.find?_eq_none, decide_eq_true_eq, List.mem_map, not_exists, not_and]

theorem sameMap_of_perm {s s' : Step N V} (h : s.Perm s') (hnd : (s.map Prod.fst).Nodup) : sameMap s s' := by
  intro n
  have hnd' : (s'.map Prod.fst).Nodup := (h.map Prod.fst).nodup_iff.1 hnd
  cases hl : lookup s n with
  | none =>
    symm
    rw [lookup_none_iff] at hl ⊢
    exact fun hm => hl ((h.map Prod.fst).mem_iff.2 hm)
  | some v =>
    symm
    rw [lookup_some_iff s hnd] at hl
    rw [lookup_some_iff s' hnd']
    exact h.mem_iff.1 hl

end Core
end MahfModel.Log
