/- Helper lemmas for C15 (experiment records). Core only. -/
import MahfModel.Model.Log
namespace MahfModel.Log

section Core
variable {N V : Type} [DecidableEq N]

theorem contains_iff (s : Step N V) (n : N) : contains s n = true ↔ n ∈ s.map Prod.fst := by
  simp only [contains, List.any_eq_true, decide_eq_true_eq, List.mem_map]

theorem contains_false_iff (s : Step N V) (n : N) : contains s n = false ↔ n ∉ s.map Prod.fst := by
  rw [← contains_iff]; simp

def noFail (rules : List (Rule N V)) : Prop := ∀ r ∈ rules, r.trig = .fire ∨ r.trig = .skip

theorem dedupAux_congr (es : List (Entry N V)) (s1 s2 : List N) (h : ∀ n, n ∈ s1 ↔ n ∈ s2) :
    dedupAux s1 es = dedupAux s2 es := by
  induction es generalizing s1 s2 with
  | nil => rfl
  | cons e es ih =>
    simp only [dedupAux]
    by_cases h1 : e.1 ∈ s1
    · have h2 : e.1 ∈ s2 := (h _).1 h1
      simp only [h1, h2, if_true]; exact ih _ _ h
    · have h2 : e.1 ∉ s2 := fun x => h1 ((h _).2 x)
      simp only [h1, h2, if_false]
      rw [ih (e.1 :: s1) (e.1 :: s2) (by intro n; simp [h n])]

/-- The push-fold is "append the first occurrences not yet present". -/
theorem execRules_eq (rules : List (Rule N V)) (h : noFail rules) (acc : Step N V) :
    execRules rules acc = .ok (acc ++ dedupAux (acc.map Prod.fst) (fired rules)) := by
  induction rules generalizing acc with
  | nil => simp [execRules, fired, dedupAux]
  | cons r rs ih =>
    have hr := h r (by simp)
    have hrs : noFail rs := fun x hx => h x (by simp [hx])
    rcases hr with hf | hs
    · simp only [execRules, hf]
      rw [ih hrs]
      simp only [fired, List.filter_cons, hf, decide_true, if_true, List.map_cons, dedupAux]
      by_cases hc : r.name ∈ acc.map Prod.fst
      · have : contains acc r.name = true := (contains_iff _ _).2 hc
        simp [push, this, hc]
      · have : contains acc r.name = false := (contains_false_iff _ _).2 hc
        simp only [push, this, hc, if_false, Bool.false_eq_true]
        simp only [List.map_append, List.map_cons, List.map_nil, List.append_assoc, List.singleton_append]
        rw [dedupAux_congr _ (List.map Prod.fst acc ++ [r.name]) (r.name :: List.map Prod.fst acc)
          (by intro n; simp [or_comm])]
    · simp only [execRules, hs]
      rw [ih hrs]
      simp [fired, hs]

theorem execRules_nil_eq (rules : List (Rule N V)) (h : noFail rules) :
    execRules rules [] = .ok (dedup (fired rules)) := by
  rw [execRules_eq rules h]; simp [dedup]

/-- A failing trigger that is reached makes the whole pass fail. -/
theorem execRules_ok_noFail (rules : List (Rule N V)) (acc s : Step N V)
    (h : execRules rules acc = .ok s) : noFail rules := by
  induction rules generalizing acc with
  | nil => intro r hr; cases hr
  | cons r rs ih =>
    simp only [execRules] at h
    intro x hx
    cases ht : r.trig <;> simp only [ht] at h
    · rcases List.mem_cons.1 hx with rfl | hx
      · exact Or.inl ht
      · exact ih _ h x hx
    · rcases List.mem_cons.1 hx with rfl | hx
      · exact Or.inr ht
      · exact ih _ h x hx
    · cases h
    · cases h

/-! dedup: first occurrence wins, names are distinct -/

theorem dedupAux_names (es : List (Entry N V)) (seen : List N) :
    (∀ n ∈ (dedupAux seen es).map Prod.fst, n ∉ seen ∧ n ∈ es.map Prod.fst) ∧
    ((dedupAux seen es).map Prod.fst).Nodup := by
  induction es generalizing seen with
  | nil => simp [dedupAux]
  | cons e es ih =>
    simp only [dedupAux]
    by_cases h : e.1 ∈ seen
    · simp only [h, if_true]
      refine ⟨fun n hn => ?_, (ih seen).2⟩
      have := (ih seen).1 n hn
      exact ⟨this.1, by simp [List.mem_map] at this ⊢; exact Or.inr this.2⟩
    · simp only [h, if_false, List.map_cons, List.nodup_cons]
      have ih' := ih (e.1 :: seen)
      refine ⟨fun n hn => ?_, ⟨fun hm => ?_, ih'.2⟩⟩
      · rcases List.mem_cons.1 hn with rfl | hn
        · exact ⟨h, by simp⟩
        · have := ih'.1 n hn
          refine ⟨fun hs => this.1 (by simp [hs]), ?_⟩
          simp only [List.map_cons, List.mem_cons]; exact Or.inr this.2
      · exact (ih'.1 _ hm).1 (by simp)

theorem lookup_dedupAux (es : List (Entry N V)) (seen : List N) (n : N) (hn : n ∉ seen) :
    lookup (dedupAux seen es) n = lookup es n := by
  induction es generalizing seen with
  | nil => rfl
  | cons e es ih =>
    simp only [dedupAux]
    by_cases h : e.1 ∈ seen
    · have hne : e.1 ≠ n := fun x => hn (x ▸ h)
      simp only [h, if_true]
      rw [ih seen hn]
      simp [lookup, List.find?_cons, hne]
    · simp only [h, if_false]
      by_cases hen : e.1 = n
      · simp [lookup, List.find?_cons, hen]
      · have := ih (e.1 :: seen) (by simp [hn, Ne.symm hen])
        simp only [lookup, List.find?_cons, hen, decide_false] at this ⊢
        exact this

/-! ### Compressed export -/

theorem addName_spec (names : List N) (n : N) (hnd : names.Nodup) :
    (∃ ext, addName names n = names ++ ext) ∧ (addName names n).Nodup ∧ n ∈ addName names n ∧
    (addName names n).idxOf n = names.idxOf n := by
  unfold addName
  by_cases h : n ∈ names
  · rw [if_pos h]
    exact ⟨⟨[], by simp⟩, hnd, h, rfl⟩
  · rw [if_neg h]
    refine ⟨⟨[n], rfl⟩, ?_, by simp, ?_⟩
    · rw [List.nodup_append]
      refine ⟨hnd, by simp, ?_⟩
      intro a ha b hb
      simp only [List.mem_singleton] at hb
      subst hb
      exact fun hab => h (hab ▸ ha)
    · rw [List.idxOf_append, if_neg h, List.idxOf_eq_length h]; simp

theorem idxOf_inj_of_mem {l : List N} {a b : N} (ha : a ∈ l) (hb : b ∈ l) (h : l.idxOf a = l.idxOf b) : a = b := by
  have h1 : l.idxOf a < l.length := List.idxOf_lt_length_of_mem ha
  have h2 : l.idxOf b < l.length := List.idxOf_lt_length_of_mem hb
  have e1 : l[l.idxOf a] = a := List.getElem_idxOf h1
  have e2 : l[l.idxOf b] = b := List.getElem_idxOf h2
  rw [← e1, ← e2]
  simp only [h]

theorem compressStep_spec (s : Step N V) (names : List N) (hnd : names.Nodup) (hs : (s.map Prod.fst).Nodup) :
    (∃ ext, (compressStep names s).1 = names ++ ext) ∧ (compressStep names s).1.Nodup ∧
    (∀ n ∈ s.map Prod.fst, n ∈ (compressStep names s).1) ∧
    (compressStep names s).2 = s.map (fun e => ((compressStep names s).1.idxOf e.1, e.2)) := by
  induction s generalizing names with
  | nil => simp [compressStep, hnd]
  | cons e es ih =>
    obtain ⟨⟨ext0, h0⟩, hnd1, hmem1, hidx1⟩ := addName_spec names e.1 hnd
    simp only [List.map_cons, List.nodup_cons] at hs
    obtain ⟨⟨ext1, h1⟩, hnd2, hmem2, hm⟩ := ih (addName names e.1) hnd1 hs.2
    simp only [compressStep]
    generalize hF : (compressStep (addName names e.1) es).1 = F at *
    generalize hM : (compressStep (addName names e.1) es).2 = m' at *
    have heF : e.1 ∈ F := by rw [h1]; exact List.mem_append_left _ hmem1
    have hk : F.idxOf e.1 = names.idxOf e.1 := by
      rw [h1, List.idxOf_append, if_pos hmem1, hidx1]
    refine ⟨⟨ext0 ++ ext1, by rw [h1, h0, List.append_assoc]⟩, hnd2, ?_, ?_⟩
    · intro n hn
      rcases List.mem_cons.1 hn with rfl | hn
      · exact heF
      · exact hmem2 n hn
    · have hno : (m'.any fun p => p.1 == names.idxOf e.1) = false := by
        rw [hm]
        simp only [List.any_map, List.any_eq_false, Function.comp, beq_iff_eq]
        intro x hx hxe
        have hxF : x.1 ∈ F := hmem2 _ (List.mem_map_of_mem hx)
        have : x.1 = e.1 := idxOf_inj_of_mem hxF heF (by rw [hxe, hk])
        exact hs.1 (this ▸ List.mem_map_of_mem hx)
      simp only [putFirst, hno, List.map_cons, hk, Bool.false_eq_true, if_false]
      rw [hm]

theorem getElem?_idxOf_append {l ext : List N} {n : N} (h : n ∈ l) : (l ++ ext)[l.idxOf n]? = some n := by
  have h1 : l.idxOf n < l.length := List.idxOf_lt_length_of_mem h
  rw [List.getElem?_append_left h1, List.getElem?_eq_getElem h1, List.getElem_idxOf h1]

theorem decodeStep_map (F ext : List N) (s : Step N V) (h : ∀ n ∈ s.map Prod.fst, n ∈ F) :
    decodeStep (F ++ ext) (s.map (fun e => (F.idxOf e.1, e.2))) = some s := by
  induction s with
  | nil => rfl
  | cons e es ih =>
    have he : e.1 ∈ F := h _ (by simp)
    have := ih (fun n hn => h n (by simp only [List.map_cons, List.mem_cons]; exact Or.inr hn))
    simp only [List.map_cons, decodeStep, getElem?_idxOf_append he, this]

theorem compressFrom_spec (log : Log N V) (names : List N) (hnd : names.Nodup)
    (hs : ∀ s ∈ log, (s.map Prod.fst).Nodup) :
    (∃ ext, (compressFrom names log).1 = names ++ ext) ∧ (compressFrom names log).1.Nodup ∧
    ∀ ext, decodeAll ((compressFrom names log).1 ++ ext) (compressFrom names log).2 = some log := by
  induction log generalizing names with
  | nil => simp [compressFrom, hnd, decodeAll]
  | cons s rest ih =>
    obtain ⟨⟨e0, h0⟩, hnd1, hmem, hm⟩ := compressStep_spec s names hnd (hs s (by simp))
    obtain ⟨⟨e1, h1⟩, hnd2, hdec⟩ := ih (compressStep names s).1 hnd1 (fun t ht => hs t (by simp [ht]))
    simp only [compressFrom]
    refine ⟨⟨e0 ++ e1, by rw [h1, h0, List.append_assoc]⟩, hnd2, ?_⟩
    intro ext
    simp only [decodeAll, hdec ext]
    rw [hm, h1, List.append_assoc, decodeStep_map _ _ _ hmem]

theorem jsonLog_of_finite (finite : V → Bool) (log : Log N V)
    (h : ∀ s ∈ log, ∀ e ∈ s, ∀ v, e.2 = some v → finite v = true) : jsonLog finite log = log := by
  unfold jsonLog
  conv => rhs; rw [← List.map_id log]
  apply List.map_congr_left
  intro st hst
  conv => rhs; rw [id, ← List.map_id st]
  apply List.map_congr_left
  intro e he
  obtain ⟨n, v⟩ := e
  cases v with
  | none => rfl
  | some x => simp [jsonValue, h st hst (n, some x) he x rfl]

/-! ### Order of a step's entries in the export does not matter -/

theorem decodeStep_perm (names : List N) {m m' : List (Nat × Option V)} (h : m.Perm m') :
    ∀ s, decodeStep names m = some s → ∃ s', decodeStep names m' = some s' ∧ s.Perm s' := by
  induction h with
  | nil => intro s hs; exact ⟨s, hs, List.Perm.refl _⟩
  | cons p _ ih =>
    intro s hs
    simp only [decodeStep] at hs
    split at hs
    · rename_i n r hn hr
      obtain ⟨r', hr', hp⟩ := ih r hr
      cases hs
      exact ⟨(n, p.2) :: r', by simp [decodeStep, hn, hr'], List.Perm.cons _ hp⟩
    · cases hs
  | swap p q l =>
    intro s hs
    simp only [decodeStep] at hs
    split at hs
    · rename_i n r hn hr
      split at hr
      · rename_i n2 r2 hn2 hr2
        cases hr; cases hs
        exact ⟨(n2, p.2) :: (n, q.2) :: r2, by simp [decodeStep, hn, hn2, hr2], List.Perm.swap _ _ _⟩
      · cases hr
    · cases hs
  | trans _ _ ih1 ih2 =>
    intro s hs
    obtain ⟨s1, h1, p1⟩ := ih1 s hs
    obtain ⟨s2, h2, p2⟩ := ih2 s1 h1
    exact ⟨s2, h2, p1.trans p2⟩

theorem lookup_some_iff (s : Step N V) (hnd : (s.map Prod.fst).Nodup) (n : N) (v : Option V) :
    lookup s n = some v ↔ (n, v) ∈ s := by
  induction s with
  | nil => simp [lookup]
  | cons e es ih =>
    simp only [List.map_cons, List.nodup_cons] at hnd
    by_cases hen : e.1 = n
    · simp only [lookup, List.find?_cons, hen, decide_true, Option.map_some, Option.some.injEq, List.mem_cons]
      constructor
      · intro h; left; rw [← h, ← hen]
      · rintro (h | h)
        · rw [← h]
        · exact absurd (List.mem_map_of_mem (f := Prod.fst) h) (hen ▸ hnd.1)
    · have := ih hnd.2
      simp only [lookup, List.find?_cons, hen, decide_false, List.mem_cons] at this ⊢
      rw [this]
      constructor
      · exact Or.inr
      · rintro (h | h)
        · exact absurd (by rw [← h]) hen
        · exact h

theorem lookup_none_iff (s : Step N V) (n : N) : lookup s n = none ↔ n ∉ s.map Prod.fst := by
  simp only [lookup, Option.map_eq_none_iff, List.find?_eq_none, decide_eq_true_eq, List.mem_map, not_exists, not_and]

theorem sameMap_of_perm {s s' : Step N V} (h : s.Perm s') (hnd : (s.map Prod.fst).Nodup) : sameMap s s' := by
  intro n
  have hnd' : (s'.map Prod.fst).Nodup := (h.map Prod.fst).nodup_iff.1 hnd
  cases hl : lookup s n with
  | none =>
    symm
    rw [lookup_none_iff] at hl ⊢
    exact fun hm => hl ((h.map Prod.fst).mem_iff.2 hm)
  | some v =>
    symm
    rw [lookup_some_iff s hnd] at hl
    rw [lookup_some_iff s' hnd']
    exact h.mem_iff.1 hl

end Core
/-! ### Tree serialisation -/
section Ser
variable {A B A' B' : Type}

theorem ser_head (ea : A → A') (eb : B → B') (t : CTree A B) : ∃ a r, ser ea eb t = Tok.opn a :: r := by
  cases t with
  | node a ps kids => exact ⟨ea a, _, by rw [ser]⟩

theorem serF_cls_head (ea : A → A') (eb : B → B') (f : CForest A B) (r : List (Tok A' B')) :
    ∀ b r', serF ea eb f ++ Tok.cls :: r ≠ Tok.par b :: r' := by
  intro b r'
  cases f with
  | nil => simp [serF]
  | cons t ts =>
    obtain ⟨a, q, h⟩ := ser_head ea eb t
    simp [serF, h]

theorem params_prefix (eb : B → B') (hb : ∀ x y, eb x = eb y → x = y) (ps qs : List B)
    (r1 r2 : List (Tok A' B')) (h1 : ∀ b r', r1 ≠ Tok.par b :: r') (h2 : ∀ b r', r2 ≠ Tok.par b :: r')
    (h : ps.map (fun p => Tok.par (eb p)) ++ r1 = qs.map (fun p => Tok.par (eb p)) ++ r2) :
    ps = qs ∧ r1 = r2 := by
  induction ps generalizing qs with
  | nil =>
    cases qs with
    | nil => exact ⟨rfl, by simpa using h⟩
    | cons q qs => exact absurd (by simpa using h) (h1 (eb q) _)
  | cons p ps ih =>
    cases qs with
    | nil => exact absurd (by simpa using h.symm) (h2 (eb p) _)
    | cons q qs =>
      simp only [List.map_cons, List.cons_append, List.cons.injEq, Tok.par.injEq] at h
      obtain ⟨rfl, rfl⟩ := ih qs h.2
      exact ⟨by rw [hb _ _ h.1], rfl⟩

mutual
  theorem ser_prefix (ea : A → A') (eb : B → B') (ha : ∀ x y, ea x = ea y → x = y)
      (hb : ∀ x y, eb x = eb y → x = y) :
      ∀ (t t' : CTree A B) (r r' : List (Tok A' B')), ser ea eb t ++ r = ser ea eb t' ++ r' → t = t' ∧ r = r'
    | .node a ps kids, .node a' ps' kids', r, r', h => by
      simp only [ser, List.cons_append, List.append_assoc, List.cons.injEq, Tok.opn.injEq] at h
      obtain ⟨h0, h⟩ := h
      have hp := params_prefix eb hb ps ps' _ _ (serF_cls_head ea eb kids r) (serF_cls_head ea eb kids' r')
        (by simpa using h)
      obtain ⟨hk, hr⟩ := serF_prefix ea eb ha hb kids kids' r r' hp.2
      exact ⟨by rw [ha _ _ h0, hp.1, hk], hr⟩
  theorem serF_prefix (ea : A → A') (eb : B → B') (ha : ∀ x y, ea x = ea y → x = y)
      (hb : ∀ x y, eb x = eb y → x = y) :
      ∀ (f f' : CForest A B) (r r' : List (Tok A' B')),
        serF ea eb f ++ Tok.cls :: r = serF ea eb f' ++ Tok.cls :: r' → f = f' ∧ r = r'
    | .nil, .nil, r, r', h => by simpa [serF] using h
    | .nil, .cons t ts, r, r', h => by
      obtain ⟨a, q, hq⟩ := ser_head ea eb t
      simp [serF, hq] at h
    | .cons t ts, .nil, r, r', h => by
      obtain ⟨a, q, hq⟩ := ser_head ea eb t
      simp [serF, hq] at h
    | .cons t ts, .cons t' ts', r, r', h => by
      simp only [serF, List.append_assoc] at h
      obtain ⟨ht, hrest⟩ := ser_prefix ea eb ha hb t t' _ _ h
      obtain ⟨hts, hr⟩ := serF_prefix ea eb ha hb ts ts' r r' hrest
      exact ⟨by rw [ht, hts], hr⟩
end

mutual
  theorem cloneT_id : ∀ t : CTree A B, cloneT t = t
    | .node a ps kids => by simp [cloneT, cloneF_id kids]
  theorem cloneF_id : ∀ f : CForest A B, cloneF f = f
    | .nil => rfl
    | .cons t ts => by simp [cloneF, cloneT_id t, cloneF_id ts]
end

mutual
  theorem names_in_ser (ea : A → A') (eb : B → B') :
      ∀ (t : CTree A B) (a : A), a ∈ nodeNames t → Tok.opn (ea a) ∈ ser ea eb t
    | .node a0 ps kids, a, h => by
      simp only [nodeNames, List.mem_cons] at h
      simp only [ser, List.mem_cons, List.mem_append]
      rcases h with rfl | h
      · exact Or.inl rfl
      · exact Or.inr (Or.inr (Or.inl (names_in_serF ea eb kids a h)))
  theorem names_in_serF (ea : A → A') (eb : B → B') :
      ∀ (f : CForest A B) (a : A), a ∈ forestNames f → Tok.opn (ea a) ∈ serF ea eb f
    | .nil, a, h => by simp [forestNames] at h
    | .cons t ts, a, h => by
      simp only [forestNames, List.mem_append] at h
      simp only [serF, List.mem_append]
      rcases h with h | h
      · exact Or.inl (names_in_ser ea eb t a h)
      · exact Or.inr (names_in_serF ea eb ts a h)
end

end Ser

/-! ### Logger execution, sequences of executions -/
section Exec
variable {N V : Type} [DecidableEq N]

theorem loggerExec_of_noFail (iterName : N) (rules : List (Rule N V)) (it : Option V) (log : Log N V)
    (h : noFail rules) :
    loggerExec iterName rules it log = .ok (log ++ (specStepO iterName rules it).toList) := by
  unfold loggerExec specStepO
  rw [execRules_nil_eq rules h]
  by_cases hem : (dedup (fired rules)).isEmpty = true
  · simp [hem]
  · simp only [hem, if_false, Bool.false_eq_true]
    unfold pushIteration
    by_cases hc : contains (dedup (fired rules)) iterName = true
    · simp [hc]
    · cases it <;> simp [hc]

theorem loggerExec_ok (iterName : N) (rules : List (Rule N V)) (it : Option V) (log log' : Log N V)
    (h : loggerExec iterName rules it log = .ok log') :
    noFail rules ∧ log' = log ++ (specStepO iterName rules it).toList := by
  have hnf : noFail rules := by
    unfold loggerExec at h
    cases he : execRules rules [] with
    | error e => simp [he] at h
    | ok step => exact execRules_ok_noFail rules [] step he
  rw [loggerExec_of_noFail iterName rules it log hnf] at h
  cases h
  exact ⟨hnf, rfl⟩

theorem runExecs_append (iterName : N) (a b : List (List (Rule N V) × Option V)) (log : Log N V) :
    runExecs iterName (a ++ b) log =
      match runExecs iterName a log with
      | .ok l => runExecs iterName b l
      | .error e => .error e := by
  induction a generalizing log with
  | nil => simp [runExecs]
  | cons x xs ih =>
    obtain ⟨rules, it⟩ := x
    simp only [List.cons_append, runExecs]
    cases loggerExec iterName rules it log with
    | error e => rfl
    | ok l => exact ih l

theorem runExecs_concat (iterName : N) (execs : List (List (Rule N V) × Option V)) (log log' : Log N V)
    (h : runExecs iterName execs log = .ok log') :
    log' = log ++ execs.filterMap (fun e => specStepO iterName e.1 e.2) := by
  induction execs generalizing log with
  | nil => simp only [runExecs] at h; cases h; simp
  | cons x xs ih =>
    obtain ⟨rules, it⟩ := x
    simp only [runExecs] at h
    cases hl : loggerExec iterName rules it log with
    | error e => simp [hl] at h
    | ok l =>
      simp only [hl] at h
      have h1 := (loggerExec_ok iterName rules it log l hl).2
      have h2 := ih l h
      rw [h2, h1, List.filterMap_cons]
      cases specStepO iterName rules it <;> simp

end Exec

/-! ### The program language -/

theorem evalRules_fst (env : Env) (rs : List RuleSt) (s : Step String Nat) :
    (evalRules env rs s).1 = execRules (resolve env rs) s := by
  induction rs generalizing s with
  | nil => rfl
  | cons r rs ih =>
    simp only [evalRules, resolve, List.map_cons, execRules]
    cases h : evalTrig env r.trig with
    | mk o t =>
      cases o <;> simp only [] <;> first | rfl | exact ih _

theorem evalRules_snd (env : Env) (rs : List RuleSt) (s : Step String Nat) (h : noFail (resolve env rs)) :
    (evalRules env rs s).2 = advance env rs := by
  induction rs generalizing s with
  | nil => rfl
  | cons r rs ih =>
    have hr := h _ (List.mem_cons_self ..)
    have hrs : noFail (resolve env rs) := fun x hx => h x (List.mem_cons_of_mem _ hx)
    simp only [evalRules, advance, List.map_cons]
    simp only [resolve, List.map_cons] at hr
    cases ht : evalTrig env r.trig with
    | mk o t =>
      simp only [ht] at hr
      cases o
      · simp only []; rw [ih _ hrs]; rfl
      · simp only []; rw [ih _ hrs]; rfl
      · simp at hr
      · simp at hr

theorem doLog_trace (s s' : St) (h : doLog s = .ok s') :
    ∃ tr, s'.trace = s.trace ++ tr ∧ runExecs iterName tr s.log = .ok s'.log := by
  unfold doLog at h
  cases hr : s.rules with
  | none => simp only [hr] at h; cases h; exact ⟨[], by simp, rfl⟩
  | some rs =>
    simp only [hr] at h
    rw [evalRules_fst] at h
    refine ⟨[(resolve s.env rs, getIters s.env)], ?_, ?_⟩
    · cases he : execRules (resolve s.env rs) [] with
      | error e => simp [he] at h
      | ok step =>
        simp only [he] at h
        split at h
        · cases h; rfl
        · cases h; rfl
    · simp only [runExecs, loggerExec]
      cases he : execRules (resolve s.env rs) [] with
      | error e => simp [he] at h
      | ok step =>
        simp only [he] at h ⊢
        split at h
        · rename_i hem; cases h; simp [hem]
        · rename_i hem; cases h; simp [hem]

/-- A configured logger execution that completes is recorded exactly once in the ghost trace, with
the rules resolved in the state at that moment. -/
theorem doLog_records (s s' : St) (rs : List RuleSt) (hr : s.rules = some rs) (h : doLog s = .ok s') :
    s'.trace = s.trace ++ [(resolve s.env rs, getIters s.env)] := by
  unfold doLog at h
  simp only [hr] at h
  cases he : (evalRules s.env rs []).1 with
  | error e => simp [he] at h
  | ok step =>
    simp only [he] at h
    split at h
    · cases h; rfl
    · cases h; rfl

def TraceOk (s s' : St) : Prop :=
  ∃ tr, s'.trace = s.trace ++ tr ∧ runExecs iterName tr s.log = .ok s'.log

theorem TraceOk.refl (s : St) : TraceOk s s := ⟨[], by simp, rfl⟩

theorem TraceOk.trans {a b c : St} (h1 : TraceOk a b) (h2 : TraceOk b c) : TraceOk a c := by
  obtain ⟨t1, e1, r1⟩ := h1
  obtain ⟨t2, e2, r2⟩ := h2
  refine ⟨t1 ++ t2, by rw [e2, e1, List.append_assoc], ?_⟩
  rw [runExecs_append, r1]; exact r2

theorem TraceOk.of_env {a b : St} (h : TraceOk a b) (env env' : Env) :
    TraceOk { a with env := env } { b with env := env' } := h

mutual
  theorem exec_trace : ∀ (f : Nat) (t : Node) (s s' : St), exec f t s = .ok s' → TraceOk s s'
    | 0, _, _, _, h => by simp [exec] at h
    | _ + 1, .log, s, s', h => by simp only [exec] at h; exact doLog_trace s s' h
    | _ + 1, .setx v, s, s', h => by simp only [exec] at h; cases h; exact TraceOk.refl s
    | _ + 1, .addx k, s, s', h => by simp only [exec] at h; cases h; exact TraceOk.refl s
    | f + 1, .loop n body, s, s', h => by simp only [exec] at h; exact loopGo_trace f n body s s' h
    | f + 1, .scope body, s, s', h => by
      simp only [exec] at h
      split at h
      · rename_i s1 hs1
        cases h
        have := execs_trace f body _ s1 hs1
        exact this
      · cases h
    | f + 1, .ifx k body, s, s', h => by
      simp only [exec] at h
      split at h
      · split at h
        · exact execs_trace f body s s' h
        · cases h; exact TraceOk.refl s
      · cases h; exact TraceOk.refl s
  theorem execs_trace : ∀ (f : Nat) (ts : Nodes) (s s' : St), execs f ts s = .ok s' → TraceOk s s'
    | 0, _, _, _, h => by simp [execs] at h
    | _ + 1, .nil, s, s', h => by simp only [execs] at h; cases h; exact TraceOk.refl s
    | f + 1, .cons t ts, s, s', h => by
      simp only [execs] at h
      split at h
      · rename_i s1 hs1
        exact (exec_trace f t s s1 hs1).trans (execs_trace f ts s1 s' h)
      · cases h
  theorem loopGo_trace : ∀ (f n : Nat) (body : Nodes) (s s' : St), loopGo f n body s = .ok s' → TraceOk s s'
    | 0, _, _, _, _, h => by simp [loopGo] at h
    | f + 1, n, body, s, s', h => by
      simp only [loopGo] at h
      split at h
      · cases h
      · split at h
        · split at h
          · cases h
          · rename_i s1 hs1
            split at h
            · cases h
            · rename_i env' henv
              have h2 := loopGo_trace f n body _ s' h
              have h3 : TraceOk s1 s' := h2
              exact (execs_trace f body s s1 hs1).trans h3
        · cases h; exact TraceOk.refl s
end

end MahfModel.Log
