/-
Helper lemmas for C12, clause "mu random ones": counting over all legal witnesses of
`RandomReplacement`.  The legal witnesses for `n = a + b` individuals are the `n!` permutations of
`0 … n-1`; among them exactly `min mu n * (n-1)!` keep position `i` (stated without division as
`count * n = min mu n * n!`).  Proof: double counting + symmetry under transpositions.
-/
import MahfModel.Model.Replacement
import Mathlib.Data.List.Permutation
import Mathlib.Combinatorics.Enumerative.DoubleCounting
namespace MahfModel.Replacement
open List

/-- Every legal witness for `n` individuals, each exactly once. -/
def witnesses (n : Nat) : List (List Nat) := (List.range n).permutations

theorem mem_witnesses {n : Nat} {w : List Nat} : w ∈ witnesses n ↔ Legal w n :=
  List.mem_permutations

theorem witnesses_nodup (n : Nat) : (witnesses n).Nodup :=
  nodup_permutations _ List.nodup_range

theorem witnesses_length (n : Nat) : (witnesses n).length = n.factorial := by
  simp [witnesses, length_permutations]

theorem swap_lt {n i j x : Nat} (hi : i < n) (hj : j < n) (hx : x < n) : Equiv.swap i j x < n := by
  rw [Equiv.swap_apply_def]; split_ifs <;> omega

theorem legal_map_swap {n i j : Nat} {w : List Nat} (hi : i < n) (hj : j < n) (h : Legal w n) :
    Legal (w.map (Equiv.swap i j)) n := by
  refine (List.Perm.map _ h).trans ?_
  refine (List.perm_ext_iff_of_nodup (List.Nodup.map (Equiv.swap i j).injective List.nodup_range)
    List.nodup_range).2 fun x => ?_
  simp only [List.mem_map, List.mem_range]
  constructor
  · rintro ⟨a, ha, rfl⟩; exact swap_lt hi hj ha
  · intro hx; exact ⟨Equiv.swap i j x, swap_lt hi hj hx, Equiv.swap_apply_self i j x⟩

theorem map_swap_map_swap (i j : Nat) (w : List Nat) :
    (w.map (Equiv.swap i j)).map (Equiv.swap i j) = w := by
  simp [List.map_map, Function.comp_def]

/-- Number of legal witnesses that keep position `i`, as a finset cardinality. -/
def keepCard (n mu i : Nat) : Nat :=
  ((witnesses n).toFinset.filter (fun w => i ∈ w.take mu)).card

theorem keepCard_symm {n : Nat} (mu : Nat) {i j : Nat} (hi : i < n) (hj : j < n) :
    keepCard n mu i = keepCard n mu j := by
  unfold keepCard
  refine Finset.card_nbij' (List.map (Equiv.swap i j)) (List.map (Equiv.swap i j)) ?_ ?_ ?_ ?_
  · intro w hw
    simp only [Finset.coe_filter, List.mem_toFinset, Set.mem_ofPred_eq, mem_witnesses] at hw ⊢
    refine ⟨legal_map_swap hi hj hw.1, ?_⟩
    rw [← List.map_take]
    have := List.mem_map_of_mem (f := Equiv.swap i j) hw.2
    simpa using this
  · intro w hw
    simp only [Finset.coe_filter, List.mem_toFinset, Set.mem_ofPred_eq, mem_witnesses] at hw ⊢
    refine ⟨legal_map_swap hi hj hw.1, ?_⟩
    rw [← List.map_take]
    have := List.mem_map_of_mem (f := Equiv.swap i j) hw.2
    simpa using this
  · intro w _; exact map_swap_map_swap i j w
  · intro w _; exact map_swap_map_swap i j w

theorem take_card_of_legal {n : Nat} (mu : Nat) {w : List Nat} (h : Legal w n) :
    ((Finset.range n).filter (fun i => i ∈ w.take mu)).card = min mu n := by
  have hnd : w.Nodup := h.nodup_iff.2 List.nodup_range
  have hlen : w.length = n := by simpa using h.length_eq
  have hsub : (Finset.range n).filter (fun i => i ∈ w.take mu) = (w.take mu).toFinset := by
    ext x
    simp only [Finset.mem_filter, Finset.mem_range, List.mem_toFinset]
    constructor
    · exact fun hx => hx.2
    · intro hx
      refine ⟨?_, hx⟩
      have : x ∈ List.range n := h.mem_iff.1 (List.mem_of_mem_take hx)
      simpa using this
  rw [hsub, List.toFinset_card_of_nodup (hnd.sublist (List.take_sublist _ _)), List.length_take, hlen]

theorem keepCard_sum (n mu : Nat) :
    ∑ i ∈ Finset.range n, keepCard n mu i = n.factorial * min mu n := by
  have h := Finset.sum_card_bipartiteAbove_eq_sum_card_bipartiteBelow
    (s := Finset.range n) (t := (witnesses n).toFinset) (r := fun i w => i ∈ w.take mu)
  simp only [Finset.bipartiteAbove, Finset.bipartiteBelow] at h
  unfold keepCard
  rw [h]
  rw [Finset.sum_congr rfl (fun w hw => take_card_of_legal mu (mem_witnesses.1 (List.mem_toFinset.1 hw)))]
  rw [Finset.sum_const, List.toFinset_card_of_nodup (witnesses_nodup n), witnesses_length]
  rfl

theorem keepCard_mul (n mu i : Nat) (hi : i < n) : keepCard n mu i * n = min mu n * n.factorial := by
  have hs := keepCard_sum n mu
  rw [Finset.sum_congr rfl (fun j hj => keepCard_symm mu (Finset.mem_range.1 hj) hi)] at hs
  rw [Finset.sum_const, Finset.card_range] at hs
  have hs' : n * keepCard n mu i = n.factorial * min mu n := by simpa using hs
  rw [Nat.mul_comm, hs', Nat.mul_comm]

theorem countP_eq_keepCard (n mu i : Nat) :
    (witnesses n).countP (fun w => decide (i ∈ w.take mu)) = keepCard n mu i := by
  unfold keepCard
  rw [List.countP_eq_length_filter, ← List.toFinset_card_of_nodup ((witnesses_nodup n).filter _),
    List.toFinset_filter]
  congr 1
  ext w
  simp

/-- For a legal witness the kept individuals are those at the first `mu` positions named by the
witness. -/
theorem permute_take {α : Type} (l : List α) (w : List Nat) (mu : Nat) (h : Legal w l.length) :
    (permute l w).take mu = permute l (w.take mu) := by
  have hlt : ∀ x ∈ w, x < l.length := fun x hx => by simpa using h.mem_iff.1 hx
  unfold permute
  clear h
  induction w generalizing mu with
  | nil => simp
  | cons a w ih =>
    have ha : a < l.length := hlt a (by simp)
    cases mu with
    | zero => simp
    | succ mu =>
      simp only [List.filterMap_cons, List.getElem?_eq_getElem ha, List.take_succ_cons]
      rw [ih mu (fun x hx => hlt x (by simp [hx]))]

end MahfModel.Replacement
