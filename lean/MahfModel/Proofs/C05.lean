/- Helper definitions and lemmas for C05 (no stale objective values). -/
import MahfModel.Proofs.C07
namespace MahfModel.PopMachine

set_option linter.unusedSectionVars false
variable {O : Type}

/-- An individual is valid for `f` if its cached objective value, when present, is `f` of its solution. -/
def Valid (f : Nat → O) (i : Ind O) : Prop := ∀ o, i.obj = some o → o = f i.sol

def AllValid (f : Nat → O) (p : List (Ind O)) : Prop := ∀ i ∈ p, Valid f i

/-- Validity of everything the machine holds: every population, the best-so-far, the archive. -/
def AllValidPM (f : Nat → O) (pm : PM O) : Prop :=
  (∀ p ∈ pm.stack, AllValid f p) ∧ (∀ b, pm.best = some b → Valid f b) ∧ AllValid f pm.archive

theorem valid_of_unevaluated (f : Nat → O) (i : Ind O) (h : i.obj = none) : Valid f i := by
  intro o ho; rw [h] at ho; cases ho

theorem valid_evaluateWith (f : Nat → O) (i : Ind O) : Valid f (i.evaluateWith f) := by
  intro o ho; simp [Ind.evaluateWith] at ho; exact ho.symm

theorem valid_solutionMut (f : Nat → O) (i : Ind O) (w : Option Nat) : Valid f (i.solutionMut w) :=
  valid_of_unevaluated f _ rfl

theorem valid_clone (f : Nat → O) (i : Ind O) (h : Valid f i) : Valid f i.clone := by
  cases i; exact h

theorem allValid_append (f : Nat → O) (p q : List (Ind O)) : AllValid f (p ++ q) ↔ AllValid f p ∧ AllValid f q := by
  simp [AllValid, or_imp, forall_and]

theorem allValid_set (f : Nat → O) (p : List (Ind O)) (k : Nat) (x : Ind O) (hp : AllValid f p) (hx : Valid f x) :
    AllValid f (p.set k x) := by
  intro i hi
  rcases List.mem_or_eq_of_mem_set hi with h | h
  · exact hp i h
  · subst h; exact hx

theorem allValid_eraseIdx (f : Nat → O) (p : List (Ind O)) (k : Nat) (hp : AllValid f p) : AllValid f (p.eraseIdx k) :=
  fun i hi => hp i (List.mem_of_mem_eraseIdx hi)

theorem allValid_asSolutionsMut (f : Nat → O) : ∀ (p : List (Ind O)) (ws : List (Option Nat)), AllValid f (asSolutionsMut p ws)
  | [], _ => by simp [asSolutionsMut, AllValid]
  | i :: is, [] => by
    intro x hx
    simp only [asSolutionsMut, List.mem_cons] at hx
    rcases hx with rfl | hx
    · exact valid_solutionMut f i none
    · exact allValid_asSolutionsMut f is [] x hx
  | i :: is, w :: ws => by
    intro x hx
    simp only [asSolutionsMut, List.mem_cons] at hx
    rcases hx with rfl | hx
    · exact valid_solutionMut f i w
    · exact allValid_asSolutionsMut f is ws x hx

theorem asSolutionsMut_unevaluated : ∀ (p : List (Ind O)) (ws : List (Option Nat)), ∀ i ∈ asSolutionsMut p ws, i.obj = none
  | [], _ => by simp [asSolutionsMut]
  | i :: is, [] => by
    intro x hx
    simp only [asSolutionsMut, List.mem_cons] at hx
    rcases hx with rfl | hx
    · rfl
    · exact asSolutionsMut_unevaluated is [] x hx
  | i :: is, w :: ws => by
    intro x hx
    simp only [asSolutionsMut, List.mem_cons] at hx
    rcases hx with rfl | hx
    · rfl
    · exact asSolutionsMut_unevaluated is ws x hx

theorem asSolutionsMut_length : ∀ (p : List (Ind O)) (ws : List (Option Nat)), (asSolutionsMut p ws).length = p.length
  | [], _ => by simp [asSolutionsMut]
  | i :: is, [] => by simp [asSolutionsMut, asSolutionsMut_length is []]
  | i :: is, w :: ws => by simp [asSolutionsMut, asSolutionsMut_length is ws]

theorem allValid_intoIndividuals (f : Nat → O) (ss : List Nat) : AllValid f (intoIndividuals ss : List (Ind O)) := by
  intro i hi
  simp only [intoIndividuals, List.mem_map] at hi
  obtain ⟨s, _, rfl⟩ := hi
  exact valid_of_unevaluated f _ rfl

theorem allValid_pick (f : Nat → O) (p : List (Ind O)) (idx : List Nat) (hp : AllValid f p) : AllValid f (pick p idx) := by
  intro i hi
  simp only [pick, List.mem_filterMap] at hi
  obtain ⟨k, _, hk⟩ := hi
  cases hpk : p[k]? with
  | none => simp [hpk] at hk
  | some x =>
    simp [hpk] at hk
    subst hk
    exact valid_clone f x (hp x (List.mem_of_getElem? hpk))

theorem allValid_map_evaluateWith (f : Nat → O) (p : List (Ind O)) : AllValid f (p.map (Ind.evaluateWith f)) := by
  intro i hi
  obtain ⟨j, _, rfl⟩ := List.mem_map.mp hi
  exact valid_evaluateWith f j

theorem zipWith_cloneFrom_mem (p src : List (Ind O)) : ∀ i ∈ List.zipWith Ind.cloneFrom p src, i ∈ src := by
  induction p generalizing src with
  | nil => simp
  | cons x xs ih =>
    cases src with
    | nil => simp
    | cons y ys =>
      intro i hi
      simp only [List.zipWith_cons_cons, List.mem_cons] at hi ⊢
      rcases hi with rfl | hi
      · left; cases y; rfl
      · right; exact ih ys i hi

/-- `clone_from` over a whole `Vec` is assignment. -/
theorem vecCloneFrom_eq (p src : List (Ind O)) : vecCloneFrom p src = src := by
  unfold vecCloneFrom
  induction p generalizing src with
  | nil => simp; induction src with
    | nil => rfl
    | cons y ys ih => simp [Ind.clone] at ih ⊢; exact ih
  | cons x xs ih =>
    cases src with
    | nil => simp
    | cons y ys =>
      simp only [List.zipWith_cons_cons, List.length_cons, List.drop_succ_cons, List.cons_append]
      rw [ih ys]
      cases y; rfl

theorem allValid_zipWith_cloneFrom (f : Nat → O) (p src : List (Ind O)) (h : AllValid f src) :
    AllValid f (List.zipWith Ind.cloneFrom p src) :=
  fun i hi => h i (zipWith_cloneFrom_mem p src i hi)

theorem intoSingle_mem (p : List (Ind O)) (i : Ind O) (h : intoSingle p = .ok i) : i ∈ p := by
  match p, h with
  | [x], h => simp [intoSingle] at h; simp [h]

section Linear
variable [LinearOrder O]

theorem bestIndividual_mem (p : List (Ind O)) (m : Ind O) (h : bestIndividual p = some (some m)) : m ∈ p :=
  (bestIndividual_min p m h).1

theorem bestUpdate_cases (best b' : Option (Ind O)) (c : Ind O) (r : Bool) (h : bestUpdate best c = some (b', r)) :
    b' = some c ∨ b' = best := by
  cases best with
  | none => simp [bestUpdate, Ind.clone_eq] at h; exact Or.inl h.1.symm
  | some b =>
    simp only [bestUpdate] at h
    split at h
    · split at h
      · injection h with h; injection h with h1 _; rw [Ind.clone_eq] at h1; exact Or.inl h1.symm
      · injection h with h; injection h with h1 _; exact Or.inr h1.symm
    · cases h

theorem archiveUpdate_mem (arch pop arch' : List (Ind O)) (k : Nat) (h : archiveUpdate arch pop k = some arch') :
    ∀ x ∈ arch', x ∈ arch ++ pop := by
  obtain ⟨rest, hp, _⟩ := archiveUpdate_spec arch pop arch' k h
  intro x hx
  exact hp.mem_iff.mp (List.mem_append_left _ hx)

theorem archiveInto_mem (arch pop : List (Ind O)) : ∀ x ∈ archiveInto arch pop, x ∈ pop ∨ x ∈ arch := by
  obtain ⟨extra, h1, _, h3, _⟩ := archiveInto_spec arch pop
  intro x hx
  rw [h1] at hx
  rcases List.mem_append.mp hx with h | h
  · exact Or.inl h
  · exact Or.inr (h3 x h).1

end Linear

end MahfModel.PopMachine
