/-
C15 — helper lemmas about the file model (`Model/LogC15Files.lean`).
-/
import MahfModel.Model.LogC15Files
import MahfModel.Proofs.C15
import MahfModel.Proofs.C15Cfg
import Std.Data.String.ToNat
namespace MahfModel.Log

section Files
variable {P B : Type} [DecidableEq P]

theorem fsRead_fsSet_same (fs : Fs P B) (p : P) (c : List B) : fsRead (fsSet fs p c) p = some c := by
  simp [fsRead, fsSet]

theorem fsRead_fsSet_other (fs : Fs P B) (p q : P) (c : List B) (h : q ≠ p) :
    fsRead (fsSet fs p c) q = fsRead fs q := by
  have : decide (p = q) = false := by simpa using fun e => h e.symm
  simp [fsRead, fsSet, this]

theorem writeFile_read (fs : Fs P B) (p : P) (bytes : List B) : fsRead (writeFile fs p bytes) p = some bytes := by
  simp [writeFile, fileWrite, fileCreate, fsRead_fsSet_same]

theorem writeFile_other (fs : Fs P B) (p q : P) (bytes : List B) (h : q ≠ p) :
    fsRead (writeFile fs p bytes) q = fsRead fs q := by
  simp [writeFile, fileWrite, fileCreate, fsRead_fsSet_other _ _ _ _ h]

theorem writeFileInPlace_read (fs : Fs P B) (p : P) (bytes : List B) :
    fsRead (writeFileInPlace fs p bytes) p = some (bytes ++ ((fsRead fs p).getD []).drop bytes.length) := by
  simp [writeFileInPlace, fileWrite, fsRead_fsSet_same]

theorem decWhole_enc {α : Type} (c : Codec α B) (hc : c.Lawful) (a : α) : decWhole c (c.enc a) = some a := by
  have := hc a []
  simp only [List.append_nil] at this
  simp [decWhole, this]

theorem decWhole_enc_tail {α : Type} (c : Codec α B) (hc : c.Lawful) (a : α) (tail : List B) (ht : tail ≠ []) :
    decWhole c (c.enc a ++ tail) = none := by
  simp only [decWhole, hc a tail]
  cases tail with
  | nil => exact absurd rfl ht
  | cons _ _ => rfl

end Files

/-! ### The length-prefixed codec is lawful -/
section LCodec
variable {N V C : Type}

theorem decNames_enc (ns : List N) (rest : List (LTok N V C)) :
    decNames ns.length (ns.map LTok.name ++ rest) = some (ns, rest) := by
  induction ns with
  | nil => simp [decNames]
  | cons n ns ih => simp [decNames, ih]

theorem decPairs_enc (m : List (Nat × Option V)) (rest : List (LTok N V C)) :
    decPairs m.length (encPairs m ++ rest) = some (m, rest) := by
  induction m with
  | nil => simp [decPairs, encPairs]
  | cons p m ih =>
    simp only [encPairs, List.flatMap_cons, List.length_cons, List.cons_append, List.nil_append, decPairs] at ih ⊢
    simp [ih]

theorem decSteps_enc (es : List (List (Nat × Option V))) (rest : List (LTok N V C)) :
    decSteps es.length (encSteps es ++ rest) = some (es, rest) := by
  induction es with
  | nil => simp [decSteps, encSteps]
  | cons m es ih =>
    simp only [encSteps, List.flatMap_cons, encStepL, List.length_cons, List.cons_append, List.append_assoc, decSteps] at ih ⊢
    rw [decPairs_enc]
    simp [ih]

theorem lenCodec_lawful : (lenCodec : Codec (CLog N V) (LTok N V C)).Lawful := by
  intro c rest
  simp only [lenCodec, encCLog, List.cons_append, List.append_assoc, decCLog]
  rw [decNames_enc]
  simp only [decSteps_enc, Option.map_some]

end LCodec

/-! ### Exports -/
section Exports
variable {P B N V : Type} [DecidableEq P] [DecidableEq N]

theorem readLogFile_toCborFile (c : Codec (CLog N V) B) (hc : c.Lawful) (fs : Fs P B) (p : P) (log : Log N V)
    (h : ∀ s ∈ log, (s.map Prod.fst).Nodup) : readLogFile c (toCborFile c fs p log) p = some log := by
  have hd : decompress (compress log) = some log := by
    have := (compressFrom_spec log [] List.nodup_nil h).2.2 []
    simpa [decompress, compress] using this
  simp [readLogFile, toCborFile, writeFile_read, decWhole_enc c hc, hd]

theorem readLogFile_toCborFile_other (c : Codec (CLog N V) B) (fs : Fs P B) (p q : P) (log : Log N V) (h : q ≠ p) :
    readLogFile c (toCborFile c fs p log) q = readLogFile c fs q := by
  simp [readLogFile, toCborFile, writeFile_other _ _ _ _ h]

theorem exportAll_other (c : Codec (CLog N V) B) (ops : List (P × Log N V)) (fs : Fs P B) (p : P)
    (h : ∀ e ∈ ops, e.1 ≠ p) : fsRead (exportAll c ops fs) p = fsRead fs p := by
  induction ops generalizing fs with
  | nil => rfl
  | cons e ops ih =>
    obtain ⟨q, l⟩ := e
    simp only [exportAll]
    rw [ih _ (fun e he => h e (List.mem_cons_of_mem _ he))]
    have hq : p ≠ q := fun e => h (q, l) (List.mem_cons_self) e.symm
    simp [toCborFile, writeFile_other _ _ _ _ hq]

theorem exportAll_append (c : Codec (CLog N V) B) (a b : List (P × Log N V)) (fs : Fs P B) :
    exportAll c (a ++ b) fs = exportAll c b (exportAll c a fs) := by
  induction a generalizing fs with
  | nil => rfl
  | cons e a ih => obtain ⟨q, l⟩ := e; simp only [List.cons_append, exportAll, ih]

end Exports

/-! ### Experiments -/
section Experiment
variable {B N V : Type} [DecidableEq N]

theorem mem_jobs (problems : List String) (runs : Nat) (r : Nat) (p : String) :
    (r, p) ∈ jobs problems runs ↔ r < runs ∧ p ∈ problems := by
  simp [jobs, List.mem_flatMap, List.mem_range]

/-- What the jobs leave alone. -/
theorem runJobs_frame (c : Codec (CLog N V) B) (run : String → Nat → Except Fail (Log N V)) (logFlag : Bool)
    (js : List (Nat × String)) (fs fs' : Fs RecPath B) (h : runJobs c run logFlag js fs = .ok fs') :
    fsRead fs' .config = fsRead fs .config ∧
    ∀ p r, (logFlag = false ∨ (r, p) ∉ js) → fsRead fs' (.runLog p r) = fsRead fs (.runLog p r) := by
  induction js generalizing fs with
  | nil => simp only [runJobs, Except.ok.injEq] at h; subst h; exact ⟨rfl, fun _ _ _ => rfl⟩
  | cons j js ih =>
    obtain ⟨r0, p0⟩ := j
    simp only [runJobs] at h
    cases hr : run p0 r0 with
    | error e => rw [hr] at h; cases h
    | ok log =>
      rw [hr] at h
      simp only at h
      have := ih _ h
      cases logFlag with
      | false =>
        simp only [Bool.false_eq_true, if_false] at this
        exact ⟨this.1, fun p r _ => this.2 p r (Or.inl trivial)⟩
      | true =>
        simp only [if_true] at this
        refine ⟨?_, ?_⟩
        · rw [this.1]; simp [toCborFile, writeFile_other]
        · intro p r hnot
          have hnot' : (r, p) ∉ (r0, p0) :: js := by
            cases hnot with
            | inl h => cases h
            | inr h => exact h
          simp only [List.mem_cons, not_or, Prod.mk.injEq, not_and] at hnot'
          rw [this.2 p r (Or.inr hnot'.2)]
          have hne : RecPath.runLog p r ≠ RecPath.runLog p0 r0 := by
            intro e
            injection e with e1 e2
            exact hnot'.1 e2 e1
          simp [toCborFile, writeFile_other _ _ _ _ hne]

/-- What the jobs write. -/
theorem runJobs_logs (c : Codec (CLog N V) B) (hc : c.Lawful) (run : String → Nat → Except Fail (Log N V))
    (hnd : ∀ p r log, run p r = .ok log → ∀ s ∈ log, (s.map Prod.fst).Nodup)
    (js : List (Nat × String)) (fs fs' : Fs RecPath B) (h : runJobs c run true js fs = .ok fs') :
    ∀ r p, (r, p) ∈ js → ∃ log, run p r = .ok log ∧ readLogFile c fs' (.runLog p r) = some log := by
  induction js generalizing fs with
  | nil => intro r p hm; cases hm
  | cons j js ih =>
    obtain ⟨r0, p0⟩ := j
    simp only [runJobs] at h
    cases hr : run p0 r0 with
    | error e => rw [hr] at h; cases h
    | ok log0 =>
      rw [hr] at h
      simp only [if_true] at h
      intro r p hm
      by_cases hin : (r, p) ∈ js
      · exact ih _ h r p hin
      · have he : (r, p) = (r0, p0) := by
          cases List.mem_cons.1 hm with
          | inl h => exact h
          | inr h => exact absurd h hin
        simp only [Prod.mk.injEq] at he
        obtain ⟨rfl, rfl⟩ := he
        refine ⟨log0, hr, ?_⟩
        have hf := (runJobs_frame c run true js _ fs' h).2 p r (Or.inr hin)
        simp only [readLogFile, hf]
        exact readLogFile_toCborFile c hc fs (.runLog p r) log0 (hnd p r log0 hr)

end Experiment

/-! ### The export of a program denotes the program -/

mutual
  theorem progNode_injective : ∀ a b : Node, progNode a = progNode b → a = b
    | .log, b, h => by cases b <;> simp [progNode] at h ⊢
    | .setx v, b, h => by
      cases b <;> simp [progNode] at h ⊢
      exact h
    | .addx v, b, h => by
      cases b <;> simp [progNode] at h ⊢
      exact h
    | .loop n body, b, h => by
      cases b <;> simp [progNode] at h ⊢
      exact ⟨h.1, progForest_injective _ _ h.2⟩
    | .scope body, b, h => by
      cases b <;> simp [progNode] at h ⊢
      exact progForest_injective _ _ h
    | .ifx k body, b, h => by
      cases b <;> simp [progNode] at h ⊢
      exact ⟨h.1, progForest_injective _ _ h.2⟩
  theorem progForest_injective : ∀ a b : Nodes, progForest a = progForest b → a = b
    | .nil, b, h => by cases b <;> simp [progForest] at h ⊢
    | .cons t ts, b, h => by
      cases b with
      | nil => simp [progForest] at h
      | cons u us =>
        simp only [progForest, CForest.cons.injEq] at h
        rw [progNode_injective t u h.1, progForest_injective ts us h.2]
end

mutual
  theorem progNode_noPh : ∀ a : Node, noPh (progNode a) = true
    | .log => by simp [progNode, noPh, noPhF]
    | .setx _ => by simp [progNode, noPh, noPhF, Param.isPh]
    | .addx _ => by simp [progNode, noPh, noPhF, Param.isPh]
    | .loop _ body => by simp [progNode, noPh, noPhF, Param.isPh, progForest_noPh body]
    | .scope body => by simp [progNode, noPh, noPhF, progForest_noPh body]
    | .ifx _ body => by simp [progNode, noPh, noPhF, Param.isPh, progForest_noPh body]
  theorem progForest_noPh : ∀ a : Nodes, noPhF (progForest a) = true
    | .nil => by simp [progForest, noPhF]
    | .cons t ts => by simp [progForest, noPhF, progNode_noPh t, progForest_noPh ts]
end

end MahfModel.Log
