/- C15 — helper lemmas for sequences of runs on one state (Model/LogC15Runs). -/
import MahfModel.Model.LogC15Runs
import MahfModel.Proofs.C15
namespace MahfModel.Log

/-- What a `LogConfig` is configured to log: the extractors of its rules, in order (the internal state
of the triggers is not part of it). `none`: no `LogConfig` in the state. -/
def cfgShape (r : Option (List RuleSt)) : Option (List ExtSpec) := r.map (·.map (·.ext))

/-- Forgetting the state a failed execution leaves behind. -/
def lift (r : St × Option Fail) : Except Fail St :=
  match r.2 with
  | none => .ok r.1
  | some e => .error e

theorem evalRules_snd_ext (env : Env) (rs : List RuleSt) (s : Step String Nat) :
    ((evalRules env rs s).2).map (·.ext) = rs.map (·.ext) := by
  induction rs generalizing s with
  | nil => rfl
  | cons r rs ih =>
    simp only [evalRules]
    cases h : evalTrig env r.trig with
    | mk o t => cases o <;> simp [ih]

theorem doLog_eq_lift (s : St) : doLog s = lift (doLogR s) := by
  unfold doLog doLogR lift
  cases hr : s.rules with
  | none => rfl
  | some rs =>
    simp only []
    cases he : (evalRules s.env rs []).1 with
    | error e => rfl
    | ok step => by_cases hem : step.isEmpty = true <;> simp [hem]

/-- The invariant of every execution, completed or not: the log grew by exactly the steps of the
logger executions recorded meanwhile, and the state is configured to log what it was. -/
def Inv (s s' : St) : Prop := TraceOk s s' ∧ cfgShape s'.rules = cfgShape s.rules

theorem Inv.refl (s : St) : Inv s s := ⟨TraceOk.refl s, rfl⟩

theorem Inv.trans {a b c : St} (h1 : Inv a b) (h2 : Inv b c) : Inv a c :=
  ⟨h1.1.trans h2.1, h2.2.trans h1.2⟩

theorem Inv.of_env {a b : St} (h : Inv a b) (env env' : Env) :
    Inv { a with env := env } { b with env := env' } := h

theorem doLogR_shape (s : St) : cfgShape (doLogR s).1.rules = cfgShape s.rules := by
  unfold doLogR
  cases hr : s.rules with
  | none => simp [hr]
  | some rs =>
    simp only []
    cases he : (evalRules s.env rs []).1 with
    | error e => simp [cfgShape, evalRules_snd_ext]
    | ok step => by_cases hem : step.isEmpty = true <;> simp [hem, cfgShape, evalRules_snd_ext]

/-- A failed logger execution leaves log and trace as they were. -/
theorem doLogR_err (s : St) (e : Fail) (h : (doLogR s).2 = some e) :
    (doLogR s).1.log = s.log ∧ (doLogR s).1.trace = s.trace := by
  unfold doLogR at h ⊢
  cases hr : s.rules with
  | none => simp [hr] at h
  | some rs =>
    simp only [hr] at h ⊢
    cases he : (evalRules s.env rs []).1 with
    | error e' => simp
    | ok step =>
      simp only [he] at h
      by_cases hem : step.isEmpty = true <;> simp [hem] at h

theorem doLogR_inv (s : St) : Inv s (doLogR s).1 := by
  refine ⟨?_, doLogR_shape s⟩
  cases hl : (doLogR s).2 with
  | none =>
    have hd : doLog s = .ok (doLogR s).1 := by rw [doLog_eq_lift]; simp [lift, hl]
    exact doLog_trace s _ hd
  | some e =>
    obtain ⟨h1, h2⟩ := doLogR_err s e hl
    exact ⟨[], by simp [h2], by simp [runExecs, h1]⟩

mutual
  theorem execR_inv : ∀ (f : Nat) (t : Node) (s : St), Inv s (execR f t s).1
    | 0, _, s => by simp only [execR]; exact Inv.refl s
    | _ + 1, .log, s => by simp only [execR]; exact doLogR_inv s
    | _ + 1, .setx v, s => by simp only [execR]; exact Inv.refl s
    | _ + 1, .addx k, s => by simp only [execR]; exact Inv.refl s
    | f + 1, .loop n body, s => by simp only [execR]; exact loopGoR_inv f n body s
    | f + 1, .scope body, s => by
      simp only [execR]
      exact execsR_inv f body { s with env := _ :: s.env }
    | f + 1, .ifx k body, s => by
      simp only [execR]
      split
      · split
        · exact execsR_inv f body s
        · exact Inv.refl s
      · exact Inv.refl s
  theorem execsR_inv : ∀ (f : Nat) (ts : Nodes) (s : St), Inv s (execsR f ts s).1
    | 0, _, s => by simp only [execsR]; exact Inv.refl s
    | _ + 1, .nil, s => by simp only [execsR]; exact Inv.refl s
    | f + 1, .cons t ts, s => by
      simp only [execsR]
      have h1 := execR_inv f t s
      split
      · rename_i s' he
        rw [he] at h1
        exact h1.trans (execsR_inv f ts s')
      · rename_i s' e he
        rw [he] at h1
        exact h1
  theorem loopGoR_inv : ∀ (f n : Nat) (body : Nodes) (s : St), Inv s (loopGoR f n body s).1
    | 0, _, _, s => by simp only [loopGoR]; exact Inv.refl s
    | f + 1, n, body, s => by
      simp only [loopGoR]
      split
      · exact Inv.refl s
      · split
        · have h1 := execsR_inv f body s
          split
          · rename_i s' e he
            rw [he] at h1; exact h1
          · rename_i s' he
            rw [he] at h1
            split
            · exact h1
            · rename_i env' henv
              have h2 : Inv s' (loopGoR f n body { s' with env := env' }).1 := loopGoR_inv f n body _
              exact h1.trans h2
        · exact Inv.refl s
end

theorem reinit_shape (rs : List RuleSt) :
    (rs.map fun r => { r with trig := r.trig.reinit }).map (·.ext) = rs.map (·.ext) := by
  induction rs with
  | nil => rfl
  | cons r rs ih => simp [ih]

theorem initRun_inv (prog : Nodes) (s : St) : Inv s (initRun prog s) := by
  refine ⟨⟨[], by simp [initRun], rfl⟩, ?_⟩
  unfold initRun cfgShape
  simp only []
  split
  · cases s.rules with
    | none => rfl
    | some rs => simp
  · rfl

theorem runOn_inv (fuel : Nat) (prog : Nodes) (s : St) : Inv s (runOn fuel prog s).1 :=
  (initRun_inv prog s).trans (execsR_inv fuel prog _)

theorem runSeq_inv (fuel : Nat) (progs : List Nodes) (s : St) : Inv s (runSeq fuel progs s).1 := by
  induction progs generalizing s with
  | nil => exact Inv.refl s
  | cons p ps ih =>
    have h1 := runOn_inv fuel p s
    simp only [runSeq]
    generalize runOn fuel p s = r at h1
    obtain ⟨s', o⟩ := r
    cases o with
    | none => exact h1.trans (ih s')
    | some e =>
      cases e
      · exact h1.trans (ih s')
      · exact h1
      · exact h1

/-! ### The interpreter of Model/Log is this one with the state forgotten on failure -/

mutual
  theorem exec_eq_lift : ∀ (f : Nat) (t : Node) (s : St), exec f t s = lift (execR f t s)
    | 0, _, _ => by simp [exec, execR, lift]
    | _ + 1, .log, s => by simp only [exec, execR]; exact doLog_eq_lift s
    | _ + 1, .setx v, s => by simp [exec, execR, lift]
    | _ + 1, .addx k, s => by simp [exec, execR, lift]
    | f + 1, .loop n body, s => by simp only [exec, execR]; exact loopGo_eq_lift f n body s
    | f + 1, .scope body, s => by
      simp only [exec, execR]
      rw [execs_eq_lift f body]
      generalize execsR f body _ = r
      obtain ⟨s', o⟩ := r
      cases o <;> simp [lift]
    | f + 1, .ifx k body, s => by
      simp only [exec, execR]
      cases hx : getX s.env with
      | none => simp [lift]
      | some v =>
        simp only []
        by_cases hk : k ≤ v
        · simp only [hk, if_true]; exact execs_eq_lift f body s
        · simp [hk, lift]
  theorem execs_eq_lift : ∀ (f : Nat) (ts : Nodes) (s : St), execs f ts s = lift (execsR f ts s)
    | 0, _, _ => by simp [execs, execsR, lift]
    | _ + 1, .nil, s => by simp [execs, execsR, lift]
    | f + 1, .cons t ts, s => by
      simp only [execs, execsR]
      rw [exec_eq_lift f t s]
      generalize execR f t s = r
      obtain ⟨s', o⟩ := r
      cases o with
      | none => simp only [lift]; exact execs_eq_lift f ts s'
      | some e => simp [lift]
  theorem loopGo_eq_lift : ∀ (f n : Nat) (body : Nodes) (s : St), loopGo f n body s = lift (loopGoR f n body s)
    | 0, _, _, _ => by simp [loopGo, loopGoR, lift]
    | f + 1, n, body, s => by
      simp only [loopGo, loopGoR]
      cases hi : getIters s.env with
      | none => simp [lift]
      | some it =>
        simp only []
        by_cases hlt : it < n
        · simp only [hlt, if_true]
          rw [execs_eq_lift f body s]
          generalize execsR f body s = r
          obtain ⟨s', o⟩ := r
          cases o with
          | some e => simp [lift]
          | none =>
            simp only [lift]
            cases hinc : incIters s'.env with
            | none => simp
            | some env' => simp only []; exact loopGo_eq_lift f n body _
        · simp [hlt, lift]
end

end MahfModel.Log
