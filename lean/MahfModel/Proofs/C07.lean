/- Helper lemmas for C07 (first minimum, best update, k-best by insertion sort, archive re-insertion). -/
import MahfModel.Model.PopMachine
import Mathlib.Order.Defs.LinearOrder
namespace MahfModel.PopMachine

set_option linter.unusedSectionVars false
variable {O : Type} [LinearOrder O]

/-- Both evaluated and `a`'s objective value ≤ `b`'s. -/
def objLe (a b : Ind O) : Prop := ∃ x y, a.obj = some x ∧ b.obj = some y ∧ x ≤ y
/-- Both evaluated and `a`'s objective value < `b`'s. -/
def objLt (a b : Ind O) : Prop := ∃ x y, a.obj = some x ∧ b.obj = some y ∧ x < y

theorem Ind.clone_eq (i : Ind O) : i.clone = i := by cases i; rfl

/-! ### `keyed` -/

theorem keyed_spec : ∀ (p : List (Ind O)) (kp : List (Ind O × O)), keyed p = some kp →
    kp.map (·.1) = p ∧ ∀ x ∈ kp, x.1.obj = some x.2
  | [], kp, h => by simp [keyed] at h; subst h; simp
  | i :: is, kp, h => by
    simp only [keyed] at h
    split at h
    · rename_i o r ho hr
      injection h with h; subst h
      obtain ⟨h1, h2⟩ := keyed_spec is r hr
      refine ⟨by simp [h1], ?_⟩
      intro x hx
      simp at hx
      rcases hx with rfl | hx
      · exact ho
      · exact h2 x hx
    · cases h

theorem keyed_some_of_all : ∀ (p : List (Ind O)), (∀ i ∈ p, i.obj.isSome) → ∃ kp, keyed p = some kp
  | [], _ => ⟨[], rfl⟩
  | i :: is, h => by
    obtain ⟨r, hr⟩ := keyed_some_of_all is (fun j hj => h j (List.mem_cons_of_mem _ hj))
    have hi := h i List.mem_cons_self
    cases ho : i.obj with
    | none => simp [ho] at hi
    | some o => exact ⟨(i, o) :: r, by simp [keyed, ho, hr]⟩

theorem keyed_all_of_some : ∀ (p : List (Ind O)) kp, keyed p = some kp → ∀ i ∈ p, i.obj.isSome := by
  intro p kp h i hi
  obtain ⟨h1, h2⟩ := keyed_spec p kp h
  rw [← h1] at hi
  rcases List.mem_map.mp hi with ⟨x, hx, rfl⟩
  simp [h2 x hx]

/-! ### first minimum -/

section Min
variable {α : Type} (key : α → O)

theorem foldl_min_first (xs pre mid : List α) (cur : α)
    (hpre : ∀ z ∈ pre, key cur < key z) (hmid : ∀ z ∈ mid, key cur ≤ key z) :
    ∃ pre' post, pre ++ cur :: mid ++ xs =
        pre' ++ (xs.foldl (fun m y => if key y < key m then y else m) cur) :: post ∧
      (∀ z ∈ pre', key (xs.foldl (fun m y => if key y < key m then y else m) cur) < key z) ∧
      (∀ z ∈ post, key (xs.foldl (fun m y => if key y < key m then y else m) cur) ≤ key z) := by
  induction xs generalizing pre mid cur with
  | nil => exact ⟨pre, mid, by simp, hpre, hmid⟩
  | cons y ys ih =>
    simp only [List.foldl_cons]
    by_cases hy : key y < key cur
    · simp only [hy, if_true]
      obtain ⟨pre', post, h1, h2, h3⟩ := ih (pre ++ cur :: mid) [] y
        (by
          intro z hz
          simp at hz
          rcases hz with hz | rfl | hz
          · exact lt_trans hy (hpre z hz)
          · exact hy
          · exact lt_of_lt_of_le hy (hmid z hz))
        (by simp)
      exact ⟨pre', post, by simpa using h1, h2, h3⟩
    · simp only [hy, if_false]
      obtain ⟨pre', post, h1, h2, h3⟩ := ih pre (mid ++ [y]) cur hpre
        (by
          intro z hz
          simp at hz
          rcases hz with hz | rfl
          · exact hmid z hz
          · exact not_lt.mp hy)
      exact ⟨pre', post, by simpa using h1, h2, h3⟩

/-- `minByKey` returns the FIRST minimum. -/
theorem minByKey_first (l : List α) (m : α) (h : minByKey key l = some m) :
    ∃ pre post, l = pre ++ m :: post ∧ (∀ z ∈ pre, key m < key z) ∧ (∀ z ∈ post, key m ≤ key z) := by
  cases l with
  | nil => simp [minByKey] at h
  | cons x xs =>
    simp only [minByKey] at h
    injection h with h
    obtain ⟨pre, post, h1, h2, h3⟩ := foldl_min_first key xs [] [] x (by simp) (by simp)
    rw [h] at h1 h2 h3
    exact ⟨pre, post, by simpa using h1, h2, h3⟩

theorem minByKey_none (l : List α) : minByKey key l = none ↔ l = [] := by
  cases l <;> simp [minByKey]

theorem minByKey_le (l : List α) (m : α) (h : minByKey key l = some m) : m ∈ l ∧ ∀ z ∈ l, key m ≤ key z := by
  obtain ⟨pre, post, rfl, h2, h3⟩ := minByKey_first key l m h
  refine ⟨by simp, ?_⟩
  intro z hz
  simp at hz
  rcases hz with hz | rfl | hz
  · exact le_of_lt (h2 z hz)
  · exact le_refl _
  · exact h3 z hz

end Min

/-- `best_individual()` on an evaluated population: the first minimum. -/
theorem bestIndividual_first (p : List (Ind O)) (m : Ind O) (h : bestIndividual p = some (some m)) :
    ∃ pre post, p = pre ++ m :: post ∧ (∀ z ∈ pre, objLt m z) ∧ (∀ z ∈ post, objLe m z) ∧ m.obj.isSome := by
  simp only [bestIndividual] at h
  split at h
  · cases h
  · rename_i kp hk
    injection h with h
    obtain ⟨hk1, hk2⟩ := keyed_spec p kp hk
    cases hm : minByKey (fun x : Ind O × O => x.2) kp with
    | none => simp [hm] at h
    | some mk =>
      simp [hm] at h
      obtain ⟨pre, post, e, h2, h3⟩ := minByKey_first (fun x : Ind O × O => x.2) kp mk hm
      have hmk := hk2 mk (by rw [e]; simp)
      refine ⟨pre.map (·.1), post.map (·.1), ?_, ?_, ?_, ?_⟩
      · rw [← hk1, e, ← h]; simp
      · intro z hz
        rcases List.mem_map.mp hz with ⟨zk, hzk, rfl⟩
        exact ⟨mk.2, zk.2, by rw [← h]; exact hmk, hk2 zk (by rw [e]; simp [hzk]), h2 zk hzk⟩
      · intro z hz
        rcases List.mem_map.mp hz with ⟨zk, hzk, rfl⟩
        exact ⟨mk.2, zk.2, by rw [← h]; exact hmk, hk2 zk (by rw [e]; simp [hzk]), h3 zk hzk⟩
      · rw [← h, hmk]; rfl

theorem bestIndividual_min (p : List (Ind O)) (m : Ind O) (h : bestIndividual p = some (some m)) :
    m ∈ p ∧ ∀ z ∈ p, objLe m z := by
  obtain ⟨pre, post, rfl, h2, h3, h4⟩ := bestIndividual_first p m h
  refine ⟨by simp, ?_⟩
  intro z hz
  simp at hz
  rcases hz with hz | rfl | hz
  · obtain ⟨x, y, hx, hy, hlt⟩ := h2 z hz
    exact ⟨x, y, hx, hy, le_of_lt hlt⟩
  · cases ho : z.obj with
    | none => simp [ho] at h4
    | some o => exact ⟨o, o, ho, ho, le_refl _⟩
  · exact h3 z hz

theorem bestIndividual_none_iff (p : List (Ind O)) : bestIndividual p = some none ↔ p = [] := by
  constructor
  · intro h
    simp only [bestIndividual] at h
    split at h
    · cases h
    · rename_i kp hk
      injection h with h
      have : minByKey (fun x : Ind O × O => x.2) kp = none := by
        cases hm : minByKey (fun x : Ind O × O => x.2) kp <;> simp [hm] at h ⊢
      rw [minByKey_none] at this
      subst this
      have := (keyed_spec p [] hk).1
      simpa using this.symm
  · rintro rfl; simp [bestIndividual, keyed, minByKey]

/-! ### feeding populations to the best-individual update -/

/-- `BestIndividualUpdate` with `p` as the current population. -/
def feed (best : Option (Ind O)) (p : List (Ind O)) : Option (Option (Ind O)) :=
  (bestUpdateStep ({ stack := [p], best := best } : PM O)).map (·.best)

def feedAll : Option (Ind O) → List (List (Ind O)) → Option (Option (Ind O))
  | b, [] => some b
  | b, p :: ps =>
    match feed b p with
    | none => none
    | some b' => feedAll b' ps

/-- `b` is a minimum of `S` and a member of it (or `S` is empty and there is no best). -/
def IsMinOf (b : Option (Ind O)) (S : List (Ind O)) : Prop :=
  match b with
  | none => S = []
  | some x => x ∈ S ∧ ∀ i ∈ S, objLe x i

theorem feed_isMinOf (b b' : Option (Ind O)) (S p : List (Ind O)) (hb : IsMinOf b S) (h : feed b p = some b') :
    IsMinOf b' (S ++ p) := by
  simp only [feed, bestUpdateStep] at h
  cases hbi : bestIndividual p with
  | none => simp [hbi] at h
  | some r =>
    cases r with
    | none =>
      simp [hbi] at h
      subst h
      rw [(bestIndividual_none_iff p).mp hbi]
      simpa using hb
    | some m =>
      simp only [hbi, Option.map_map, Option.map_eq_some_iff] at h
      obtain ⟨r, hr, rfl⟩ := h
      obtain ⟨hm1, hm2⟩ := bestIndividual_min p m hbi
      cases b with
      | none =>
        simp only [IsMinOf] at hb
        subst hb
        simp only [bestUpdate] at hr
        injection hr with hr; subst hr
        simp only [Function.comp, Ind.clone_eq, IsMinOf]
        exact ⟨by simpa using hm1, by simpa using hm2⟩
      | some x =>
        obtain ⟨hx1, hx2⟩ := hb
        simp only [bestUpdate] at hr
        split at hr
        · rename_i co bo hco hbo
          by_cases hlt : co < bo
          · simp only [hlt, if_true] at hr
            injection hr with hr; subst hr
            simp only [Function.comp, Ind.clone_eq, IsMinOf]
            refine ⟨by simp [hm1], ?_⟩
            intro i hi
            rcases List.mem_append.mp hi with hi | hi
            · obtain ⟨x', y', e1, e2, hle⟩ := hx2 i hi
              rw [hbo] at e1; injection e1 with e1; subst e1
              exact ⟨co, y', hco, e2, le_of_lt (lt_of_lt_of_le hlt hle)⟩
            · exact hm2 i hi
          · simp only [hlt, if_false] at hr
            injection hr with hr; subst hr
            simp only [Function.comp, IsMinOf]
            refine ⟨by simp [hx1], ?_⟩
            intro i hi
            rcases List.mem_append.mp hi with hi | hi
            · exact hx2 i hi
            · obtain ⟨x', y', e1, e2, hle⟩ := hm2 i hi
              rw [hco] at e1; injection e1 with e1; subst e1
              exact ⟨bo, y', hbo, e2, le_trans (not_lt.mp hlt) hle⟩
        · cases hr

theorem feedAll_isMinOf (ps : List (List (Ind O))) (b r : Option (Ind O)) (S : List (Ind O))
    (hb : IsMinOf b S) (h : feedAll b ps = some r) : IsMinOf r (S ++ ps.flatten) := by
  induction ps generalizing b S with
  | nil => simp [feedAll] at h; subst h; simpa using hb
  | cons p ps ih =>
    simp only [feedAll] at h
    split at h
    · cases h
    · rename_i b' hf
      have := ih b' (S ++ p) (feed_isMinOf b b' S p hb hf) h
      simpa [List.append_assoc] using this

/-! ### insertion sort by key, k smallest -/

section SortSec
variable {α : Type} (key : α → O)

theorem insertByKey_perm (x : α) (l : List α) : (insertByKey key x l).Perm (x :: l) := by
  induction l with
  | nil => simp [insertByKey]
  | cons y ys ih =>
    simp only [insertByKey]
    split
    · exact (List.Perm.cons y ih).trans (List.Perm.swap x y ys)
    · exact List.Perm.refl _

theorem sortByKey_perm (l : List α) : (sortByKey key l).Perm l := by
  induction l with
  | nil => simp [sortByKey]
  | cons x xs ih => exact (insertByKey_perm key x _).trans (List.Perm.cons x ih)

theorem insertByKey_sorted (x : α) (l : List α) (h : l.Pairwise (fun a b => key a ≤ key b)) :
    (insertByKey key x l).Pairwise (fun a b => key a ≤ key b) := by
  induction l with
  | nil => simp [insertByKey]
  | cons y ys ih =>
    simp only [insertByKey]
    rw [List.pairwise_cons] at h
    split
    · rename_i hlt
      rw [List.pairwise_cons]
      refine ⟨?_, ih h.2⟩
      intro z hz
      have := (insertByKey_perm key x ys).mem_iff.mp hz
      simp at this
      rcases this with rfl | hz
      · exact le_of_lt hlt
      · exact h.1 z hz
    · rename_i hlt
      have hxy : key x ≤ key y := not_lt.mp hlt
      rw [List.pairwise_cons]
      refine ⟨?_, List.pairwise_cons.mpr h⟩
      intro z hz
      simp at hz
      rcases hz with rfl | hz
      · exact hxy
      · exact le_trans hxy (h.1 z hz)

theorem sortByKey_sorted (l : List α) : (sortByKey key l).Pairwise (fun a b => key a ≤ key b) := by
  induction l with
  | nil => simp [sortByKey]
  | cons x xs ih => exact insertByKey_sorted key x _ ih

theorem countP_lt_length_of_mem (p : α → Bool) (t : List α) (x : α) (hx : x ∈ t) (hp : p x = false) :
    t.countP p < t.length := by
  induction t with
  | nil => simp at hx
  | cons y ys ih =>
    simp only [List.countP_cons, List.length_cons]
    have hle : ys.countP p ≤ ys.length := List.countP_le_length
    simp at hx
    rcases hx with rfl | hx
    · simp [hp]; omega
    · have := ih hx
      split <;> omega

/-- In a sorted list, a member of the first `k` has fewer than `k` strictly smaller elements. -/
theorem sorted_take_count (l : List α) (k : Nat) (h : l.Pairwise (fun a b => key a ≤ key b))
    (x : α) (hx : x ∈ l.take k) : l.countP (fun z => decide (key z < key x)) < k := by
  conv => lhs; rw [← List.take_append_drop k l]
  rw [List.countP_append]
  have hd : (l.drop k).countP (fun z => decide (key z < key x)) = 0 := by
    rw [List.countP_eq_zero]
    intro z hz
    have hp : (l.take k ++ l.drop k).Pairwise (fun a b => key a ≤ key b) := by
      rw [List.take_append_drop]; exact h
    have := (List.pairwise_append.mp hp).2.2 x hx z hz
    simpa using this
  rw [hd, Nat.add_zero]
  have hlen : (l.take k).length ≤ k := by simp; omega
  have hlt := countP_lt_length_of_mem (fun z => decide (key z < key x)) (l.take k) x hx (by simp)
  omega

end SortSec

/-- Decidable version of `objLt`. -/
def ltB (a b : Ind O) : Bool :=
  match a.obj, b.obj with
  | some x, some y => decide (x < y)
  | _, _ => false

theorem ltB_iff (a b : Ind O) : ltB a b = true ↔ objLt a b := by
  unfold ltB objLt
  cases ha : a.obj <;> cases hb : b.obj <;> simp

/-- One archive update: explicit omitted part, permutation, length, dominance, and the counting fact
used for histories. -/
theorem archiveUpdate_spec (arch pop arch' : List (Ind O)) (k : Nat)
    (h : archiveUpdate arch pop k = some arch') :
    ∃ rest, (arch' ++ rest).Perm (arch ++ pop) ∧ arch'.length = min k (arch ++ pop).length ∧
      (∀ x ∈ arch', ∀ y ∈ rest, ¬ objLt y x) ∧
      ((∀ i ∈ arch ++ pop, i.obj.isSome) → ∀ x ∈ arch', (arch ++ pop).countP (fun z => ltB z x) < k) := by
  simp only [archiveUpdate] at h
  split at h
  · rename_i hlen
    injection h with h; subst h
    generalize arch ++ pop = all at *
    refine ⟨all.drop k, by rw [List.take_append_drop], by simp [Nat.min_comm], ?_, ?_⟩
    · intro x hx y hy
      have h1 := List.length_pos_of_mem hx
      have h2 := List.length_pos_of_mem hy
      simp only [List.length_take, List.length_drop] at h1 h2
      omega
    · intro _ x hx
      have hk : 0 < k := by
        cases k with
        | zero => simp at hx
        | succ k => omega
      have hmem := List.mem_of_mem_take hx
      match all, hlen, hmem with
      | [], _, hmem => simp at hmem
      | [y], _, hmem =>
        simp at hmem; subst hmem
        have : ltB x x = false := by
          unfold ltB; cases x.obj <;> simp
        simp [this, hk]
      | _ :: _ :: _, hlen, _ => simp at hlen; omega
  · rename_i hlen
    simp only [Option.map_eq_some_iff] at h
    obtain ⟨kl, hkl, rfl⟩ := h
    obtain ⟨hk1, hk2⟩ := keyed_spec _ kl hkl
    have hperm := sortByKey_perm (fun x : Ind O × O => x.2) kl
    have hsorted := sortByKey_sorted (fun x : Ind O × O => x.2) kl
    refine ⟨((sortByKey (fun x : Ind O × O => x.2) kl).drop k).map (·.1), ?_, ?_, ?_, ?_⟩
    · rw [← List.map_append, List.take_append_drop, ← hk1]
      exact hperm.map _
    · simp only [List.length_map, List.length_take]
      rw [hperm.length_eq, ← hk1]; simp
    · intro x hx y hy ⟨yo, xo, hyo, hxo, hlt⟩
      rcases List.mem_map.mp hx with ⟨xk, hxk, rfl⟩
      rcases List.mem_map.mp hy with ⟨yk, hyk, rfl⟩
      have hp : ((sortByKey (fun x : Ind O × O => x.2) kl).take k ++ (sortByKey (fun x : Ind O × O => x.2) kl).drop k).Pairwise
          (fun a b => a.2 ≤ b.2) := by rw [List.take_append_drop]; exact hsorted
      have hle := (List.pairwise_append.mp hp).2.2 xk hxk yk hyk
      have e1 := hk2 xk (hperm.mem_iff.mp (List.mem_of_mem_take hxk))
      have e2 := hk2 yk (hperm.mem_iff.mp (List.mem_of_mem_drop hyk))
      rw [e1] at hxo; rw [e2] at hyo
      injection hxo with hxo; injection hyo with hyo
      subst hxo hyo
      exact absurd hlt (not_lt.mpr hle)
    · intro _ x hx
      rcases List.mem_map.mp hx with ⟨xk, hxk, rfl⟩
      have hc := sorted_take_count (fun x : Ind O × O => x.2) _ k hsorted xk hxk
      rw [hperm.countP_eq] at hc
      have e1 := hk2 xk (hperm.mem_iff.mp (List.mem_of_mem_take hxk))
      rw [← hk1, List.countP_map]
      have : List.countP ((fun z => ltB z xk.1) ∘ fun x : Ind O × O => x.1) kl =
          List.countP (fun z => decide (z.2 < xk.2)) kl := by
        apply List.countP_congr
        intro z hz
        have e2 := hk2 z hz
        simp [ltB, e1, e2]
      rw [this]
      exact hc

/-- Feeding a sequence of populations to an archive of capacity `k`. -/
def archFeed (k : Nat) : List (Ind O) → List (List (Ind O)) → Option (List (Ind O))
  | a, [] => some a
  | a, p :: ps =>
    match archiveUpdate a p k with
    | none => none
    | some a' => archFeed k a' ps

/-- Invariant of an archive history: kept ++ omitted is everything shown, the archive is as full as
it can be, nothing omitted is strictly better than something kept. -/
def ArchInv (k : Nat) (arch rest shown : List (Ind O)) : Prop :=
  (arch ++ rest).Perm shown ∧ arch.length = min k shown.length ∧ ∀ x ∈ arch, ∀ y ∈ rest, ¬ objLt y x

theorem archInv_step (k : Nat) (arch rest shown pop arch' : List (Ind O))
    (hinv : ArchInv k arch rest shown) (hev : ∀ i ∈ shown ++ pop, i.obj.isSome)
    (h : archiveUpdate arch pop k = some arch') :
    ∃ rest', ArchInv k arch' rest' (shown ++ pop) := by
  obtain ⟨hperm, hlen, hdom⟩ := hinv
  have hevA : ∀ i ∈ arch ++ pop, i.obj.isSome := by
    intro i hi
    rcases List.mem_append.mp hi with hi | hi
    · exact hev i (List.mem_append_left _ (hperm.mem_iff.mp (List.mem_append_left _ hi)))
    · exact hev i (List.mem_append_right _ hi)
  obtain ⟨r1, hp1, hl1, hd1, hc1⟩ := archiveUpdate_spec arch pop arch' k h
  refine ⟨r1 ++ rest, ?_, ?_, ?_⟩
  · have : (arch' ++ (r1 ++ rest)).Perm ((arch ++ pop) ++ rest) := by
      rw [← List.append_assoc]; exact hp1.append_right rest
    refine this.trans ?_
    have : ((arch ++ pop) ++ rest).Perm ((arch ++ rest) ++ pop) := by
      rw [List.append_assoc, List.append_assoc]
      exact List.Perm.append_left arch List.perm_append_comm
    exact this.trans (hperm.append_right pop)
  · rw [hl1]; simp only [List.length_append]; rw [hlen]; omega
  · intro x hx y hy
    rcases List.mem_append.mp hy with hy | hy
    · exact hd1 x hx y hy
    · intro hlt
      -- `y` was omitted earlier, so the archive was full; every old member is ≤ y < x
      have hfull : arch.length = k := by
        have h1 := hperm.length_eq
        have h2 := List.length_pos_of_mem hy
        simp only [List.length_append] at h1
        omega
      have hcount := hc1 hevA x hx
      have hall : arch.countP (fun z => ltB z x) = arch.length := by
        rw [List.countP_eq_length]
        intro a ha
        rw [ltB_iff]
        obtain ⟨yo, xo, hyo, hxo, hyx⟩ := hlt
        have hae := hevA a (List.mem_append_left _ ha)
        cases hao : a.obj with
        | none => simp [hao] at hae
        | some ao =>
          have : ¬ objLt y a := hdom a ha y hy
          have hle : ao ≤ yo := by
            apply not_lt.mp
            intro hh
            exact this ⟨yo, ao, hyo, hao, hh⟩
          exact ⟨ao, xo, hao, hxo, lt_of_le_of_lt hle hyx⟩
      rw [List.countP_append] at hcount
      omega

theorem archFeed_inv (k : Nat) (pops : List (List (Ind O))) (arch rest shown final : List (Ind O))
    (hinv : ArchInv k arch rest shown) (hev : ∀ i ∈ shown ++ pops.flatten, i.obj.isSome)
    (h : archFeed k arch pops = some final) :
    ∃ rest', ArchInv k final rest' (shown ++ pops.flatten) := by
  induction pops generalizing arch rest shown with
  | nil => simp [archFeed] at h; subst h; exact ⟨rest, by simpa using hinv⟩
  | cons p ps ih =>
    simp only [archFeed] at h
    split at h
    · cases h
    · rename_i a' ha
      obtain ⟨r', hinv'⟩ := archInv_step k arch rest shown p a' hinv
        (by intro i hi; apply hev; simp at hi ⊢; rcases hi with hi | hi <;> simp [hi]) ha
      have := ih a' r' (shown ++ p) hinv' (by simpa [List.append_assoc] using hev) h
      simpa [List.append_assoc] using this

/-! ### re-insertion -/

theorem archiveInto_cons (e : Ind O) (es pop : List (Ind O)) :
    archiveInto (e :: es) pop = archiveInto es (if pop.contains e then pop else pop ++ [e.clone]) := rfl

theorem archiveInto_spec (arch pop : List (Ind O)) :
    ∃ extra, archiveInto arch pop = pop ++ extra ∧ extra.Nodup ∧ (∀ e ∈ extra, e ∈ arch ∧ e ∉ pop) ∧
      ∀ e ∈ arch, e ∈ archiveInto arch pop := by
  induction arch generalizing pop with
  | nil => exact ⟨[], by simp [archiveInto], by simp, by simp, by simp⟩
  | cons e es ih =>
    rw [archiveInto_cons]
    by_cases hc : pop.contains e = true
    · rw [if_pos hc]
      obtain ⟨extra, h1, h2, h3, h4⟩ := ih pop
      have hmem : e ∈ pop := by simpa using hc
      refine ⟨extra, h1, h2, fun x hx => ⟨List.mem_cons_of_mem _ (h3 x hx).1, (h3 x hx).2⟩, ?_⟩
      intro x hx
      rcases List.mem_cons.mp hx with rfl | hx
      · rw [h1]; exact List.mem_append_left _ hmem
      · exact h4 x hx
    · rw [if_neg hc, Ind.clone_eq]
      obtain ⟨extra, h1, h2, h3, h4⟩ := ih (pop ++ [e])
      have hne : e ∉ pop := by simpa using hc
      refine ⟨e :: extra, by rw [h1]; simp, ?_, ?_, ?_⟩
      · rw [List.nodup_cons]
        refine ⟨?_, h2⟩
        intro he
        have := (h3 e he).2
        simp at this
      · intro x hx
        rcases List.mem_cons.mp hx with rfl | hx
        · exact ⟨by simp, hne⟩
        · have := h3 x hx
          exact ⟨List.mem_cons_of_mem _ this.1, by intro hp; exact this.2 (by simp [hp])⟩
      · intro x hx
        rcases List.mem_cons.mp hx with rfl | hx
        · rw [h1]; simp
        · exact h4 x hx

/-! ### covered traces (run level) -/

/-- A trace in which every value the objective function returns is shown to a best-update right away,
and no scope shadows the best individual. -/
inductive Covered : List (Ev O) → Prop where
  | nil : Covered []
  | other (t) : Covered t → Covered (.other :: t)
  | enter (he t) : Covered t → Covered (.enter he false :: t)
  | exit (t) : Covered t → Covered (.exit :: t)
  | update (pop t) : Covered t → Covered (.update pop :: t)
  | eval (n vals pop t) : (∀ v ∈ vals, v ∈ pop) → Covered t → Covered (.eval n vals :: .update pop :: t)
  | selfEval (vals pop t) : (∀ v ∈ vals, v ∈ pop) → Covered t → Covered (.selfEval vals :: .update pop :: t)

theorem feedBest_le (b : Option O) (pop : List O) :
    (∀ v ∈ pop, ∃ x, feedBest b pop = some x ∧ x ≤ v) ∧ (∀ bo, b = some bo → ∃ x, feedBest b pop = some x ∧ x ≤ bo) := by
  unfold feedBest
  cases hm : minByKey id pop with
  | none =>
    rw [minByKey_none] at hm; subst hm
    exact ⟨by simp, fun bo hbo => ⟨bo, hbo, le_refl _⟩⟩
  | some c =>
    obtain ⟨_, hc⟩ := minByKey_le id pop c hm
    cases b with
    | none => exact ⟨fun v hv => ⟨c, rfl, hc v hv⟩, by simp⟩
    | some bo =>
      by_cases hlt : c < bo
      · simp only [hlt, if_true]
        exact ⟨fun v hv => ⟨c, rfl, hc v hv⟩, fun b2 hb2 => ⟨c, rfl, by injection hb2 with hb2; subst hb2; exact le_of_lt hlt⟩⟩
      · simp only [hlt, if_false]
        exact ⟨fun v hv => ⟨bo, rfl, le_trans (not_lt.mp hlt) (hc v hv)⟩,
               fun b2 hb2 => ⟨bo, rfl, by injection hb2 with hb2; subst hb2; exact le_refl _⟩⟩

/-- Invariant of covered runs: one visible best, which is ≤ every value returned so far. -/
def BestInv (s : Scoped O) : Prop :=
  ∃ b, s.bests = [b] ∧ (∀ fr ∈ s.frames, fr.2 = false) ∧ ∀ v ∈ s.returned, ∃ x, b = some x ∧ x ≤ v

theorem covered_inv (evs : List (Ev O)) (hc : Covered evs) (s : Scoped O) (hs : BestInv s) :
    BestInv (scopedRun s evs) := by
  induction hc generalizing s with
  | nil => exact hs
  | other t _ ih => exact ih s hs
  | enter he t _ ih =>
    apply ih
    obtain ⟨b, h1, h2, h3⟩ := hs
    exact ⟨b, by simp [scopedStep, h1], by
      intro fr hfr; simp [scopedStep] at hfr; rcases hfr with rfl | hfr; rfl; exact h2 fr hfr, by simpa [scopedStep] using h3⟩
  | exit t _ ih =>
    apply ih
    obtain ⟨b, h1, h2, h3⟩ := hs
    cases hfr : s.frames with
    | nil => exact ⟨b, by simp [scopedStep, hfr, h1], by simp [scopedStep, hfr], by simpa [scopedStep, hfr] using h3⟩
    | cons fr frs =>
      obtain ⟨he, hb⟩ := fr
      have : hb = false := h2 (he, hb) (by simp [hfr])
      subst this
      exact ⟨b, by simp [scopedStep, hfr, h1], by
        intro fr h; simp [scopedStep, hfr] at h; exact h2 fr (by simp [hfr, h]), by simpa [scopedStep, hfr] using h3⟩
  | update pop t _ ih =>
    apply ih
    obtain ⟨b, h1, h2, h3⟩ := hs
    refine ⟨feedBest b pop, by simp [scopedStep, h1, setTop], by simpa [scopedStep] using h2, ?_⟩
    intro v hv
    simp only [scopedStep] at hv
    obtain ⟨x, hx, hxv⟩ := h3 v hv
    obtain ⟨y, hy, hyx⟩ := (feedBest_le b pop).2 x hx
    exact ⟨y, hy, le_trans hyx hxv⟩
  | eval n vals pop t hsub _ ih =>
    apply ih
    obtain ⟨b, h1, h2, h3⟩ := hs
    refine ⟨feedBest b pop, by simp [scopedStep, h1, setTop], by simpa [scopedStep] using h2, ?_⟩
    intro v hv
    simp only [scopedStep, List.mem_append] at hv
    rcases hv with hv | hv
    · obtain ⟨x, hx, hxv⟩ := h3 v hv
      obtain ⟨y, hy, hyx⟩ := (feedBest_le b pop).2 x hx
      exact ⟨y, hy, le_trans hyx hxv⟩
    · exact (feedBest_le b pop).1 v (hsub v hv)
  | selfEval vals pop t hsub _ ih =>
    apply ih
    obtain ⟨b, h1, h2, h3⟩ := hs
    refine ⟨feedBest b pop, by simp [scopedStep, h1, setTop], by simpa [scopedStep] using h2, ?_⟩
    intro v hv
    simp only [scopedStep, List.mem_append] at hv
    rcases hv with hv | hv
    · obtain ⟨x, hx, hxv⟩ := h3 v hv
      obtain ⟨y, hy, hyx⟩ := (feedBest_le b pop).2 x hx
      exact ⟨y, hy, le_trans hyx hxv⟩
    · exact (feedBest_le b pop).1 v (hsub v hv)

end MahfModel.PopMachine
