/- Helper lemmas for C09 (users of the order; bit-level facts). Core only. -/
import MahfModel.Proofs.C09
import MahfModel.Model.ObjectiveOrd
namespace MahfModel.Objective
open CmpProg

/-! ### the three questions, on legal values, are answered by the numeric order -/

theorem objCmp_eq_valueCmp (a b : F64) (ha : legal a = true) (hb : legal b = true) :
    objCmp a b = (match valueCmp a b with | some o => .ok o | none => .panic) := by
  have h : objPartialCmp a b = valueCmp a b := partialCmp_eq_valueCmp a b ha hb
  unfold objCmp
  rw [h]
  cases valueCmp a b <;> rfl

theorem valueCmp_isSome (a b : F64) (ha : legal a = true) (hb : legal b = true) :
    ∃ o, valueCmp a b = some o := by
  cases a <;> cases b <;> simp_all [legal, valueCmp]

theorem objEq_eq_valueCmp (a b : F64) (ha : legal a = true) (hb : legal b = true) :
    objEq a b = (valueCmp a b == some .eq) := by
  cases a <;> cases b <;> simp_all [legal, valueCmp, objEq, eq]
  rename_i x y
  rw [Bool.eq_iff_iff]
  simp

namespace CmpProg
variable {α β γ : Type}

/-- No branch of the program contains the algorithm's own `fail`. -/
def NoFail : CmpProg α β → Prop
  | .ret _ => True
  | .fail => False
  | .ask _ _ k => ∀ o, (k o).NoFail
  | .askP _ _ k => ∀ o, (k o).NoFail
  | .askEq _ _ k => ∀ o, (k o).NoFail

theorem run_bind (key : α → F64) (p : CmpProg α β) (f : β → CmpProg α γ) :
    (p.bind f).run key = (match p.run key with | .ok b => (f b).run key | .panic => .panic) := by
  induction p with
  | ret b => rfl
  | fail => rfl
  | ask x y k ih =>
    simp only [bind, run]
    cases objCmp (key x) (key y) with
    | ok o => exact ih o
    | panic => rfl
  | askP x y k ih => simp only [bind, run]; exact ih _
  | askEq x y k ih => simp only [bind, run]; exact ih _

theorem run_eq_runSpec (key : α → F64) (hkey : ∀ a, legal (key a) = true) (p : CmpProg α β) :
    p.run key = p.runSpec key := by
  induction p with
  | ret b => rfl
  | fail => rfl
  | ask x y k ih =>
    simp only [run, runSpec, objCmp_eq_valueCmp _ _ (hkey x) (hkey y)]
    cases valueCmp (key x) (key y) with
    | none => rfl
    | some o => exact ih o
  | askP x y k ih =>
    simp only [run, runSpec]
    have h : objPartialCmp (key x) (key y) = valueCmp (key x) (key y) :=
      partialCmp_eq_valueCmp _ _ (hkey x) (hkey y)
    rw [h]; exact ih _
  | askEq x y k ih =>
    simp only [run, runSpec, objEq_eq_valueCmp _ _ (hkey x) (hkey y)]
    exact ih _

theorem run_ok_of_noFail (key : α → F64) (hkey : ∀ a, legal (key a) = true) (p : CmpProg α β)
    (hp : p.NoFail) : ∃ b, p.run key = .ok b := by
  induction p with
  | ret b => exact ⟨b, rfl⟩
  | fail => exact absurd hp (by simp [NoFail])
  | ask x y k ih =>
    obtain ⟨o, ho⟩ := objCmp_cases (key x) (key y) (hkey x) (hkey y)
    obtain ⟨b, hb⟩ := ih o (hp o)
    exact ⟨b, by simp [run, ho, hb]⟩
  | askP x y k ih =>
    obtain ⟨b, hb⟩ := ih _ (hp (objPartialCmp (key x) (key y)))
    exact ⟨b, by simp [run, hb]⟩
  | askEq x y k ih =>
    obtain ⟨b, hb⟩ := ih _ (hp (objEq (key x) (key y)))
    exact ⟨b, by simp [run, hb]⟩

end CmpProg

/-! ### the documented algorithms as programs = the direct definitions of `Model/Objective.lean` -/

section progs
variable {α : Type} (key : α → F64)

theorem pMinGo_run (m : α) (l : List α) : (pMinGo m l).run key = minGo key m l := by
  induction l generalizing m with
  | nil => rfl
  | cons y ys ih =>
    simp only [pMinGo, run, minGo]
    cases objCmp (key m) (key y) with
    | panic => rfl
    | ok o => cases o <;> simp [ih]

theorem pMin_run (l : List α) : (pMin l).run key = minObjs key l := by
  cases l with
  | nil => rfl
  | cons x xs =>
    simp only [pMin, run_bind, pMinGo_run, minObjs]
    cases minGo key x xs <;> rfl

theorem pMaxGo_run (m : α) (l : List α) : (pMaxGo m l).run key = maxGo key m l := by
  induction l generalizing m with
  | nil => rfl
  | cons y ys ih =>
    simp only [pMaxGo, run, maxGo]
    cases objCmp (key m) (key y) with
    | panic => rfl
    | ok o => cases o <;> simp [ih]

theorem pMax_run (l : List α) : (pMax l).run key = maxObjs key l := by
  cases l with
  | nil => rfl
  | cons x xs =>
    simp only [pMax, run_bind, pMaxGo_run, maxObjs]
    cases maxGo key x xs <;> rfl

theorem pInsert_run (x : α) (l : List α) : (pInsert false x l).run key = insertSorted key x l := by
  induction l with
  | nil => rfl
  | cons y ys ih =>
    simp only [pInsert, Bool.false_eq_true, if_false, run, insertSorted]
    cases objCmp (key x) (key y) with
    | panic => rfl
    | ok o =>
      cases o
      · rfl
      · rfl
      · simp only [run_bind, ih]
        cases insertSorted key x ys <;> rfl

theorem pSort_run (l : List α) : (pSort false l).run key = sortObjs key l := by
  induction l with
  | nil => rfl
  | cons x xs ih =>
    simp only [pSort, run_bind, ih, sortObjs]
    cases sortObjs key xs with
    | panic => rfl
    | ok r => exact pInsert_run key x r

end progs


/-! ### none of the documented algorithms (except `clamp`) has a panic of its own -/

namespace CmpProg
variable {α β γ : Type}

theorem NoFail_bind (p : CmpProg α β) (f : β → CmpProg α γ) (hp : p.NoFail) (hf : ∀ b, (f b).NoFail) :
    (p.bind f).NoFail := by
  induction p with
  | ret b => exact hf b
  | fail => exact absurd hp (by simp [NoFail])
  | ask x y k ih => intro o; exact ih o (hp o)
  | askP x y k ih => intro o; exact ih o (hp o)
  | askEq x y k ih => intro o; exact ih o (hp o)

end CmpProg

section nofail
variable {α : Type}

theorem pMinGo_noFail (m : α) (l : List α) : (pMinGo m l).NoFail := by
  induction l generalizing m with
  | nil => simp [pMinGo, NoFail]
  | cons y ys ih => intro o; cases o <;> simp [ih]

theorem pMin_noFail (l : List α) : (pMin l).NoFail := by
  cases l with
  | nil => simp [pMin, NoFail]
  | cons x xs => exact NoFail_bind _ _ (pMinGo_noFail x xs) (fun _ => by simp [NoFail])

theorem pMaxGo_noFail (m : α) (l : List α) : (pMaxGo m l).NoFail := by
  induction l generalizing m with
  | nil => simp [pMaxGo, NoFail]
  | cons y ys ih => intro o; cases o <;> simp [ih]

theorem pMax_noFail (l : List α) : (pMax l).NoFail := by
  cases l with
  | nil => simp [pMax, NoFail]
  | cons x xs => exact NoFail_bind _ _ (pMaxGo_noFail x xs) (fun _ => by simp [NoFail])

theorem pInsert_noFail (rev : Bool) (x : α) (l : List α) : (pInsert rev x l).NoFail := by
  induction l with
  | nil => simp [pInsert, NoFail]
  | cons y ys ih =>
    have hk : ∀ o : Ordering, (match o with
        | .gt => (pInsert rev x ys).bind (fun r => CmpProg.ret (y :: r))
        | _ => CmpProg.ret (x :: y :: ys)).NoFail := by
      intro o
      cases o
      · simp [NoFail]
      · simp [NoFail]
      · exact NoFail_bind _ _ ih (fun _ => by simp [NoFail])
    unfold pInsert
    cases rev
    · exact hk
    · exact hk

theorem pSort_noFail (rev : Bool) (l : List α) : (pSort rev l).NoFail := by
  induction l with
  | nil => simp [pSort, NoFail]
  | cons x xs ih => exact NoFail_bind _ _ ih (fun r => pInsert_noFail rev x r)

theorem pLex_noFail (a b : List α) : (pLex a b).NoFail := by
  induction a generalizing b with
  | nil => cases b <;> simp [pLex, NoFail]
  | cons x xs ih =>
    cases b with
    | nil => simp [pLex, NoFail]
    | cons y ys => intro o; cases o <;> simp [NoFail, ih]

theorem pLexP_noFail (a b : List α) : (pLexP a b).NoFail := by
  induction a generalizing b with
  | nil => cases b <;> simp [pLexP, NoFail]
  | cons x xs ih =>
    cases b with
    | nil => simp [pLexP, NoFail]
    | cons y ys =>
      intro o
      cases o with
      | none => simp [NoFail]
      | some o => cases o <;> simp [NoFail, ih]

theorem pSliceEq_noFail (a b : List α) : (pSliceEq a b).NoFail := by
  induction a generalizing b with
  | nil => cases b <;> simp [pSliceEq, NoFail]
  | cons x xs ih =>
    cases b with
    | nil => simp [pSliceEq, NoFail]
    | cons y ys => intro e; cases e <;> simp [NoFail, ih]

theorem pSetInsert_noFail (x : α) (s : List α) : (pSetInsert x s).NoFail := by
  induction s with
  | nil => simp [pSetInsert, NoFail]
  | cons y ys ih =>
    intro o
    cases o
    · simp [NoFail]
    · simp [NoFail]
    · exact NoFail_bind _ _ ih (fun _ => by simp [NoFail])

theorem pSetGo_noFail (s : List α) (fl : List Bool) (l : List α) : (pSetGo s fl l).NoFail := by
  induction l generalizing s fl with
  | nil => simp [pSetGo, NoFail]
  | cons x xs ih => exact NoFail_bind _ _ (pSetInsert_noFail x s) (fun r => ih _ _)

theorem pMapInsert_noFail (x v : α) (m : List (α × α)) : (pMapInsert x v m).NoFail := by
  induction m with
  | nil => simp [pMapInsert, NoFail]
  | cons e es ih =>
    intro o
    cases o
    · simp [NoFail]
    · simp [NoFail]
    · exact NoFail_bind _ _ ih (fun _ => by simp [NoFail])

theorem pMapGo_noFail (m : List (α × α)) (l : List α) : (pMapGo m l).NoFail := by
  induction l generalizing m with
  | nil => simp [pMapGo, NoFail]
  | cons x xs ih => exact NoFail_bind _ _ (pMapInsert_noFail x x m) (fun r => ih _)

theorem pDedupGo_noFail (last : α) (acc l : List α) : (pDedupGo last acc l).NoFail := by
  induction l generalizing last acc with
  | nil => simp [pDedupGo, NoFail]
  | cons y ys ih => intro e; cases e <;> simp [ih]

theorem pDedup_noFail (l : List α) : (pDedup l).NoFail := by
  cases l with
  | nil => simp [pDedup, NoFail]
  | cons x xs => exact pDedupGo_noFail x [x] xs

end nofail

/-! ### provided methods of `Ord` -/

theorem valueCmp_lt_iff (a b : F64) (ha : legal a = true) (hb : legal b = true) :
    valueCmp a b = some .lt ↔ lt a b = true := by
  rw [← partialCmp_eq_valueCmp a b ha hb, ← objCmp_lt_iff]
  have : objPartialCmp a b = partialCmp a b := rfl
  unfold objCmp
  rw [this]
  cases partialCmp a b <;> simp

theorem valueCmp_gt_iff (a b : F64) (ha : legal a = true) (hb : legal b = true) :
    valueCmp a b = some .gt ↔ lt b a = true := by
  rw [← partialCmp_eq_valueCmp a b ha hb, ← objCmp_gt_iff]
  have : objPartialCmp a b = partialCmp a b := rfl
  unfold objCmp
  rw [this]
  cases partialCmp a b <;> simp

theorem objLe_iff_not_gt (a b : F64) (ha : legal a = true) (hb : legal b = true) :
    objLe a b = true ↔ lt b a = false := by
  rw [objLe_iff]
  cases a <;> cases b <;> simp_all [legal, lt, eq] <;> omega

/-! ### `BTreeSet::insert` -/

section setp
variable {α : Type} (key : α → F64)

/-- strictly ascending -/
def StrictBy (l : List α) : Prop := l.Pairwise (fun a b => lt (key a) (key b) = true)

theorem pSetInsert_spec (x : α) (s : List α) (hx : legal (key x) = true)
    (hs : ∀ y ∈ s, legal (key y) = true) (hst : StrictBy key s) :
    ∃ r fl, (pSetInsert x s).run key = .ok (r, fl) ∧ StrictBy key r ∧
      (∀ z, z ∈ r → z = x ∨ z ∈ s) ∧ (∀ z ∈ s, z ∈ r) ∧
      (∃ z ∈ r, eq (key z) (key x) = true) ∧
      (fl = true ↔ ∀ z ∈ s, eq (key z) (key x) = false) ∧
      (fl = true → x ∈ r) ∧ (fl = false → r = s) := by
  induction s with
  | nil =>
    refine ⟨[x], true, rfl, by simp [StrictBy], by simp, by simp, ?_, by simp, by simp, by simp⟩
    exact ⟨x, by simp, by rw [eq_iff_of_not_nan _ _ (legal_not_nan _ hx)]⟩
  | cons y ys ih =>
    have hy : legal (key y) = true := hs y (by simp)
    have hys : ∀ z ∈ ys, legal (key z) = true := fun z hz => hs z (by simp [hz])
    have hst' : StrictBy key ys := (List.pairwise_cons.mp hst).2
    have hyall : ∀ z ∈ ys, lt (key y) (key z) = true := (List.pairwise_cons.mp hst).1
    obtain ⟨o, ho⟩ := objCmp_cases (key x) (key y) hx hy
    cases o with
    | lt =>
      have hlt : lt (key x) (key y) = true := (objCmp_lt_iff _ _).mp ho
      refine ⟨x :: y :: ys, true, by simp [pSetInsert, run, ho], ?_, ?_, ?_, ?_, ?_, by simp, by simp⟩
      · refine List.pairwise_cons.mpr ⟨?_, hst⟩
        intro z hz
        rcases List.mem_cons.mp hz with h | h
        · subst h; exact hlt
        · exact lt_trans' _ _ _ hlt (hyall z h)
      · intro z hz; simpa using hz
      · intro z hz; simp [List.mem_cons.mp hz]
      · exact ⟨x, by simp, by rw [eq_iff_of_not_nan _ _ (legal_not_nan _ hx)]⟩
      · simp only [true_iff]
        intro z hz
        have hxz : lt (key x) (key z) = true := by
          rcases List.mem_cons.mp hz with h | h
          · subst h; exact hlt
          · exact lt_trans' _ _ _ hlt (hyall z h)
        cases he : eq (key z) (key x) with
        | false => rfl
        | true =>
          have := eq_not_lt _ _ he
          have h2 := lt_asymm' _ _ hxz
          rw [eq_symm'] at he
          have := eq_not_lt _ _ he
          simp_all
    | eq =>
      have heq : eq (key x) (key y) = true := (objCmp_eq_iff _ _).mp ho
      refine ⟨y :: ys, false, by simp [pSetInsert, run, ho], hst, ?_, ?_, ?_, ?_, by simp, by simp⟩
      · intro z hz; exact .inr hz
      · intro z hz; exact hz
      · exact ⟨y, by simp, by rw [eq_symm']; exact heq⟩
      · simp only [Bool.false_eq_true, false_iff]
        intro hall
        have := hall y (by simp)
        rw [eq_symm', heq] at this
        simp at this
    | gt =>
      have hgt : lt (key y) (key x) = true := (objCmp_gt_iff _ _).mp ho
      obtain ⟨r, fl, hr, hsr, hsub, hsup, hex, hfl, hin, hsame⟩ := ih hys hst'
      refine ⟨y :: r, fl, ?_, ?_, ?_, ?_, ?_, ?_, ?_, ?_⟩
      · simp [pSetInsert, run, ho, run_bind, hr]
      · refine List.pairwise_cons.mpr ⟨?_, hsr⟩
        intro z hz
        rcases hsub z hz with h | h
        · subst h; exact hgt
        · exact hyall z h
      · intro z hz
        rcases List.mem_cons.mp hz with h | h
        · subst h; simp
        · rcases hsub z h with h' | h'
          · exact .inl h'
          · exact .inr (by simp [h'])
      · intro z hz
        rcases List.mem_cons.mp hz with h | h
        · subst h; simp
        · simp [hsup z h]
      · obtain ⟨z, hz, hze⟩ := hex
        exact ⟨z, by simp [hz], hze⟩
      · rw [hfl]
        constructor
        · intro h z hz
          rcases List.mem_cons.mp hz with h' | h'
          · subst h'
            cases he : eq (key z) (key x) with
            | false => rfl
            | true => have := eq_not_lt _ _ he; simp_all
          · exact h z h'
        · intro h z hz; exact h z (by simp [hz])
      · intro h; simp [hin h]
      · intro h; simp [hsame h]

end setp

/-! ### bit level: which patterns compare `Equal`, and where `total_cmp` differs -/

theorem lt_negF (a b : F64) (h : lt a b = true) : lt (negF b) (negF a) = true := by
  cases a <;> cases b <;> simp_all [lt, negF] <;> omega

theorem mag_eq_zero_iff (e f : Nat) : mag e f = 0 ↔ (e = 0 ∧ f = 0) := by
  unfold mag
  by_cases he : e = 0
  · simp [he]
  · have : 0 < 2 ^ (e - 1) := Nat.two_pow_pos _
    simp only [he, if_false, false_and, iff_false]
    have h2 : 0 < (2 ^ 52 + f) * 2 ^ (e - 1) := Nat.mul_pos (by omega) this
    omega

/-- A pattern without sign bit below the NaNs decodes to `+inf` or to a non-negative finite value,
which is zero only for the pattern 0. -/
theorem ofNatBits_pos_cases (n : Nat) (h : n ≤ 0x7ff0000000000000) :
    ofNatBits n = .pinf ∨ ∃ k : Nat, ofNatBits n = .fin (k : Int) ∧ (k = 0 ↔ n = 0) := by
  by_cases hn : n = 0x7ff0000000000000
  · left; subst hn; decide
  · right
    have hlt : n < 0x7ff0000000000000 := by omega
    refine ⟨mag (n / 2 ^ 52) (n % 2 ^ 52), ofNatBits_nonneg n hlt, ?_⟩
    rw [mag_eq_zero_iff]; omega

theorem ofNatBits_mono_le (m n : Nat) (hmn : m < n) (hn : n ≤ 0x7ff0000000000000) :
    lt (ofNatBits m) (ofNatBits n) = true := by
  by_cases h : n = 0x7ff0000000000000
  · subst h
    rw [ofNatBits_nonneg m hmn]
    have : ofNatBits 0x7ff0000000000000 = .pinf := by decide
    rw [this]; rfl
  · exact ofNatBits_mono m n hmn (by omega)

/-- Legal patterns: without sign bit up to `+inf`, with sign bit strictly below `−inf`. -/
theorem legal_bits_cases (n : Nat) (hn : n < 2 ^ 64) (hl : legal (ofNatBits n) = true) :
    n ≤ 0x7ff0000000000000 ∨ (2 ^ 63 ≤ n ∧ n - 2 ^ 63 < 0x7ff0000000000000) := by
  have h := legal_ofNatBits n
  have hnot : ¬ (n / 2 ^ 52 % 2048 = 2047 ∧ (n % 2 ^ 52 ≠ 0 ∨ n / 2 ^ 63 % 2 = 1)) := by
    intro hc
    have := h.mpr hc
    simp [hl] at this
  omega

/-- The numeric order of two legal patterns, read off the `total_cmp` keys: a smaller key never
means a larger value, and it means a strictly smaller value unless the two are the two zeros. -/
theorem lt_of_totalKey_lt (m n : Nat) (hm : m < 2 ^ 64) (hn : n < 2 ^ 64)
    (lm : legal (ofNatBits m) = true) (ln : legal (ofNatBits n) = true)
    (hk : totalKey m < totalKey n) (hz : ¬ (m = 2 ^ 63 ∧ n = 0)) :
    lt (ofNatBits m) (ofNatBits n) = true := by
  rcases legal_bits_cases m hm lm with cm | ⟨cm1, cm2⟩ <;>
    rcases legal_bits_cases n hn ln with cn | ⟨cn1, cn2⟩
  · -- both without sign bit
    have h1 : totalKey m = (m : Int) := by unfold totalKey; rw [if_pos (by omega)]
    have h2 : totalKey n = (n : Int) := by unfold totalKey; rw [if_pos (by omega)]
    rw [h1, h2] at hk
    exact ofNatBits_mono_le m n (by omega) cn
  · -- m ≥ 0 > n: impossible
    have h1 : totalKey m = (m : Int) := by unfold totalKey; rw [if_pos (by omega)]
    have h2 : totalKey n = -((n - 2 ^ 63 : Nat) : Int) - 1 := by
      unfold totalKey; rw [if_neg (by omega)]
    rw [h1, h2] at hk
    omega
  · -- m negative, n non-negative
    obtain ⟨m', rfl⟩ : ∃ m', m = m' + 2 ^ 63 := ⟨m - 2 ^ 63, by omega⟩
    have hm' : m' < 0x7ff0000000000000 := by omega
    rw [ofNatBits_sign m' (by omega)]
    obtain ⟨k, hk1, hk0⟩ := (ofNatBits_pos_cases m' (by omega)).resolve_left (by
      rw [ofNatBits_nonneg m' hm']; simp)
    rw [hk1]
    rcases ofNatBits_pos_cases n cn with hp | ⟨j, hj1, hj0⟩
    · rw [hp]; simp [negF, lt]
    · rw [hj1]
      simp only [negF, lt, decide_eq_true_eq]
      have : ¬ (k = 0 ∧ j = 0) := by
        rintro ⟨a, b⟩
        exact hz ⟨by have := hk0.mp a; omega, hj0.mp b⟩
      omega
  · -- both negative
    obtain ⟨m', rfl⟩ : ∃ m', m = m' + 2 ^ 63 := ⟨m - 2 ^ 63, by omega⟩
    obtain ⟨n', rfl⟩ : ∃ n', n = n' + 2 ^ 63 := ⟨n - 2 ^ 63, by omega⟩
    have h1 : totalKey (m' + 2 ^ 63) = -(m' : Int) - 1 := by
      unfold totalKey; rw [if_neg (by omega)]; simp
    have h2 : totalKey (n' + 2 ^ 63) = -(n' : Int) - 1 := by
      unfold totalKey; rw [if_neg (by omega)]; simp
    rw [h1, h2] at hk
    rw [ofNatBits_sign m' (by omega), ofNatBits_sign n' (by omega)]
    exact lt_negF _ _ (ofNatBits_mono n' m' (by omega) (by omega))

theorem totalKey_inj (m n : Nat) (hm : m < 2 ^ 64) (hn : n < 2 ^ 64) (h : totalKey m = totalKey n) :
    m = n := by
  unfold totalKey at h
  split at h <;> split at h <;> omega

theorem ofNatBits_negZero : ofNatBits (2 ^ 63) = .fin 0 := by decide

/-! ### which minimum, which maximum, and stability -/

theorem objLe_lt_trans (a b c : F64) (h1 : objLe a b = true) (h2 : lt b c = true) : lt a c = true := by
  rw [objLe_iff] at h1
  rcases h1 with h | h
  · exact lt_trans' _ _ _ h h2
  · exact eq_lt_trans _ _ _ h h2

theorem lt_objLe_trans (a b c : F64) (h1 : lt a b = true) (h2 : objLe b c = true) : lt a c = true := by
  rw [objLe_iff] at h2
  rcases h2 with h | h
  · exact lt_trans' _ _ _ h1 h
  · exact lt_eq_trans _ _ _ h1 h

section firstlast
variable {α : Type} (key : α → F64)

/-- `minGo` returns the *first* minimum: everything before it is strictly greater. -/
theorem minGo_first (m : α) (l : List α) (hm : legal (key m) = true)
    (hl : ∀ y ∈ l, legal (key y) = true) :
    ∃ r pre post, minGo key m l = .ok r ∧ m :: l = pre ++ r :: post ∧
      (∀ y ∈ pre, lt (key r) (key y) = true) ∧ (∀ y ∈ post, objLe (key r) (key y) = true) := by
  induction l generalizing m with
  | nil => exact ⟨m, [], [], rfl, rfl, by simp, by simp⟩
  | cons y ys ih =>
    have hy : legal (key y) = true := hl y (by simp)
    have hys : ∀ z ∈ ys, legal (key z) = true := fun z hz => hl z (by simp [hz])
    obtain ⟨o, ho⟩ := objCmp_cases (key m) (key y) hm hy
    by_cases hgt : o = .gt
    · subst hgt
      have hym : lt (key y) (key m) = true := (objCmp_gt_iff _ _).mp ho
      obtain ⟨r, pre, post, hr, hsplit, hpre, hpost⟩ := ih y hy hys
      obtain ⟨r', hr', _, hry, _⟩ := minGo_spec key y ys hy hys
      have : r' = r := by rw [hr] at hr'; injection hr' with h; exact h.symm
      subst this
      refine ⟨r', m :: pre, post, by simp [minGo, ho, hr], by simp [hsplit], ?_, hpost⟩
      intro z hz
      rcases List.mem_cons.mp hz with h | h
      · subst h; exact objLe_lt_trans _ _ _ hry hym
      · exact hpre z h
    · have hmy : objLe (key m) (key y) = true := objCmp_notgt_objLe _ _ o ho hgt
      obtain ⟨r, pre, post, hr, hsplit, hpre, hpost⟩ := ih m hm hys
      have hrun : minGo key m (y :: ys) = .ok r := by cases o <;> simp_all [minGo]
      cases pre with
      | nil =>
        simp only [List.nil_append, List.cons.injEq] at hsplit
        obtain ⟨h1, h2⟩ := hsplit
        subst h1; subst h2
        refine ⟨m, [], y :: ys, hrun, rfl, by simp, ?_⟩
        intro z hz
        rcases List.mem_cons.mp hz with h | h
        · subst h; exact hmy
        · exact hpost z h
      | cons p pre' =>
        simp only [List.cons_append, List.cons.injEq] at hsplit
        obtain ⟨h1, h2⟩ := hsplit
        subst h1
        have hrm : lt (key r) (key m) = true := hpre m (by simp)
        refine ⟨r, m :: y :: pre', post, hrun, by simp [h2], ?_, hpost⟩
        intro z hz
        simp only [List.mem_cons] at hz
        rcases hz with h | h | h
        · subst h; exact hrm
        · subst h; exact lt_objLe_trans _ _ _ hrm hmy
        · exact hpre z (by simp [h])

/-- `maxGo` returns the *last* maximum: everything after it is strictly less. -/
theorem maxGo_last (m : α) (l : List α) (hm : legal (key m) = true)
    (hl : ∀ y ∈ l, legal (key y) = true) :
    ∃ r pre post, maxGo key m l = .ok r ∧ m :: l = pre ++ r :: post ∧
      (∀ y ∈ pre, objLe (key y) (key r) = true) ∧ (∀ y ∈ post, lt (key y) (key r) = true) := by
  induction l generalizing m with
  | nil => exact ⟨m, [], [], rfl, rfl, by simp, by simp⟩
  | cons y ys ih =>
    have hy : legal (key y) = true := hl y (by simp)
    have hys : ∀ z ∈ ys, legal (key z) = true := fun z hz => hl z (by simp [hz])
    obtain ⟨o, ho⟩ := objCmp_cases (key m) (key y) hm hy
    by_cases hgt : o = .gt
    · subst hgt
      have hym : lt (key y) (key m) = true := (objCmp_gt_iff _ _).mp ho
      obtain ⟨r, pre, post, hr, hsplit, hpre, hpost⟩ := ih m hm hys
      have hrun : maxGo key m (y :: ys) = .ok r := by simp [maxGo, ho, hr]
      obtain ⟨r', hr', _, hmr, _⟩ := maxGo_spec key m ys hm hys
      have : r' = r := by rw [hr] at hr'; injection hr' with h; exact h.symm
      subst this
      cases pre with
      | nil =>
        simp only [List.nil_append, List.cons.injEq] at hsplit
        obtain ⟨h1, h2⟩ := hsplit
        subst h1; subst h2
        refine ⟨m, [], y :: ys, hrun, rfl, by simp, ?_⟩
        intro z hz
        rcases List.mem_cons.mp hz with h | h
        · subst h; exact hym
        · exact hpost z h
      | cons p pre' =>
        simp only [List.cons_append, List.cons.injEq] at hsplit
        obtain ⟨h1, h2⟩ := hsplit
        subst h1
        refine ⟨r', m :: y :: pre', post, hrun, by simp [h2], ?_, hpost⟩
        intro z hz
        simp only [List.mem_cons] at hz
        rcases hz with h | h | h
        · subst h; exact hmr
        · subst h
          rw [objLe_iff]; exact .inl (lt_objLe_trans _ _ _ hym hmr)
        · exact hpre z (by simp [h])
    · have hmy : objLe (key m) (key y) = true := objCmp_notgt_objLe _ _ o ho hgt
      obtain ⟨r, pre, post, hr, hsplit, hpre, hpost⟩ := ih y hy hys
      obtain ⟨r', hr', _, hyr, _⟩ := maxGo_spec key y ys hy hys
      have : r' = r := by rw [hr] at hr'; injection hr' with h; exact h.symm
      subst this
      have hrun : maxGo key m (y :: ys) = .ok r' := by cases o <;> simp_all [maxGo]
      refine ⟨r', m :: pre, post, hrun, by simp [hsplit], ?_, hpost⟩
      intro z hz
      rcases List.mem_cons.mp hz with h | h
      · subst h; exact objLe_trans _ _ _ hmy hyr
      · exact hpre z h

/-- Insertion puts `x` in front of the elements it is equal to and behind strictly smaller ones:
every class of equal values keeps its order. -/
theorem insertSorted_filter (x : α) (l r : List α) (v : F64) (h : insertSorted key x l = .ok r) :
    r.filter (fun a => eq (key a) v) = (x :: l).filter (fun a => eq (key a) v) := by
  induction l generalizing r with
  | nil => simp [insertSorted] at h; subst h; rfl
  | cons y ys ih =>
    unfold insertSorted at h
    cases ho : objCmp (key x) (key y) with
    | panic => simp [ho] at h
    | ok o =>
      cases o with
      | lt => simp [ho] at h; subst h; rfl
      | eq => simp [ho] at h; subst h; rfl
      | gt =>
        simp only [ho] at h
        cases hr : insertSorted key x ys with
        | panic => simp [hr] at h
        | ok r' =>
          simp only [hr] at h
          injection h with h; subst h
          have hyx : lt (key y) (key x) = true := (objCmp_gt_iff _ _).mp ho
          have ih' := ih r' hr
          simp only [List.filter_cons] at ih' ⊢
          rw [ih']
          by_cases px : eq (key x) v = true
          · by_cases py : eq (key y) v = true
            · -- both in the class: then y == x, contradicting y < x
              have : eq (key y) (key x) = true := by
                rw [eq_symm' (key x) v] at px
                exact eq_trans' _ _ _ py px
              have := eq_not_lt _ _ this
              simp_all
            · simp [px, py]
          · simp [px]

theorem sortObjs_filter (l r : List α) (v : F64) (h : sortObjs key l = .ok r) :
    r.filter (fun a => eq (key a) v) = l.filter (fun a => eq (key a) v) := by
  induction l generalizing r with
  | nil => simp [sortObjs] at h; subst h; rfl
  | cons x xs ih =>
    unfold sortObjs at h
    cases hs : sortObjs key xs with
    | panic => simp [hs] at h
    | ok s =>
      simp only [hs] at h
      rw [insertSorted_filter key x s r v h, List.filter_cons, List.filter_cons, ih s hs]

end firstlast

theorem objLe_antisymm (a b : F64) (h1 : objLe a b = true) (h2 : objLe b a = true) : eq a b = true := by
  rw [objLe_iff] at h1 h2
  rcases h1 with h1 | h1
  · rcases h2 with h2 | h2
    · have := lt_asymm' _ _ h1; simp_all
    · rw [eq_symm'] at h2; exact h2
  · exact h1

/-- Ascending + permutation + "every class of equal values in the same order" determines the list. -/
theorem stable_sorted_unique {α : Type} (key : α → F64) (r1 r2 : List α)
    (hp : r1.Perm r2)
    (s1 : r1.Pairwise (fun a b => objLe (key a) (key b) = true))
    (s2 : r2.Pairwise (fun a b => objLe (key a) (key b) = true))
    (hleg : ∀ y ∈ r1, legal (key y) = true)
    (hf : ∀ v : F64, r1.filter (fun a => eq (key a) v) = r2.filter (fun a => eq (key a) v)) :
    r1 = r2 := by
  induction r1 generalizing r2 with
  | nil => exact (List.Perm.nil_eq hp)
  | cons a t1 ih =>
    cases r2 with
    | nil => exact absurd hp.symm (by simp)
    | cons b t2 =>
      have ha : legal (key a) = true := hleg a (by simp)
      have hb : legal (key b) = true := hleg b (hp.mem_iff.mpr (by simp))
      have hrefl : ∀ x, legal x = true → eq x x = true := fun x hx => by
        rw [eq_iff_of_not_nan _ _ (legal_not_nan _ hx)]
      -- a ≤ b and b ≤ a
      have hab : objLe (key a) (key b) = true := by
        have hm : b ∈ a :: t1 := hp.mem_iff.mpr (by simp)
        rcases List.mem_cons.mp hm with h | h
        · subst h; rw [objLe_iff]; exact .inr (hrefl _ ha)
        · exact (List.pairwise_cons.mp s1).1 b h
      have hba : objLe (key b) (key a) = true := by
        have hm : a ∈ b :: t2 := hp.mem_iff.mp (by simp)
        rcases List.mem_cons.mp hm with h | h
        · subst h; rw [objLe_iff]; exact .inr (hrefl _ ha)
        · exact (List.pairwise_cons.mp s2).1 a h
      have heq : eq (key b) (key a) = true := objLe_antisymm _ _ hba hab
      have hv := hf (key a)
      simp only [List.filter_cons, hrefl _ ha, heq, if_true] at hv
      injection hv with h1 h2
      subst h1
      have htail : ∀ v : F64, t1.filter (fun x => eq (key x) v) = t2.filter (fun x => eq (key x) v) := by
        intro v
        have := hf v
        simp only [List.filter_cons] at this
        split at this
        · injection this
        · exact this
      have := ih t2 (List.Perm.cons_inv hp) (List.pairwise_cons.mp s1).2 (List.pairwise_cons.mp s2).2
        (fun y hy => hleg y (by simp [hy])) htail
      rw [this]

end MahfModel.Objective
