/- Helper lemmas for C06 (evaluation step, evaluation count). Core only. -/
import MahfModel.Model.PopMachineWire
namespace MahfModel.PopMachine

variable {O : Type}

/-- Objective invocations a trace event stands for. -/
def evCalls : Ev O → Nat
  | .eval n _ => n
  | .selfEval vals => vals.length
  | _ => 0

/-- No scope of the trace shadows the evaluation counter. -/
def noCounterShadow (evs : List (Ev O)) : Prop := ∀ hb, Ev.enter true hb ∉ evs

theorem map_evaluateWith_sol (f : Nat → O) (p : List (Ind O)) :
    (p.map (Ind.evaluateWith f)).map (·.sol) = p.map (·.sol) := by
  induction p with
  | nil => rfl
  | cons i is ih => simp [Ind.evaluateWith]

theorem mem_map_evaluateWith (f : Nat → O) (p : List (Ind O)) (i : Ind O)
    (h : i ∈ p.map (Ind.evaluateWith f)) : i.obj = some (f i.sol) := by
  rcases List.mem_map.mp h with ⟨j, _, rfl⟩
  rfl

section Scoped
variable [LT O] [DecidableLT O]

theorem scoped_noShadow_aux (evs : List (Ev O)) (s : Scoped O) (c : Nat)
    (hc : s.counters = [c]) (hf : ∀ fr ∈ s.frames, fr.1 = false)
    (hn : noCounterShadow evs) :
    (scopedRun s evs).counters = [c + (evs.map evCalls).sum] := by
  induction evs generalizing s c with
  | nil => simpa [scopedRun] using hc
  | cons ev evs ih =>
    have hn' : noCounterShadow evs := fun hb h => hn hb (List.mem_cons_of_mem _ h)
    simp only [scopedRun, List.foldl_cons] at *
    cases ev with
    | enter he hb =>
      have : he = false := by
        cases he with
        | false => rfl
        | true => exact absurd List.mem_cons_self (hn hb)
      subst this
      have := ih (scopedStep s (.enter false hb)) c (by simp [scopedStep, hc])
        (by intro fr hfr; simp [scopedStep] at hfr; rcases hfr with rfl | h; rfl; exact hf _ h) hn'
      simpa [evCalls] using this
    | exit =>
      cases hfr : s.frames with
      | nil =>
        have := ih (scopedStep s .exit) c (by simp [scopedStep, hfr, hc]) (by simp [scopedStep, hfr]) hn'
        simpa [evCalls] using this
      | cons fr frs =>
        obtain ⟨he, hb⟩ := fr
        have hhe : he = false := hf (he, hb) (by simp [hfr])
        subst hhe
        have := ih (scopedStep s .exit) c (by simp [scopedStep, hfr, hc])
          (by intro fr h; simp [scopedStep, hfr] at h; exact hf fr (by simp [hfr, h])) hn'
        simpa [evCalls] using this
    | eval n vals =>
      have := ih (scopedStep s (.eval n vals)) (c + n) (by simp [scopedStep, hc, addTop]) (by simpa [scopedStep] using hf) hn'
      simp only [List.map_cons, List.sum_cons, evCalls]
      rw [this]; congr 1; omega
    | selfEval vals =>
      have := ih (scopedStep s (.selfEval vals)) (c + vals.length) (by simp [scopedStep, hc, addTop]) (by simpa [scopedStep] using hf) hn'
      simp only [List.map_cons, List.sum_cons, evCalls]
      rw [this]; congr 1; omega
    | update pop =>
      have := ih (scopedStep s (.update pop)) c (by simp [scopedStep, hc]) (by simpa [scopedStep] using hf) hn'
      simpa [evCalls] using this
    | other =>
      have := ih (scopedStep s .other) c (by simp [scopedStep, hc]) (by simpa [scopedStep] using hf) hn'
      simpa [evCalls] using this

end Scoped

end MahfModel.PopMachine
