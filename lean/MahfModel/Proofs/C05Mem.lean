/- Helper definitions and lemmas for the memory part of C05 (`Model/PopMachineMem.lean`). -/
import MahfModel.Proofs.C05
import MahfModel.Model.PopMachineMem
namespace MahfModel.PopMachine

set_option linter.unusedSectionVars false
variable {O : Type}

/-- Validity of everything the machine with memories holds. -/
def AllValidX (f : Nat → O) (x : PMX O) : Prop :=
  AllValidPM f x.pm ∧ AllValid f x.pbest ∧ (∀ g, x.gbest = some g → Valid f g) ∧ AllValid f x.mols

theorem allValidX_iff (f : Nat → O) (x : PMX O) : AllValidX f x ↔ AllValid f (allInds x) := by
  simp only [AllValidX, AllValidPM, AllValid, allInds, List.mem_append, List.mem_flatten, Option.mem_toList]
  constructor
  · rintro ⟨⟨h1, h2, h3⟩, h4, h5, h6⟩ i hi
    rcases hi with ((((⟨p, hp, hip⟩ | hi) | hi) | hi) | hi) | hi
    · exact h1 p hp i hip
    · exact h2 i hi
    · exact h3 i hi
    · exact h4 i hi
    · exact h5 i hi
    · exact h6 i hi
  · intro h
    refine ⟨⟨fun p hp i hi => h i ?_, fun b hb => h b ?_, fun i hi => h i ?_⟩, fun i hi => h i ?_, fun g hg => h g ?_, fun i hi => h i ?_⟩
    · exact Or.inl (Or.inl (Or.inl (Or.inl (Or.inl ⟨p, hp, hi⟩))))
    · exact Or.inl (Or.inl (Or.inl (Or.inl (Or.inr hb))))
    · exact Or.inl (Or.inl (Or.inl (Or.inr hi)))
    · exact Or.inl (Or.inl (Or.inr hi))
    · exact Or.inl (Or.inr hg)
    · exact Or.inr hi

theorem clone_id (i : Ind O) : i.clone = i := by cases i; rfl

theorem allValid_cons (f : Nat → O) (i : Ind O) (p : List (Ind O)) : AllValid f (i :: p) ↔ Valid f i ∧ AllValid f p := by
  simp [AllValid]

theorem allValid_nil (f : Nat → O) : AllValid f ([] : List (Ind O)) := by simp [AllValid]

/-! ### partial mutation, recombination executor, DE mutation, duplication -/

theorem allValid_mutateSome (f : Nat → O) : ∀ (p : List (Ind O)) (ts : List Touch), AllValid f p → AllValid f (mutateSome p ts)
  | [], _, _ => by simp [mutateSome, AllValid]
  | i :: is, [], h => by
    rw [mutateSome, allValid_cons]; rw [allValid_cons] at h
    exact ⟨h.1, allValid_mutateSome f is [] h.2⟩
  | i :: is, .keep :: ts, h => by
    rw [mutateSome, allValid_cons]; rw [allValid_cons] at h
    exact ⟨h.1, allValid_mutateSome f is ts h.2⟩
  | i :: is, .mut w :: ts, h => by
    rw [mutateSome, allValid_cons]; rw [allValid_cons] at h
    exact ⟨valid_solutionMut f i w, allValid_mutateSome f is ts h.2⟩

theorem mutateSome_length : ∀ (p : List (Ind O)) (ts : List Touch), (mutateSome p ts).length = p.length
  | [], _ => by simp [mutateSome]
  | i :: is, [] => by simp [mutateSome, mutateSome_length is []]
  | i :: is, .keep :: ts => by simp [mutateSome, mutateSome_length is ts]
  | i :: is, .mut w :: ts => by simp [mutateSome, mutateSome_length is ts]

/-- Position-wise: a member is untouched (the very same individual) or unevaluated. -/
theorem mutateSome_pointwise : ∀ (p : List (Ind O)) (ts : List Touch) (k : Nat) (a b : Ind O),
    p[k]? = some a → (mutateSome p ts)[k]? = some b → b = a ∨ b.obj = none
  | [], _, _, _, _, h, _ => by simp at h
  | i :: is, [], 0, a, b, h1, h2 => by simp [mutateSome] at h1 h2; left; rw [← h1, ← h2]
  | i :: is, [], k + 1, a, b, h1, h2 => by
    simp [mutateSome] at h1 h2; exact mutateSome_pointwise is [] k a b h1 h2
  | i :: is, .keep :: ts, 0, a, b, h1, h2 => by simp [mutateSome] at h1 h2; left; rw [← h1, ← h2]
  | i :: is, .keep :: ts, k + 1, a, b, h1, h2 => by
    simp [mutateSome] at h1 h2; exact mutateSome_pointwise is ts k a b h1 h2
  | i :: is, .mut w :: ts, 0, a, b, h1, h2 => by simp [mutateSome] at h1 h2; right; rw [← h2]; rfl
  | i :: is, .mut w :: ts, k + 1, a, b, h1, h2 => by
    simp [mutateSome] at h1 h2; exact mutateSome_pointwise is ts k a b h1 h2

/-- A touched member is unevaluated, whatever was (not) written. -/
theorem mutateSome_touched : ∀ (p : List (Ind O)) (ts : List Touch) (k : Nat) (w : Option Nat) (b : Ind O),
    k < p.length → ts[k]? = some (.mut w) → (mutateSome p ts)[k]? = some b → b.obj = none
  | [], _, _, _, _, h, _, _ => by simp at h
  | i :: is, [], _, _, _, _, h, _ => by simp at h
  | i :: is, .keep :: ts, 0, w, b, _, h, _ => by simp at h
  | i :: is, .mut w' :: ts, 0, w, b, _, _, h2 => by simp [mutateSome] at h2; rw [← h2]; rfl
  | i :: is, .keep :: ts, k + 1, w, b, hk, h, h2 => by
    simp [mutateSome] at h h2 hk; exact mutateSome_touched is ts k w b hk h h2
  | i :: is, .mut w' :: ts, k + 1, w, b, hk, h, h2 => by
    simp [mutateSome] at h h2 hk; exact mutateSome_touched is ts k w b hk h h2

theorem recombineExec_unevaluated (p : List (Ind O)) (ws : List PairOut) : ∀ i ∈ recombineExec p ws, i.obj = none := by
  intro i hi
  simp only [recombineExec, intoIndividuals, List.mem_map] at hi
  obtain ⟨s, _, rfl⟩ := hi
  rfl

/-- Pairs for which the operator returned `None` (and the odd remainder) hand the parents' SOLUTIONS on. -/
theorem recombineSols_none : ∀ (ss : List Nat), recombineSols ss [] = ss
  | [] => rfl
  | [_] => rfl
  | a :: b :: rest => by simp [recombineSols, recombineSols_none rest]

theorem retainEveryFrom_mem {α : Type} (size : Nat) : ∀ (k : Nat) (l : List α), ∀ x ∈ retainEveryFrom size k l, x ∈ l
  | _, [], _, h => by simp [retainEveryFrom] at h
  | k, y :: ys, x, h => by
    simp only [retainEveryFrom] at h
    split at h
    · simp only [List.mem_cons] at h ⊢
      rcases h with h | h
      · exact Or.inl h
      · exact Or.inr (retainEveryFrom_mem size (k + 1) ys x h)
    · exact List.mem_cons_of_mem _ (retainEveryFrom_mem size (k + 1) ys x h)

theorem deMutation_unevaluated (size : Nat) (p p' : List (Ind O)) (ws : List (Option Nat))
    (h : deMutation size p ws = some p') : ∀ i ∈ p', i.obj = none := by
  simp only [deMutation] at h
  split at h
  · cases h
  · injection h with h; subst h
    intro i hi
    exact asSolutionsMut_unevaluated p ws i (retainEveryFrom_mem size 0 _ i hi)

theorem duplicate_mem : ∀ (p : List (Ind O)), ∀ x ∈ duplicate p, x ∈ p
  | [], _, h => by simp [duplicate] at h
  | i :: is, x, h => by
    simp only [duplicate, List.mem_cons, clone_id] at h ⊢
    rcases h with h | h | h
    · exact Or.inl h
    · exact Or.inl h
    · exact Or.inr (duplicate_mem is x h)

/-! ### memories -/

section Linear
variable [LT O] [DecidableLT O]

theorem keepBetter_cases (cur cand r : Ind O) (h : keepBetter cur cand = some r) : r = cur ∨ r = cand := by
  simp only [keepBetter] at h
  split at h
  · injection h with h
    split at h
    · right; rw [← h, clone_id]
    · left; exact h.symm
  · cases h

theorem pbestUpd_mem : ∀ (bs cs r : List (Ind O)), pbestUpd bs cs = some r → ∀ x ∈ r, x ∈ bs ∨ x ∈ cs
  | [], _, r, h, x, hx => by simp [pbestUpd] at h; subst h; simp at hx
  | b :: bs, [], r, h, x, hx => by simp [pbestUpd] at h; subst h; exact Or.inl hx
  | b :: bs, c :: cs, r, h, x, hx => by
    simp only [pbestUpd] at h
    split at h
    · rename_i b' r' hb hr
      injection h with h; subst h
      simp only [List.mem_cons] at hx ⊢
      rcases hx with rfl | hx
      · rcases keepBetter_cases b c x hb with h | h
        · exact Or.inl (Or.inl h)
        · exact Or.inr (Or.inl h)
      · rcases pbestUpd_mem bs cs r' hr x hx with h | h
        · exact Or.inl (Or.inr h)
        · exact Or.inr (Or.inr h)
    · cases h

theorem pbestUpd_length : ∀ (bs cs r : List (Ind O)), pbestUpd bs cs = some r → r.length = bs.length
  | [], _, r, h => by simp [pbestUpd] at h; subst h; rfl
  | b :: bs, [], r, h => by simp [pbestUpd] at h; subst h; rfl
  | b :: bs, c :: cs, r, h => by
    simp only [pbestUpd] at h
    split at h
    · rename_i b' r' hb hr
      injection h with h; subst h
      simp [pbestUpd_length bs cs r' hr]
    · cases h

theorem gbestUpd_cases (best cand g : Option (Ind O)) (h : gbestUpd best cand = some g) : g = best ∨ (g = cand ∧ cand.isSome) := by
  cases best with
  | none =>
    cases cand with
    | none => simp [gbestUpd] at h; left; exact h.symm
    | some c => simp [gbestUpd, clone_id] at h; right; exact ⟨h.symm, rfl⟩
  | some cur =>
    cases cand with
    | none => simp [gbestUpd] at h; left; exact h.symm
    | some c =>
      simp only [gbestUpd, Option.map_eq_some_iff] at h
      obtain ⟨r, hr, rfl⟩ := h
      rcases keepBetter_cases cur c r hr with h | h
      · left; rw [h]
      · right; exact ⟨by rw [h], rfl⟩

end Linear

theorem position_lt [DecidableEq O] : ∀ (l : List (Ind O)) (r : Ind O) (k : Nat), position l r = some k → l[k]? = some r
  | [], _, _, h => by simp [position] at h
  | x :: xs, r, k, h => by
    simp only [position] at h
    split at h
    · rename_i hx; injection h with h; subst h; simp [hx]
    · simp only [Option.map_eq_some_iff] at h
      obtain ⟨j, hj, rfl⟩ := h
      simp [position_lt xs r j hj]

theorem allValid_of_mem_stack (f : Nat → O) (x : PMX O) (h : AllValidX f x) (p : List (Ind O)) (hp : p ∈ x.pm.stack) : AllValid f p :=
  h.1.1 p hp

/-- Replacing the stack by populations that are all valid keeps `AllValidX`. -/
theorem allValidX_withStack (f : Nat → O) (x : PMX O) (s : List (List (Ind O))) (h : AllValidX f x)
    (hs : ∀ p ∈ s, AllValid f p) : AllValidX f (x.withStack s) :=
  ⟨⟨hs, h.1.2.1, h.1.2.2⟩, h.2.1, h.2.2.1, h.2.2.2⟩

theorem allValidX_withStack_mols (f : Nat → O) (x : PMX O) (s : List (List (Ind O))) (m : List (Ind O)) (h : AllValidX f x)
    (hs : ∀ p ∈ s, AllValid f p) (hm : AllValid f m) : AllValidX f { x.withStack s with mols := m } :=
  ⟨⟨hs, h.1.2.1, h.1.2.2⟩, h.2.1, h.2.2.1, hm⟩

theorem valid_of_intoSingle (f : Nat → O) (p : List (Ind O)) (i : Ind O) (hp : AllValid f p) (h : intoSingle p = .ok i) : Valid f i :=
  hp i (intoSingle_mem p i h)

/-! ### the CRO reactions keep everything valid, for every outcome -/

section Cro
variable [LT O] [DecidableLT O] [DecidableEq O]

theorem stack3 (f : Nat → O) (x : PMX O) (hv : AllValidX f x) {pp rp cur : List (Ind O)} {rest : List (List (Ind O))}
    (hst : x.pm.stack = pp :: rp :: cur :: rest) :
    AllValid f pp ∧ AllValid f rp ∧ AllValid f cur ∧ ∀ q ∈ rest, AllValid f q :=
  ⟨hv.1.1 pp (by simp [hst]), hv.1.1 rp (by simp [hst]), hv.1.1 cur (by simp [hst]), fun q hq => hv.1.1 q (by simp [hst, hq])⟩

theorem two_valid (f : Nat → O) {p : List (Ind O)} {a b : Ind O} (hp : AllValid f p) (h : p = [a, b]) : Valid f a ∧ Valid f b := by
  subst h; exact ⟨hp a (by simp), hp b (by simp)⟩

theorem keepBetter_valid (f : Nat → O) (m p m' : Ind O) (hm : Valid f m) (hp : Valid f p)
    (h : keepBetter m p = some m') : Valid f m' := by
  rcases keepBetter_cases m p m' h with rfl | rfl
  · exact hm
  · exact hp

theorem onWall_valid (f : Nat → O) (a : Bool) (x x' : PMX O) (hv : AllValidX f x)
    (hs : (onWall a x).state? = some x') : AllValidX f x' := by
  unfold onWall at hs
  split at hs
  · rename_i pp rp cur rest hst
    obtain ⟨hpp, hrp, hcur, hrest⟩ := stack3 f x hv hst
    have tail : ∀ q ∈ cur :: rest, AllValid f q := by
      intro q hq; simp at hq; rcases hq with rfl | hq; exact hcur; exact hrest q hq
    split at hs
    · simp only [Out.state?, Option.some.injEq] at hs; subst hs
      apply allValidX_withStack f x _ hv
      intro q hq; simp at hq; rcases hq with rfl | rfl | hq
      · exact hrp
      · exact hcur
      · exact hrest q hq
    · rename_i p hp
      split at hs
      · simp only [Out.state?, Option.some.injEq] at hs; subst hs; exact allValidX_withStack f x _ hv tail
      · rename_i r hr
        split at hs
        · simp only [Out.state?, Option.some.injEq] at hs; subst hs; exact allValidX_withStack f x _ hv tail
        · rename_i k hk
          split at hs
          · rename_i m _ _ hm _ _
            split at hs
            · split at hs
              · simp [Out.state?] at hs
              · rename_i m' hm'
                simp only [Out.state?, Option.some.injEq] at hs; subst hs
                have vp : Valid f p := valid_of_intoSingle f pp p hpp hp
                apply allValidX_withStack_mols f x _ _ hv
                · intro q hq; simp at hq; rcases hq with rfl | hq
                  · exact allValid_set f cur k p hcur vp
                  · exact hrest q hq
                · exact allValid_set f x.mols k m' hv.2.2.2
                    (keepBetter_valid f m p m' (hv.2.2.2 m (List.mem_of_getElem? hm)) vp hm')
            · simp only [Out.state?, Option.some.injEq] at hs; subst hs; exact allValidX_withStack f x _ hv tail
          · simp [Out.state?] at hs
  · simp only [Out.state?, Option.some.injEq] at hs; subst hs; exact hv

theorem decomposition_valid (f : Nat → O) (a : Bool) (x x' : PMX O) (hv : AllValidX f x)
    (hs : (decomposition a x).state? = some x') : AllValidX f x' := by
  unfold decomposition at hs
  split at hs
  · rename_i pp rp cur rest hst
    obtain ⟨hpp, hrp, hcur, hrest⟩ := stack3 f x hv hst
    have tail : ∀ q ∈ cur :: rest, AllValid f q := by
      intro q hq; simp at hq; rcases hq with rfl | hq; exact hcur; exact hrest q hq
    split at hs
    · rename_i p1 p2
      obtain ⟨v1, v2⟩ := two_valid f hpp rfl
      split at hs
      · simp only [Out.state?, Option.some.injEq] at hs; subst hs; exact allValidX_withStack f x _ hv tail
      · rename_i r hr
        split at hs
        · simp only [Out.state?, Option.some.injEq] at hs; subst hs; exact allValidX_withStack f x _ hv tail
        · rename_i k hk
          split at hs
          · split at hs
            · simp only [Out.state?, Option.some.injEq] at hs; subst hs
              apply allValidX_withStack_mols f x _ _ hv
              · intro q hq; simp at hq; rcases hq with rfl | hq
                · rw [allValid_append]
                  exact ⟨allValid_set f cur k p1 hcur v1, by intro i hi; simp at hi; subst hi; exact v2⟩
                · exact hrest q hq
              · rw [allValid_append]
                exact ⟨allValid_set f x.mols k _ hv.2.2.2 (valid_clone f p1 v1),
                  by intro i hi; simp at hi; subst hi; exact valid_clone f p2 v2⟩
            · simp only [Out.state?, Option.some.injEq] at hs; subst hs; exact allValidX_withStack f x _ hv tail
          · simp [Out.state?] at hs
    · simp only [Out.state?, Option.some.injEq] at hs; subst hs
      apply allValidX_withStack f x _ hv
      intro q hq; simp at hq; rcases hq with rfl | rfl | hq
      · exact hrp
      · exact hcur
      · exact hrest q hq
  · simp only [Out.state?, Option.some.injEq] at hs; subst hs; exact hv

theorem intermolecular_valid (f : Nat → O) (a : Bool) (x x' : PMX O) (hv : AllValidX f x)
    (hs : (intermolecular a x).state? = some x') : AllValidX f x' := by
  unfold intermolecular at hs
  split at hs
  · rename_i pp rp cur rest hst
    obtain ⟨hpp, hrp, hcur, hrest⟩ := stack3 f x hv hst
    have tail : ∀ q ∈ cur :: rest, AllValid f q := by
      intro q hq; simp at hq; rcases hq with rfl | hq; exact hcur; exact hrest q hq
    split at hs
    · rename_i p1 p2
      obtain ⟨v1, v2⟩ := two_valid f hpp rfl
      split at hs
      · split at hs
        · simp only [Out.state?, Option.some.injEq] at hs; subst hs; exact allValidX_withStack f x _ hv tail
        · rename_i k1 hk1
          split at hs
          · simp only [Out.state?, Option.some.injEq] at hs; subst hs; exact allValidX_withStack f x _ hv tail
          · rename_i k2 hk2
            split at hs
            · rename_i m1 m2 _ _ _ _ hm1 hm2 _ _ _ _
              split at hs
              · split at hs
                · rename_i a' b' ha hb
                  simp only [Out.state?, Option.some.injEq] at hs; subst hs
                  apply allValidX_withStack_mols f x _ _ hv
                  · intro q hq; simp at hq; rcases hq with rfl | hq
                    · exact allValid_set f _ k2 p2 (allValid_set f cur k1 p1 hcur v1) v2
                    · exact hrest q hq
                  · exact allValid_set f _ k2 b' (allValid_set f x.mols k1 a' hv.2.2.2
                      (keepBetter_valid f m1 p1 a' (hv.2.2.2 m1 (List.mem_of_getElem? hm1)) v1 ha))
                      (keepBetter_valid f m2 p2 b' (hv.2.2.2 m2 (List.mem_of_getElem? hm2)) v2 hb)
                · simp [Out.state?] at hs
              · simp only [Out.state?, Option.some.injEq] at hs; subst hs; exact allValidX_withStack f x _ hv tail
            · simp [Out.state?] at hs
      · simp only [Out.state?, Option.some.injEq] at hs; subst hs; exact allValidX_withStack f x _ hv tail
    · simp only [Out.state?, Option.some.injEq] at hs; subst hs
      apply allValidX_withStack f x _ hv
      intro q hq; simp at hq; rcases hq with rfl | rfl | hq
      · exact hrp
      · exact hcur
      · exact hrest q hq
  · simp only [Out.state?, Option.some.injEq] at hs; subst hs; exact hv

theorem synthesis_valid (f : Nat → O) (a : Bool) (x x' : PMX O) (hv : AllValidX f x)
    (hs : (synthesis a x).state? = some x') : AllValidX f x' := by
  unfold synthesis at hs
  split at hs
  · rename_i pp rp cur rest hst
    obtain ⟨hpp, hrp, hcur, hrest⟩ := stack3 f x hv hst
    have tail : ∀ q ∈ cur :: rest, AllValid f q := by
      intro q hq; simp at hq; rcases hq with rfl | hq; exact hcur; exact hrest q hq
    split at hs
    · simp only [Out.state?, Option.some.injEq] at hs; subst hs
      apply allValidX_withStack f x _ hv
      intro q hq; simp at hq; rcases hq with rfl | rfl | hq
      · exact hrp
      · exact hcur
      · exact hrest q hq
    · rename_i p hp
      have vp : Valid f p := valid_of_intoSingle f pp p hpp hp
      split at hs
      · split at hs
        · simp [Out.state?] at hs
        · rename_i k1 hk1
          split at hs
          · simp only [Out.state?, Option.some.injEq] at hs; subst hs; exact allValidX_withStack f x _ hv tail
          · rename_i k2 hk2
            split at hs
            · split at hs
              · simp only [Out.state?, Option.some.injEq] at hs; subst hs
                apply allValidX_withStack_mols f x _ _ hv
                · intro q hq; simp at hq; rcases hq with rfl | hq
                  · exact allValid_eraseIdx f _ k2 (allValid_set f cur k1 p hcur vp)
                  · exact hrest q hq
                · exact allValid_eraseIdx f _ k2 (allValid_set f x.mols k1 _ hv.2.2.2 (valid_clone f p vp))
              · simp only [Out.state?, Option.some.injEq] at hs; subst hs; exact allValidX_withStack f x _ hv tail
            · simp [Out.state?] at hs
      · simp only [Out.state?, Option.some.injEq] at hs; subst hs; exact allValidX_withStack f x _ hv tail
  · simp only [Out.state?, Option.some.injEq] at hs; subst hs; exact hv

end Cro

/-! ### the transition relations -/

section Rel
variable [DecidableEq O]

theorem unevalOrCopy_sound (f : Nat → O) (src p : List (Ind O)) (h : unevalOrCopy src p = true) (hs : AllValid f src) :
    AllValid f p := by
  intro i hi
  simp only [unevalOrCopy, List.all_eq_true, Bool.or_eq_true] at h
  rcases h i hi with h | h
  · exact valid_of_unevaluated f i (by simpa using h)
  · exact hs i (by simpa using h)

theorem freshOrCopy_sound (f : Nat → O) (src p : List (Ind O)) (h : freshOrCopy f src p = true) (hs : AllValid f src) :
    AllValid f p := by
  intro i hi
  simp only [freshOrCopy, List.all_eq_true, Bool.or_eq_true] at h
  rcases h i hi with (h | h) | h
  · exact valid_of_unevaluated f i (by simpa using h)
  · exact hs i (by simpa using h)
  · intro o ho
    rw [ho] at h
    simpa using h

theorem allValidB_iff (f : Nat → O) (p : List (Ind O)) : allValidB f p = true ↔ AllValid f p := by
  simp only [allValidB, List.all_eq_true, AllValid, Valid]
  constructor
  · intro h i hi o ho
    have := h i hi
    rw [ho] at this
    simpa using this
  · intro h i hi
    cases ho : i.obj with
    | none => rfl
    | some o => simpa using h i hi o ho

theorem unevalOrSame_spec : ∀ (a b : List (Ind O)), unevalOrSame a b = true →
    a.length = b.length ∧ ∀ (k : Nat) (x y : Ind O), a[k]? = some x → b[k]? = some y → y.obj = none ∨ y = x
  | [], [], _ => ⟨rfl, by simp⟩
  | [], _ :: _, h => by simp [unevalOrSame] at h
  | _ :: _, [], h => by simp [unevalOrSame] at h
  | a :: as, b :: bs, h => by
    simp only [unevalOrSame, Bool.and_eq_true, Bool.or_eq_true, decide_eq_true_eq] at h
    obtain ⟨ih1, ih2⟩ := unevalOrSame_spec as bs h.2
    refine ⟨by simp [ih1], ?_⟩
    intro k x y hx hy
    cases k with
    | zero =>
      simp at hx hy; subst hx; subst hy
      rcases h.1 with h1 | h1
      · left; simpa using h1
      · right; exact h1.symm
    | succ k => simp at hx hy; exact ih2 k x y hx hy

end Rel

end MahfModel.PopMachine
