/- Helper lemmas for C11 (selection operators), part 1: list plumbing, membership, counts. -/
import MahfModel.Model.Selection
import Mathlib.Algebra.Order.Field.Basic
import Mathlib.Tactic.Ring
import Mathlib.Tactic.Linarith
import Mathlib.Data.List.Nodup
import Mathlib.Data.List.Perm.Subperm
import Mathlib.Data.List.Range
namespace MahfModel.Selection
set_option linter.unusedSectionVars false
set_option linter.unusedSimpArgs false

/-! ### `pick` -/

theorem mem_of_mem_pick {α : Type} {l : List α} {is : List Nat} {x : α} (h : x ∈ pick l is) : x ∈ l := by
  simp only [pick, List.mem_filterMap] at h
  obtain ⟨i, _, hi⟩ := h
  exact List.mem_of_getElem? hi

theorem pick_nil {α : Type} (l : List α) : pick l [] = [] := rfl

theorem pick_cons_of_lt {α : Type} (l : List α) (i : Nat) (is : List Nat) (h : i < l.length) :
    pick l (i :: is) = l[i] :: pick l is := by
  simp [pick, List.getElem?_eq_getElem h]

theorem pick_length {α : Type} (l : List α) (is : List Nat) (h : inRange l.length is) :
    (pick l is).length = is.length := by
  induction is with
  | nil => rfl
  | cons i is ih =>
    have hi : i < l.length := h i (by simp)
    rw [pick_cons_of_lt l i is hi]
    simp [ih (fun j hj => h j (by simp [hj]))]

/-- every output position holds the source member at the witness index -/
theorem pick_getElem? {α : Type} (l : List α) (is : List Nat) (h : inRange l.length is) (k : Nat) :
    (pick l is)[k]? = is[k]?.bind (l[·]?) := by
  induction is generalizing k with
  | nil => simp [pick]
  | cons i is ih =>
    have hi : i < l.length := h i (by simp)
    rw [pick_cons_of_lt l i is hi]
    cases k with
    | zero => simp [List.getElem?_eq_getElem hi]
    | succ k => simpa using ih (fun j hj => h j (by simp [hj])) k

theorem pick_nodup {α : Type} (l : List α) (is : List Nat) (hl : l.Nodup) (hn : is.Nodup)
    (h : inRange l.length is) : (pick l is).Nodup := by
  induction is with
  | nil => simp [pick]
  | cons i is ih =>
    have hi : i < l.length := h i (by simp)
    have hr : inRange l.length is := fun j hj => h j (by simp [hj])
    rw [pick_cons_of_lt l i is hi]
    rw [List.nodup_cons] at hn ⊢
    refine ⟨?_, ih hn.2 hr⟩
    intro hmem
    simp only [pick, List.mem_filterMap] at hmem
    obtain ⟨j, hj, hje⟩ := hmem
    have hjl : j < l.length := hr j hj
    rw [List.getElem?_eq_getElem hjl] at hje
    injection hje with hje
    have : j = i := (List.Nodup.getElem_inj_iff hl).mp hje
    exact hn.1 (this ▸ hj)

/-- a full-length choice of distinct positions is a permutation of the source -/
theorem pick_perm_of_full {α : Type} (l : List α) (s : List Nat) (hlen : s.length = l.length)
    (hn : s.Nodup) (hr : inRange l.length s) : (pick l s).Perm l := by
  have hsub : s.Subperm (List.range l.length) := by
    apply List.subperm_of_subset hn
    intro i hi; simpa using hr i hi
  have hp : s.Perm (List.range l.length) := hsub.perm_of_length_le (by simp [hlen])
  have := List.Perm.filterMap (l[·]?) hp
  have hr' : (List.range l.length).filterMap (l[·]?) = l := by
    clear hp hsub hr hn hlen this
    induction l with
    | nil => simp
    | cons a l ih =>
      rw [List.length_cons, List.range_succ_eq_map]
      simp only [List.filterMap_cons, List.getElem?_cons_zero, List.filterMap_map]
      congr 1
  rw [hr'] at this
  exact this

/-! ### keys / first minimum -/

section keys
variable {F : Type}

theorem withKeys_map_fst {l : Pop F} {ks : List (Ind F × F)} (h : withKeys l = some ks) :
    ks.map (·.1) = l := by
  induction l generalizing ks with
  | nil => simp [withKeys] at h; subst h; rfl
  | cons a l ih =>
    simp only [withKeys, List.mapM_cons] at h
    cases ha : a.obj with
    | none => simp [ha] at h
    | some o =>
      cases hl : List.mapM (fun i => Option.map (fun o => (i, o)) i.obj) l with
      | none => simp [ha, hl] at h
      | some ks' =>
        simp [ha, hl] at h
        subst h
        simp [ih (ks := ks') (by simpa [withKeys] using hl)]

theorem withKeys_obj {l : Pop F} {ks : List (Ind F × F)} (h : withKeys l = some ks) :
    ∀ p ∈ ks, p.1.obj = some p.2 := by
  induction l generalizing ks with
  | nil => simp [withKeys] at h; subst h; simp
  | cons a l ih =>
    simp only [withKeys, List.mapM_cons] at h
    cases ha : a.obj with
    | none => simp [ha] at h
    | some o =>
      cases hl : List.mapM (fun i => Option.map (fun o => (i, o)) i.obj) l with
      | none => simp [ha, hl] at h
      | some ks' =>
        simp [ha, hl] at h
        subst h
        intro p hp
        rcases List.mem_cons.mp hp with rfl | hp
        · exact ha
        · exact ih (ks := ks') (by simpa [withKeys] using hl) p hp

theorem withKeys_isSome_of_evaluated {l : Pop F} (h : ∀ x ∈ l, x.obj.isSome) : ∃ ks, withKeys l = some ks := by
  induction l with
  | nil => exact ⟨[], rfl⟩
  | cons a l ih =>
    obtain ⟨ks, hks⟩ := ih (fun x hx => h x (by simp [hx]))
    obtain ⟨o, ho⟩ := Option.isSome_iff_exists.mp (h a (by simp))
    refine ⟨(a, o) :: ks, ?_⟩
    simp only [withKeys] at hks
    simp [withKeys, List.mapM_cons, ho, hks]

theorem firstMin_mem [LT F] [DecidableLT F] {ks : List (Ind F × F)} {m : Ind F × F} (h : firstMin ks = some m) : m ∈ ks := by
  induction ks generalizing m with
  | nil => simp [firstMin] at h
  | cons x rest ih =>
    simp only [firstMin] at h
    cases hr : firstMin rest with
    | none => simp [hr] at h; subst h; simp
    | some m' =>
      simp only [hr] at h
      split at h
      · injection h with h; subst h; exact List.mem_cons_of_mem _ (ih hr)
      · injection h with h; subst h; simp

theorem firstMin_eq_none [LT F] [DecidableLT F] {ks : List (Ind F × F)} : firstMin ks = none ↔ ks = [] := by
  cases ks with
  | nil => simp [firstMin]
  | cons x rest =>
    simp only [firstMin]
    cases firstMin rest with
    | none => simp
    | some m => simp; split <;> simp

end keys

/-! ### numeric helpers in exact arithmetic -/
section field
variable {F : Type} [Field F] [LinearOrder F] [IsStrictOrderedRing F]

theorem eqF_iff (a b : F) : eqF a b = true ↔ a = b := by
  simp only [eqF, Bool.and_eq_true, Bool.not_eq_true', decide_eq_false_iff_not, not_lt]
  exact ⟨fun h => le_antisymm h.2 h.1, fun h => by subst h; exact ⟨le_refl _, le_refl _⟩⟩

theorem foldl_add (acc : F) (l : List F) : l.foldl (· + ·) acc = acc + l.foldl (· + ·) 0 := by
  induction l generalizing acc with
  | nil => simp
  | cons a l ih => simp only [List.foldl_cons]; rw [ih (acc + a), ih (0 + a)]; ring

theorem sum_nil : sum ([] : List F) = 0 := rfl

theorem sum_cons (a : F) (l : List F) : sum (a :: l) = a + sum l := by
  simp only [sum, List.foldl_cons]; rw [foldl_add]; ring

theorem sum_append (a b : List F) : sum (a ++ b) = sum a + sum b := by
  induction a with
  | nil => simp [sum_nil]
  | cons x a ih => simp only [List.cons_append, sum_cons, ih]; ring

theorem sum_nonneg (l : List F) (h : ∀ x ∈ l, 0 ≤ x) : 0 ≤ sum l := by
  induction l with
  | nil => simp [sum_nil]
  | cons a l ih =>
    rw [sum_cons]
    exact add_nonneg (h a (by simp)) (ih fun x hx => h x (by simp [hx]))

theorem sum_pos_of_mem (l : List F) (h : ∀ x ∈ l, 0 ≤ x) (a : F) (ha : a ∈ l) (hpos : 0 < a) : 0 < sum l := by
  induction l with
  | nil => simp at ha
  | cons b l ih =>
    rw [sum_cons]
    have hb := h b (by simp)
    have hl := sum_nonneg l fun x hx => h x (by simp [hx])
    rcases List.mem_cons.mp ha with rfl | ha
    · linarith
    · have := ih (fun x hx => h x (by simp [hx])) ha
      linarith

theorem sum_eq_zero_iff (l : List F) (h : ∀ x ∈ l, 0 ≤ x) : sum l = 0 ↔ ∀ x ∈ l, x = 0 := by
  constructor
  · intro hs x hx
    by_contra hne
    have hpos : 0 < x := lt_of_le_of_ne (h x hx) (Ne.symm hne)
    have := sum_pos_of_mem l h x hx hpos
    linarith
  · intro hz
    induction l with
    | nil => rfl
    | cons a l ih =>
      rw [sum_cons, hz a (by simp), ih (fun x hx => h x (by simp [hx])) (fun x hx => hz x (by simp [hx]))]
      ring

theorem sum_map_div (l : List F) (c : F) : sum (l.map fun f => f / c) = sum l / c := by
  induction l with
  | nil => simp [sum_nil]
  | cons a l ih => simp only [List.map_cons, sum_cons, ih]; ring

theorem sum_replicate (n : Nat) (c : F) : sum (List.replicate n c) = n * c := by
  induction n with
  | zero => simp [sum_nil]
  | succ n ih => simp only [List.replicate_succ, sum_cons, ih]; push_cast; ring

/-- `objective_bounds` really returns the maximum and the minimum. -/
theorem boundsGo_spec (mx mn : F) (l : List F) (h : mn ≤ mx) :
    (boundsGo mx mn l).2 ≤ (boundsGo mx mn l).1 ∧
    (∀ o ∈ l, (boundsGo mx mn l).2 ≤ o ∧ o ≤ (boundsGo mx mn l).1) ∧
    (boundsGo mx mn l).2 ≤ mn ∧ mx ≤ (boundsGo mx mn l).1 ∧
    ((boundsGo mx mn l).1 = mx ∨ (boundsGo mx mn l).1 ∈ l) ∧
    ((boundsGo mx mn l).2 = mn ∨ (boundsGo mx mn l).2 ∈ l) := by
  induction l generalizing mx mn with
  | nil => simp [boundsGo, h]
  | cons f rest ih =>
    simp only [boundsGo]
    by_cases h1 : mx < f
    · simp only [h1, if_true]
      obtain ⟨a, b, c, d, e, g⟩ := ih f mn (le_trans h (le_of_lt h1))
      refine ⟨a, ?_, c, le_trans (le_of_lt h1) d, ?_, ?_⟩
      · intro o ho
        rcases List.mem_cons.mp ho with rfl | ho
        · exact ⟨le_trans c (le_trans h (le_of_lt h1)), d⟩
        · exact b o ho
      · rcases e with e | e
        · right; rw [e]; simp
        · right; exact List.mem_cons_of_mem _ e
      · rcases g with g | g
        · left; exact g
        · right; exact List.mem_cons_of_mem _ g
    · simp only [h1, if_false]
      by_cases h2 : f < mn
      · simp only [h2, if_true]
        obtain ⟨a, b, c, d, e, g⟩ := ih mx f (le_trans (le_of_lt h2) h)
        refine ⟨a, ?_, le_trans c (le_of_lt h2), d, ?_, ?_⟩
        · intro o ho
          rcases List.mem_cons.mp ho with rfl | ho
          · exact ⟨c, le_trans (le_trans (le_of_lt h2) h) d⟩
          · exact b o ho
        · rcases e with e | e
          · left; exact e
          · right; exact List.mem_cons_of_mem _ e
        · rcases g with g | g
          · right; rw [g]; simp
          · right; exact List.mem_cons_of_mem _ g
      · simp only [h2, if_false]
        obtain ⟨a, b, c, d, e, g⟩ := ih mx mn h
        refine ⟨a, ?_, c, d, ?_, ?_⟩
        · intro o ho
          rcases List.mem_cons.mp ho with rfl | ho
          · exact ⟨le_trans c (not_lt.mp h2), le_trans (not_lt.mp h1) d⟩
          · exact b o ho
        · rcases e with e | e
          · left; exact e
          · right; exact List.mem_cons_of_mem _ e
        · rcases g with g | g
          · left; exact g
          · right; exact List.mem_cons_of_mem _ g

theorem objectiveBounds_spec {objs : List F} {mx mn : F} (h : objectiveBounds objs = some (mx, mn)) :
    (∀ o ∈ objs, mn ≤ o ∧ o ≤ mx) ∧ mx ∈ objs ∧ mn ∈ objs := by
  cases objs with
  | nil => simp [objectiveBounds] at h
  | cons f rest =>
    simp only [objectiveBounds, Option.some.injEq] at h
    obtain ⟨a, b, c, d, e, g⟩ := boundsGo_spec f f rest (le_refl f)
    rw [h] at a b c d e g
    simp only at a b c d e g
    refine ⟨?_, ?_, ?_⟩
    · intro o ho
      rcases List.mem_cons.mp ho with rfl | ho
      · exact ⟨c, d⟩
      · exact b o ho
    · rcases e with e | e
      · rw [e]; simp
      · exact List.mem_cons_of_mem _ e
    · rcases g with g | g
      · rw [g]; simp
      · exact List.mem_cons_of_mem _ g

theorem objectiveBounds_eq_none {objs : List F} : objectiveBounds objs = none ↔ objs = [] := by
  cases objs <;> simp [objectiveBounds]

theorem allEq_iff (l : List F) : allEq l = true ↔ ∀ a ∈ l, ∀ b ∈ l, a = b := by
  induction l with
  | nil => simp [allEq]
  | cons a l ih =>
    cases l with
    | nil => simp [allEq]
    | cons b rest =>
      simp only [allEq, Bool.and_eq_true, eqF_iff, ih]
      constructor
      · rintro ⟨rfl, h⟩ x hx y hy
        have hx' : x ∈ a :: rest := by
          rcases List.mem_cons.mp hx with rfl | hx
          · simp
          · exact hx
        have hy' : y ∈ a :: rest := by
          rcases List.mem_cons.mp hy with rfl | hy
          · simp
          · exact hy
        exact h x hx' y hy'
      · intro h
        refine ⟨h a (by simp) b (by simp), fun x hx y hy => h x (List.mem_cons_of_mem _ hx) y (List.mem_cons_of_mem _ hy)⟩

/-- the shifted weight `(max - min) - (o - min) + offset` -/
def shiftW (mx mn offset : F) (o : F) : F := (mx - mn) - (o - mn) + offset

/-- The four shapes of a `Some(weights)` result of `proportional_weights`. -/
theorem proportionalWeights_form (O : Ops F) (objs : List F) (offset : F) (normalize : Bool) (ws : List F)
    (h : proportionalWeights O objs offset normalize = .ok (some ws)) :
    0 ≤ offset ∧ ∃ mx mn, objectiveBounds objs = some (mx, mn) ∧ O.fin mx = true ∧
      ((0 < mn ∧ ws = objs.map (fun o => mx - o + offset)) ∨
       (¬ 0 < mn ∧ allEq objs = true ∧
          ws = List.replicate objs.length (if normalize then 1 / O.ofNat objs.length else 1)) ∨
       (¬ 0 < mn ∧ allEq objs = false ∧ normalize = false ∧ ws = objs.map (shiftW mx mn offset)) ∨
       (¬ 0 < mn ∧ allEq objs = false ∧ normalize = true ∧
          ws = (objs.map (shiftW mx mn offset)).map (fun f => f / sum (objs.map (shiftW mx mn offset))))) := by
  unfold proportionalWeights at h
  by_cases hoff : 0 ≤ offset
  · simp only [hoff, not_true_eq_false, if_false] at h
    refine ⟨hoff, ?_⟩
    cases hb : objectiveBounds objs with
    | none => simp [hb] at h
    | some p =>
      obtain ⟨mx, mn⟩ := p
      simp only [hb] at h
      refine ⟨mx, mn, rfl, ?_⟩
      by_cases hf : O.fin mx = true
      · simp only [hf, Bool.not_true, Bool.false_eq_true, if_false] at h
        refine ⟨hf, ?_⟩
        by_cases hpos : 0 < mn
        · simp only [hpos, if_true] at h
          injection h with h; injection h with h
          left; exact ⟨hpos, h.symm⟩
        · simp only [hpos, if_false] at h
          by_cases hall : allEq objs = true
          · simp only [hall, if_true] at h
            injection h with h; injection h with h
            right; left; exact ⟨hpos, hall, h.symm⟩
          · have hall' : allEq objs = false := by simpa using hall
            simp only [hall', Bool.false_eq_true, if_false] at h
            cases normalize with
            | false =>
              simp only [Bool.not_false, if_true] at h
              injection h with h; injection h with h
              right; right; left; exact ⟨hpos, hall', rfl, h.symm⟩
            | true =>
              simp only [Bool.not_true, Bool.false_eq_true, if_false] at h
              injection h with h; injection h with h
              right; right; right; exact ⟨hpos, hall', rfl, h.symm⟩
      · have hf' : O.fin mx = false := by simpa using hf
        simp [hf'] at h
  · simp [hoff] at h

/-- `proportional_weights` is `None` exactly on an empty population or a non-finite maximum. -/
theorem proportionalWeights_none_iff (O : Ops F) (objs : List F) (offset : F) (normalize : Bool)
    (hoff : 0 ≤ offset) :
    proportionalWeights O objs offset normalize = .ok none ↔
      objs = [] ∨ ∃ mx mn, objectiveBounds objs = some (mx, mn) ∧ O.fin mx = false := by
  unfold proportionalWeights
  simp only [hoff, not_true_eq_false, if_false]
  cases hb : objectiveBounds objs with
  | none => simp [objectiveBounds_eq_none.mp hb]
  | some p =>
    obtain ⟨mx, mn⟩ := p
    have hne : objs ≠ [] := fun hc => by simp [hc, objectiveBounds] at hb
    simp only
    constructor
    · intro h
      right; refine ⟨mx, mn, rfl, ?_⟩
      by_contra hc
      have hf : O.fin mx = true := by simpa using hc
      simp only [hf, Bool.not_true, Bool.false_eq_true, if_false] at h
      split_ifs at h <;> simp at h
    · rintro (h | ⟨mx', mn', he, hf⟩)
      · exact absurd h hne
      · simp only [Option.some.injEq, Prod.mk.injEq] at he
        obtain ⟨rfl, rfl⟩ := he
        simp [hf]

theorem proportionalWeights_panic_iff (O : Ops F) (objs : List F) (offset : F) (normalize : Bool) :
    (∃ e, proportionalWeights O objs offset normalize = .error e) ↔ ¬ 0 ≤ offset := by
  unfold proportionalWeights
  by_cases hoff : 0 ≤ offset
  · simp only [hoff, not_true_eq_false, if_false, iff_false, not_exists]
    intro e
    cases objectiveBounds objs with
    | none => simp
    | some p =>
      obtain ⟨mx, mn⟩ := p
      simp only
      split
      · simp
      · split
        · simp
        · split
          · simp
          · split <;> simp
  · simp [hoff]

theorem shiftW_eq (mx mn offset o : F) : shiftW mx mn offset o = mx - o + offset := by
  unfold shiftW; ring

theorem shiftW_total_pos {objs : List F} {mx mn offset : F} (hoff : 0 ≤ offset)
    (hb : objectiveBounds objs = some (mx, mn)) (hall : allEq objs = false) :
    0 < sum (objs.map (shiftW mx mn offset)) := by
  obtain ⟨hrange, hmx, hmn⟩ := objectiveBounds_spec hb
  have hlt : mn < mx := by
    rcases lt_or_eq_of_le (hrange mx hmx).1 with h | h
    · exact h
    · exfalso
      have : allEq objs = true := by
        rw [allEq_iff]
        intro a ha b hb'
        have ha' := hrange a ha
        have hb'' := hrange b hb'
        rw [← h] at ha' hb''
        exact le_antisymm (le_trans ha'.2 hb''.1) (le_trans hb''.2 ha'.1)
      rw [this] at hall; cases hall
  apply sum_pos_of_mem _ _ (shiftW mx mn offset mn) (List.mem_map_of_mem hmn)
  · rw [shiftW_eq]; linarith
  · intro x hx
    obtain ⟨o, ho, rfl⟩ := List.mem_map.mp hx
    rw [shiftW_eq]
    have := (hrange o ho).2
    linarith

/-- every weight is the image of its objective under one antitone function -/
theorem proportionalWeights_antitone_map (O : Ops F) (objs : List F) (offset : F) (normalize : Bool)
    (ws : List F) (h : proportionalWeights O objs offset normalize = .ok (some ws)) :
    ∃ g : F → F, (∀ a b, a ≤ b → g b ≤ g a) ∧ ws = objs.map g := by
  obtain ⟨hoff, mx, mn, hb, _, hcase⟩ := proportionalWeights_form O objs offset normalize ws h
  rcases hcase with ⟨_, hw⟩ | ⟨_, _, hw⟩ | ⟨_, _, _, hw⟩ | ⟨_, hall, _, hw⟩
  · exact ⟨fun o => mx - o + offset, fun a b hab => by simp only; linarith, hw⟩
  · refine ⟨fun _ => if normalize then 1 / O.ofNat objs.length else 1, fun _ _ _ => le_refl _, ?_⟩
    rw [hw]
    clear hw h hb
    induction objs with
    | nil => rfl
    | cons a l ih => simp [List.replicate_succ]
  · exact ⟨shiftW mx mn offset, fun a b hab => by simp only [shiftW_eq]; linarith, hw⟩
  · have htot := shiftW_total_pos hoff hb hall
    refine ⟨fun o => shiftW mx mn offset o / sum (objs.map (shiftW mx mn offset)), ?_, ?_⟩
    · intro a b hab
      simp only
      apply div_le_div_of_nonneg_right _ (le_of_lt htot)
      simp only [shiftW_eq]; linarith
    · rw [hw, List.map_map]; rfl

/-! ### ranking -/

theorem enumFrom_map_fst {α : Type} (k : Nat) (l : List α) :
    (enumFrom k l).map (·.1) = List.range' k l.length := by
  induction l generalizing k with
  | nil => rfl
  | cons a l ih => simp [enumFrom, ih (k + 1), List.range'_succ]

theorem enumFrom_getElem? {α : Type} (k : Nat) (l : List α) (j : Nat) :
    (enumFrom k l)[j]? = l[j]?.map (fun x => (k + j, x)) := by
  induction l generalizing k j with
  | nil => simp [enumFrom]
  | cons a l ih =>
    cases j with
    | zero => simp [enumFrom]
    | succ j =>
      have : k + 1 + j = k + (j + 1) := by omega
      simp [enumFrom, ih (k + 1) j, this]

theorem mem_enumFrom_zero {α : Type} (l : List α) (i : Nat) (h : i < l.length) : (i, l[i]) ∈ enumFrom 0 l := by
  have := enumFrom_getElem? 0 l i
  rw [List.getElem?_eq_getElem h] at this
  simp only [Option.map_some, Nat.zero_add] at this
  exact List.mem_of_getElem? this

theorem enumFrom_length {α : Type} (k : Nat) (l : List α) : (enumFrom k l).length = l.length := by
  induction l generalizing k with
  | nil => rfl
  | cons a l ih => simp [enumFrom, ih]

/-- relation between two entries `((index, objective), (index, rank))` of the ranked sorted list -/
def RankRel (a b : (Nat × F) × (Nat × Nat)) : Prop :=
  a.1.2 ≤ b.1.2 ∧ (a.1.2 = b.1.2 → a.2.2 = b.2.2) ∧ (a.1.2 < b.1.2 → a.2.2 < b.2.2)

theorem rankScan_ok (prev : F) (r : Nat) (s : List (Nat × F))
    (hs : s.Pairwise (fun a b => a.2 ≤ b.2)) (hprev : ∀ p ∈ s, prev ≤ p.2) :
    (rankScan prev r s).map (·.1) = s.map (·.1) ∧
    (∀ a ∈ s.zip (rankScan prev r s), (a.1.2 = prev → a.2.2 = r) ∧ (prev < a.1.2 → r < a.2.2) ∧ r ≤ a.2.2) ∧
    (s.zip (rankScan prev r s)).Pairwise RankRel := by
  induction s generalizing prev r with
  | nil => simp [rankScan]
  | cons x rest ih =>
    obtain ⟨i, o⟩ := x
    rw [List.pairwise_cons] at hs
    have hpo : prev ≤ o := hprev (i, o) (by simp)
    have hro : ∀ p ∈ rest, o ≤ p.2 := fun p hp => hs.1 p hp
    simp only [rankScan]
    set r' := if eqF prev o = true then r else r + 1 with hr'
    obtain ⟨ih1, ih2, ih3⟩ := ih o r' hs.2 hro
    have hr'ge : r ≤ r' := by rw [hr']; split <;> omega
    have hr'eq : o = prev → r' = r := by
      intro h; rw [hr', (eqF_iff prev o).mpr h.symm]; simp
    have hr'lt : prev < o → r < r' := by
      intro h
      have : eqF prev o = false := by
        cases hc : eqF prev o with
        | false => rfl
        | true => exact absurd ((eqF_iff prev o).mp hc) (ne_of_lt h)
      rw [hr', this]; simp
    refine ⟨by simp [ih1], ?_, ?_⟩
    · intro a ha
      simp only [List.zip_cons_cons, List.mem_cons] at ha
      rcases ha with rfl | ha
      · exact ⟨hr'eq, hr'lt, hr'ge⟩
      · obtain ⟨h1, h2, h3⟩ := ih2 a ha
        have hoa : o ≤ a.1.2 := hro a.1 (List.of_mem_zip ha).1
        refine ⟨?_, ?_, le_trans hr'ge h3⟩
        · intro h
          have : o = prev := le_antisymm (h ▸ hoa) hpo
          rw [h1 (by rw [h, this]), hr'eq this]
        · intro h
          rcases lt_or_eq_of_le hoa with hlt | heq
          · exact lt_of_le_of_lt hr'ge (h2 hlt)
          · rw [h1 heq.symm]; exact hr'lt (heq ▸ h)
    · simp only [List.zip_cons_cons, List.pairwise_cons]
      refine ⟨?_, ih3⟩
      intro a ha
      obtain ⟨h1, h2, _⟩ := ih2 a ha
      exact ⟨hro a.1 (List.of_mem_zip ha).1, fun h => (h1 h.symm).symm, h2⟩

theorem rankSorted_ok (s : List (Nat × F)) (hs : s.Pairwise (fun a b => a.2 ≤ b.2)) :
    (rankSorted s).map (·.1) = s.map (·.1) ∧
    (∀ a ∈ s.zip (rankSorted s), 1 ≤ a.2.2 ∧ ((∀ p ∈ s, a.1.2 ≤ p.2) → a.2.2 = 1)) ∧
    (s.zip (rankSorted s)).Pairwise RankRel := by
  cases s with
  | nil => simp [rankSorted]
  | cons x rest =>
    obtain ⟨i, o⟩ := x
    rw [List.pairwise_cons] at hs
    obtain ⟨h1, h2, h3⟩ := rankScan_ok o 1 rest hs.2 (fun p hp => hs.1 p hp)
    simp only [rankSorted]
    refine ⟨by simp [h1], ?_, ?_⟩
    · intro a ha
      simp only [List.zip_cons_cons, List.mem_cons] at ha
      rcases ha with rfl | ha
      · simp
      · obtain ⟨g1, _, g3⟩ := h2 a ha
        refine ⟨g3, fun hmin => g1 ?_⟩
        exact le_antisymm (hmin (i, o) (by simp)) (hs.1 a.1 (List.of_mem_zip ha).1)
    · simp only [List.zip_cons_cons, List.pairwise_cons]
      refine ⟨?_, h3⟩
      intro a ha
      obtain ⟨g1, g2, _⟩ := h2 a ha
      exact ⟨hs.1 a.1 (List.of_mem_zip ha).1, fun h => (g1 h.symm).symm, g2⟩

theorem pairwise_mem_cases {α : Type} {R : α → α → Prop} {l : List α} (h : l.Pairwise R) {a b : α}
    (ha : a ∈ l) (hb : b ∈ l) : a = b ∨ R a b ∨ R b a := by
  induction l with
  | nil => simp at ha
  | cons x l ih =>
    rw [List.pairwise_cons] at h
    rcases List.mem_cons.mp ha with rfl | ha' <;> rcases List.mem_cons.mp hb with rfl | hb'
    · left; rfl
    · right; left; exact h.1 b hb'
    · right; right; exact h.1 a ha'
    · exact ih h.2 ha' hb'

theorem leKey_trans (a b c : Nat × F) : leKey a b = true → leKey b c = true → leKey a c = true := by
  simp only [leKey, decide_eq_true_eq]; exact le_trans

theorem leKey_total (a b : Nat × F) : (leKey a b || leKey b a) = true := by
  simp only [leKey, Bool.or_eq_true, decide_eq_true_eq]; exact le_total _ _

/-- For every index there is an entry of the ranked sorted list carrying that index, its objective,
and the rank that `reverse_rank` reports for it. -/
theorem reverseRank_entry (objs : List F) (i : Nat) (hi : i < objs.length) :
    let s := (enumFrom 0 objs).mergeSort leKey
    ∃ a ∈ s.zip (rankSorted s), a.1 = (i, objs[i]) ∧ lookupRank (rankSorted s) i = a.2.2 := by
  intro s
  have hperm : s.Perm (enumFrom 0 objs) := List.mergeSort_perm _ _
  have hsorted : s.Pairwise (fun a b => a.2 ≤ b.2) := by
    have := List.pairwise_mergeSort (le := leKey) leKey_trans leKey_total (enumFrom 0 objs)
    exact this.imp (fun h => by simpa [leKey] using h)
  obtain ⟨h1, _, _⟩ := rankSorted_ok s hsorted
  have hlen : (rankSorted s).length = s.length := by
    have := congrArg List.length h1; simpa using this
  have hmem : (i, objs[i]) ∈ s := hperm.mem_iff.mpr (mem_enumFrom_zero objs i hi)
  obtain ⟨k, hk, hsk⟩ := List.getElem_of_mem hmem
  have hk' : k < (rankSorted s).length := by omega
  have hfst : ((rankSorted s)[k]).1 = i := by
    have := congrArg (fun l => l[k]?) h1
    simp only [List.getElem?_map, List.getElem?_eq_getElem hk, List.getElem?_eq_getElem hk',
      Option.map_some, Option.some.injEq] at this
    rw [this, hsk]
  refine ⟨(s[k], (rankSorted s)[k]), ?_, hsk, ?_⟩
  · have : (s.zip (rankSorted s))[k]? = some (s[k], (rankSorted s)[k]) := by
      simp [List.getElem?_zip_eq_some, List.getElem?_eq_getElem hk, List.getElem?_eq_getElem hk']
    exact List.mem_of_getElem? this
  · -- the indices in the ranked list are distinct, so the lookup finds exactly this entry
    have hnd : ((rankSorted s).map (·.1)).Nodup := by
      rw [h1]
      have : (s.map (·.1)).Perm (List.range' 0 objs.length) := by
        rw [← enumFrom_map_fst]; exact hperm.map _
      exact this.nodup_iff.mpr (List.nodup_range')
    simp only [lookupRank]
    cases hf : (rankSorted s).find? (fun p => p.1 == i) with
    | none =>
      have := List.find?_eq_none.mp hf _ (List.getElem_mem hk')
      simp [hfst] at this
    | some p =>
      have hp := List.find?_some hf
      have hpm := List.mem_of_find?_eq_some hf
      simp only [beq_iff_eq] at hp
      have : p = (rankSorted s)[k] :=
        List.inj_on_of_nodup_map hnd hpm (List.getElem_mem hk') (by rw [hp, hfst])
      rw [this]

theorem reverseRank_length (objs : List F) : (reverseRank objs).length = objs.length := by
  simp [reverseRank]

theorem reverseRank_getElem (objs : List F) (i : Nat) (hi : i < objs.length) :
    (reverseRank objs)[i]'(by rw [reverseRank_length]; exact hi) =
      lookupRank (rankSorted ((enumFrom 0 objs).mergeSort leKey)) i := by
  simp [reverseRank]

/-- `reverse_rank`: a strictly lower objective has a strictly lower rank, ties share a rank, every
rank is at least 1 and a lowest objective has rank 1. -/
theorem reverseRank_spec (objs : List F) (i j : Nat) (hi : i < objs.length) (hj : j < objs.length) :
    let r := reverseRank objs
    ∀ (hi' : i < r.length) (hj' : j < r.length),
      (objs[i] < objs[j] → r[i] < r[j]) ∧ (objs[i] = objs[j] → r[i] = r[j]) ∧ 1 ≤ r[i] ∧
      ((∀ o ∈ objs, objs[i] ≤ o) → r[i] = 1) := by
  intro r hi' hj'
  have hri := reverseRank_getElem objs i hi
  have hrj := reverseRank_getElem objs j hj
  set s := (enumFrom 0 objs).mergeSort leKey with hs
  have hperm : s.Perm (enumFrom 0 objs) := List.mergeSort_perm _ _
  have hsorted : s.Pairwise (fun a b => a.2 ≤ b.2) := by
    have := List.pairwise_mergeSort (le := leKey) leKey_trans leKey_total (enumFrom 0 objs)
    exact this.imp (fun h => by simpa [leKey] using h)
  obtain ⟨_, h2, h3⟩ := rankSorted_ok s hsorted
  obtain ⟨a, ha, ha1, ha2⟩ := reverseRank_entry objs i hi
  obtain ⟨b, hb, hb1, hb2⟩ := reverseRank_entry objs j hj
  have eri : r[i] = a.2.2 := by rw [← ha2]; exact hri
  have erj : r[j] = b.2.2 := by rw [← hb2]; exact hrj
  have hao : a.1.2 = objs[i] := by rw [ha1]
  have hbo : b.1.2 = objs[j] := by rw [hb1]
  rw [eri, erj]
  refine ⟨?_, ?_, (h2 a ha).1, ?_⟩
  · intro hlt
    rcases pairwise_mem_cases h3 ha hb with heq | hR | hR
    · rw [heq] at hao; rw [hao] at hbo; rw [hbo] at hlt; exact absurd hlt (lt_irrefl _)
    · exact hR.2.2 (by rw [hao, hbo]; exact hlt)
    · have := hR.1; rw [hao, hbo] at this; exact absurd hlt (not_lt.mpr this)
  · intro heq
    rcases pairwise_mem_cases h3 ha hb with hab | hR | hR
    · rw [hab]
    · exact hR.2.1 (by rw [hao, hbo]; exact heq)
    · exact (hR.2.1 (by rw [hao, hbo]; exact heq.symm)).symm
  · intro hmin
    apply (h2 a ha).2
    intro p hp
    have hp' := hperm.mem_iff.mp hp
    obtain ⟨k, hk, hpk⟩ := List.getElem_of_mem hp'
    have := enumFrom_getElem? 0 objs k
    rw [List.getElem?_eq_getElem hk, hpk] at this
    rw [hao]
    cases hk2 : objs[k]? with
    | none => rw [hk2] at this; simp at this
    | some o =>
      rw [hk2] at this
      simp only [Option.map_some, Option.some.injEq] at this
      rw [this]
      exact hmin o (List.mem_of_getElem? hk2)

theorem reverseRank_mono (objs : List F) (i j : Nat) (hi : i < objs.length) (hj : j < objs.length)
    (hi' : i < (reverseRank objs).length) (hj' : j < (reverseRank objs).length) (h : objs[i] ≤ objs[j]) :
    (reverseRank objs)[i] ≤ (reverseRank objs)[j] := by
  obtain ⟨h1, h2, _, _⟩ := reverseRank_spec objs i j hi hj hi' hj'
  rcases lt_or_eq_of_le h with hlt | heq
  · exact le_of_lt (h1 hlt)
  · exact le_of_eq (h2 heq)

theorem le_maxNat (l : List Nat) : ∀ r ∈ l, r ≤ maxNat l := by
  have gen : ∀ (l : List Nat) (acc : Nat), acc ≤ l.foldl max acc ∧ ∀ r ∈ l, r ≤ l.foldl max acc := by
    intro l
    induction l with
    | nil => intro acc; simp
    | cons a l ih =>
      intro acc
      obtain ⟨h1, h2⟩ := ih (max acc a)
      simp only [List.foldl_cons]
      refine ⟨le_trans (le_max_left _ _) h1, ?_⟩
      intro r hr
      rcases List.mem_cons.mp hr with rfl | hr
      · exact le_trans (le_max_right _ _) h1
      · exact h2 r hr
  exact (gen l 0).2

/-- exponential-rank weights: positive, and a lower rank never has a smaller weight -/
theorem expWeight_pos (base : F) (hb0 : 0 < base) (hb1 : base < 1) (m r : Nat) (hm : 1 ≤ m) :
    0 < (base - 1) / (base ^ m - 1) * base ^ (r - 1) := by
  have h1 : base ^ m < 1 := pow_lt_one₀ (le_of_lt hb0) hb1 (by omega)
  have hf : 0 < (base - 1) / (base ^ m - 1) := div_pos_of_neg_of_neg (by linarith) (by linarith)
  exact mul_pos hf (pow_pos hb0 _)

theorem expWeight_antitone (base : F) (hb0 : 0 < base) (hb1 : base < 1) (m r r' : Nat) (hm : 1 ≤ m)
    (hr : r ≤ r') :
    (base - 1) / (base ^ m - 1) * base ^ (r' - 1) ≤ (base - 1) / (base ^ m - 1) * base ^ (r - 1) := by
  have h1 : base ^ m < 1 := pow_lt_one₀ (le_of_lt hb0) hb1 (by omega)
  have hf : 0 < (base - 1) / (base ^ m - 1) := div_pos_of_neg_of_neg (by linarith) (by linarith)
  apply mul_le_mul_of_nonneg_left _ (le_of_lt hf)
  exact pow_le_pow_of_le_one (le_of_lt hb0) (le_of_lt hb1) (by omega)

/-! ### tournament -/

theorem firstMin_spec {ks : List (Ind F × F)} {m : Ind F × F} (h : firstMin ks = some m) :
    (∀ x ∈ ks, m.2 ≤ x.2) ∧ ∃ pre post, ks = pre ++ m :: post ∧ ∀ y ∈ pre, m.2 < y.2 := by
  induction ks generalizing m with
  | nil => simp [firstMin] at h
  | cons x rest ih =>
    simp only [firstMin] at h
    cases hr : firstMin rest with
    | none =>
      simp only [hr] at h
      injection h with h; subst h
      have : rest = [] := firstMin_eq_none.mp hr
      subst this
      exact ⟨by simp, [], [], rfl, by simp⟩
    | some m' =>
      simp only [hr] at h
      obtain ⟨ih1, pre, post, ih2, ih3⟩ := ih hr
      split at h
      · next hlt =>
        injection h with h; subst h
        refine ⟨?_, x :: pre, post, by simp [ih2], ?_⟩
        · intro y hy
          rcases List.mem_cons.mp hy with rfl | hy
          · exact le_of_lt hlt
          · exact ih1 y hy
        · intro y hy
          rcases List.mem_cons.mp hy with rfl | hy
          · exact hlt
          · exact ih3 y hy
      · next hnlt =>
        injection h with h; subst h
        refine ⟨?_, [], rest, rfl, by simp⟩
        intro y hy
        rcases List.mem_cons.mp hy with rfl | hy
        · exact le_refl _
        · exact le_trans (not_lt.mp hnlt) (ih1 y hy)

/-- one tournament: the winner is the first competitor whose objective is minimal -/
theorem tournamentRound_spec {pop : Pop F} {c : List Nat} {win : Ind F} (h : tournamentRound pop c = .ok win) :
    ∃ a, win.obj = some a ∧
      (∀ x ∈ pick pop c, ∃ b, x.obj = some b ∧ a ≤ b) ∧
      ∃ pre post, pick pop c = pre ++ win :: post ∧ ∀ y ∈ pre, ∃ b, y.obj = some b ∧ a < b := by
  simp only [tournamentRound] at h
  cases hk : withKeys (pick pop c) with
  | none => simp [hk] at h
  | some ks =>
    simp only [hk] at h
    cases hm : firstMin ks with
    | none => simp [hm] at h
    | some m =>
      simp only [hm] at h
      injection h with h
      obtain ⟨h1, pre, post, h2, h3⟩ := firstMin_spec hm
      have hobj := withKeys_obj hk
      have hfst := withKeys_map_fst hk
      refine ⟨m.2, ?_, ?_, pre.map (·.1), post.map (·.1), ?_, ?_⟩
      · rw [← h]; exact hobj m (firstMin_mem hm)
      · intro x hx
        rw [← hfst] at hx
        obtain ⟨p, hp, rfl⟩ := List.mem_map.mp hx
        exact ⟨p.2, hobj p hp, h1 p hp⟩
      · rw [← hfst, h2, ← h]; simp
      · intro y hy
        obtain ⟨p, hp, rfl⟩ := List.mem_map.mp hy
        exact ⟨p.2, hobj p (by rw [h2]; simp [hp]), h3 p hp⟩

theorem tournamentRounds_spec {pop : Pop F} {ss : List (List Nat)} {sel : Pop F}
    (h : tournamentRounds pop ss = .ok sel) :
    List.Forall₂ (fun c win => tournamentRound pop c = .ok win) ss sel := by
  induction ss generalizing sel with
  | nil => simp [tournamentRounds] at h; subst h; exact List.Forall₂.nil
  | cons c cs ih =>
    simp only [tournamentRounds] at h
    cases hc : tournamentRound pop c with
    | error e => simp [hc] at h
    | ok x =>
      simp only [hc] at h
      cases hcs : tournamentRounds pop cs with
      | error e => simp [hcs] at h
      | ok xs =>
        simp only [hcs] at h
        injection h with h; subst h
        exact List.Forall₂.cons hc (ih hcs)

/-- the rounds fail exactly when some round fails; a round of evaluated competitors fails only when it is empty -/
theorem tournamentRound_ok_of {pop : Pop F} {c : List Nat} (hev : ∀ x ∈ pop, x.obj.isSome) (hc : pick pop c ≠ []) :
    ∃ win, tournamentRound pop c = .ok win := by
  obtain ⟨ks, hks⟩ := withKeys_isSome_of_evaluated (l := pick pop c) (fun x hx => hev x (mem_of_mem_pick hx))
  simp only [tournamentRound, hks]
  cases hm : firstMin ks with
  | none =>
    have : ks = [] := firstMin_eq_none.mp hm
    have h2 := withKeys_map_fst hks
    rw [this] at h2
    exact absurd h2.symm hc
  | some m => exact ⟨m.1, rfl⟩

theorem tournamentRound_err_of_empty {pop : Pop F} {c : List Nat} (hc : pick pop c = []) :
    tournamentRound pop c = .error .exec := by
  simp [tournamentRound, hc, withKeys, firstMin]

/-! ### invasive weed optimisation: number of copies -/

section iwo
variable (O : Ops F) (hcast : ∀ k : Nat, O.ofNat k = (k : F))
  (hmono : ∀ x y : F, x ≤ y → O.floorNat x ≤ O.floorNat y) (hnat : ∀ k : Nat, O.floorNat (k : F) = k)
  (hnan : ∀ x : F, O.isNaN x = false)
include hcast hmono hnat hnan

theorem iwoCount_antitone (a b : Nat) (worst best o o' : F) (hbw : best ≤ worst) (h : o ≤ o') :
    iwoCount O a b worst best o' ≤ iwoCount O a b worst best o := by
  simp only [iwoCount, hnan, Bool.false_or]
  split
  · exact le_refl _
  · next hne =>
    have hlt : best < worst := lt_of_le_of_ne hbw (fun hc => hne ((eqF_iff _ _).mpr hc))
    apply Nat.add_le_add_left
    apply hmono
    rw [hcast]
    apply mul_le_mul_of_nonneg_right _ (Nat.cast_nonneg _)
    apply div_le_div_of_nonpos_of_le (by linarith) (by linarith)

theorem iwoCount_worst (a b : Nat) (worst best : F) (hlt : best < worst) :
    iwoCount O a b worst best worst = a := by
  have hne : eqF best worst = false := by
    cases hc : eqF best worst with
    | false => rfl
    | true => exact absurd ((eqF_iff _ _).mp hc) (ne_of_lt hlt)
  simp only [iwoCount, hnan, Bool.false_or, hne, Bool.false_eq_true, if_false, sub_self, zero_div, zero_mul]
  have := hnat 0
  simp only [Nat.cast_zero] at this
  rw [this]; rfl

theorem iwoCount_best (a b : Nat) (hab : a ≤ b) (worst best : F) (hlt : best < worst) :
    iwoCount O a b worst best best = b := by
  have hne : eqF best worst = false := by
    cases hc : eqF best worst with
    | false => rfl
    | true => exact absurd ((eqF_iff _ _).mp hc) (ne_of_lt hlt)
  have hd : best - worst ≠ 0 := by intro hc; linarith
  simp only [iwoCount, hnan, Bool.false_or, hne, Bool.false_eq_true, if_false, div_self hd, one_mul, hcast, hnat]
  omega

theorem iwoCount_bounds (a b : Nat) (hab : a ≤ b) (worst best o : F) (hbw : best ≤ worst)
    (ho1 : best ≤ o) :
    a ≤ iwoCount O a b worst best o ∧ iwoCount O a b worst best o ≤ b := by
  refine ⟨by simp [iwoCount], ?_⟩
  by_cases heq : best = worst
  · have hc : eqF best worst = true := (eqF_iff _ _).mpr heq
    simp only [iwoCount, hnan, Bool.false_or, hc, if_true, hcast]
    have h1 : ((b - a : Nat) : F) / (1 + 1) ≤ ((b - a : Nat) : F) := by
      have : (0 : F) ≤ ((b - a : Nat) : F) := Nat.cast_nonneg _
      linarith [half_le_self this, show ((b - a : Nat) : F) / (1 + 1) = ((b - a : Nat) : F) / 2 by norm_num]
    have := hmono _ _ h1
    rw [hnat] at this
    omega
  · have hlt : best < worst := lt_of_le_of_ne hbw heq
    have h1 := iwoCount_antitone O hcast hmono hnat hnan a b worst best best o hbw ho1
    rw [iwoCount_best O hcast hmono hnat hnan a b hab worst best hlt] at h1
    exact h1

end iwo

end field

end MahfModel.Selection
