/- `#audit_ns NS` prints one line `AUDIT <theorem> [axioms…]` for every theorem in namespace NS. -/
import Lean
open Lean Elab Command

elab "#audit_ns " ns:ident : command => do
  let env ← getEnv
  let nsName := ns.getId
  let names := env.constants.map₁.fold (init := #[]) fun acc n ci =>
    match ci with
    | .thmInfo _ => if nsName.isPrefixOf n && !n.isInternalDetail then acc.push n else acc
    | _ => acc
  let names := names.qsort (fun a b => a.toString < b.toString)
  for n in names do
    let axs ← liftCoreM (collectAxioms n)
    let axs := axs.qsort (fun a b => a.toString < b.toString)
    logInfo m!"AUDIT {n} {axs.toList}"
