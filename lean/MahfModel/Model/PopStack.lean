/-
C04 — model of `mahf::state::common::Populations` (src/state/common.rs) and of the stack
utility components (src/components/utils/populations.rs).

Code-shaped: the stack is a `Vec`, i.e. a list whose LAST element is the top; index arithmetic is
Rust's (`checked_sub`, slice-range panics), panics are an explicit outcome.  Individuals are
opaque tags (`Nat`); the harness tags every individual uniquely.
-/
import MahfModel.Model.Sexp
namespace MahfModel.PopStack

abbrev Pop := List Nat
/-- `Vec<Vec<Individual>>`: index 0 is the bottom, the last element is the top. -/
abbrev Stk := List Pop

inductive Op where
  | push (p : Pop) | pop | tryPop | cur | getCur | edit (p : Pop) | tryEdit (p : Pop)
  | peek (d : Nat) | tryPeek (d : Nat) | rot (n : Nat) | len | empty
  | cRot (n : Nat) | cClear | cDup | cIleave | cSplit
  deriving Repr, DecidableEq

inductive Out where
  | pop (p : Pop) | none | panic | ok | err | nat (n : Nat) | bool (b : Bool)
  deriving Repr, DecidableEq

/-- `Vec::pop`. -/
def vecPop (s : Stk) : Option (Pop × Stk) :=
  match s.getLast? with
  | some p => some (p, s.dropLast)
  | none => none

/-- `try_peek`: `n.checked_sub(1).and_then(|i| i.checked_sub(depth)).and_then(|i| stack.get(i))`. -/
def tryPeek (s : Stk) (d : Nat) : Option Pop :=
  let n := s.length
  if n < 1 then none
  else
    let i := n - 1
    if i < d then none else s[i - d]?

/-- `slice.rotate_right(1)`. -/
def rotR1 (l : List Pop) : List Pop :=
  match l.getLast? with
  | some x => x :: l.dropLast
  | none => []

/-- `rotate(n)`: `let top = &mut stack[len - n..len]; if !top.is_empty() { top.rotate_right(1) }`.
`len - n` underflows (panic) when `n > len`. -/
def rotate (s : Stk) (n : Nat) : Option Stk :=
  let len := s.length
  if len < n then none
  else some (s.take (len - n) ++ rotR1 (s.drop (len - n)))

/-- `itertools::interleave(a, b)`: alternate, starting with `a`, until both are exhausted. -/
def interleave : List Nat → List Nat → List Nat
  | [], ys => ys
  | x :: xs, ys =>
    match ys with
    | [] => x :: xs
    | y :: ys' => x :: y :: interleave xs ys'

/-- `SplitPopulationByObjectiveValue` on the popped population `p` (objective value = tag):
sort ascending, cut into chunks of `⌈n/2⌉`; exactly two chunks are required (`collect_tuple().unwrap()`),
and `chunks(0)` panics, so fewer than two individuals panic. Returns `(lower, upper)`. -/
def splitPop (p : Pop) : Option (Pop × Pop) :=
  let sorted := p.mergeSort (fun a b => decide (a ≤ b))
  let n := p.length
  if n < 2 then none
  else some (sorted.take ((n + 1) / 2), sorted.drop ((n + 1) / 2))

def step (s : Stk) : Op → Stk × Out
  | .push p => (s ++ [p], .ok)
  | .pop =>
    match vecPop s with
    | some (p, s') => (s', .pop p)
    | none => (s, .panic)
  | .tryPop =>
    match vecPop s with
    | some (p, s') => (s', .pop p)
    | none => (s, .none)
  | .cur =>
    match s.getLast? with
    | some p => (s, .pop p)
    | none => (s, .panic)
  | .getCur =>
    match s.getLast? with
    | some p => (s, .pop p)
    | none => (s, .none)
  | .edit p =>                      -- `*current_mut() = p`
    match vecPop s with
    | some (_, s') => (s' ++ [p], .ok)
    | none => (s, .panic)
  | .tryEdit p =>                   -- `get_current_mut().map(|c| *c = p)`
    match vecPop s with
    | some (_, s') => (s' ++ [p], .ok)
    | none => (s, .none)
  | .peek d =>
    match tryPeek s d with
    | some p => (s, .pop p)
    | none => (s, .panic)
  | .tryPeek d =>
    match tryPeek s d with
    | some p => (s, .pop p)
    | none => (s, .none)
  | .rot n =>
    match rotate s n with
    | some s' => (s', .ok)
    | none => (s, .panic)
  | .len => (s, .nat s.length)
  | .empty => (s, .bool s.isEmpty)
  | .cRot n =>                      -- `ensure!(len >= n)` then `rotate(n)`
    if s.length < n then (s, .err)
    else
      match rotate s n with
      | some s' => (s', .ok)
      | none => (s, .panic)
  | .cClear =>                      -- `current_mut().clear()`
    match vecPop s with
    | some (_, s') => (s' ++ [[]], .ok)
    | none => (s, .panic)
  | .cDup =>                        -- pop; push(interleave(p, p.clone()))
    match vecPop s with
    | some (p, s') => (s' ++ [interleave p p], .ok)
    | none => (s, .panic)
  | .cIleave =>                     -- p1 = pop; p2 = pop; push(interleave(p1, p2))
    match vecPop s with
    | none => (s, .panic)
    | some (p1, s1) =>
      match vecPop s1 with
      | none => (s1, .panic)        -- the first pop already happened
      | some (p2, s2) => (s2 ++ [interleave p1 p2], .ok)
  | .cSplit =>                      -- pop; sort; two halves; push(upper); push(lower)
    match vecPop s with
    | none => (s, .panic)
    | some (p, s1) =>
      match splitPop p with
      | none => (s1, .panic)        -- the population was already popped
      | some (lower, upper) => (s1 ++ [upper] ++ [lower], .ok)

def run (s : Stk) : List Op → Stk × List Out
  | [] => (s, [])
  | op :: ops =>
    let (s', o) := step s op
    let (s'', os) := run s' ops
    (s'', o :: os)

/-! ### Abstract specification: a plain stack, head = top. -/

abbrev Spec := List Pop

/-- Rotating the top `n` of a head-is-top stack: the top moves below the other `n-1`. -/
def specRot (s : Spec) (n : Nat) : Spec :=
  match s.take n with
  | [] => s
  | t :: rest => rest ++ [t] ++ s.drop n

def specStep (s : Spec) : Op → Spec × Out
  | .push p => (p :: s, .ok)
  | .pop => match s with | p :: r => (r, .pop p) | [] => (s, .panic)
  | .tryPop => match s with | p :: r => (r, .pop p) | [] => (s, .none)
  | .cur => match s with | p :: _ => (s, .pop p) | [] => (s, .panic)
  | .getCur => match s with | p :: _ => (s, .pop p) | [] => (s, .none)
  | .edit p => match s with | _ :: r => (p :: r, .ok) | [] => (s, .panic)
  | .tryEdit p => match s with | _ :: r => (p :: r, .ok) | [] => (s, .none)
  | .peek d => match s[d]? with | some p => (s, .pop p) | none => (s, .panic)
  | .tryPeek d => match s[d]? with | some p => (s, .pop p) | none => (s, .none)
  | .rot n => if s.length < n then (s, .panic) else (specRot s n, .ok)
  | .len => (s, .nat s.length)
  | .empty => (s, .bool s.isEmpty)
  | .cRot n => if s.length < n then (s, .err) else (specRot s n, .ok)
  | .cClear => match s with | _ :: r => ([] :: r, .ok) | [] => (s, .panic)
  | .cDup => match s with | p :: r => (interleave p p :: r, .ok) | [] => (s, .panic)
  | .cIleave =>
    match s with
    | [] => (s, .panic)
    | [_] => ([], .panic)
    | p1 :: p2 :: r => (interleave p1 p2 :: r, .ok)
  | .cSplit =>
    match s with
    | [] => (s, .panic)
    | p :: r =>
      match splitPop p with
      | none => (r, .panic)
      | some (lower, upper) => (lower :: upper :: r, .ok)

def specRun (s : Spec) : List Op → Spec × List Out
  | [] => (s, [])
  | op :: ops =>
    let (s', o) := specStep s op
    let (s'', os) := specRun s' ops
    (s'', o :: os)

/-- The abstraction: forget the `Vec` orientation. -/
def abs (s : Stk) : Spec := s.reverse

/-! ### Wire format -/
open MahfModel Sexp

def Op.parse? : Sexp → Option Op
  | .list [.atom "push", p] => (nats? p).map Op.push
  | .list [.atom "pop"] => some .pop
  | .list [.atom "trypop"] => some .tryPop
  | .list [.atom "cur"] => some .cur
  | .list [.atom "getcur"] => some .getCur
  | .list [.atom "edit", p] => (nats? p).map Op.edit
  | .list [.atom "tryedit", p] => (nats? p).map Op.tryEdit
  | .list [.atom "peek", d] => (nat? d).map Op.peek
  | .list [.atom "trypeek", d] => (nat? d).map Op.tryPeek
  | .list [.atom "rot", n] => (nat? n).map Op.rot
  | .list [.atom "len"] => some .len
  | .list [.atom "empty"] => some .empty
  | .list [.atom "c-rot", n] => (nat? n).map Op.cRot
  | .list [.atom "c-clear"] => some .cClear
  | .list [.atom "c-dup"] => some .cDup
  | .list [.atom "c-ileave"] => some .cIleave
  | .list [.atom "c-split"] => some .cSplit
  | _ => none

def Out.toSexp : Out → Sexp
  | .pop p => ofNats p
  | .none => .atom "none"
  | .panic => .atom "panic"
  | .ok => .atom "ok"
  | .err => .list [.atom "e", .atom "exec"]
  | .nat n => ofNat n
  | .bool b => ofBool b

/-- Input `(ops op*)`; output `(outs out*) (stack P*)` with the stack printed top first. -/
def handleCase (input : Sexp) : Option (Sexp × Sexp) := do
  let opsS ← tagged? "ops" input
  let ops ← opsS.mapM Op.parse?
  let (s, outs) := run [] ops
  let (sp, outsSpec) := specRun [] ops
  let modelOut := Sexp.list [.list (.atom "outs" :: outs.map Out.toSexp),
                             .list (.atom "stack" :: (abs s).map ofNats)]
  let specOut := Sexp.list [.list (.atom "outs" :: outsSpec.map Out.toSexp),
                            .list (.atom "stack" :: sp.map ofNats)]
  pure (modelOut, specOut)

end MahfModel.PopStack
