/-
C04 — model of `mahf::state::common::Populations` (src/state/common.rs) and of the stack
utility components (src/components/utils/populations.rs).

Code-shaped: the stack is a `Vec`, i.e. a list whose LAST element is the top; index arithmetic is
Rust's (`checked_sub`, slice-range panics), panics are an explicit outcome.

An individual is a solution tag plus its cached objective value (`none` = not evaluated), so that
"untouched" covers the evaluation state as well.  In-place edits through `current_mut()` /
`get_current_mut()` are a small language of `Vec` operations (`Edit`), including the ones that
panic inside the edit.

Three places are nondeterministic over a *legal witness* read off the real run:
* `SplitPopulationByObjectiveValue` sorts with `sort_unstable_by_key`; among individuals with
  equal objective value any order is legal (`splitLegal`).  Without (or with an illegal) witness the
  model answers with the stable sort.
* `PopulationEvaluator` is modelled exactly (`cEval`); of every other shipped pop-process-push component only the
  FRAME is modelled (`cFrame need takes puts`): what it puts back, or the height after its failure, is a witness.
* After a panic inside `InterleavePopulations` / `SplitPopulationByObjectiveValue` the code has
  already popped; nothing promises that, so "stack untouched" is accepted too (witness = height
  after the panic).  Without a witness the model follows the code.
-/
import MahfModel.Model.Sexp
namespace MahfModel.PopStack

/-- `Individual<P>`: solution (a unique tag) and the cached objective value. -/
structure Ind where
  tag : Nat
  obj : Option Nat
  deriving DecidableEq, Repr

abbrev Pop := List Ind
/-- `Vec<Vec<Individual>>`: index 0 is the bottom, the last element is the top. -/
abbrev Stk := List Pop

/-- An in-place edit of the `&mut Vec<Individual>` handed out by `current_mut` / `get_current_mut`. -/
inductive Edit where
  | set (p : Pop)              -- `*c = p`
  | push (i : Ind)             -- `c.push(i)`
  | extend (p : Pop)           -- `c.extend(p)`
  | truncate (k : Nat)         -- `c.truncate(k)`
  | swapRemove (i : Nat)       -- `c.swap_remove(i)`   (panics when `i >= len`)
  | remove (i : Nat)           -- `c.remove(i)`        (panics when `i >= len`)
  | insert (i : Nat) (x : Ind) -- `c.insert(i, x)`     (panics when `i > len`)
  | swap (i j : Nat)           -- `c.swap(i, j)`       (panics when out of range)
  | reverse                    -- `c.reverse()`
  | clear                      -- `c.clear()`
  | retainEval                 -- `c.retain(|i| i.is_evaluated())`
  deriving Repr, DecidableEq

/-- The edit on the vector; `none` = the edit panics (before changing anything). -/
def applyEdit : Edit → Pop → Option Pop
  | .set p, _ => some p
  | .push i, c => some (c ++ [i])
  | .extend p, c => some (c ++ p)
  | .truncate k, c => some (c.take k)
  | .swapRemove i, c =>
    match c.getLast? with
    | some l => if i < c.length then some ((c.set i l).dropLast) else none
    | none => none
  | .remove i, c => if i < c.length then some (c.eraseIdx i) else none
  | .insert i x, c => if c.length < i then none else some (c.take i ++ [x] ++ c.drop i)
  | .swap i j, c =>
    match c[i]?, c[j]? with
    | some a, some b => some ((c.set i b).set j a)
    | _, _ => none
  | .reverse, c => some c.reverse
  | .clear, _ => some []
  | .retainEval, c => some (c.filter (fun i => i.obj.isSome))

/-- What the real run of a pop-process-push component did (read off its output): it put `new` back (top first),
or it failed — by panic (`true`) or by `Err` — leaving `h` populations on the stack. -/
inductive FrameWit where
  | ok (new : List Pop)
  | fail (panic : Bool) (h : Nat)
  deriving Repr, DecidableEq

inductive Op where
  | push (p : Pop) | pop | tryPop | cur | getCur | edit (e : Edit) | tryEdit (e : Edit)
  | peek (d : Nat) | tryPeek (d : Nat) | rot (n : Nat) | len | empty | reset
  | cRot (n : Nat) | cClear | cDup
  | cIleave (w : Option Nat)                          -- witness: height after a panic
  | cSplit (w : Option Nat) (ws : Option (Pop × Pop)) -- witnesses: height after a panic; the two halves
  | cEval                                             -- `PopulationEvaluator` (any identifier)
  /-- A shipped component with a documented stack effect: it needs `need` populations, takes the top `takes` off
  and puts `puts` populations back (selection 1/0/1, mutation / recombination / archive re-insertion 1/1/1,
  replacement 2/2/1, archive update 1/0/0).  WHAT it puts back is the component's business (witness). -/
  | cFrame (need takes puts : Nat) (w : Option FrameWit)
  deriving Repr, DecidableEq

inductive Out where
  | pop (p : Pop) | none | panic | ok | err | nat (n : Nat) | bool (b : Bool)
  | panicH (h : Nat)          -- a component panicked; stack height afterwards
  | split (l u : Pop)         -- `SplitPopulationByObjectiveValue` succeeded: new top, new second
  | errH (h : Nat)            -- a component returned `Err`; stack height afterwards
  | put (new : List Pop)      -- a pop-process-push component succeeded: the populations it put back, top first
  deriving Repr, DecidableEq

/-- `Vec::pop`. -/
def vecPop (s : Stk) : Option (Pop × Stk) :=
  match s.getLast? with
  | some p => some (p, s.dropLast)
  | none => none

/-- `try_peek`: `n.checked_sub(1).and_then(|i| i.checked_sub(depth)).and_then(|i| stack.get(i))`. -/
def tryPeek (s : Stk) (d : Nat) : Option Pop :=
  let n := s.length
  if n < 1 then none
  else
    let i := n - 1
    if i < d then none else s[i - d]?

/-- `slice.rotate_right(1)`. -/
def rotR1 (l : List Pop) : List Pop :=
  match l.getLast? with
  | some x => x :: l.dropLast
  | none => []

/-- `rotate(n)`: `let top = &mut stack[len - n..len]; if !top.is_empty() { top.rotate_right(1) }`.
`len - n` underflows (panic) when `n > len`. -/
def rotate (s : Stk) (n : Nat) : Option Stk :=
  let len := s.length
  if len < n then none
  else some (s.take (len - n) ++ rotR1 (s.drop (len - n)))

/-- `itertools::interleave(a, b)`: alternate, starting with `a`, until both are exhausted. -/
def interleave : Pop → Pop → Pop
  | [], ys => ys
  | x :: xs, ys =>
    match ys with
    | [] => x :: xs
    | y :: ys' => x :: y :: interleave xs ys'

/-! ### `SplitPopulationByObjectiveValue` -/

/-- Sort key. Only ever compared when every individual is evaluated (otherwise the component panics). -/
def key (i : Ind) : Nat := i.obj.getD 0

def objLe (a b : Ind) : Bool := decide (key a ≤ key b)

/-- `chunks(0)` panics, one chunk fails `collect_tuple().unwrap()`, and `objective()` panics on an
individual that is not evaluated (the sort looks at every individual once there are two). -/
def splittable (p : Pop) : Bool := decide (2 ≤ p.length) && p.all (fun i => i.obj.isSome)

/-- One legal outcome: the stable sort. -/
def splitCanon (p : Pop) : Pop × Pop :=
  let sorted := p.mergeSort objLe
  (sorted.take ((p.length + 1) / 2), sorted.drop ((p.length + 1) / 2))

/-- What every correct ascending sort followed by the cut into chunks of `⌈n/2⌉` may produce. -/
def splitLegal (p l u : Pop) : Bool :=
  decide (l.length = (p.length + 1) / 2) && (l ++ u).isPerm p &&
    decide ((l ++ u).Pairwise (fun a b => key a ≤ key b))

/-- `(lower, upper)` for the popped population `p`; `none` = panic. -/
def splitPop (p : Pop) (ws : Option (Pop × Pop)) : Option (Pop × Pop) :=
  if splittable p then
    match ws with
    | some (l, u) => if splitLegal p l u then some (l, u) else some (splitCanon p)
    | none => some (splitCanon p)
  else none

/-- `Sequential::evaluate` on `TagProblem`: `evaluate_with(objective)` on every individual, evaluated or not. -/
def evalInd (i : Ind) : Ind := ⟨i.tag, some i.tag⟩

def frameFits (len need takes : Nat) : Bool := decide (need ≤ len) && decide (takes ≤ len)

/-- Without (or with an unusable) witness: the component puts back empty populations. -/
def frameCanon (s : Stk) (takes puts : Nat) : Stk × Out :=
  (s.take (s.length - takes) ++ List.replicate puts [], .put (List.replicate puts []))

def step (s : Stk) : Op → Stk × Out
  | .push p => (s ++ [p], .ok)
  | .pop =>
    match vecPop s with
    | some (p, s') => (s', .pop p)
    | none => (s, .panic)
  | .tryPop =>
    match vecPop s with
    | some (p, s') => (s', .pop p)
    | none => (s, .none)
  | .cur =>
    match s.getLast? with
    | some p => (s, .pop p)
    | none => (s, .panic)
  | .getCur =>
    match s.getLast? with
    | some p => (s, .pop p)
    | none => (s, .none)
  | .edit e =>                      -- `edit(current_mut())`
    match vecPop s with
    | some (p, s') =>
      match applyEdit e p with
      | some p' => (s' ++ [p'], .ok)
      | none => (s, .panic)
    | none => (s, .panic)
  | .tryEdit e =>                   -- `get_current_mut().map(|c| edit(c))`
    match vecPop s with
    | some (p, s') =>
      match applyEdit e p with
      | some p' => (s' ++ [p'], .ok)
      | none => (s, .panic)
    | none => (s, .none)
  | .peek d =>
    match tryPeek s d with
    | some p => (s, .pop p)
    | none => (s, .panic)
  | .tryPeek d =>
    match tryPeek s d with
    | some p => (s, .pop p)
    | none => (s, .none)
  | .rot n =>
    match rotate s n with
    | some s' => (s', .ok)
    | none => (s, .panic)
  | .len => (s, .nat s.length)
  | .empty => (s, .bool s.isEmpty)
  | .reset => ([], .ok)             -- `*populations = Populations::default()`
  | .cRot n =>                      -- `ensure!(len >= n)` then `rotate(n)`
    if s.length < n then (s, .err)
    else
      match rotate s n with
      | some s' => (s', .ok)
      | none => (s, .panicH s.length)
  | .cClear =>                      -- `current_mut().clear()`
    match vecPop s with
    | some (_, s') => (s' ++ [[]], .ok)
    | none => (s, .panicH 0)
  | .cDup =>                        -- pop; push(interleave(p, p.clone()))
    match vecPop s with
    | some (p, s') => (s' ++ [interleave p p], .ok)
    | none => (s, .panicH 0)
  | .cIleave w =>                   -- p1 = pop; p2 = pop; push(interleave(p1, p2))
    match vecPop s with
    | none => (s, .panicH 0)
    | some (p1, s1) =>
      match vecPop s1 with
      | none =>                     -- the first pop already happened (unless the witness says otherwise)
        if w = some s.length then (s, .panicH s.length) else (s1, .panicH s1.length)
      | some (p2, s2) => (s2 ++ [interleave p1 p2], .ok)
  | .cSplit w ws =>                 -- pop; sort; two halves; push(upper); push(lower)
    match vecPop s with
    | none => (s, .panicH 0)
    | some (p, s1) =>
      match splitPop p ws with
      | none =>                     -- the population was already popped (unless the witness says otherwise)
        if w = some s.length then (s, .panicH s.length) else (s1, .panicH s1.length)
      | some (lower, upper) => (s1 ++ [upper] ++ [lower], .split lower upper)

  | .cEval =>                       -- `try_pop`; evaluate every individual; push — whatever the population's size
    match vecPop s with
    | some (p, s') => (s' ++ [p.map evalInd], .ok)
    | none => (s, .ok)
  | .cFrame need takes puts w =>
    if frameFits s.length need takes then
      match w with
      | some (.ok new) =>
        if new.length = puts then (s.take (s.length - takes) ++ new.reverse, .put new) else frameCanon s takes puts
      | some (.fail pn h) =>        -- failed after popping some of the `takes` populations (nothing promises how many)
        if s.length - takes ≤ h ∧ h ≤ s.length then (s.take h, if pn then .panicH h else .errH h)
        else frameCanon s takes puts
      | none => frameCanon s takes puts
    else                            -- `pop()` / `current()` on too low a stack panic
      match w with
      | some (.fail true h) =>
        if s.length - takes ≤ h ∧ h ≤ s.length then (s.take h, .panicH h) else (s, .panicH s.length)
      | _ => (s, .panicH s.length)

def run (s : Stk) : List Op → Stk × List Out
  | [] => (s, [])
  | op :: ops =>
    let (s', o) := step s op
    let (s'', os) := run s' ops
    (s'', o :: os)

/-! ### Abstract specification: a plain stack, head = top. -/

abbrev Spec := List Pop

/-- Rotating the top `n` of a head-is-top stack: the top moves below the other `n-1`. -/
def specRot (s : Spec) (n : Nat) : Spec :=
  match s.take n with
  | [] => s
  | t :: rest => rest ++ [t] ++ s.drop n

def specFrameCanon (s : Spec) (takes puts : Nat) : Spec × Out :=
  (List.replicate puts [] ++ s.drop takes, .put (List.replicate puts []))

def specStep (s : Spec) : Op → Spec × Out
  | .push p => (p :: s, .ok)
  | .pop => match s with | p :: r => (r, .pop p) | [] => (s, .panic)
  | .tryPop => match s with | p :: r => (r, .pop p) | [] => (s, .none)
  | .cur => match s with | p :: _ => (s, .pop p) | [] => (s, .panic)
  | .getCur => match s with | p :: _ => (s, .pop p) | [] => (s, .none)
  | .edit e =>
    match s with
    | p :: r => (match applyEdit e p with | some p' => (p' :: r, .ok) | none => (s, .panic))
    | [] => (s, .panic)
  | .tryEdit e =>
    match s with
    | p :: r => (match applyEdit e p with | some p' => (p' :: r, .ok) | none => (s, .panic))
    | [] => (s, .none)
  | .peek d => match s[d]? with | some p => (s, .pop p) | none => (s, .panic)
  | .tryPeek d => match s[d]? with | some p => (s, .pop p) | none => (s, .none)
  | .rot n => if s.length < n then (s, .panic) else (specRot s n, .ok)
  | .len => (s, .nat s.length)
  | .empty => (s, .bool s.isEmpty)
  | .reset => ([], .ok)
  | .cRot n => if s.length < n then (s, .err) else (specRot s n, .ok)
  | .cClear => match s with | _ :: r => ([] :: r, .ok) | [] => (s, .panicH 0)
  | .cDup => match s with | p :: r => (interleave p p :: r, .ok) | [] => (s, .panicH 0)
  | .cIleave w =>
    match s with
    | [] => (s, .panicH 0)
    | [p] => if w = some 1 then ([p], .panicH 1) else ([], .panicH 0)
    | p1 :: p2 :: r => (interleave p1 p2 :: r, .ok)
  | .cSplit w ws =>
    match s with
    | [] => (s, .panicH 0)
    | p :: r =>
      match splitPop p ws with
      | none => if w = some s.length then (s, .panicH s.length) else (r, .panicH r.length)
      | some (lower, upper) => (lower :: upper :: r, .split lower upper)

  | .cEval => match s with | p :: r => (p.map evalInd :: r, .ok) | [] => (s, .ok)
  | .cFrame need takes puts w =>
    if frameFits s.length need takes then
      match w with
      | some (.ok new) =>
        if new.length = puts then (new ++ s.drop takes, .put new) else specFrameCanon s takes puts
      | some (.fail pn h) =>
        if s.length - takes ≤ h ∧ h ≤ s.length then (s.drop (s.length - h), if pn then .panicH h else .errH h)
        else specFrameCanon s takes puts
      | none => specFrameCanon s takes puts
    else
      match w with
      | some (.fail true h) =>
        if s.length - takes ≤ h ∧ h ≤ s.length then (s.drop (s.length - h), .panicH h) else (s, .panicH s.length)
      | _ => (s, .panicH s.length)

def specRun (s : Spec) : List Op → Spec × List Out
  | [] => (s, [])
  | op :: ops =>
    let (s', o) := specStep s op
    let (s'', os) := specRun s' ops
    (s'', o :: os)

/-- The abstraction: forget the `Vec` orientation. -/
def abs (s : Stk) : Spec := s.reverse

/-! ### Wire format -/
open MahfModel Sexp

/-- `N` = evaluated with objective `N`; `(N M)` = evaluated with objective `M`; `(N u)` = not evaluated. -/
def Ind.parse? : Sexp → Option Ind
  | .atom a => (a.toNat?).map fun n => ⟨n, some n⟩
  | .list [.atom a, .atom "u"] => (a.toNat?).map fun n => ⟨n, none⟩
  | .list [.atom a, .atom m] =>
    match a.toNat?, m.toNat? with
    | some n, some o => some ⟨n, some o⟩
    | _, _ => none
  | _ => none

def Ind.toSexp (i : Ind) : Sexp :=
  match i.obj with
  | none => .list [ofNat i.tag, .atom "u"]
  | some o => if o = i.tag then ofNat i.tag else .list [ofNat i.tag, ofNat o]

def Pop.parse? : Sexp → Option Pop
  | .list xs => xs.mapM Ind.parse?
  | _ => none

def Pop.toSexp (p : Pop) : Sexp := .list (p.map Ind.toSexp)

def Edit.parse? : Sexp → Option Edit
  | .list [.atom "e-push", i] => (Ind.parse? i).map Edit.push
  | .list [.atom "e-extend", p] => (Pop.parse? p).map Edit.extend
  | .list [.atom "e-truncate", k] => (nat? k).map Edit.truncate
  | .list [.atom "e-swaprm", i] => (nat? i).map Edit.swapRemove
  | .list [.atom "e-remove", i] => (nat? i).map Edit.remove
  | .list [.atom "e-insert", i, x] =>
    match nat? i, Ind.parse? x with
    | some i, some x => some (.insert i x)
    | _, _ => none
  | .list [.atom "e-swap", i, j] =>
    match nat? i, nat? j with
    | some i, some j => some (.swap i j)
    | _, _ => none
  | .list [.atom "e-reverse"] => some .reverse
  | .list [.atom "e-clear"] => some .clear
  | .list [.atom "e-retain"] => some .retainEval
  | p => (Pop.parse? p).map Edit.set

/-- The documented stack effect (needs, takes, puts) of the shipped components driven as `(c-comp NAME ARG*)`. -/
def frameEffect? (name : String) : Option (Nat × Nat × Nat) :=
  if name.startsWith "sel-" then some (1, 0, 1)        -- selection: reads the current population, pushes the selection
  else if name.startsWith "mut-" then some (1, 1, 1)   -- mutation driver: pop, mutate, push
  else if name.startsWith "rec-" then some (1, 1, 1)   -- recombination driver: pop, recombine, push
  else if name.startsWith "rep-" then some (2, 2, 1)   -- replacement driver: pop offspring, pop parents, push survivors
  else if name = "arch-upd" then some (1, 0, 0)        -- ElitistArchiveUpdate: reads the current population
  else if name = "arch-into" then some (1, 1, 1)       -- ElitistArchiveIntoPopulation: extends the current population
  else none

def Op.parseBase? : Sexp → Option Op
  | .list [.atom "push", p] => (Pop.parse? p).map Op.push
  | .list [.atom "pop"] => some .pop
  | .list [.atom "trypop"] => some .tryPop
  | .list [.atom "cur"] => some .cur
  | .list [.atom "getcur"] => some .getCur
  | .list [.atom "edit", e] => (Edit.parse? e).map Op.edit
  | .list [.atom "tryedit", e] => (Edit.parse? e).map Op.tryEdit
  | .list [.atom "peek", d] => (nat? d).map Op.peek
  | .list [.atom "trypeek", d] => (nat? d).map Op.tryPeek
  | .list [.atom "rot", n] => (nat? n).map Op.rot
  | .list [.atom "len"] => some .len
  | .list [.atom "empty"] => some .empty
  | .list [.atom "reset"] => some .reset
  | .list [.atom "c-rot", n] => (nat? n).map Op.cRot
  | .list [.atom "c-clear"] => some .cClear
  | .list [.atom "c-dup"] => some .cDup
  | .list [.atom "c-ileave"] => some (.cIleave none)
  | .list [.atom "c-split"] => some (.cSplit none none)
  | .list [.atom "c-eval"] => some .cEval
  | .list [.atom "c-eval-a"] => some .cEval
  | .list (.atom "c-comp" :: .atom name :: _) => (frameEffect? name).map fun e => .cFrame e.1 e.2.1 e.2.2 none
  | _ => none

/-- `(in k OP)`: `OP` executed inside `k` nested child scopes (`State::with_inner_state`). The population
stack lives in the outermost registry, so the scope depth does not matter to the model. -/
def Op.parse? : Sexp → Option Op
  | .list [.atom "in", _, op] => Op.parseBase? op
  | op => Op.parseBase? op

/-- Reads the witnesses of the real run off its output for this operation. -/
def Op.withWitness (op : Op) (implOut : Sexp) : Op :=
  match op, implOut with
  | .cIleave _, .list [.atom "panic", h] => .cIleave (nat? h)
  | .cSplit _ _, .list [.atom "panic", h] => .cSplit (nat? h) none
  | .cSplit _ _, .list [.atom "ok", l, u] =>
    match Pop.parse? l, Pop.parse? u with
    | some l, some u => .cSplit none (some (l, u))
    | _, _ => op
  | .cFrame a b c _, .list (.atom "ok" :: ps) =>
    match ps.mapM Pop.parse? with
    | some new => .cFrame a b c (some (.ok new))
    | none => op
  | .cFrame a b c _, .list [.atom "panic", h] => .cFrame a b c ((nat? h).map (FrameWit.fail true))
  | .cFrame a b c _, .list [.atom "err", h] => .cFrame a b c ((nat? h).map (FrameWit.fail false))
  | _, _ => op

def attach : List Op → List Sexp → List Op
  | [], _ => []
  | op :: ops, [] => op :: ops
  | op :: ops, o :: os => op.withWitness o :: attach ops os

def Out.toSexp : Out → Sexp
  | .pop p => Pop.toSexp p
  | .none => .atom "none"
  | .panic => .atom "panic"
  | .ok => .atom "ok"
  | .err => .list [.atom "e", .atom "exec"]
  | .nat n => ofNat n
  | .bool b => ofBool b
  | .panicH h => .list [.atom "panic", ofNat h]
  | .split l u => .list [.atom "ok", Pop.toSexp l, Pop.toSexp u]
  | .errH h => .list [.atom "err", ofNat h]
  | .put new => .list (.atom "ok" :: new.map Pop.toSexp)

/-- Input `(ops op*)`, implementation output `((outs out*) (stack P*))`; model / spec output in the same
shape, the stack printed top first. The implementation's output is only used to read the witnesses. -/
def handleCase (input implOut : Sexp) : Option (Sexp × Sexp) := do
  let opsS ← tagged? "ops" input
  let ops0 ← opsS.mapM Op.parse?
  let implOuts :=
    match implOut with
    | .list (o :: _) => (tagged? "outs" o).getD []
    | _ => []
  let ops := attach ops0 implOuts
  let (s, outs) := run [] ops
  let (sp, outsSpec) := specRun [] ops
  let modelOut := Sexp.list [.list (.atom "outs" :: outs.map Out.toSexp),
                             .list (.atom "stack" :: (abs s).map Pop.toSexp)]
  let specOut := Sexp.list [.list (.atom "outs" :: outsSpec.map Out.toSexp),
                            .list (.atom "stack" :: sp.map Pop.toSexp)]
  pure (modelOut, specOut)

end MahfModel.PopStack
