/-
S-expression wire format shared by every driver (DESIGN.md Appendix C).
Import-free, total. `sexp := atom | "(" sexp* ")"`.
-/
namespace MahfModel

inductive Sexp where
  | atom (s : String)
  | list (xs : List Sexp)
  deriving Inhabited, Repr

namespace Sexp

inductive Tok where
  | lp | rp | at (s : String)

/-- Tokeniser: a fold over characters; `cur` is the atom being read (reversed). -/
def tokStep (st : List Tok × List Char) (c : Char) : List Tok × List Char :=
  let (toks, cur) := st
  let flush := if cur.isEmpty then toks else Tok.at (String.ofList cur.reverse) :: toks
  if c == '(' then (Tok.lp :: flush, [])
  else if c == ')' then (Tok.rp :: flush, [])
  else if c == ' ' || c == '\n' || c == '\t' || c == '\r' then (flush, [])
  else (toks, c :: cur)

def tokenize (s : String) : List Tok :=
  let (toks, cur) := s.toList.foldl tokStep ([], [])
  let toks := if cur.isEmpty then toks else Tok.at (String.ofList cur.reverse) :: toks
  toks.reverse

/-- Stack parser: `stack` holds the (reversed) children of every open list, innermost first. -/
def parseStep (st : Option (List (List Sexp))) (t : Tok) : Option (List (List Sexp)) :=
  match st with
  | none => none
  | some stack =>
    match t with
    | Tok.lp => some ([] :: stack)
    | Tok.at s =>
      match stack with
      | top :: rest => some ((Sexp.atom s :: top) :: rest)
      | [] => none
    | Tok.rp =>
      match stack with
      | top :: parent :: rest => some ((Sexp.list top.reverse :: parent) :: rest)
      | _ => none

/-- Parses every top-level S-expression on the line. -/
def parseAll (s : String) : Option (List Sexp) :=
  match (tokenize s).foldl parseStep (some [[]]) with
  | some [top] => some top.reverse
  | _ => none

def parse (s : String) : Option Sexp :=
  match parseAll s with
  | some [x] => some x
  | _ => none

mutual
  def render : Sexp → String
    | atom s => s
    | list xs => "(" ++ renderList xs ++ ")"
  def renderList : List Sexp → String
    | [] => ""
    | [x] => render x
    | x :: xs => render x ++ " " ++ renderList xs
end

instance : ToString Sexp := ⟨render⟩

def nat? : Sexp → Option Nat
  | atom s => s.toNat?
  | _ => none

def int? : Sexp → Option Int
  | atom s => s.toInt?
  | _ => none

def atom? : Sexp → Option String
  | atom s => some s
  | _ => none

def list? : Sexp → Option (List Sexp)
  | list xs => some xs
  | _ => none

def ofNat (n : Nat) : Sexp := atom (toString n)
def ofInt (n : Int) : Sexp := atom (toString n)
def ofBool (b : Bool) : Sexp := atom (if b then "t" else "f")
def ofNats (ns : List Nat) : Sexp := list (ns.map ofNat)

def bool? : Sexp → Option Bool
  | atom "t" => some true
  | atom "f" => some false
  | _ => none

def nats? : Sexp → Option (List Nat)
  | list xs => xs.mapM nat?
  | _ => none

/-- A tagged list `(tag a b c)`: returns the arguments if the head matches. -/
def tagged? (tag : String) : Sexp → Option (List Sexp)
  | list (atom t :: rest) => if t == tag then some rest else none
  | _ => none

def hexDigit? (c : Char) : Option Nat :=
  if '0' ≤ c ∧ c ≤ '9' then some (c.toNat - '0'.toNat)
  else if 'a' ≤ c ∧ c ≤ 'f' then some (c.toNat - 'a'.toNat + 10)
  else if 'A' ≤ c ∧ c ≤ 'F' then some (c.toNat - 'A'.toNat + 10)
  else none

def hex? (cs : List Char) : Option Nat :=
  cs.foldl (fun acc c => match acc, hexDigit? c with
    | some a, some d => some (a * 16 + d)
    | _, _ => none) (some 0)

/-- IEEE-754 bit pattern, written `x` + 16 hex digits. -/
def bits? : Sexp → Option UInt64
  | atom s =>
    match s.toList with
    | 'x' :: rest => if rest.length == 16 then (hex? rest).map (·.toUInt64) else none
    | _ => none
  | _ => none

def float? (s : Sexp) : Option Float := (bits? s).map Float.ofBits

def hexChar (d : Nat) : Char :=
  if d < 10 then Char.ofNat ('0'.toNat + d) else Char.ofNat ('a'.toNat + d - 10)

def ofBits (b : UInt64) : Sexp :=
  let n := b.toNat
  let digits := (List.range 16).map fun i => hexChar ((n / 16 ^ (15 - i)) % 16)
  atom (String.ofList ('x' :: digits))

def ofFloat (f : Float) : Sexp := ofBits f.toBits

end Sexp

/-- Reads stdin line by line, answers each with `handle`. Shared by all drivers. -/
partial def driverLoop (h : IO.FS.Stream) (out : IO.FS.Stream) (handle : String → String) : IO Unit := do
  let line ← h.getLine
  if line.isEmpty then return ()
  let l := line.trimAscii.toString
  if !l.isEmpty then out.putStrLn (handle l)
  driverLoop h out handle

def driverMain (handle : String → String) : IO Unit := do
  let i ← IO.getStdin
  let o ← IO.getStdout
  driverLoop i o handle
  o.flush

end MahfModel

namespace MahfModel

/-- What a driver says about one case: `agree` (K: model output = implementation output),
`holds` (O: the property's executable predicate on the implementation's output),
`cls` (class of the deviation, for known-findings matching), `model` (the model's output). -/
structure Verdict where
  agree : Bool
  holds : Bool
  cls : String := "-"
  model : Sexp := .atom "-"

/-- Line `(id site input impl-output)` ↦ `(id site agree holds cls model-output)`. -/
def respond (f : Sexp → Sexp → Option Verdict) (line : String) : String :=
  match Sexp.parse line with
  | some (.list [id, site, input, implOut]) =>
    match f input implOut with
    | some v =>
      toString (Sexp.list [id, site, Sexp.ofBool v.agree, Sexp.ofBool v.holds, .atom v.cls, v.model])
    | none => toString (Sexp.list [id, site, .atom "badcase"])
  | _ => "(? ? badline)"

/-- Equality of S-expressions through their canonical rendering (atoms produced by `parse`
never contain blanks or parentheses, so rendering is injective on them). -/
def Sexp.beq (a b : Sexp) : Bool := a.render == b.render

end MahfModel
