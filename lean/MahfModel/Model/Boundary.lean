/-
C14 — model of boundary repair (src/components/boundary.rs) and of the initialisation operators
(src/components/initialization/{functional,common,mod}.rs).

Numeric code is generic over the carrier `F` (core classes only): the driver instantiates `Float`,
the theorems an arbitrary ordered field.  `f64::rem_euclid` (`Mirror`) and `f64::floor` (`Toroidal`) are parameters of the model.
Loops take fuel (`Mirror`) or a script of draws
(`CompleteOneTailedNormalCorrection`); running out of either is the outcome `none`.
Initialisers are functions of an explicit witness (the values the generator returned).
-/
import MahfModel.Model.Sexp
namespace MahfModel.Boundary

section Repair
variable {F : Type} [Add F] [Sub F] [Mul F] [Div F] [LT F] [LE F] [DecidableLT F] [DecidableLE F]
  [OfNat F 0] [OfNat F 1] [OfNat F 2] [OfNat F 3]

/-- `izip!(solution, problem.domain())`: the operator is applied to the coordinates that have a
domain entry; the solution is edited in place, so surplus coordinates stay. -/
def zipDomain (f : F → F × F → F) : List F → List (F × F) → List F
  | x :: xs, d :: ds => f x d :: zipDomain f xs ds
  | xs, [] => xs
  | [], _ => []

/-- `f64::clamp(min, max)`: `assert!(min <= max)`, then `if x < min {min} … if x > max {max}`. -/
def clamp (x a b : F) : Option F :=
  if a ≤ b then
    let x1 := if x < a then a else x
    some (if x1 > b then b else x1)
  else none

/-- `Saturation::constrain` on one coordinate (domain `a..b`). -/
def saturation (x : F) (d : F × F) : Option F := clamp x d.1 d.2

/-- `f64::abs`. -/
def absF (x : F) : F := if x < 0 then 0 - x else x

/-- `Toroidal::constrain` on one coordinate, with the rounding-down function as a parameter. -/
def toroidal (floor : F → F) (x : F) (dom : F × F) : F :=
  let a := dom.1
  let b := dom.2
  let d := b - a
  let norm := (x - a) / d
  if x < a then a + (1 - absF (norm - floor norm)) * d
  else if x > b then a + (norm - floor norm) * d
  else x

/-- One pass of the body of `Mirror`'s loop. -/
def mirrorStep (a b v : F) : F :=
  if v < a then a + (a - v) else if v > b then b - (v - b) else v

/-- `while x < a || x > b { x = mirrorStep x }` with fuel; `none` = fuel exhausted. -/
def mirrorLoop (a b : F) : Nat → F → Option F
  | 0, v => if v < a ∨ v > b then none else some v
  | fuel + 1, v => if v < a ∨ v > b then mirrorLoop a b fuel (mirrorStep a b v) else some v

/-- `n` passes of the loop body (for the termination theorem). -/
def mirrorIter (a b : F) : Nat → F → F
  | 0, v => v
  | n + 1, v => mirrorIter a b n (mirrorStep a b v)

/-- The fold `Mirror::constrain` does before its loop (commit 664f681), with `f64::rem_euclid` as a
parameter: `if d > 0. && (x < a - d || x > b + d) { x = a + (x - a).rem_euclid(2. * d) }`. -/
def mirrorFold (rem : F → F → F) (a b x : F) : F :=
  let d := b - a
  if d > 0 ∧ (x < a - d ∨ x > b + d) then a + rem (x - a) (2 * d) else x

/-- `Mirror::constrain` on one coordinate: fold, then the reflection loop. -/
def mirror (rem : F → F → F) (fuel : Nat) (x : F) (dom : F × F) : Option F :=
  mirrorLoop dom.1 dom.2 fuel (mirrorFold rem dom.1 dom.2 x)

/-- `Mirror::constrain` as it was before the fold was added: the reflection loop alone. -/
def mirrorStepwise (fuel : Nat) (x : F) (dom : F × F) : Option F := mirrorLoop dom.1 dom.2 fuel x

/-- `CompleteOneTailedNormalCorrection` on one coordinate: `dist = Normal::new(0, (b - a) / 3)` is
built per coordinate and `dist.sample(rng).abs()` is `(b - a) / 3 * |z|` for a standard-normal `z`.
The loop consumes the scripted absolute standard-normal deviates `|z|` one per pass; returns the
repaired value and the unread rest of the script, `none` when the script runs out first. -/
def oneTailedLoop (a b : F) : List F → F → Option (F × List F)
  | [], v => if v < a ∨ v > b then none else some (v, [])
  | s :: rest, v =>
    if v < a then oneTailedLoop a b rest (a + (b - a) / 3 * s)
    else if v > b then oneTailedLoop a b rest (b - (b - a) / 3 * s)
    else some (v, s :: rest)

/-- A whole solution: coordinates left to right share one script. -/
def oneTailedSolution : List F → List (F × F) → List F → Option (List F × List F)
  | x :: xs, d :: ds, script =>
    match oneTailedLoop d.1 d.2 script x with
    | none => none
    | some (y, script') =>
      match oneTailedSolution xs ds script' with
      | none => none
      | some (ys, script'') => some (y :: ys, script'')
  | xs, [], script => some (xs, script)
  | [], _, script => some ([], script)

/-- Option-valued operators over a solution. -/
def zipDomainM (f : F → F × F → Option F) : List F → List (F × F) → Option (List F)
  | x :: xs, d :: ds =>
    match f x d, zipDomainM f xs ds with
    | some y, some ys => some (y :: ys)
    | _, _ => none
  | xs, [] => some xs
  | [], _ => some []

/-! ### The driver `boundary_constraint` and the four operators as it sees them

An operator maps a solution and the state of the random source (here: the unread script of deviates,
untouched by the three deterministic operators) to the repaired solution and the new state; `none` =
it does not return (panic, fuel or script exhausted). -/

/-- `for solution in populations.current_mut().as_solutions_mut() { constrain(solution, ..) }`:
every solution of one population, in order, sharing the random source. -/
def constrainAll {S : Type} (op : List F → S → Option (List F × S)) :
    List (List F) → S → Option (List (List F) × S)
  | [], s => some ([], s)
  | sol :: sols, s =>
    match op sol s with
    | none => none
    | some (y, s') =>
      match constrainAll op sols s' with
      | none => none
      | some (ys, s'') => some (y :: ys, s'')

/-- `boundary_constraint(component, problem, state)` on the population stack (last = top-most =
current): `current_mut()` panics on an empty stack; only the current population is touched. -/
def boundaryConstraint {S : Type} (op : List F → S → Option (List F × S))
    (stack : List (List (List F))) (s : S) : Option (List (List (List F)) × S) :=
  match stack.getLast? with
  | none => none
  | some top =>
    match constrainAll op top s with
    | none => none
    | some (top', s') => some (stack.dropLast ++ [top'], s')

def satOp {S : Type} (dom : List (F × F)) (sol : List F) (s : S) : Option (List F × S) :=
  match zipDomainM saturation sol dom with
  | none => none
  | some ys => some (ys, s)

def torOp {S : Type} (floor : F → F) (dom : List (F × F)) (sol : List F) (s : S) : Option (List F × S) :=
  some (zipDomain (toroidal floor) sol dom, s)

def mirOp {S : Type} (rem : F → F → F) (fuel : Nat) (dom : List (F × F)) (sol : List F) (s : S) :
    Option (List F × S) :=
  match zipDomainM (mirror rem fuel) sol dom with
  | none => none
  | some ys => some (ys, s)

def otnOp (dom : List (F × F)) (sol : List F) (script : List F) : Option (List F × List F) :=
  oneTailedSolution sol dom script

/-- The closed interval `[a, b]` (what the property calls "inside the domain bounds"). -/
def inside (a b x : F) : Bool := decide (a ≤ x) && decide (x ≤ b)

end Repair

/-! ## `f64::rem_euclid` for the `Float` carrier

`f64::rem_euclid(self, rhs)` is `let r = self % rhs; if r < 0.0 { r + rhs.abs() } else { r }` and `%` on
`f64` is C's `fmod`, which is EXACT (no rounding).  Lean's `Float` has no `fmod`, so it is computed
here on the decoded doubles with integer arithmetic: `x = ±mx·2^ex`, `y = ±my·2^ey`, `e = min ex ey`,
`fmod x y = ±((mx·2^(ex−e)) mod (my·2^(ey−e)))·2^e` with the sign of `x`. -/

/-- A finite double as `(negative, mantissa, exponent)`, value `±mantissa·2^exponent`; `none` = ±inf / NaN. -/
def f64Decode (x : Float) : Option (Bool × Nat × Int) :=
  let bits : Nat := x.toBits.toNat
  let neg : Bool := bits / 2 ^ 63 == 1
  let e : Nat := (bits / 2 ^ 52) % 2048
  let m : Nat := bits % 2 ^ 52
  if e == 2047 then none
  else if e == 0 then some (neg, m, -1074)
  else some (neg, 2 ^ 52 + m, (e : Int) - 1075)

/-- C `fmod` / Rust `f64 % f64`. -/
def f64Fmod (x y : Float) : Float :=
  match f64Decode x, f64Decode y with
  | some (nx, mx, ex), some (_, my, ey) =>
    if my == 0 then 0.0 / 0.0
    else
      let e : Int := min ex ey
      let r : Nat := (mx * 2 ^ (ex - e).toNat) % (my * 2 ^ (ey - e).toNat)
      -- `r < my·2^(ey−e)` and `r ≤ mx·2^(ex−e)`: fewer than 2^53 units of `2^e`, so both steps are exact
      let v := (Float.ofNat r).scaleB e
      if nx then -v else v
  | some _, none => if y.isNaN then 0.0 / 0.0 else x
  | none, _ => 0.0 / 0.0

/-- `f64::rem_euclid`. -/
def f64RemEuclid (x m : Float) : Float :=
  let r := f64Fmod x m
  if r < 0.0 then r + m.abs else r

/-! ## Initialisation -/

/-- An individual as the property sees it: the solution and whether an objective value is cached. -/
structure Ind (σ : Type) where
  sol : σ
  evaluated : Bool
  deriving Repr, BEq

/-- `into_individuals()`: every solution becomes an unevaluated individual. -/
def intoIndividuals {σ : Type} (sols : List σ) : List (Ind σ) := sols.map fun s => ⟨s, false⟩

/-- `Empty`: pushes an empty population. -/
def initEmpty {σ : Type} (stack : List (List (Ind σ))) : List (List (Ind σ)) := stack ++ [[]]

/-- `random_spread(domain, n, rng)`: `draw i j` is what the `gen_range(domain[j])` call for
coordinate `j` of the `i`-th individual returned (one call per coordinate, with THAT coordinate's range). -/
def randomSpread {F : Type} (dom : List (F × F)) (n : Nat) (draw : Nat → Nat → F) : List (List F) :=
  (List.range n).map fun i => (List.range dom.length).map fun j => draw i j

/-- `slice.shuffle(rng)` as a function of its witness: `σ[k]` is the source position of the element
that ends up at position `k`; an out-of-range entry has no source (`none`). -/
def shuffleBy {α : Type} (σ : List Nat) (l : List α) : Option (List α) := σ.mapM (l[·]?)

/-- `random_permutation(dimension, n, rng)` with one shuffle witness per individual. -/
def randomPermutation (dim n : Nat) (σ : Nat → List Nat) : Option (List (List Nat)) :=
  (List.range n).mapM fun i => shuffleBy (σ i) (List.range dim)

/-- `random_bitstring(dimension, p, n, rng)`: `Bernoulli::new(p).unwrap()` sits inside the per-individual
closure, so an invalid `p` panics only if at least one individual is requested. -/
def randomBitstring (dim n : Nat) (pValid : Bool) (bit : Nat → Nat → Bool) : Option (List (List Bool)) :=
  if n = 0 then some []
  else if !pValid then none
  else some ((List.range n).map fun i => (List.range dim).map fun j => bit i j)

/-- `initialization(..)`: push the new population of unevaluated individuals. -/
def initPush {σ : Type} (stack : List (List (Ind σ))) (sols : List σ) : List (List (Ind σ)) :=
  stack ++ [intoIndividuals sols]

/-- Legal shuffle witness: a permutation of `0..n`. -/
def isPermOfRange (σ : List Nat) (n : Nat) : Bool := σ.isPerm (List.range n)

end MahfModel.Boundary
