/-
PopMachineC05Eval — evaluators and caches of objective values (C05).

`Sequential::evaluate` / `Parallel::evaluate` (src/problems/evaluate.rs) call `evaluate_with(|s| problem.objective(s))`
on EVERY individual of the slice: `evalSlice`. The value an individual receives depends on its own solution only.

An evaluator may save calls of the objective function by re-using the value of another individual of the slice
"with the same solution". What "the same" means is the cache's key: an equivalence `eqv` on solutions. Solutions
are ids of IDENTITIES here (bit patterns of the encoding); `PartialEq` on the encoding is such an `eqv`, and for
`Vec<f64>` it is strictly coarser than identity (`0.0 == -0.0`). `cachedEval` is the family of all such evaluators:
the witness of member `k` names an earlier member of the slice whose value is taken over if the key matches
(`k - 1`: "runs of identical neighbours"; the first occurrence: de-duplication; `none`: evaluate).
-/
import MahfModel.Model.PopMachine
namespace MahfModel.PopMachine
variable {O : Type}

/-- `Sequential::evaluate` / `Parallel::evaluate` as they are written: `evaluate_with(objective)` on every member. -/
def evalSlice (f : Nat → O) (p : List (Ind O)) : List (Ind O) := p.map (Ind.evaluateWith f)

/-- One member under a cache keyed on `eqv`: `w = some j` looks at the already processed member `j`; on a hit its
value is written with `set_objective`, otherwise (`none`, no such member, key mismatch) the objective function is called. -/
def cachedOne (eqv : Nat → Nat → Bool) (f : Nat → O) (done : List (Ind O)) (w : Option Nat) (i : Ind O) : Ind O :=
  match w with
  | none => i.evaluateWith f
  | some j =>
    match done[j]? with
    | none => i.evaluateWith f
    | some prev => if eqv prev.sol i.sol then ⟨i.sol, prev.obj⟩ else i.evaluateWith f

/-- An evaluator with a cache keyed on `eqv` over the members processed so far (`done`), witnesses position-wise
(missing = evaluate). -/
def cachedEvalAux (eqv : Nat → Nat → Bool) (f : Nat → O) : List (Ind O) → List (Option Nat) → List (Ind O) → List (Ind O)
  | done, _, [] => done
  | done, ws, i :: rest => cachedEvalAux eqv f (done ++ [cachedOne eqv f done (ws.head?.getD none) i]) ws.tail rest

def cachedEval (eqv : Nat → Nat → Bool) (f : Nat → O) (ws : List (Option Nat)) (p : List (Ind O)) : List (Ind O) :=
  cachedEvalAux eqv f [] ws p

/-- "Call the objective function once per run of equal neighbours": member `k` looks at member `k - 1`. -/
def neighbourWitness (n : Nat) : List (Option Nat) := (List.range n).map fun k => if k = 0 then none else some (k - 1)

end MahfModel.PopMachine
