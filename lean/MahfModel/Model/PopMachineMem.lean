/-
PopMachineMem — the part of the PopMachine that only C05 needs: the state memories that hold
individuals besides the population stack, the best-so-far and the elitist archive, namely

* `pso::BestParticles` / `pso::BestParticle` (src/components/swarm/pso.rs: `PersonalBestParticlesInit`,
  `PersonalBestParticlesUpdate`, `GlobalBestParticleUpdate`),
* the `best` field of every `cro::Molecule` (src/components/misc/cro.rs: `ChemicalReactionInit`,
  `Molecule::update_best`, the four reaction updates),

and the solution-modifying executors that are not a plain `as_solutions_mut` over the whole population:

* a component that takes `solution_mut` on SOME members only (`replacement::bh::EventHorizon`; also what a
  boundary repair / mutation becomes when it leaves untouched individuals alone),
* the shared `recombination()` executor (src/components/recombination/mod.rs): `pop().into_solutions()`,
  `chunks(2)`, `OptionalPair::{None, Single, Both}`, the odd remainder, `into_individuals()`,
* `DEMutation` (src/components/mutation/de.rs): `as_solutions_mut()` on everybody, then `retain` of the bases.

Code-shaped; a Rust panic is `Out.panic`, an `Err` is `Out.err` WITH the state the component leaves behind
(populations that were popped before the error stay popped). The numeric decisions of the CRO reactions
(energy balance) are explicit Boolean witnesses here; their arithmetic is modelled in `Model/Cro.lean` (C20).

Also: the transition relations the C05 driver evaluates on REAL before/after snapshots of the state
(`noNewValues`, `freshOrCopy`, `leafCheck`), so that the theorems about them speak about the very functions
the driver runs.
-/
import MahfModel.Model.PopMachine
namespace MahfModel.PopMachine

/-- How a step ended: `ok`, a Rust `Err` (with the state left behind) or a panic. -/
inductive Out (σ : Type) where
  | ok (s : σ)
  | err (s : σ)
  | panic
  deriving Repr

/-- The state a step leaves behind, if it did not panic. -/
def Out.state? {σ : Type} : Out σ → Option σ
  | .ok s => some s
  | .err s => some s
  | .panic => none

/-- What happens to one member of a population in a partial mutation: it is left alone, or
`solution_mut` is taken on it (and `w` written through the reference, `none` = nothing written). -/
inductive Touch where
  | keep
  | mut (w : Option Nat)
  deriving Repr, DecidableEq

/-- What `Recombination::recombine` returned for one pair of parents. -/
inductive PairOut where
  | none
  | single (c : Nat)
  | both (c1 c2 : Nat)
  deriving Repr, DecidableEq

section Partial
variable {O : Type}

/-- `solution_mut` on the members the witness names, nothing on the others (missing witness = left alone). -/
def mutateSome : List (Ind O) → List Touch → List (Ind O)
  | [], _ => []
  | i :: is, [] => i :: mutateSome is []
  | i :: is, .keep :: ts => i :: mutateSome is ts
  | i :: is, .mut w :: ts => i.solutionMut w :: mutateSome is ts

/-- The solutions the `recombination()` executor collects: per `chunks(2)` pair what the operator returned
(`None`: clones of both parents' solutions), the odd remainder is cloned. Missing witness = `None`. -/
def recombineSols : List Nat → List PairOut → List Nat
  | [], _ => []
  | [r], _ => [r]
  | p1 :: p2 :: rest, [] => p1 :: p2 :: recombineSols rest []
  | p1 :: p2 :: rest, .none :: ws => p1 :: p2 :: recombineSols rest ws
  | _ :: _ :: rest, .single c :: ws => c :: recombineSols rest ws
  | _ :: _ :: rest, .both a b :: ws => a :: b :: recombineSols rest ws

/-- `recombination()`: `pop().into_solutions()` … `push(population.into_individuals())`. -/
def recombineExec (p : List (Ind O)) (ws : List PairOut) : List (Ind O) :=
  intoIndividuals (recombineSols (intoSolutions p) ws)

/-- `retain(with_index(|i, _| i % size == 0))`, counting from `k`. -/
def retainEveryFrom {α : Type} (size : Nat) : Nat → List α → List α
  | _, [] => []
  | k, x :: xs => if k % size == 0 then x :: retainEveryFrom size (k + 1) xs else retainEveryFrom size (k + 1) xs

/-- `DEMutation::execute` with `size = 2y + 1`: `Err` (`none`) unless the length is a multiple of `size`;
otherwise `as_solutions_mut()` on EVERY member (the writes `ws` go to the bases), then only the bases stay. -/
def deMutation (size : Nat) (p : List (Ind O)) (ws : List (Option Nat)) : Option (List (Ind O)) :=
  if p.length % size != 0 then none else some (retainEveryFrom size 0 (asSolutionsMut p ws))

/-- `DuplicatePopulation`: `interleave(population, population.clone())`. -/
def duplicate : List (Ind O) → List (Ind O)
  | [] => []
  | i :: is => i :: i.clone :: duplicate is

end Partial

/-! ### The machine with memories -/

structure PMX (O : Type) where
  pm : PM O := {}
  /-- `pso::BestParticles` -/
  pbest : List (Ind O) := []
  /-- `pso::BestParticle` -/
  gbest : Option (Ind O) := none
  /-- the `best` field of every `cro::Molecule`, in molecule order -/
  mols : List (Ind O) := []
  deriving Repr

section Mem
variable {O : Type}

def PMX.withStack (x : PMX O) (s : List (List (Ind O))) : PMX O := { x with pm := { x.pm with stack := s } }

/-- `iter().position(|i| i == r)` (`Individual::eq`: solution AND objective). -/
def position [DecidableEq O] : List (Ind O) → Ind O → Option Nat
  | [], _ => none
  | x :: xs, r => if x = r then some 0 else (position xs r).map (· + 1)

/-- `iter().enumerate().position(|(idx, i)| idx != skip && i == r)`, counting from `k`. -/
def positionOtherFrom [DecidableEq O] : List (Ind O) → Nat → Nat → Ind O → Option Nat
  | [], _, _, _ => none
  | x :: xs, k, skip, r => if k ≠ skip ∧ x = r then some k else positionOtherFrom xs (k + 1) skip r

def positionOther [DecidableEq O] (l : List (Ind O)) (skip : Nat) (r : Ind O) : Option Nat :=
  positionOtherFrom l 0 skip r

variable [LT O] [DecidableLT O]

/-- `if candidate.objective() < current.objective() { *current = candidate.clone() }` — the shape shared by
`PersonalBestParticlesUpdate`, `GlobalBestParticleUpdate`, `Molecule::update_best`. `none`: `objective()`
panics on an unevaluated individual. -/
def keepBetter (current cand : Ind O) : Option (Ind O) :=
  match cand.obj, current.obj with
  | some c, some b => some (if c < b then cand.clone else current)
  | _, _ => none

/-- `PersonalBestParticlesUpdate`: `multizip((&mut *bests, populations.current()))` — the common prefix is
updated, surplus memory entries stay. -/
def pbestUpd : List (Ind O) → List (Ind O) → Option (List (Ind O))
  | [], _ => some []
  | b :: bs, [] => some (b :: bs)
  | b :: bs, c :: cs =>
    match keepBetter b c, pbestUpd bs cs with
    | some b', some r => some (b' :: r)
    | _, _ => none

/-- `GlobalBestParticleUpdate::execute` given the candidate `current().best_individual().cloned()`. -/
def gbestUpd (best : Option (Ind O)) (cand : Option (Ind O)) : Option (Option (Ind O)) :=
  match best, cand with
  | some cur, some c => (keepBetter cur c).map some
  | none, some c => some (some c.clone)
  | b, none => some b

/-- Component steps beyond `PMOp`. -/
inductive MemOp where
  | base (op : PMOp)
  /-- partial `solution_mut` (EventHorizon; a repair / mutation that leaves some members alone) -/
  | mutateSome (ts : List Touch)
  /-- the shared `recombination()` executor -/
  | recombineExec (ws : List PairOut)
  | deMutation (size : Nat) (ws : List (Option Nat))
  | duplicate
  | pbestInit
  | pbestUpdate
  | gbestUpdate
  | croInit
  /-- `OnWallIneffectiveCollisionUpdate`; `accept`: the energy balance allows the reaction -/
  | onWall (accept : Bool)
  /-- `DecompositionUpdate`; `split = false`: not enough energy even with the buffer -/
  | decomposition (split : Bool)
  | intermolecular (accept : Bool)
  | synthesis (accept : Bool)
  /-- `BestIndividualUpdate::init`: `state.insert(BestIndividual::default())` — a best-so-far that is already in
  the state (an earlier run on the same `State`) is REPLACED by the empty one -/
  | initBest
  /-- `ElitistArchiveUpdate::init`: `state.insert(ElitistArchive::new())` -/
  | initArchive
  /-- `PersonalBestParticlesInit::init`: `state.insert(BestParticles::new(Vec::new()))` -/
  | initPbest
  /-- `GlobalBestParticleUpdate::init`: `state.entry::<BestParticle>().or_insert(BestParticle::new(None))` — an
  entry that is already in the state is KEPT -/
  | initGbest
  /-- `ChemicalReactionInit::init`: `state.insert(ChemicalReaction::default())` -/
  | initMols
  /-- `PopulationEvaluator::init`: `state.insert(Evaluations(0))` -/
  | initEvals
  deriving Repr

variable [DecidableEq O]

/-- `OnWallIneffectiveCollisionUpdate::execute`. -/
def onWall (accept : Bool) (x : PMX O) : Out (PMX O) :=
  match x.pm.stack with
  | pp :: rp :: cur :: rest =>
    match intoSingle pp with
    | .error _ => .err (x.withStack (rp :: cur :: rest))
    | .ok p =>
      match intoSingle rp with
      | .error _ => .err (x.withStack (cur :: rest))
      | .ok r =>
        match position cur r with
        | none => .err (x.withStack (cur :: rest))
        | some k =>
          match x.mols[k]?, r.obj, p.obj with
          | some m, some _, some _ =>
            if accept then
              match keepBetter m p with
              | none => .panic
              | some m' => .ok { x.withStack (cur.set k p :: rest) with mols := x.mols.set k m' }
            else .ok (x.withStack (cur :: rest))
          | _, _, _ => .panic
  | _ => .err x

/-- `DecompositionUpdate::execute`. -/
def decomposition (split : Bool) (x : PMX O) : Out (PMX O) :=
  match x.pm.stack with
  | pp :: rp :: cur :: rest =>
    match pp with
    | [p1, p2] =>
      match intoSingle rp with
      | .error _ => .err (x.withStack (cur :: rest))
      | .ok r =>
        match position cur r with
        | none => .err (x.withStack (cur :: rest))
        | some k =>
          match x.mols[k]?, r.obj, p1.obj, p2.obj with
          | some _, some _, some _, some _ =>
            if split then
              .ok { x.withStack ((cur.set k p1 ++ [p2]) :: rest) with mols := x.mols.set k p1.clone ++ [p2.clone] }
            else .ok (x.withStack (cur :: rest))
          | _, _, _, _ => .panic
    | _ => .err (x.withStack (rp :: cur :: rest))
  | _ => .err x

/-- `IntermolecularIneffectiveCollisionUpdate::execute`. -/
def intermolecular (accept : Bool) (x : PMX O) : Out (PMX O) :=
  match x.pm.stack with
  | pp :: rp :: cur :: rest =>
    match pp with
    | [p1, p2] =>
      match rp with
      | [r1, r2] =>
        match position cur r1 with
        | none => .err (x.withStack (cur :: rest))
        | some k1 =>
          match positionOther cur k1 r2 with
          | none => .err (x.withStack (cur :: rest))
          | some k2 =>
            match x.mols[k1]?, x.mols[k2]?, r1.obj, r2.obj, p1.obj, p2.obj with
            | some m1, some m2, some _, some _, some _, some _ =>
              if accept then
                match keepBetter m1 p1, keepBetter m2 p2 with
                | some a, some b =>
                  .ok { x.withStack (((cur.set k1 p1).set k2 p2) :: rest) with mols := (x.mols.set k1 a).set k2 b }
                | _, _ => .panic
              else .ok (x.withStack (cur :: rest))
            | _, _, _, _, _, _ => .panic
      | _ => .err (x.withStack (cur :: rest))
    | _ => .err (x.withStack (rp :: cur :: rest))
  | _ => .err x

/-- `SynthesisUpdate::execute` (the first reactant is located with `unwrap`: a panic when it is missing). -/
def synthesis (accept : Bool) (x : PMX O) : Out (PMX O) :=
  match x.pm.stack with
  | pp :: rp :: cur :: rest =>
    match intoSingle pp with
    | .error _ => .err (x.withStack (rp :: cur :: rest))
    | .ok p =>
      match rp with
      | [r1, r2] =>
        match position cur r1 with
        | none => .panic
        | some k1 =>
          match positionOther cur k1 r2 with
          | none => .err (x.withStack (cur :: rest))
          | some k2 =>
            match x.mols[k1]?, x.mols[k2]?, r1.obj, r2.obj, p.obj with
            | some _, some _, some _, some _, some _ =>
              if accept then
                .ok { x.withStack (((cur.set k1 p).eraseIdx k2) :: rest) with mols := (x.mols.set k1 p.clone).eraseIdx k2 }
              else .ok (x.withStack (cur :: rest))
            | _, _, _, _, _ => .panic
      | _ => .err (x.withStack (cur :: rest))
  | _ => .err x

/-- One step of the machine with memories. -/
def memStep (f : Nat → O) (x : PMX O) : MemOp → Out (PMX O)
  | .base op =>
    match pmStep f x.pm op with
    | none => .panic
    | some pm' => .ok { x with pm := pm' }
  | .mutateSome ts =>
    match x.pm.stack with
    | [] => .panic
    | p :: rest => .ok (x.withStack (mutateSome p ts :: rest))
  | .recombineExec ws =>
    match x.pm.stack with
    | [] => .panic
    | p :: rest => .ok (x.withStack (recombineExec p ws :: rest))
  | .deMutation size ws =>
    match x.pm.stack with
    | [] => .panic
    | p :: rest =>
      match deMutation size p ws with
      | none => .err x
      | some p' => .ok (x.withStack (p' :: rest))
  | .duplicate =>
    match x.pm.stack with
    | [] => .panic
    | p :: rest => .ok (x.withStack (duplicate p :: rest))
  | .pbestInit =>
    match x.pm.stack with
    | [] => .panic
    | p :: _ => .ok { x with pbest := p.map Ind.clone }
  | .pbestUpdate =>
    match x.pm.stack with
    | [] => .panic
    | p :: _ =>
      match pbestUpd x.pbest p with
      | none => .panic
      | some b => .ok { x with pbest := b }
  | .gbestUpdate =>
    match x.pm.stack with
    | [] => .panic
    | p :: _ =>
      match bestIndividual p with
      | none => .panic
      | some cand =>
        match gbestUpd x.gbest cand with
        | none => .panic
        | some g => .ok { x with gbest := g }
  | .croInit =>
    match x.pm.stack with
    | [] => .panic
    | p :: _ => .ok { x with mols := p.map Ind.clone }
  | .onWall a => onWall a x
  | .decomposition s => decomposition s x
  | .intermolecular a => intermolecular a x
  | .synthesis a => synthesis a x
  | .initBest => .ok { x with pm := { x.pm with best := none } }
  | .initArchive => .ok { x with pm := { x.pm with archive := [] } }
  | .initPbest => .ok { x with pbest := [] }
  | .initGbest => .ok { x with gbest := match x.gbest with | some g => some g | none => none }
  | .initMols => .ok { x with mols := [] }
  | .initEvals => .ok { x with pm := { x.pm with evals := 0 } }

/-- A sequence of steps; an `Err` or a panic ends the run (`Configuration::run` propagates the error). -/
def memRun (f : Nat → O) : PMX O → List MemOp → Out (PMX O)
  | x, [] => .ok x
  | x, op :: ops =>
    match memStep f x op with
    | .ok x' => memRun f x' ops
    | .err x' => .err x'
    | .panic => .panic

/-! ### Consecutive runs on one `State` (public `Configuration::run`)

`Configuration::run(problem, state)` is `init` of every component (in order), `require`, `execute`; "the caller
is responsible for initializing `state` properly". When a state that was used before is handed in again —
possibly for ANOTHER INSTANCE of the problem, i.e. another objective function — everything the earlier run
left in it is still there unless the caller or a component's `init` replaces it. -/

/-- The `init` steps. -/
def MemOp.isInit : MemOp → Bool
  | .initBest | .initArchive | .initPbest | .initGbest | .initMols | .initEvals => true
  | _ => false

/-- The caller's part: a new, empty population stack (what `optimize_with` does for a new state). -/
def callerReset (x : PMX O) : PMX O := x.withStack []

/-- One `Configuration::run` of a configuration whose components' `init`s are `inits` and whose execution is
`ops`, with objective function `f`, on a state the caller has reset. -/
def configRun (f : Nat → O) (inits ops : List MemOp) (x : PMX O) : Out (PMX O) :=
  memRun f (callerReset x) (inits ++ ops)

/-- Consecutive runs on one state, each with its own objective function; a run that stopped with an `Err`
leaves its state to the next one, a panic ends everything. -/
def reruns : PMX O → List ((Nat → O) × List MemOp × List MemOp) → Out (PMX O)
  | x, [] => .ok x
  | x, (f, inits, ops) :: rest =>
    match configRun f inits ops x with
    | .ok x' => reruns x' rest
    | .err x' => reruns x' rest
    | .panic => .panic

end Mem

/-! ### Transition relations evaluated by the driver on real before/after snapshots -/

section Rel
variable {O : Type}

/-- Every individual the state holds: all populations, best-so-far, archive, swarm and molecule memories. -/
def allInds (x : PMX O) : List (Ind O) :=
  x.pm.stack.flatten ++ x.pm.best.toList ++ x.pm.archive ++ x.pbest ++ x.gbest.toList ++ x.mols

variable [DecidableEq O]

/-- A member is unevaluated or an exact copy (solution AND objective) of an individual of `src`. -/
def unevalOrCopy (src p : List (Ind O)) : Bool :=
  p.all fun i => i.obj.isNone || src.contains i

/-- A member is unevaluated, an exact copy, or carries exactly `f` of its solution. -/
def freshOrCopy (f : Nat → O) (src p : List (Ind O)) : Bool :=
  p.all fun i => i.obj.isNone || src.contains i || i.obj == some (f i.sol)

/-- The cached value of every member, if any, is `f` of its solution. -/
def allValidB (f : Nat → O) (p : List (Ind O)) : Bool :=
  p.all fun i => match i.obj with | none => true | some o => o == f i.sol

/-- No component but an evaluating one creates a (solution, objective) pair: everything evaluated that the
state holds afterwards was in the state before. -/
def noNewValues (before after : PMX O) : Bool := unevalOrCopy (allInds before) (allInds after)

/-- What a leaf component may do to the population stack, as far as C05 is concerned. -/
inductive Kind where
  | evalAll      -- height same, same solutions position-wise, all evaluated afterwards
  | unevalTop    -- `solution_mut` on members of the top: same height and length, each member unevaluated or untouched
  | keep         -- does not touch the stack
  | pushNew      -- height + 1, the new top is all unevaluated
  | copy         -- height + 1, every member of the new top is an exact copy of a member of the old top
  | newTop       -- height same, every member of the new top is unevaluated or an exact copy of a member of the old top
  | merge        -- height − 1, every member of the new top is an exact copy of a member of the two old tops
  | selfEval     -- height same, same length, all evaluated afterwards (firefly)
  | any          -- no prediction about the shape
  deriving DecidableEq, Repr

def Kind.evaluates : Kind → Bool
  | .evalAll | .selfEval => true
  | _ => false

/-- position-wise: unevaluated or identical to the member that was there -/
def unevalOrSame : List (Ind O) → List (Ind O) → Bool
  | [], [] => true
  | a :: as, b :: bs => (b.obj.isNone || decide (a = b)) && unevalOrSame as bs
  | _, _ => false

/-- The shape a leaf of the given kind must have, on the real stacks (head = top) before and after. -/
def shapeCheck (k : Kind) (s0 s1 : List (List (Ind O))) : Bool :=
  let top0 := s0.headD []
  let sec0 := (s0.drop 1).headD []
  let top1 := s1.headD []
  match k with
  | .evalAll => s1.length == s0.length && top1.map (·.sol) == top0.map (·.sol) && top1.all (·.obj.isSome) && s1.drop 1 == s0.drop 1
  | .unevalTop => s1.length == s0.length && unevalOrSame top0 top1 && s1.drop 1 == s0.drop 1
  | .keep => s1 == s0
  | .pushNew => s1.length == s0.length + 1 && top1.all (·.obj.isNone) && s1.drop 1 == s0
  | .copy => s1.length == s0.length + 1 && top1.all (top0.contains ·) && s1.drop 1 == s0
  | .newTop => s1.length == s0.length && unevalOrCopy top0 top1 && s1.drop 1 == s0.drop 1
  | .merge => s1.length + 1 == s0.length && top1.all (fun i => top0.contains i || sec0.contains i) && s1.drop 1 == s0.drop 2
  | .selfEval => s1.length == s0.length && top1.length == top0.length && top1.all (·.obj.isSome) && s1.drop 1 == s0.drop 1
  | .any => true

/-- The complete check of one observed leaf transition (K): the shape of its kind, and — unless the kind
evaluates — no new (solution, objective) pair anywhere in the state; an evaluating kind may in addition
produce values `f sol`. -/
def leafCheck (f : Nat → O) (k : Kind) (before after : PMX O) : Bool :=
  shapeCheck k before.pm.stack after.pm.stack &&
  (if k.evaluates then freshOrCopy f (allInds before) (allInds after) else noNewValues before after)

end Rel

end MahfModel.PopMachine
