/-
C16 — population *sizes* in the shipped templates: a verified static interval analysis.

`Model/Templates.lean` erases all parameters and analyses the stack *height*.  Here a leaf keeps the
natural-number parameters that determine population sizes (`num_selected`, `max_population_size`,
`population_size`, `y`, `insert_both`, `min/max_selected`, `num_ants`), and the abstract state is the
stack of population-size intervals (top first; the upper end may be unbounded).

* `opOf`     — what a component does to the sizes, read from its `execute` in `/repo/src/components/**`
               (validated against every executed step of every template run by the correspondence check).
* `cstep`    — the concrete effect of such an operation on the stack of sizes `List Nat`; `pick` resolves the
               nondeterminism inside a component (how many pairs a crossover really recombined, whether a
               reaction took place, …); `none` = the component fails (`Err`/panic), the run stops.
* `astep`    — the interval transformer.  `none` = too few populations / a guard can never hold / not bounded.
* `sizeOf`   — the analysis on trees: `seq` = composition, `branch` = hull of both arms, `scope` = body,
               `loop` = an inductive invariant found by a bounded iteration with widening and then CHECKED
               (`entry ⊑ inv`, `body inv ⊑ inv`); at a loop that is not nested in another loop the current
               population's interval at the END OF A PASS (`body inv`) must in addition lie within the
               prescribed bound — the same pass boundaries at which the run-level check reads the size.
* `sexec`    — the concrete interpreter (fuel, oracle for conditions / failures / picks) with a ghost flag
               recording that at the end of every pass of an outermost loop the current population size was
               within the bound.
Soundness (every terminating execution stays inside what `sizeOf` computes) is `Proofs/C16Size.lean`.
-/
import MahfModel.Model.Templates
namespace MahfModel.Tpl

/-! ### Intervals `[lo, hi]`, `hi = none` meaning unbounded -/

structure Itv where
  lo : Nat
  hi : Option Nat
  deriving DecidableEq, Repr, Inhabited

namespace Itv

/-- Concretisation. -/
def mem (i : Itv) (n : Nat) : Prop := i.lo ≤ n ∧ ∀ h, i.hi = some h → n ≤ h

def memb (i : Itv) (n : Nat) : Bool :=
  decide (i.lo ≤ n) && match i.hi with
    | some h => decide (n ≤ h)
    | none => true

def exact (n : Nat) : Itv := ⟨n, some n⟩

def hiLe : Option Nat → Option Nat → Bool
  | _, none => true
  | none, some _ => false
  | some a, some b => decide (a ≤ b)

/-- `a ⊑ b` -/
def le (a b : Itv) : Bool := decide (b.lo ≤ a.lo) && hiLe a.hi b.hi

def hiMax : Option Nat → Option Nat → Option Nat
  | some a, some b => some (max a b)
  | _, _ => none

def hiMin : Option Nat → Option Nat → Option Nat
  | some a, some b => some (min a b)
  | some a, none => some a
  | none, b => b

def hiAdd : Option Nat → Option Nat → Option Nat
  | some a, some b => some (a + b)
  | _, _ => none

def join (a b : Itv) : Itv := ⟨min a.lo b.lo, hiMax a.hi b.hi⟩

/-- Intersection; `none` if empty. -/
def meet (a b : Itv) : Option Itv :=
  let lo := max a.lo b.lo
  let hi := hiMin a.hi b.hi
  if hiLe (some lo) hi then some ⟨lo, hi⟩ else none

def add (a b : Itv) : Itv := ⟨a.lo + b.lo, hiAdd a.hi b.hi⟩
def mulC (a : Itv) (d : Nat) : Itv := ⟨a.lo * d, a.hi.map (· * d)⟩
def divC (a : Itv) (d : Nat) : Itv := ⟨a.lo / d, a.hi.map (· / d)⟩
/-- `min μ ·` -/
def capC (a : Itv) (mu : Nat) : Itv :=
  ⟨min mu a.lo, some (match a.hi with | some h => min mu h | none => mu)⟩
/-- one child per pair, an odd remainder passes through, unrecombined pairs stay: `⌈n/2⌉ … n` -/
def half (a : Itv) : Itv := ⟨(a.lo + 1) / 2, a.hi⟩

/-- Widening: an unstable lower end falls to 1 (if still positive) or 0, an unstable upper end to ∞. -/
def widen (old new : Itv) : Itv :=
  ⟨if old.lo ≤ new.lo then old.lo else if 1 ≤ new.lo then 1 else 0,
   if hiLe new.hi old.hi then old.hi else none⟩

end Itv

abbrev AbsStack := List Itv

/-- Concretisation of an abstract stack: same height, every size in its interval. -/
def Conc : List Nat → AbsStack → Prop
  | [], [] => True
  | n :: s, i :: a => i.mem n ∧ Conc s a
  | _, _ => False

def stackLe : AbsStack → AbsStack → Bool
  | [], [] => true
  | x :: a, y :: b => x.le y && stackLe a b
  | _, _ => false

def stackJoin : AbsStack → AbsStack → Option AbsStack
  | [], [] => some []
  | x :: a, y :: b => (stackJoin a b).map (x.join y :: ·)
  | _, _ => none

def stackWiden : AbsStack → AbsStack → AbsStack
  | x :: a, y :: b => x.widen y :: stackWiden a b
  | _, b => b

/-- The current (top-most) population's interval lies within the bound. An empty stack has no current
population and is never within. -/
def topWithin (B : Itv) : AbsStack → Bool
  | x :: _ => x.le B
  | [] => false

def topIn (B : Itv) : List Nat → Bool
  | n :: _ => B.memb n
  | [] => false

/-! ### Size operations -/

inductive Op where
  /-- needs `need` populations; pushes a population of `k` (initialisation, fixed-count selection) -/
  | push (need k : Nat)
  /-- needs `need` populations; no size changes -/
  | keep (need : Nat)
  /-- pushes `d` × the current size (`All`: 1; DE selections: 2y+1 per member) -/
  | selMul (d : Nat)
  /-- pushes between `mn` and `mx` per member (IWO's fitness-proportional seeding) -/
  | selRange (mn mx : Nat)
  /-- doubles the current population -/
  | dup
  /-- recombination inserting a single child per recombined pair -/
  | halve
  /-- replaces the current population by one of `k` -/
  | setTop (k : Nat)
  | replOffspring | replParents | replMerge | replTrunc (mu : Nat)
  /-- `KeepBetterAtIndex`: fails unless both sizes agree -/
  | replEqual
  /-- SA acceptance: keeps either the candidate or the current population -/
  | replEither
  /-- DE mutation: fails unless the size is a multiple of `d`; keeps every `d`-th -/
  | divide (d : Nat)
  /-- chemical-reaction updates: pops products (exactly `p`) and reactants (exactly `r`, all members of
  the population below, which therefore has at least `r`), the population below grows by at most `up`
  or shrinks by at most `down` -/
  | cro (p r up down : Nat)
  deriving DecidableEq, Repr

/-- Concrete effect on the sizes; `c` resolves the component's internal nondeterminism. -/
def cstep : Op → Nat → List Nat → Option (List Nat)
  | .push need k, _, s => if need ≤ s.length then some (k :: s) else none
  | .keep need, _, s => if need ≤ s.length then some s else none
  | .selMul d, _, n :: s => some (n * d :: n :: s)
  | .selRange mn mx, c, n :: s => if n * mn ≤ c ∧ c ≤ n * mx then some (c :: n :: s) else none
  | .dup, _, n :: s => some (n * 2 :: s)
  | .halve, c, n :: s => if (n + 1) / 2 ≤ c ∧ c ≤ n then some (c :: s) else none
  | .setTop k, _, _ :: s => some (k :: s)
  | .replOffspring, _, a :: _ :: s => some (a :: s)
  | .replParents, _, _ :: b :: s => some (b :: s)
  | .replMerge, _, a :: b :: s => some ((a + b) :: s)
  | .replTrunc mu, _, a :: b :: s => some (min mu (a + b) :: s)
  | .replEqual, _, a :: b :: s => if a = b then some (a :: s) else none
  | .replEither, c, a :: b :: s => some ((if c % 2 = 0 then a else b) :: s)
  | .divide d, _, n :: s => if d ≠ 0 ∧ n % d = 0 then some (n / d :: s) else none
  | .cro p r up down, c, a :: b :: n :: s =>
    if a = p ∧ b = r ∧ r ≤ n ∧ n - down ≤ c ∧ c ≤ n + up then some (c :: s) else none
  | _, _, _ => none

/-- Interval transformer. -/
def astep : Op → AbsStack → Option AbsStack
  | .push need k, a => if need ≤ a.length then some (Itv.exact k :: a) else none
  | .keep need, a => if need ≤ a.length then some a else none
  | .selMul d, x :: a => some (x.mulC d :: x :: a)
  | .selRange mn mx, x :: a => some (⟨x.lo * mn, x.hi.map (· * mx)⟩ :: x :: a)
  | .dup, x :: a => some (x.mulC 2 :: a)
  | .halve, x :: a => some (x.half :: a)
  | .setTop k, _ :: a => some (Itv.exact k :: a)
  | .replOffspring, x :: _ :: a => some (x :: a)
  | .replParents, _ :: y :: a => some (y :: a)
  | .replMerge, x :: y :: a => some (x.add y :: a)
  | .replTrunc mu, x :: y :: a => some ((x.add y).capC mu :: a)
  | .replEqual, x :: y :: a => (x.meet y).map (· :: a)
  | .replEither, x :: y :: a => some (x.join y :: a)
  | .divide d, x :: a => if d = 0 then none else some (x.divC d :: a)
  | .cro p r up down, x :: y :: z :: a =>
    if x.memb p && y.memb r then some (⟨max z.lo r - down, z.hi.map (· + up)⟩ :: a) else none
  | _, _ => none

/-- What each component does to the sizes (`a`, `b` = its size-relevant parameters, see `sparams`).
`none`: not covered by the analysis. -/
def opOf : LeafKind → Nat → Nat → Option Op
  | .Empty, _, _ => some (.push 0 0)
  | .RandomSpread, a, _ | .RandomPermutation, a, _ | .RandomBitstring, a, _ => some (.push 0 a)
  | .All, _, _ => some (.selMul 1)
  | .None, _, _ => some (.push 1 0)
  | .CloneSingle, a, _ | .FullyRandom, a, _ | .RandomWithoutRepetition, a, _ | .RouletteWheel, a, _
  | .StochasticUniversalSampling, a, _ | .Tournament, a, _ | .LinearRank, a, _
  | .ExponentialRank, a, _ => some (.push 1 a)
  | .DERand, y, _ | .DEBest, y, _ | .DECurrentToBest, y, _ => some (.selMul (2 * y + 1))
  | .DeterministicFitnessProportional, mn, mx => some (.selRange mn mx)
  | .DiscardOffspring, _, _ => some .replParents
  | .Merge, _, _ | .InterleavePopulations, _, _ => some .replMerge
  | .MuPlusLambda, mu, _ | .RandomReplacement, mu, _ => some (.replTrunc mu)
  | .Generational, _, _ => some .replOffspring          -- ignores `max_population_size`
  | .KeepBetterAtIndex, _, _ => some .replEqual
  | .ExponentialAnnealingAcceptance, _, _ => some .replEither
  | .OnWallIneffectiveCollisionUpdate, _, _ => some (.cro 1 1 0 0)
  | .DecompositionUpdate, _, _ => some (.cro 2 1 1 0)
  | .IntermolecularIneffectiveCollisionUpdate, _, _ => some (.cro 2 2 0 0)
  | .SynthesisUpdate, _, _ => some (.cro 1 2 0 1)
  | .DuplicatePopulation, _, _ => some .dup
  | .ClearPopulation, _, _ => some (.setTop 0)
  | .AcoGeneration, ants, _ => some (.setTop (ants + 1))   -- one greedy route + `num_ants` sampled ones
  | .DEMutation, y, _ => some (.divide (2 * y + 1))
  | .DEBinomialCrossover, _, _ | .DEExponentialCrossover, _, _ => some (.keep 2)
  | .NPointCrossover, both, _ | .UniformCrossover, both, _ | .ArithmeticCrossover, both, _
  | .CycleCrossover, both, _ => some (if both = 1 then .keep 1 else .halve)
  | .PopulationEvaluator, _, _ | .Logger, _, _ | .Noop, _, _
  | .Linear, _, _ | .Polynomial, _, _ | .RandomRange, _, _ | .GeometricCooling, _, _
  | .StepsWithoutImprovementUpdate, _, _ => some (.keep 0)
  | .BestIndividualUpdate, _, _
  | .NormalMutation, _, _ | .UniformMutation, _, _ | .BitFlipMutation, _, _ | .PartialRandomSpread, _, _
  | .PartialRandomBitstring, _, _ | .ScrambleMutation, _, _ | .SwapMutation, _, _
  | .InversionMutation, _, _ | .InsertionMutation, _, _ | .TranslocationMutation, _, _
  | .Saturation, _, _ | .Toroidal, _, _ | .Mirror, _, _ | .CompleteOneTailedNormalCorrection, _, _
  | .ParticleVelocitiesInit, _, _ | .ParticleVelocitiesUpdate, _, _ | .PersonalBestParticlesInit, _, _
  | .PersonalBestParticlesUpdate, _, _ | .GlobalBestParticleUpdate, _, _
  | .FireflyPositionsUpdate, _, _ | .BlackHoleParticlesUpdate, _, _ | .EventHorizon, _, _
  | .AsPheromoneUpdate, _, _ | .MinMaxPheromoneUpdate, _, _ | .ChemicalReactionInit, _, _
  | .ElitistArchiveUpdate, _, _ | .DiversityMeasure, _, _ => some (.keep 1)
  -- not covered: the result depends on more than sizes and parameters, or the leaf is unknown
  | .SplitPopulationByObjectiveValue, _, _ | .RotatePopulations, _, _
  | .ElitistArchiveIntoPopulation, _, _ | .opaque, _, _ => none

/-- The transformer of a leaf. `none` = the analysis cannot bound it / stack too shallow / unknown leaf. -/
def sizeStep (k : LeafKind) (a b : Nat) (st : AbsStack) : Option AbsStack :=
  match opOf k a b with
  | some op => astep op st
  | none => none


/-! ### Size preconditions (guards)

`guardOf k a b s`: does component `k` with parameters `a`, `b` find the population sizes `s` (top first)
acceptable — `some true`: it succeeds (as far as sizes are concerned), `some false`: it returns `Err` or panics,
`none`: not modelled (the outcome depends on more than sizes).  Read from each component's `execute`/`select`/
`replace`; on every size probe where it answers `some true` the real component must succeed (so a refusal of the
real component implies a violated `guardOf` — the direction the guard theorems need). -/
def guardOf (k : LeafKind) (a b : Nat) (s : List Nat) : Option Bool :=
  match k, s with
  -- the selection driver reads the current population
  | .All, s | .None, s => some (decide (1 ≤ s.length))
  | .CloneSingle, s => some (s.head? == some 1)                         -- `into_single_ref`
  | .FullyRandom, s => some (match s with | n :: _ => a == 0 || decide (1 ≤ n) | [] => false)
  | .RandomWithoutRepetition, s => some (match s with | n :: _ => decide (a ≤ n) | [] => false)
  | .Tournament, s =>                                                    -- `a` winners of tournaments of `b`
    some (match s with | n :: _ => decide (b ≤ n) && (a == 0 || decide (1 ≤ b)) | [] => false)
  | .DERand, s => some (match s with | n :: _ => decide (2 * a + 1 ≤ n) | [] => false)
  | .DEBest, s => some (match s with | n :: _ => decide (2 * a ≤ n) && decide (1 ≤ n) | [] => false)
  | .DECurrentToBest, s => some (match s with | n :: _ => decide (2 * a ≤ n) && decide (1 ≤ n) | [] => false)
  | .DeterministicFitnessProportional, s => some (match s with | n :: _ => decide (a ≤ b) && decide (1 ≤ n) | [] => false)
  | .DEMutation, s => some (match s with | n :: _ => n % (2 * a + 1) == 0 | [] => false)
  -- the replacement driver pops offspring and parents
  | .MuPlusLambda, s | .Generational, s | .RandomReplacement, s | .Merge, s | .DiscardOffspring, s
  | .InterleavePopulations, s => some (decide (2 ≤ s.length))
  | .KeepBetterAtIndex, s => some (match s with | x :: y :: _ => x == y | _ => false)
  | .ExponentialAnnealingAcceptance, s =>          -- the kept population must be a single individual (contract)
    match s with
    | x :: y :: _ => if x == 0 || y == 0 then some false else if x == 1 && y == 1 then some true else none
    | _ => some false
  | .DuplicatePopulation, s | .ClearPopulation, s => some (decide (1 ≤ s.length))
  | .NPointCrossover, s | .UniformCrossover, s | .ArithmeticCrossover, s | .NormalMutation, s =>
    some (decide (1 ≤ s.length))
  | _, _ => none

/-! ### Trees with parameters -/

mutual
  inductive SComp where
    | leaf (k : LeafKind) (a b : Nat)
    | seq (cs : SComps)
    | loop (body : SComp)
    | branch (thn : SComp) (els : SComp)
    | scope (body : SComp)
  inductive SComps where
    | nil
    | cons (c : SComp) (cs : SComps)
end

/-- Bounded search for a loop invariant above `cur`: `plain` rounds of hulls, then rounds with widening.
The result is only a candidate; `sizeOf` checks it. -/
def findInv (f : AbsStack → Option AbsStack) : Nat → Nat → AbsStack → AbsStack
  | 0, _, cur => cur
  | n + 1, plain, cur =>
    match f cur with
    | none => cur
    | some out =>
      match stackJoin cur out with
      | none => cur
      | some nxt =>
        if nxt = cur then cur
        else findInv f n (plain - 1) (if plain = 0 then stackWiden cur nxt else nxt)

mutual
  /-- `B`: the prescribed bound, `d`: number of enclosing loops. -/
  def sizeOf (B : Itv) : Nat → SComp → AbsStack → Option AbsStack
    | _, .leaf k a b, st => sizeStep k a b st
    | d, .seq cs, st => sizesOf B d cs st
    | d, .loop body, st =>
      let inv := findInv (sizeOf B (d + 1) body) 8 3 st
      match sizeOf B (d + 1) body inv with
      | none => none
      | some out =>
        if stackLe st inv && stackLe out inv && (d != 0 || topWithin B out) then some inv else none
    | d, .branch t e, st =>
      match sizeOf B d t st, sizeOf B d e st with
      | some x, some y => stackJoin x y
      | _, _ => none
    | d, .scope body, st => sizeOf B d body st
  def sizesOf (B : Itv) : Nat → SComps → AbsStack → Option AbsStack
    | _, .nil, st => some st
    | d, .cons c cs, st =>
      match sizeOf B d c st with
      | none => none
      | some st' => sizesOf B d cs st'
end

/-- The verdict evaluated by the per-template theorems: started on the empty stack, the analysis succeeds
(every loop has a checked invariant, every component finds the populations it needs) and the current
population is within `[lo, hi]` (`hi = none`: no upper bound) at the end of every pass of every outermost
loop. -/
def sizeWithin (t : SComp) (lo : Nat) (hi : Option Nat) : Bool :=
  (sizeOf ⟨lo, hi⟩ 0 t []).isSome

/-- Diagnostic (not used by any theorem): the abstract stack at the end, with a bound that is always met. -/
def sizeFinal (t : SComp) : Option AbsStack := sizeOf ⟨0, none⟩ 0 t []

/-! ### Concrete interpreter on the sizes -/

structure SOracle where
  cond : Nat → Bool
  fails : Nat → Bool
  pick : Nat → Nat

structure SSt where
  stack : List Nat
  tick : Nat
  /-- ghost: at the end of every pass of an outermost loop so far the current population size was within the bound -/
  ok : Bool
  deriving Repr

def mark (B : Itv) (d : Nat) (s : SSt) : SSt :=
  if d = 0 then { s with ok := s.ok && topIn B s.stack } else s

/-- Concrete effect of a leaf; a leaf the analysis does not cover leaves the sizes alone (irrelevant: the
analysis answers `none` on every tree that contains one). -/
def leafStep (k : LeafKind) (a b : Nat) (c : Nat) (s : List Nat) : Option (List Nat) :=
  match opOf k a b with
  | some op => cstep op c s
  | none => some s

mutual
  def sexec (B : Itv) (o : SOracle) : Nat → Nat → SComp → SSt → Option SSt
    | 0, _, _, _ => none
    | fuel + 1, d, c, s =>
      match c with
      | .leaf k a b =>
        if o.fails s.tick then none
        else match leafStep k a b (o.pick s.tick) s.stack with
          | none => none
          | some st => some { s with stack := st, tick := s.tick + 1 }
      | .seq cs => sexecs B o fuel d cs s
      | .loop body => sloop B o fuel d body s
      | .branch t e =>
        let s' := { s with tick := s.tick + 1 }
        if o.cond s.tick then sexec B o fuel d t s' else sexec B o fuel d e s'
      | .scope body => sexec B o fuel d body s
  def sexecs (B : Itv) (o : SOracle) : Nat → Nat → SComps → SSt → Option SSt
    | 0, _, _, _ => none
    | fuel + 1, d, cs, s =>
      match cs with
      | .nil => some s
      | .cons c rest =>
        match sexec B o fuel d c s with
        | none => none
        | some s' => sexecs B o fuel d rest s'
  def sloop (B : Itv) (o : SOracle) : Nat → Nat → SComp → SSt → Option SSt
    | 0, _, _, _ => none
    | fuel + 1, d, body, s =>
      let s0 := { s with tick := s.tick + 1 }
      if o.cond s.tick then
        match sexec B o fuel (d + 1) body s0 with
        | none => none
        | some s1 => sloop B o fuel d body (mark B d s1)       -- pass boundary
      else some s0
end

/-! ### Translation from the serialised tree -/
open MahfModel Sexp

def natField (name : String) (fields : List Sexp) : Option Nat := (field? name fields).bind nat?

def boolField (name : String) (fields : List Sexp) : Option Nat :=
  match field? name fields with
  | some (.atom "true") => some 1
  | some (.atom "false") => some 0
  | _ => none

/-- The size-relevant parameters of a leaf; `none` if a parameter the analysis needs is missing
(the leaf then becomes `.opaque`). -/
def sparams (k : LeafKind) (fields : List Sexp) : Option (Nat × Nat) :=
  match k with
  | .RandomSpread | .RandomPermutation | .RandomBitstring => (natField "population_size" fields).map (·, 0)
  | .CloneSingle | .FullyRandom | .RandomWithoutRepetition | .RouletteWheel | .StochasticUniversalSampling
  | .LinearRank | .ExponentialRank => (natField "num_selected" fields).map (·, 0)
  | .Tournament =>        -- `b` = the tournament size (no effect on sizes; a guard, and part of the skeleton)
    match natField "num_selected" fields, natField "size" fields with
    | some a, some b => some (a, b)
    | _, _ => none
  | .MuPlusLambda | .RandomReplacement => (natField "max_population_size" fields).map (·, 0)
  | .DERand | .DEBest | .DECurrentToBest | .DEMutation => (natField "y" fields).map (·, 0)
  | .NPointCrossover | .UniformCrossover | .ArithmeticCrossover | .CycleCrossover =>
    (boolField "insert_both" fields).map (·, 0)
  | .DeterministicFitnessProportional =>
    match natField "min_selected" fields, natField "max_selected" fields with
    | some a, some b => some (a, b)
    | _, _ => none
  | .AcoGeneration => (natField "num_ants" fields).map (·, 0)
  | _ => some (0, 0)

def sleaf (name : String) (fields : List Sexp) : SComp :=
  let k := LeafKind.ofName name
  match sparams k fields with
  | some (a, b) => .leaf k a b
  | none => .leaf .opaque 0 0

mutual
  def SComp.ofSexp : Nat → Sexp → SComp
    | 0, _ => .leaf .opaque 0 0
    | fuel + 1, s =>
      match s with
      | .list (.atom "seq" :: xs) => .seq (SComps.ofSexps fuel xs)
      | .list (.atom "S" :: .atom "Loop" :: fields) =>
        match field? "do" fields with
        | some b => .loop (SComp.ofSexp fuel b)
        | none => .leaf .opaque 0 0
      | .list (.atom "S" :: .atom "Branch" :: fields) =>
        match field? "if_body" fields, field? "else_body" fields with
        | some t, some (.atom "none") => .branch (SComp.ofSexp fuel t) (.seq .nil)
        | some t, some (.list [.atom "some", e]) => .branch (SComp.ofSexp fuel t) (SComp.ofSexp fuel e)
        | _, _ => .leaf .opaque 0 0
      | .list (.atom "S" :: .atom "Scope" :: fields) =>
        match field? "body" fields with
        | some b => .scope (SComp.ofSexp fuel b)
        | none => .leaf .opaque 0 0
      | .list (.atom "S" :: .atom name :: fields) => sleaf name fields
      | .list (.atom "N" :: .atom name :: _) => sleaf name []
      | .list (.atom "U" :: .atom name :: _) => sleaf name []
      | .list (.atom "T" :: .atom name :: _) => sleaf name []
      | _ => .leaf .opaque 0 0
  def SComps.ofSexps : Nat → List Sexp → SComps
    | 0, _ => .cons (.leaf .opaque 0 0) .nil
    | _ + 1, [] => .nil
    | fuel + 1, x :: xs => .cons (SComp.ofSexp fuel x) (SComps.ofSexps fuel xs)
end

mutual
  /-- Lean source of a tree (for `Generated/TemplatesSized.lean`). -/
  def SComp.toLean : SComp → String
    | .leaf k a b => s!"(.leaf .{k.ctorName} {a} {b})"
    | .seq cs => s!"(.seq {SComps.toLeans cs})"
    | .loop b => s!"(.loop {SComp.toLean b})"
    | .branch t e => s!"(.branch {SComp.toLean t} {SComp.toLean e})"
    | .scope b => s!"(.scope {SComp.toLean b})"
  def SComps.toLeans : SComps → String
    | .nil => ".nil"
    | .cons c cs => s!"(.cons {SComp.toLean c} {SComps.toLeans cs})"
end

mutual
  /-- Forgetting the parameters gives the tree of `Model/Templates.lean`. -/
  def SComp.erase : SComp → Comp
    | .leaf k _ _ => .leaf k
    | .seq cs => .seq (SComps.erases cs)
    | .loop b => .loop (SComp.erase b)
    | .branch t e => .branch (SComp.erase t) (SComp.erase e)
    | .scope b => .scope (SComp.erase b)
  def SComps.erases : SComps → Comps
    | .nil => .nil
    | .cons c cs => .cons (SComp.erase c) (SComps.erases cs)
end

end MahfModel.Tpl
