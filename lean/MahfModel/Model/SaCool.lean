/-
C17 — `GeometricCooling` as a *component inside a program* (src/components/mapping/sa.rs,
`Component::execute = mapping(self, &self.lens, &self.lens, …)`: `lens.get → map → lens.assign`),
together with the control flow around it that decides how often it is executed
(src/components/control_flow.rs: `Block`, `Loop` with `LessThanN::iterations(n)`, `Scope`).

The state a cooling schedule could look at is modelled explicitly — the `Iterations` counters of the
open scopes and every `f64` cell a `ValueOf<_>` lens can point at — so that the model *says* that
the real component looks at nothing but its own cell.  Generic over the carrier (core classes only).
-/
import MahfModel.Model.Sa
namespace MahfModel.Sa

/-- Outcome of running a program. `fuel` = the interpreter's step budget ran out (never with the
budget the driver supplies; a program whose body keeps resetting `Iterations` does not terminate). -/
inductive CStatus where
  | ok | err | fuel
  deriving Repr, DecidableEq

/-- Ghost record of one execution of a cooling component: its label in the program, the cell its
lens points at, its factor, and the value it left in the cell. -/
structure CEntry (F : Type) where
  id : Nat
  cell : Nat
  alpha : F
  value : F

/-- `iters`: one entry per open scope, head = innermost; `some v` when that scope holds an
`Iterations(v)`.  `cells`: cell 0 = `Temperature`, 1.. = other `f64` custom states; `none` = that
state was never inserted.  `trace`: ghost log, newest first. -/
structure CState (F : Type) where
  iters : List (Option Nat)
  cells : List (Option F)
  trace : List (CEntry F)

/-- `try_get_value::<Iterations>()`: the nearest scope that holds one. -/
def itersGet : List (Option Nat) → Option Nat
  | [] => none
  | some v :: _ => some v
  | none :: r => itersGet r

/-- `*try_borrow_value_mut::<Iterations>()? += 1` on the nearest holder. -/
def itersBump : List (Option Nat) → Option (List (Option Nat))
  | [] => none
  | some v :: r => some (some (v + 1) :: r)
  | none :: r => (itersBump r).map (none :: ·)

/-- `state.insert(Iterations(v))`: into the innermost scope, replacing what it held. -/
def itersInsert (v : Nat) : List (Option Nat) → List (Option Nat)
  | [] => [some v]
  | _ :: r => some v :: r

/-- Programs built from cooling components and the control flow that repeats them.
`setIter v` stands for anything that (re)inserts `Iterations(v)` — a hand-prepared state, an
enclosing template. -/
inductive CProg (F : Type) where
  | cool (id cell : Nat) (alpha : F)
  | setIter (v : Nat)
  | skip
  | seq (a b : CProg F)
  | loop (n : Nat) (body : CProg F)
  | scope (body : CProg F)

section
variable {F : Type}

/-- `Component::init`, as far as the modelled state goes: `Loop::init` inserts `Iterations(0)` and
initialises its body; `Block::init` goes through the children; `GeometricCooling`, `Scope` and the
test components have the default (empty) `init`. -/
def cinit : CProg F → List (Option Nat) → List (Option Nat)
  | .loop _ body, it => cinit body (itersInsert 0 it)
  | .seq a b, it => cinit b (cinit a it)
  | _, it => it

/-- `Component::execute`.

```text
GeometricCooling:  v = lens.get(state)?;  lens.assign(v * alpha, state)?          -- nothing else
Loop:              while Iterations < n { body.execute()?; Iterations += 1 }       -- `?` on a missing Iterations
Scope:             with_inner_state(|s| { body.init(s)?; body.execute(s) })        -- inner scope dropped afterwards
``` -/
def cexec [Mul F] : Nat → CProg F → CState F → CStatus × CState F
  | 0, _, s => (.fuel, s)
  | _ + 1, .cool id c a, s =>
    match s.cells[c]? with
    | some (some v) =>
      (.ok, { s with cells := s.cells.set c (some (v * a)), trace := ⟨id, c, a, v * a⟩ :: s.trace })
    | _ => (.err, s)
  | _ + 1, .setIter v, s => (.ok, { s with iters := itersInsert v s.iters })
  | _ + 1, .skip, s => (.ok, s)
  | fuel + 1, .seq a b, s =>
    match cexec fuel a s with
    | (.ok, s') => cexec fuel b s'
    | r => r
  | fuel + 1, .loop n body, s =>
    match itersGet s.iters with
    | none => (.err, s)
    | some i =>
      if i < n then
        match cexec fuel body s with
        | (.ok, s') =>
          match itersBump s'.iters with
          | some it => cexec fuel (.loop n body) { s' with iters := it }
          | none => (.err, s')
        | r => r
      else (.ok, s)
  | fuel + 1, .scope body, s =>
    match cexec fuel body { s with iters := cinit body (none :: s.iters) } with
    | (st, s') => (st, { s' with iters := s'.iters.tail })

/-- A straight-line block of cooling components `(label, cell, factor)`. -/
def blockOf : List (Nat × Nat × F) → CProg F
  | [] => .skip
  | (id, c, a) :: r => .seq (.cool id c a) (blockOf r)

/-- All cooling components of a program: label ↦ (cell, factor). -/
def coolsOf : CProg F → List (Nat × Nat × F)
  | .cool id c a => [(id, c, a)]
  | .seq a b => coolsOf a ++ coolsOf b
  | .loop _ b => coolsOf b
  | .scope b => coolsOf b
  | _ => []

end
end MahfModel.Sa
