/-
C02 — dynamic borrows on top of `Model/Registry.lean`:
* the client's live `Ref` / `RefMut` objects as ghost guards next to the registry (whose cells carry the
  real `RefCell` flags), and the machine of requests a client can issue through `&State` while guards live;
* the two `State` helpers `with_inner_state` and `holding` (src/state/mod.rs) as statements with bodies;
* the abstract specification: a stack of partial maps plus the set of live guards, granting by the
  many-readers-xor-one-writer rule, and `holding` putting the value back into the scope it came from.
-/
import MahfModel.Model.Registry
namespace MahfModel.Borrow
open MahfModel.Registry

/-! ### `State::with_inner_state`, `State::holding` -/

/-- `Marker<T>` -/
def markerOf (k : Key) : Key := .marker k

mutual
  /-- What a closure body (or a client holding `&mut State`) does. -/
  inductive Stmt where
    | op (o : ROp)
    /-- `state.holding::<T>(|t, state| { t.0 += d; body; ok? })` -/
    | hold (k : Key) (d : Nat) (ok : Bool) (body : Prog)
    /-- `state.with_inner_state(|state| { body; ok? })` -/
    | inner (ok : Bool) (body : Prog)
  inductive Prog where
    | nil
    | cons (s : Stmt) (rest : Prog)
end

/-- What the closure returns: `Ok(())` or `Err(..)` (`ExecResult`). -/
def resOut (ok : Bool) : Out := if ok then .ok else .err .exec

mutual
  def execStmt (r : Reg) : Stmt → Reg × List Out
    | .op o => let (r', out) := step r o; (r', [out])
    | .hold k d ok body =>
      -- let registry_with_t = self.find_mut::<T>()?;
      match find r k with
      | none => (r, [.err .notFound])
      | some i =>
        match cellAt r i k with
        | none => (r, [.err .notFound])
        | some c =>
          -- registry_with_t.insert(Marker::<T>(PhantomData));
          let r1 := modifyAt r i (·.put (markerOf k) (fresh 0))
          -- let mut t = registry_with_t.remove::<T>()?;   (`registry_with_t`'s own map holds `T`)
          let r2 := modifyAt r1 i (·.erase k)
          -- let result = f(&mut t, self);
          let (r3, outs) := execProg r2 body
          -- let state_with_t = self.find_mut::<Marker<T>>()?;
          match find r3 (markerOf k) with
          | none => (r3, outs ++ [.err .notFound])          -- `t` is dropped
          | some j =>
            -- state_with_t.insert(t); state_with_t.remove::<Marker<T>>()?;
            let r4 := modifyAt r3 j (·.put k (fresh (c.val + d)))
            let r5 := modifyAt r4 j (·.erase (markerOf k))
            (r5, outs ++ [resOut ok])
    | .inner ok body =>
      -- let registry = take(&mut self.registry); let mut state = registry.into_child().into();
      let r1 := intoChild r
      -- let result = f(&mut state);
      let (r2, outs) := execProg r1 body
      -- let (registry, child) = StateRegistry::from(state).into_parent(); self.registry = registry.unwrap();
      match intoParent r2 with
      | (some p, child) =>
        -- result?; Ok(child.into())
        (p, outs ++ [if ok then .popped child.view else .err .exec])
      | (none, _) => (new, outs ++ [.panic])       -- `unwrap()` on `None`; `self.registry` stays `Default`
  def execProg (r : Reg) : Prog → Reg × List Out
    | .nil => (r, [])
    | .cons s rest =>
      let (r', o) := execStmt r s
      let (r'', os) := execProg r' rest
      (r'', o ++ os)
end

/-! ### Guards -/

/-- A live `Ref<T>` (`excl = false`) or `RefMut<T>` (`excl = true`) held by the client; `idx`: which registry
of the chain (distance from the current one) owns the cell. -/
structure Guard where
  id : Nat
  idx : Nat
  key : Key
  excl : Bool
  deriving DecidableEq, Repr

structure M where
  reg : Reg
  guards : List Guard
  next : Nat

def M.init : M := { reg := new, guards := [], next := 0 }

inductive MOp where
  | bor (k : Key) | borMut (k : Key)          -- try_borrow / try_borrow_mut, guard kept
  | borP (k : Key) | borMutP (k : Key)        -- borrow / borrow_mut (panicking)
  | parBor (d : Nat) (k : Key) | parBorMut (d : Nat) (k : Key)   -- parent()^d . try_borrow(_mut)
  | drop (g : Nat) | rd (g : Nat) | wr (g : Nat) (v : Nat)
  | sh (o : ROp)                              -- a `&self` method, legal while guards are alive
  | ex (s : Stmt)                             -- needs `&mut State`: compiles only when no guard is alive
  | locks

/-- The `&self` methods among the registry operations. -/
def ROp.isShared : ROp → Bool
  | .hasTop _ | .has _ | .find _ | .get _ | .tryGet _ | .set _ _ | .parGet _ _ | .req _ | .dump => true
  | _ => false

def findGuard (gs : List Guard) (id : Nat) : Option Guard := gs.find? (fun g => g.id == id)
def dropGuard (gs : List Guard) (id : Nat) : List Guard := gs.filter (fun g => g.id != id)

/-- `parent()^d` then `try_borrow` / `try_borrow_mut`; the cell index is reported relative to the current
registry. `none` = no such parent. -/
def borrowAt (r : Reg) (d : Nat) (k : Key) (excl : Bool) : Option (Except Err (Reg × Nat)) :=
  match parentN r d with
  | none => none
  | some p =>
    match (if excl then tryBorrowMut p k else tryBorrow p k) with
    | .error e => some (.error e)
    | .ok (p', i) => some (.ok (r.take d ++ p', d + i))

def lockOf (c : Cell) : Lock := if c.writer then .excl else if c.readers != 0 then .shared else .free

def Scope.lockView (s : Scope) : Key → Option (Nat × Lock) := fun k => (s.get? k).map fun c => (c.val, lockOf c)

def grant (m : M) (r' : Reg) (i : Nat) (k : Key) (excl : Bool) : M × List Out :=
  ({ reg := r', guards := ⟨m.next, i, k, excl⟩ :: m.guards, next := m.next + 1 }, [.guard m.next])

def mstep (m : M) : MOp → M × List Out
  | .bor k =>
    match tryBorrow m.reg k with
    | .error e => (m, [.err e])
    | .ok (r', i) => grant m r' i k false
  | .borMut k =>
    match tryBorrowMut m.reg k with
    | .error e => (m, [.err e])
    | .ok (r', i) => grant m r' i k true
  | .borP k =>
    match tryBorrow m.reg k with
    | .error _ => (m, [.panic])
    | .ok (r', i) => grant m r' i k false
  | .borMutP k =>
    match tryBorrowMut m.reg k with
    | .error _ => (m, [.panic])
    | .ok (r', i) => grant m r' i k true
  | .parBor d k =>
    match borrowAt m.reg d k false with
    | none => (m, [.noParent])
    | some (.error e) => (m, [.err e])
    | some (.ok (r', i)) => grant m r' i k false
  | .parBorMut d k =>
    match borrowAt m.reg d k true with
    | none => (m, [.noParent])
    | some (.error e) => (m, [.err e])
    | some (.ok (r', i)) => grant m r' i k true
  | .drop g =>
    match findGuard m.guards g with
    | none => (m, [.invalid])
    | some gd => ({ m with reg := releaseAt m.reg gd.idx gd.key gd.excl, guards := dropGuard m.guards g }, [.ok])
  | .rd g =>
    match findGuard m.guards g with
    | none => (m, [.invalid])
    | some gd => (m, [match cellAt m.reg gd.idx gd.key with | some c => .val c.val | none => .invalid])
  | .wr g v =>
    match findGuard m.guards g with
    | none => (m, [.invalid])
    | some gd =>
      if gd.excl then ({ m with reg := writeAt m.reg gd.idx gd.key (fun _ => v) }, [.ok]) else (m, [.invalid])
  | .sh o =>
    if ROp.isShared o then let (r', out) := step m.reg o; ({ m with reg := r' }, [out]) else (m, [.illegal])
  | .ex s =>
    if m.guards.isEmpty then let (r', outs) := execStmt m.reg s; ({ m with reg := r' }, outs)
    else (m, [.illegal])
  | .locks => (m, [.locks (m.reg.map Scope.lockView)])

def mrun (m : M) : List MOp → M × List Out
  | [] => (m, [])
  | op :: ops =>
    let (m', o) := mstep m op
    let (m'', os) := mrun m' ops
    (m'', o ++ os)

/-! ### Abstract specification -/

mutual
  def specExecStmt (sp : Spec) : Stmt → Spec × List Out
    | .op o => let (sp', out) := specStep sp o; (sp', [out])
    | .hold k d ok body =>
      match sp.depthOf k, sp.lookup k with
      | some i, some v =>
        -- the scope the value is taken from, counted from the outermost one
        let lvl := sp.length - 1 - i
        let (sp2, outs) := specExecProg (modifyAt sp i (fun m : PMap => m.set k none)) body
        (modifyAt sp2 (sp2.length - 1 - lvl) (fun m : PMap => m.set k (some (v + d))), outs ++ [resOut ok])
      | _, _ => (sp, [.err .notFound])
    | .inner ok body =>
      let (sp2, outs) := specExecProg (PMap.empty :: sp) body
      match sp2 with
      | m :: m' :: p => (m' :: p, outs ++ [if ok then .popped m else .err .exec])
      | _ => ([PMap.empty], outs ++ [.panic])
  def specExecProg (sp : Spec) : Prog → Spec × List Out
    | .nil => (sp, [])
    | .cons s rest =>
      let (sp', o) := specExecStmt sp s
      let (sp'', os) := specExecProg sp' rest
      (sp'', o ++ os)
end

structure SM where
  sp : Spec
  guards : List Guard
  next : Nat

def SM.init : SM := { sp := [PMap.empty], guards := [], next := 0 }

/-- The live guards on the cell `(i, k)`. -/
def guardsOn (gs : List Guard) (i : Nat) (k : Key) : List Guard := gs.filter (fun g => g.idx == i && g.key == k)

/-- Many readers xor one writer. -/
def mayGrant (gs : List Guard) (i : Nat) (k : Key) (excl : Bool) : Bool :=
  if excl then (guardsOn gs i k).isEmpty else !(guardsOn gs i k).any (·.excl)

def sgrant (m : SM) (i : Nat) (k : Key) (excl : Bool) : SM × List Out :=
  ({ m with guards := ⟨m.next, i, k, excl⟩ :: m.guards, next := m.next + 1 }, [.guard m.next])

/-- A borrow request `d` scopes up. -/
def sborrow (m : SM) (d : Nat) (k : Key) (excl : Bool) (onErr : Err → Out) : SM × List Out :=
  match Spec.depthOf (m.sp.drop d) k with
  | none => (m, [onErr .notFound])
  | some i =>
    if mayGrant m.guards (d + i) k excl then sgrant m (d + i) k excl
    else (m, [onErr (if excl then .conflictMut else .conflictImm)])

def lockSpec (gs : List Guard) (i : Nat) (k : Key) : Lock :=
  if (guardsOn gs i k).any (·.excl) then .excl else if (guardsOn gs i k).isEmpty then .free else .shared

def lockViews (gs : List Guard) : Nat → Spec → List (Key → Option (Nat × Lock))
  | _, [] => []
  | i, m :: p => (fun k => (m k).map fun v => (v, lockSpec gs i k)) :: lockViews gs (i + 1) p

/-- A `&self` registry method next to live guards. -/
def sshared (m : SM) : ROp → SM × List Out
  | .get k =>
    match m.sp.depthOf k, m.sp.lookup k with
    | some i, some v => (m, [if mayGrant m.guards i k false then .val v else .panic])
    | _, _ => (m, [.panic])
  | .tryGet k =>
    match m.sp.depthOf k, m.sp.lookup k with
    | some i, some v => (m, [if mayGrant m.guards i k false then .val v else .err .conflictImm])
    | _, _ => (m, [.err .notFound])
  | .parGet d k =>
    if d < m.sp.length then
      match Spec.depthOf (m.sp.drop d) k, Spec.lookup (m.sp.drop d) k with
      | some i, some v => (m, [if mayGrant m.guards (d + i) k false then .val v else .err .conflictImm])
      | _, _ => (m, [.err .notFound])
    else (m, [.noParent])
  | .set k v =>
    match m.sp.depthOf k, m.sp.lookup k with
    | some i, some old =>
      if mayGrant m.guards i k true then ({ m with sp := m.sp.updFirst k (some v) }, [.val old]) else (m, [.none])
    | _, _ => (m, [.none])
  | o => let (sp', out) := specStep m.sp o; ({ m with sp := sp' }, [out])

def sstep (m : SM) : MOp → SM × List Out
  | .bor k => sborrow m 0 k false .err
  | .borMut k => sborrow m 0 k true .err
  | .borP k => sborrow m 0 k false (fun _ => .panic)
  | .borMutP k => sborrow m 0 k true (fun _ => .panic)
  | .parBor d k => if d < m.sp.length then sborrow m d k false .err else (m, [.noParent])
  | .parBorMut d k => if d < m.sp.length then sborrow m d k true .err else (m, [.noParent])
  | .drop g =>
    match findGuard m.guards g with
    | none => (m, [.invalid])
    | some _ => ({ m with guards := dropGuard m.guards g }, [.ok])
  | .rd g =>
    match findGuard m.guards g with
    | none => (m, [.invalid])
    | some gd => (m, [match (m.sp.getD gd.idx PMap.empty) gd.key with | some v => .val v | none => .invalid])
  | .wr g v =>
    match findGuard m.guards g with
    | none => (m, [.invalid])
    | some gd =>
      if gd.excl then ({ m with sp := modifyAt m.sp gd.idx (fun mp : PMap => mp.set gd.key (some v)) }, [.ok])
      else (m, [.invalid])
  | .sh o => if ROp.isShared o then sshared m o else (m, [.illegal])
  | .ex s =>
    if m.guards.isEmpty then let (sp', outs) := specExecStmt m.sp s; ({ m with sp := sp' }, outs)
    else (m, [.illegal])
  | .locks => (m, [.locks (lockViews m.guards 0 m.sp)])

def srun (m : SM) : List MOp → SM × List Out
  | [] => (m, [])
  | op :: ops =>
    let (m', o) := sstep m op
    let (m'', os) := srun m' ops
    (m'', o ++ os)

/-! ### Wire format -/
open MahfModel Sexp

def okFlag? : Sexp → Option Bool
  | .atom "ok" => some true
  | .atom "err" => some false
  | _ => none

/-- Statements nest; parsing goes by fuel (the nesting depth of a line is far below it). -/
def Stmt.parseF : Nat → Sexp → Option Stmt
  | 0, _ => none
  | fuel + 1, s =>
    match s with
    | .list (.atom "hold" :: k :: d :: ok :: body) => do
      let ss ← body.mapM (Stmt.parseF fuel)
      pure (.hold (← key? k) (← nat? d) (← okFlag? ok) (ss.foldr Prog.cons Prog.nil))
    | .list (.atom "inner" :: ok :: body) => do
      let ss ← body.mapM (Stmt.parseF fuel)
      pure (.inner (← okFlag? ok) (ss.foldr Prog.cons Prog.nil))
    | s => (ROp.parse? s).map Stmt.op

def MOp.parse? : Sexp → Option MOp
  | .list [.atom "bor", k] => (key? k).map .bor
  | .list [.atom "bormut", k] => (key? k).map .borMut
  | .list [.atom "borp", k] => (key? k).map .borP
  | .list [.atom "bormutp", k] => (key? k).map .borMutP
  | .list [.atom "parbor", d, k] => do pure (.parBor (← nat? d) (← key? k))
  | .list [.atom "parbormut", d, k] => do pure (.parBorMut (← nat? d) (← key? k))
  -- guards handed out by `try_borrow_value`, `try_borrow_value_mut`, `borrow_value`, `borrow_value_mut`
  -- (`Ref<T::Target>` / `RefMut<T::Target>` mapped from the guard of `try_borrow` / `try_borrow_mut`): the same
  -- transitions on the same cell as the plain accessors
  | .list [.atom "borv", k] => (key? k).map .bor
  | .list [.atom "borvmut", k] => (key? k).map .borMut
  | .list [.atom "borvp", k] => (key? k).map .borP
  | .list [.atom "borvmutp", k] => (key? k).map .borMutP
  | .list [.atom "parborv", d, k] => do pure (.parBor (← nat? d) (← key? k))
  | .list [.atom "parborvmut", d, k] => do pure (.parBorMut (← nat? d) (← key? k))
  | .list [.atom "drop", g] => (nat? g).map .drop
  | .list [.atom "rd", g] => (nat? g).map .rd
  | .list [.atom "wr", g, v] => do pure (.wr (← nat? g) (← nat? v))
  | .list [.atom "sh", o] => (ROp.parse? o).map .sh
  | .list [.atom "ex", s] => (Stmt.parseF 64 s).map .ex
  | .list [.atom "locks"] => some .locks
  | _ => none

/-- Input `(mops mop*)`; output `(outs out*)`. Returns (model, spec). -/
def handleCase (input : Sexp) : Option (Sexp × Sexp) := do
  let opsS ← tagged? "mops" input
  let ops ← opsS.mapM MOp.parse?
  let (_, outs) := mrun M.init ops
  let (_, outsSpec) := srun SM.init ops
  pure (.list (.atom "outs" :: outs.map (Out.toSexp nTypes)),
        .list (.atom "outs" :: outsSpec.map (Out.toSexp nTypes)))

mutual
  /-- No `holding` inside (C01 histories: registry operations and `with_inner_state` scopes). -/
  def Stmt.holdFree : Stmt → Prop
    | .op _ => True
    | .hold _ _ _ _ => False
    | .inner _ body => Prog.holdFree body
  def Prog.holdFree : Prog → Prop
    | .nil => True
    | .cons s rest => Stmt.holdFree s ∧ Prog.holdFree rest
end

/-- C01 histories: input `(ops stmt*)`, `stmt := rop | (inner ok|err stmt*)`; output `(outs out*)`.
Returns (model, spec). -/
def handleHistory (input : Sexp) : Option (Sexp × Sexp) := do
  let opsS ← tagged? "ops" input
  let ss ← opsS.mapM (Stmt.parseF 64)
  let prog := ss.foldr Prog.cons Prog.nil
  let (_, outs) := execProg new prog
  let (_, outsSpec) := specExecProg [PMap.empty] prog
  pure (.list (.atom "outs" :: outs.map (Out.toSexp nTypes)),
        .list (.atom "outs" :: outsSpec.map (Out.toSexp nTypes)))

/-- Step O as an executable predicate on a history: the code-shaped machine answers what the abstract
machine (many readers xor one writer; `holding` restores into the scope it took from) answers. -/
def holdsOn (ops : List MOp) : Bool :=
  ((mrun M.init ops).2.map fun o => (o.toSexp nTypes).render) ==
    ((srun SM.init ops).2.map fun o => (o.toSexp nTypes).render)

end MahfModel.Borrow
