/-
C15 — SEQUENCES of runs on ONE caller-owned `State`, with and without failures in between.

`Configuration::run(problem, &mut state)` = `init` + `require` + `execute` on the state the caller
hands in; the documented way of using an own `State` is to call it again on the same state (another
configuration, or the same one after a fault has been dealt with). What the state carries from one
run to the next: the `Log`, the `LogConfig` (with the internal state of its triggers — a scripted
trigger goes on in its script), custom states (`X`), and the loop counter of the last run unless the
next run's `Loop::init` resets it.

The interpreter of `Model/Log.lean` (`exec`) returns `Except Fail St`: a failing run has no state.
Here every execution returns the state it LEAVES BEHIND together with the failure, if any:

* a trigger that returns `Err` aborts the logger execution: nothing is appended, the triggers in front
  of it (and itself) have been evaluated once, the `LogConfig` is back in the state — `State::holding`
  re-inserts the held value whatever the closure returned;
* `Scope` (`State::with_inner_state`) puts the parent registry back and drops the child, also on `Err`;
* `Loop` leaves the counter where it was when the body failed.

After a panic nothing is specified (the held value is lost by unwinding): a sequence ends there.
-/
import MahfModel.Model.Log
namespace MahfModel.Log
open MahfModel Sexp

/-- `Logger::execute`, total in the state: on a failing trigger the step is discarded, the `LogConfig`
(with the triggers evaluated so far advanced) is put back by `State::holding`. -/
def doLogR (s : St) : St × Option Fail :=
  match s.rules with
  | none => (s, none)
  | some rs =>
    let q := evalRules s.env rs []
    match q.1 with
    | .error e => ({ s with rules := some q.2 }, some e)
    | .ok step =>
      let tr := s.trace ++ [(resolve s.env rs, getIters s.env)]
      if step.isEmpty then ({ s with rules := some q.2, trace := tr }, none)
      else ({ s with rules := some q.2, log := s.log ++ [pushIteration iterName (getIters s.env) step], trace := tr }, none)

mutual
  def execR : Nat → Node → St → St × Option Fail
    | 0, _, s => (s, some .timeout)
    | _ + 1, .log, s => doLogR s
    | _ + 1, .setx v, s => ({ s with env := setX v s.env }, none)
    | _ + 1, .addx k, s => ({ s with env := addX k s.env }, none)
    | f + 1, .loop n body, s => loopGoR f n body s
    | f + 1, .scope body, s =>
      -- `with_inner_state`: the parent registry is restored before the result is looked at
      let r := execsR f body { s with env := { iters := if body.hasLoop then some 0 else none, x := none } :: s.env }
      ({ r.1 with env := r.1.env.tail }, r.2)
    | f + 1, .ifx k body, s =>
      match getX s.env with
      | some v => if k ≤ v then execsR f body s else (s, none)
      | none => (s, none)
  def execsR : Nat → Nodes → St → St × Option Fail
    | 0, _, s => (s, some .timeout)
    | _ + 1, .nil, s => (s, none)
    | f + 1, .cons t ts, s =>
      match execR f t s with
      | (s', none) => execsR f ts s'
      | (s', some e) => (s', some e)
  def loopGoR : Nat → Nat → Nodes → St → St × Option Fail
    | 0, _, _, s => (s, some .timeout)
    | f + 1, n, body, s =>
      match getIters s.env with
      | none => (s, some .err)
      | some it =>
        if it < n then
          match execsR f body s with
          | (s', some e) => (s', some e)
          | (s', none) =>
            match incIters s'.env with
            | none => (s', some .err)
            | some env' => loopGoR f n body { s' with env := env' }
        else (s, none)
end

mutual
  /-- Does `init` reach a `Logger` (it does not descend into a `Scope`)? -/
  def Node.hasLog : Node → Bool
    | .log => true
    | .loop _ b => b.hasLog
    | .ifx _ b => b.hasLog
    | _ => false
  def Nodes.hasLog : Nodes → Bool
    | .nil => false
    | .cons t ts => t.hasLog || ts.hasLog
end

/-- `ChangeOf::init`: `state.insert(Previous::<L>::default())`. -/
def TrigSpec.reinit : TrigSpec → TrigSpec
  | .changed _ => .changed none
  | .neg t => .neg t.reinit
  | t => t

/-- The `init` phase of `Configuration::run` on a state that may have been used before: a reachable
`Loop` inserts `Iterations(0)` into the current registry (otherwise the counter of the previous run
stays), a reachable `Logger` initialises every trigger of the `LogConfig` if there is one. Nothing
else is touched: log, rules, scripted triggers and `X` carry over. -/
def initRun (prog : Nodes) (s : St) : St :=
  let env := match s.env with
    | [] => [{ iters := if prog.hasLoop then some 0 else none, x := none }]
    | l :: ls => { l with iters := if prog.hasLoop then some 0 else l.iters } :: ls
  let rules := if prog.hasLog then s.rules.map (·.map fun r => { r with trig := r.trig.reinit }) else s.rules
  { s with env := env, rules := rules }

/-- `Configuration::run(problem, &mut state)`. -/
def runOn (fuel : Nat) (prog : Nodes) (s : St) : St × Option Fail := execsR fuel prog (initRun prog s)

/-- Runs on one state, one after the other whatever the earlier ones returned (`Ok` or `Err`); the
sequence ends at a panic / exhausted fuel. Result: the final state and the outcome of every run made. -/
def runSeq (fuel : Nat) : List Nodes → St → St × List (Option Fail)
  | [], s => (s, [])
  | p :: ps, s =>
    match runOn fuel p s with
    | (s', some .panic) => (s', [some .panic])
    | (s', some .timeout) => (s', [some .timeout])
    | (s', o) => let r := runSeq fuel ps s'; (r.1, o :: r.2)

/-- The state `Configuration::optimize_with` hands to `run`: `Log`, the configured rules, nothing else. -/
def freshState (rules : Option (List RuleSt)) : St :=
  { env := [{ iters := none, x := none }], rules := rules, log := [], trace := [] }

/-! ### What the theorems exclude: a `holding` that does not put the value back on `Err` -/

/-- `Logger::execute` over a `State::holding` that returns early on `Err`: the `LogConfig` is gone. -/
def doLogDrop (s : St) : St × Option Fail :=
  match doLogR s with
  | (s', some .err) => ({ s' with rules := none }, some .err)
  | r => r

/-! ### Wire format: site `logger-runs*`, input `(lgs RULES (runs (run N*)…))` -/

def outcomeSexp : Option Fail → Sexp
  | none => .atom "ok"
  | some f => failSexp f

/-- Only the root registry exists between runs; a `changed` trigger needs the per-trigger view to be
exact in every run. -/
def changedOkRuns (rules : Option (List RuleSt)) (progs : List Nodes) : Bool :=
  progs.all fun p => changedOk rules p

def handleRuns (input implOut : Sexp) : Option CaseResult := do
  match input with
  | .list [.atom "lgs", rulesS, runsS] =>
    let rules ← (match rulesS with
      | .atom "noconfig" => some none
      | _ => do let rs ← parseRules (← tagged? "rules" rulesS) []; pure (some rs))
    let progs ← (← tagged? "runs" runsS).mapM fun r => do Nodes.parseList? (← tagged? "run" r)
    if !changedOkRuns rules progs then none else
    let r := runSeq 100000 progs (freshState rules)
    if r.2.any (· == some .timeout) then none else
    if r.2.any (· == some .panic) then
      -- a (scripted) trigger panicked: the panic propagates, nothing else is demanded
      let model := Sexp.list [.atom "res", .atom "panic"]
      let holds := Sexp.beq model implOut
      pure { model, holds, cls := if holds then "-" else "wrong-value" }
    else
      let outs := Sexp.list (.atom "outs" :: r.2.map outcomeSexp)
      let log := r.1.log.map mapVal
      let c := compress log
      let model := Sexp.list [.atom "res", outs, .list (.atom "raw" :: log.map stepSexp), clogSexp "json" c, clogSexp "cbor" c]
      -- the property: every run reports its own outcome, and the log is one step per completed logger
      -- execution of ANY of the runs in which a trigger fired, in execution order
      let want := (r.1.trace.filterMap fun e => specStepO iterName e.1 e.2).map mapVal
      match implOut with
      | .list [.atom "res", iouts, raw, js, cb] =>
        let outsOk := Sexp.beq iouts outs
        let logOk := exportsMatch want (.list [.atom "res", .atom "ok", raw, js, cb])
        let holds := outsOk && logOk
        let cls := if holds then "-" else if !outsOk then "run-outcome" else
          (match (tagged? "raw" raw) with
           | some steps => if steps.length < want.length then "steps-missing" else "wrong-value"
           | none => "wrong-value")
        pure { model, holds, cls }
      | .list [.atom "res", .atom "panic"] => pure { model, holds := false, cls := "panic" }
      | _ => pure { model, holds := false, cls := "wrong-value" }
  | _ => none

/-- Canonical form of a `logger-runs*` output for K: steps as name → value maps, exports decoded. -/
def canonRuns : Sexp → Sexp
  | .list [.atom "res", .list (.atom "outs" :: os), raw, js, cb] =>
    .list [.atom "res", .list (.atom "outs" :: os), canonRaw raw, canonCLog "json" js, canonCLog "cbor" cb]
  | other => other

end MahfModel.Log
