/-
C13 — the adaptable parameters of the mutation components IN THE STATE, across whole configurations:
  * `MutationStrength<T>` / `MutationRate<T>` (src/components/mutation/mod.rs:59-101), `T` = component type
    incl. its identifier (`NormalMutation<I>`, `UniformMutation<I>`, `BitFlipMutation<I>`,
    `PartialRandomSpread<I>`, `ScrambleMutation<I>`, `PartialRandomBitstring<I>`);
  * the `State` as a stack of registries (src/state/registry/mod.rs: `insert` writes the TOP-MOST registry
    and shadows, `get_value` / `borrow` read the first registry that contains the type, `into_child` /
    `into_parent` push / pop);
  * `Component::init` of the six components (`state.insert(..)` of the component's own values),
    `Block::init` / `Block::execute`, `Loop` (init once, body executed `n` times),
    `Branch` (`if_` / `if_else_`: `init` initialises the condition, the if body AND the else body at the level of
    the enclosing block; `execute` runs the body the condition selects),
    `Scope::execute` (`with_inner_state`: push, `body.init`, `body.execute`, pop — also when the body fails),
    `Configuration::run` (init, then execute) — several runs on ONE state.

Code-shaped and executable; the driver runs it on `Float`, the theorems quantify over every chain of
registries (whatever earlier runs, enclosing scopes or other instances left there).
-/
import MahfModel.Model.Variation
namespace MahfModel.Variation

/-- The six components that keep adaptable parameters in the state. -/
inductive PKind where
  | normal | uniform | bitflip | spread | scramble | bits
  deriving Repr, DecidableEq

/-- `NormalMutation` and `UniformMutation` also store a `MutationStrength`. -/
def PKind.hasStrength : PKind → Bool
  | .normal | .uniform => true
  | _ => false

/-- The type id of a parameter state: `MutationRate<Kind<Ident>>` (`isRate`) or `MutationStrength<Kind<Ident>>`. -/
structure PKey where
  kind : PKind
  ident : Nat
  isRate : Bool
  deriving Repr, DecidableEq

/-- One registry: the parameter states it holds. -/
abbrev PReg (F : Type) := List (PKey × Param F)

/-- The registry stack of a `State`: the top-most (innermost) registry and its parents, nearest first. -/
structure PChain (F : Type) where
  top : PReg F
  below : List (PReg F)

section Registry
variable {F : Type}

def regGet (r : PReg F) (k : PKey) : Option (Param F) := (r.find? (fun e => e.1 == k)).map (·.2)

/-- `HashMap::insert`: the old entry of the key is replaced. -/
def regPut (r : PReg F) (k : PKey) (v : Param F) : PReg F := (k, v) :: r.filter (fun e => e.1 != k)

/-- `find`: the first registry (innermost first) that contains the key. -/
def regsGet : List (PReg F) → PKey → Option (Param F)
  | [], _ => none
  | r :: rest, k =>
    match regGet r k with
    | some v => some v
    | none => regsGet rest k

/-- `get_value` / `borrow`. -/
def PChain.get (ch : PChain F) (k : PKey) : Option (Param F) := regsGet (ch.top :: ch.below) k

/-- `insert`: always into the top-most registry (shadowing whatever the parents hold). -/
def PChain.insert (ch : PChain F) (k : PKey) (v : Param F) : PChain F := ⟨regPut ch.top k v, ch.below⟩

/-- `into_child`. -/
def PChain.push (ch : PChain F) : PChain F := ⟨[], ch.top :: ch.below⟩

/-- `into_parent` (the child registry is dropped; a chain without parent does not occur after `push`). -/
def PChain.pop (ch : PChain F) : PChain F :=
  match ch.below with
  | p :: ps => ⟨p, ps⟩
  | [] => ch
end Registry

/-- One component instance: type, identifier and the constructor's values (`strength` = `std_dev` / `bound`;
for the components without a strength state it is whatever else the instance keeps in `self`, e.g. `p`). -/
structure PComp (F : Type) where
  kind : PKind
  ident : Nat
  strength : Param F
  rate : Param F

section Comp
variable {F : Type}

def PComp.rateKey (c : PComp F) : PKey := ⟨c.kind, c.ident, true⟩
def PComp.strengthKey (c : PComp F) : PKey := ⟨c.kind, c.ident, false⟩

/-- The parameters the instance was constructed with. -/
def PComp.own (c : PComp F) : MutParams F := ⟨c.strength, c.rate⟩

/-- `Component::init`: `state.insert(MutationStrength::<Self>::new(..))` (Normal / Uniform only), then
`state.insert(MutationRate::<Self>::new(self.rm))`. -/
def compInit (c : PComp F) (ch : PChain F) : PChain F :=
  let ch := if c.kind.hasStrength then ch.insert c.strengthKey c.strength else ch
  ch.insert c.rateKey c.rate

/-- What `execute` reads: `MutationStrength<Self>` (Normal / Uniform) and `MutationRate<Self>` from the
state; `none` = a state is missing (`get_value` / `borrow` panic). -/
def compSeen (c : PComp F) (ch : PChain F) : Option (MutParams F) :=
  match (if c.kind.hasStrength then ch.get c.strengthKey else some c.strength), ch.get c.rateKey with
  | some s, some r => some ⟨s, r⟩
  | _, _ => none
end Comp

section Exec
variable {F : Type} [LE F] [DecidableLE F] [OfNat F 0] [OfNat F 1] [OfNat F 2]

/-- The guards of `execute` of each kind on the parameters it read. -/
def kindExec {β : Type} (k : PKind) (p : MutParams F) (result : β) : Outcome β :=
  match k with
  | .normal => normalExec p.strength p.rate result
  | .uniform => uniformExec p.strength p.rate result
  | _ => rateExec p.rate result

/-- `execute` of one instance on a state, as a function of the witness (masks, replacement values). -/
def compRun {α : Type} (c : PComp F) (ch : PChain F) (masks : List (List Bool)) (vals pop : List (List α)) :
    Outcome (List (List α)) :=
  match compSeen c ch with
  | none => .panic
  | some p => kindExec c.kind p (gatedPop masks vals pop)
end Exec

/-! ## Configurations -/

/-- The children of a `Block`, in order (`done` = end of the block): a mutation component, a `Scope`
around a block, a `Loop` (`while iterations < n`) around a block, a `Branch` (`cond` = what its condition
evaluates to; a `Branch` without else body is one whose else body is the empty block: nothing to initialise,
nothing to execute). -/
inductive Cfg (F : Type) where
  | done
  | leaf (c : PComp F) (rest : Cfg F)
  | scope (body : Cfg F) (rest : Cfg F)
  | loop (n : Nat) (body : Cfg F) (rest : Cfg F)
  | branch (cond : Bool) (thenB elseB : Cfg F) (rest : Cfg F)

/-- One execution of a mutation component: the instance, what it read from the state, how its guards answered. -/
structure Obs (F : Type) where
  comp : PComp F
  seen : Option (MutParams F)
  out : Outcome Unit

/-- A run in progress: the registry stack, the executions so far (oldest first), and whether no component
has failed yet (`Err` / panic abort the whole run). -/
structure RunSt (F : Type) where
  chain : PChain F
  trace : List (Obs F)
  live : Bool

def iterate {σ : Type} (f : σ → σ) : Nat → σ → σ
  | 0, s => s
  | n + 1, s => iterate f n (f s)

section Run
variable {F : Type}

/-- `Block::init`: every child in order; `Scope` has no `init` (its body is initialised when it executes),
`Loop::init` initialises its body, `Branch::init` initialises the if body and then the else body (both, whatever
the condition will say). -/
def Cfg.init : Cfg F → PChain F → PChain F
  | .done, ch => ch
  | .leaf c rest, ch => rest.init (compInit c ch)
  | .scope _ rest, ch => rest.init ch
  | .loop _ body rest, ch => rest.init (body.init ch)
  | .branch _ tb eb rest, ch => rest.init (eb.init (tb.init ch))

variable [LE F] [DecidableLE F] [OfNat F 0] [OfNat F 1] [OfNat F 2]

/-- `execute` of a mutation component inside a run. -/
def execLeaf (c : PComp F) (st : RunSt F) : RunSt F :=
  if !st.live then st
  else
    match compSeen c st.chain with
    | none => { st with trace := st.trace ++ [⟨c, none, .panic⟩], live := false }
    | some p =>
      let o : Outcome Unit := kindExec c.kind p ()
      { st with trace := st.trace ++ [⟨c, some p, o⟩], live := (match o with | .ok _ => true | _ => false) }

/-- `Block::execute`. A `Scope` pushes a registry, initialises and executes its body there and pops the
registry again (`with_inner_state` restores the parent also when the body failed). -/
def Cfg.exec : Cfg F → RunSt F → RunSt F
  | .done, st => st
  | .leaf c rest, st => rest.exec (execLeaf c st)
  | .scope body rest, st =>
    if !st.live then st
    else
      let inner := body.exec { st with chain := body.init st.chain.push }
      rest.exec { inner with chain := inner.chain.pop }
  | .loop n body rest, st => rest.exec (iterate body.exec n st)
  | .branch b tb eb rest, st => rest.exec (if b then tb.exec st else eb.exec st)

/-- `Configuration::run` on a state: `init`, then `execute`. -/
def Cfg.run (cfg : Cfg F) (ch : PChain F) : RunSt F := cfg.exec ⟨cfg.init ch, [], true⟩

/-- Consecutive `Configuration::run`s on ONE state: per run the executions, and the state afterwards. -/
def runAll : List (Cfg F) → PChain F → List (List (Obs F)) × PChain F
  | [], ch => ([], ch)
  | cfg :: rest, ch =>
    let st := cfg.run ch
    let (traces, final) := runAll rest st.chain
    (st.trace :: traces, final)
end Run

/-! ## Well-formed configurations -/

section Wf
variable {F : Type}

/-- The instances initialised at the level of this block (loops and BOTH arms of a branch belong to the level,
scopes do not). -/
def Cfg.level : Cfg F → List (PComp F)
  | .done => []
  | .leaf c rest => c :: rest.level
  | .scope _ rest => rest.level
  | .loop _ body rest => body.level ++ rest.level
  | .branch _ tb eb rest => tb.level ++ (eb.level ++ rest.level)

/-- Two instances of the same type and identifier at one level share their states: they must have been
given the same values (otherwise the later `init` wins — that is what identifiers are for). `eqv` decides
equality of parameter values (the driver compares bit patterns). -/
def compatible (eqv : Param F → Param F → Bool) (c d : PComp F) : Bool :=
  !(c.kind == d.kind && c.ident == d.ident) ||
    (eqv c.rate d.rate && (!c.kind.hasStrength || eqv c.strength d.strength))

def levelConsistent (eqv : Param F → Param F → Bool) (l : List (PComp F)) : Bool :=
  l.all fun c => l.all fun d => compatible eqv c d

/-- Every level of the configuration (the block itself and the body of every scope, at any depth) is consistent. -/
def Cfg.consistent (eqv : Param F → Param F → Bool) : Cfg F → Bool
  | .done => true
  | .leaf _ rest => rest.consistent eqv
  | .scope body rest => levelConsistent eqv body.level && body.consistent eqv && rest.consistent eqv
  | .loop _ body rest => body.consistent eqv && rest.consistent eqv
  | .branch _ tb eb rest => tb.consistent eqv && (eb.consistent eqv && rest.consistent eqv)

/-- The whole configuration: its own level and everything nested. -/
def Cfg.wellFormedBy (eqv : Param F → Param F → Bool) (cfg : Cfg F) : Bool :=
  levelConsistent eqv cfg.level && cfg.consistent eqv

/-- … with equality of the carrier. -/
def Cfg.wellFormed [DecidableEq F] (cfg : Cfg F) : Bool := cfg.wellFormedBy (fun a b => decide (a = b))

/-- The executions of a run that does not fail, in order: loops unrolled, scopes entered, of a branch
the arm its condition selects (specification side:
independent of the registries). -/
def Cfg.unroll : Cfg F → List (PComp F)
  | .done => []
  | .leaf c rest => c :: rest.unroll
  | .scope body rest => body.unroll ++ rest.unroll
  | .loop n body rest => (List.replicate n body.unroll).flatten ++ rest.unroll
  | .branch b tb eb rest => (if b then tb.unroll else eb.unroll) ++ rest.unroll
end Wf

end MahfModel.Variation
