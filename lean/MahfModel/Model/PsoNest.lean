/-
C18 — PSO loops whose body contains further loops / conditions (memetic PSO: a scoped refinement loop
per pass, as `heuristics::ils` nests its local search), and PSO loops that themselves run inside a
`Scope` of an enclosing loop (restarts).

What matters for the property is the bookkeeping state the inertia-weight update hangs on:
`Iterations`, `Evaluations`, `Progress<ValueOf<Iterations>>`, `Progress<ValueOf<Evaluations>>`.
`State` is a CHAIN of registries (src/state/registry/mod.rs): `Scope::execute` runs its body on a child
registry (`with_inner_state`: `into_child` … `into_parent`, the child is dropped),
* `insert` puts into the top-most registry (shadowing),
* `borrow*` / `set_value` / lenses act on the FIRST registry of the chain that contains the type.
So inside a `Scope`
* `Loop::init` shadows `Iterations` (`state.insert(Iterations(0))`),
* `LessThanN::init` shadows `Progress<L>` (`state.insert(Progress::default())`; also called by
  `Loop::execute` before the first evaluation and by `Branch::init`),
* `PopulationEvaluator::init` shadows `Evaluations`,
and `LessThanN::evaluate` (`set_value::<Progress<L>>`), the loop's `Iterations += 1` and the evaluator's
`Evaluations += len` then hit the shadowing entries. `Scope` itself has no `init`: its body is
initialised on the child registry every time the scope is executed.

The components of this file act on the bookkeeping chain only (they stand for refinements that leave
the particles where they are: `Saturation` after the repair, re-evaluation, empty bodies).
-/
import MahfModel.Model.PsoLoop
namespace MahfModel.Pso

/-- One registry of the chain, as far as the loop bookkeeping goes; `none` = not in this registry. -/
structure Frame (F : Type) where
  iters : Option Nat
  evals : Option Nat
  progIter : Option F
  progEval : Option F

/-- Top-most registry first. -/
abbrev Chain (F : Type) := List (Frame F)

mutual
/-- Components of a refinement. -/
inductive Comp where
  /-- a component without loop bookkeeping (`Saturation`, …) -/
  | nop
  /-- `PopulationEvaluator`: `init` inserts `Evaluations(0)`, `execute` adds the population size -/
  | evals
  /-- `Loop` (`while_`) -/
  | loop (c : Cond) (body : Comps)
  /-- `Branch` without else (`if_`) -/
  | branch (c : Cond) (body : Comps)
  /-- `Scope` (`scope_`) -/
  | scope (body : Comps)
/-- `Block` -/
inductive Comps where
  | nil
  | cons (c : Comp) (cs : Comps)
end

/-- Outcome of executing a component; `passes` is a ghost counter of the loop passes executed. -/
structure CRes (F : Type) where
  status : Status
  chain : Chain F
  passes : Nat

section
variable {F : Type}

def Frame.empty : Frame F := ⟨none, none, none, none⟩

/-- `borrow` / lens: the first registry that has it. -/
def getFirst {α : Type} (get : Frame F → Option α) : Chain F → Option α
  | [] => none
  | fr :: rest => match get fr with
    | some a => some a
    | none => getFirst get rest

/-- `borrow_mut` / `set_value`: modify the first registry that has it (nothing happens when none has). -/
def setFirst (has : Frame F → Bool) (upd : Frame F → Frame F) : Chain F → Chain F
  | [] => []
  | fr :: rest => if has fr then upd fr :: rest else fr :: setFirst has upd rest

/-- `insert`: into the top-most registry. -/
def insTop (upd : Frame F → Frame F) : Chain F → Chain F
  | [] => []
  | fr :: rest => upd fr :: rest

/-- `Condition::init` on a chain: every `LessThanN` INSERTS a fresh `Progress` (top-most registry). -/
def condInitC (zero : F) : Cond → Chain F → Chain F
  | .ltIter _, ch => insTop (fun fr => { fr with progIter := some zero }) ch
  | .ltEval _, ch => insTop (fun fr => { fr with progEval := some zero }) ch
  | .not c, ch => condInitC zero c ch
  | .and a b, ch => condInitC zero b (condInitC zero a ch)
  | .or a b, ch => condInitC zero b (condInitC zero a ch)

/-- `Condition::evaluate` on a chain; `none` = `Err` (the lens finds no `Iterations` / `Evaluations`).
`set_value` on a missing `Progress` does nothing. All operands of `&` / `|` are evaluated. -/
def evalCondC [Div F] (cast : Nat → F) : Cond → Chain F → Option (Bool × Chain F)
  | .ltIter n, ch =>
    match getFirst (fun fr => fr.iters) ch with
    | none => none
    | some it => some (decide (it < n),
        setFirst (fun fr => fr.progIter.isSome) (fun fr => { fr with progIter := some (cast it / cast n) }) ch)
  | .ltEval n, ch =>
    match getFirst (fun fr => fr.evals) ch with
    | none => none
    | some ev => some (decide (ev < n),
        setFirst (fun fr => fr.progEval.isSome) (fun fr => { fr with progEval := some (cast ev / cast n) }) ch)
  | .not c, ch =>
    match evalCondC cast c ch with
    | none => none
    | some r => some (!r.1, r.2)
  | .and a b, ch =>
    match evalCondC cast a ch with
    | none => none
    | some r1 =>
      match evalCondC cast b r1.2 with
      | none => none
      | some r2 => some (r1.1 && r2.1, r2.2)
  | .or a b, ch =>
    match evalCondC cast a ch with
    | none => none
    | some r1 =>
      match evalCondC cast b r1.2 with
      | none => none
      | some r2 => some (r1.1 || r2.1, r2.2)

mutual
/-- `Component::init` (`Block::init` initialises its children in order; `Scope` has no `init`). -/
def cinit (zero : F) : Comp → Chain F → Chain F
  | .nop, ch => ch
  | .evals, ch => insTop (fun fr => { fr with evals := some 0 }) ch
  | .loop c b, ch => cinits zero b (condInitC zero c (insTop (fun fr => { fr with iters := some 0 }) ch))
  | .branch c b, ch => cinits zero b (condInitC zero c ch)
  | .scope _, ch => ch
def cinits (zero : F) : Comps → Chain F → Chain F
  | .nil, ch => ch
  | .cons c cs, ch => cinits zero cs (cinit zero c ch)
end

mutual
/-- `Component::execute` on a population of `N` individuals. Running out of `fuel` is not an outcome of
the code; the theorems hold for every amount of fuel. -/
def cexec [Div F] (cast : Nat → F) (zero : F) (N : Nat) : Nat → Comp → Chain F → CRes F
  | 0, _, ch => ⟨.ok, ch, 0⟩
  | _ + 1, .nop, ch => ⟨.ok, ch, 0⟩
  | _ + 1, .evals, ch =>
    -- `*state.borrow_value_mut::<Evaluations>() += population.len()`
    match getFirst (fun fr => fr.evals) ch with
    | none => ⟨.panic, ch, 0⟩
    | some _ => ⟨.ok, setFirst (fun fr => fr.evals.isSome) (fun fr => { fr with evals := fr.evals.map (· + N) }) ch, 0⟩
  | fuel + 1, .loop c b, ch =>
    -- `Loop::execute`: `condition.init`, then the loop
    cloop cast zero N fuel c b (condInitC zero c ch)
  | fuel + 1, .branch c b, ch =>
    match evalCondC cast c ch with
    | none => ⟨.err, ch, 0⟩
    | some (true, ch') => cexecs cast zero N fuel b ch'
    | some (false, ch') => ⟨.ok, ch', 0⟩
  | fuel + 1, .scope b, ch =>
    -- `with_inner_state`: child registry, `body.init`, `body.execute`, back to the parent (also on `Err`)
    let r := cexecs cast zero N fuel b (cinits zero b (Frame.empty :: ch))
    ⟨r.status, r.chain.tail, r.passes⟩
def cexecs [Div F] (cast : Nat → F) (zero : F) (N : Nat) : Nat → Comps → Chain F → CRes F
  | 0, _, ch => ⟨.ok, ch, 0⟩
  | _ + 1, .nil, ch => ⟨.ok, ch, 0⟩
  | fuel + 1, .cons c cs, ch =>
    let r := cexec cast zero N fuel c ch
    match r.status with
    | .ok =>
      let r2 := cexecs cast zero N fuel cs r.chain
      ⟨r2.status, r2.chain, r.passes + r2.passes⟩
    | _ => r
/-- `while condition.evaluate()? { body.execute()?; *Iterations += 1 }` -/
def cloop [Div F] (cast : Nat → F) (zero : F) (N : Nat) : Nat → Cond → Comps → Chain F → CRes F
  | 0, _, _, ch => ⟨.ok, ch, 0⟩
  | fuel + 1, c, b, ch =>
    match evalCondC cast c ch with
    | none => ⟨.err, ch, 0⟩
    | some (false, ch') => ⟨.ok, ch', 0⟩
    | some (true, ch') =>
      let r := cexecs cast zero N fuel b ch'
      match r.status with
      | .ok =>
        match getFirst (fun fr => fr.iters) r.chain with
        | none => ⟨.err, r.chain, r.passes + 1⟩
        | some _ =>
          let r2 := cloop cast zero N fuel c b
            (setFirst (fun fr => fr.iters.isSome) (fun fr => { fr with iters := fr.iters.map (· + 1) }) r.chain)
          ⟨r2.status, r2.chain, r.passes + 1 + r2.passes⟩
      | _ => r
end

/-! ### The PSO loop with refinement slots -/

/-- Where further components may stand in the body of the PSO loop (all are `Box<dyn Component>`
parameters of `heuristics::pso::pso`): in front of the velocity update (`particle_update` a block),
behind the boundary repair (`constraints` a block), in front of the inertia-weight update
(`inertia_weight_update` a block), behind the swarm update (`state_update` a block). -/
structure Slots where
  pre : Comps
  con : Comps
  ine : Comps
  upd : Comps

/-- The registry the PSO loop itself lives in: it holds the loop's `Iterations` (`Loop::init`), the
`Evaluations` (`PopulationEvaluator::init`) and whatever `Progress` the loop's condition inserted. -/
def frameOf (lv : LoopVars F) : Frame F := ⟨some lv.iters, some lv.evals, lv.progIter, lv.progEval⟩

def unframe (fr : Frame F) (lv : LoopVars F) : LoopVars F :=
  ⟨fr.iters.getD lv.iters, fr.evals.getD lv.evals, fr.progIter, fr.progEval⟩

/-- A PSO run state together with the registries BELOW the one the PSO loop lives in (empty for a
stand-alone run; the registries of the enclosing loops when the PSO is run inside their `Scope`). -/
structure NestSt (F : Type) where
  st : RunSt F
  below : Chain F

/-- Execute the components of one slot. -/
def runSlot [Div F] (cast : Nat → F) (zero : F) (ifuel : Nat) (cs : Comps) (s : NestSt F) : Status × NestSt F :=
  let r := cexecs cast zero s.st.sw.xs.length ifuel cs (frameOf s.st.lv :: s.below)
  match r.chain with
  | fr :: below' => (r.status, { st := { s.st with lv := unframe fr s.st.lv }, below := below' })
  | [] => (.panic, s)

def andThen {α : Type} (r : Status × α) (k : α → Status × α) : Status × α :=
  match r with
  | (.ok, a) => k a
  | r => r

variable [Add F] [Sub F] [Mul F] [Div F] [Neg F] [LT F] [DecidableLT F]

/-! The pass body of `Model/PsoLoop.lean` in four phases (`passBody_phases` in `Proofs/C18Nest.lean`). -/

def phaseVel (P : Params F) (draws : List (List (F × F))) (st : RunSt F) : Status × RunSt F :=
  match velStep P.c1 P.c2 P.vmax draws st.sw with
  | (.ok, s1) => (.ok, { st with sw := s1, wlog := (st.lv.iters, st.sw.w) :: st.wlog })
  | (e, s1) => (e, { st with sw := s1 })

def phaseEval (f : List F → F) (repair : List F → List F) (st1 : RunSt F) : Status × RunSt F :=
  let s2 := evaluate f { st1.sw with xs := st1.sw.xs.map (fun x => { x with pos := repair x.pos }) }
  (.ok, { st1 with sw := s2, lv := { st1.lv with evals := st1.lv.evals + s2.xs.length },
                   best := gbestUpd st1.best s2.xs, hist := st1.hist ++ [s2.xs] })

def phaseInertia (P : Params F) (st2 : RunSt F) : Status × RunSt F :=
  if P.inertia then
    match st2.lv.progIter with
    | some p => (.ok, { st2 with sw := inertiaStep P.start P.stop p st2.sw })
    | none => (.err, st2)
  else (.ok, st2)

def phaseBest (st3 : RunSt F) : Status × RunSt F :=
  match pbestStep st3.sw with
  | (.ok, s4) =>
    let r5 := gbestStep s4
    (r5.1, { st3 with sw := r5.2 })
  | (e, s4) => (e, { st3 with sw := s4 })

def liftN (g : RunSt F → Status × RunSt F) (s : NestSt F) : Status × NestSt F :=
  let r := g s.st
  (r.1, { s with st := r.2 })

/-- One pass of the PSO loop with refinement components in the four slots. -/
def passBodyN (cast : Nat → F) (zero : F) (ifuel : Nat) (sl : Slots) (P : Params F) (f : List F → F)
    (repair : List F → List F) (draws : List (List (F × F))) (s : NestSt F) : Status × NestSt F :=
  andThen (andThen (andThen (andThen (andThen (andThen (andThen
    (runSlot cast zero ifuel sl.pre s)
    (liftN (phaseVel P draws)))
    (runSlot cast zero ifuel sl.con))
    (liftN (phaseEval f repair)))
    (runSlot cast zero ifuel sl.ine))
    (liftN (phaseInertia P)))
    (liftN phaseBest))
    (runSlot cast zero ifuel sl.upd)

/-- `Loop::execute` of the PSO loop (cf. `loopGo`); the registries below are threaded through. -/
def loopGoN (cast : Nat → F) (zero : F) (ifuel : Nat) (sl : Slots) (P : Params F) (f : List F → F)
    (repair : List F → List F) (c : Cond) (draws : Nat → List (List (F × F))) : Nat → NestSt F → Status × NestSt F
  | 0, s => (.ok, s)
  | fuel + 1, s =>
    let r := evalCond cast c s.st.lv
    let s1 : NestSt F := { s with st := { s.st with lv := r.2 } }
    if r.1 then
      match passBodyN cast zero ifuel sl P f repair (draws s1.st.lv.iters) s1 with
      | (.ok, s2) =>
        loopGoN cast zero ifuel sl P f repair c draws fuel
          { s2 with st := { s2.st with lv := { s2.st.lv with iters := s2.st.lv.iters + 1 } } }
      | (e, s2) => (e, s2)
    else (.ok, s1)

/-- `pso(...)` with refinement slots, on top of the registries `s.below`. -/
def psoRunN (cast : Nat → F) (zero : F) (ifuel : Nat) (sl : Slots) (P : Params F) (f : List F → F)
    (repair : List F → List F) (c : Cond) (witness : List (List F)) (draws : Nat → List (List (F × F)))
    (fuel : Nat) (s : NestSt F) : Status × NestSt F :=
  let st0 : RunSt F := { s.st with sw := swarmInit witness s.st.sw, lv := condInit zero c s.st.lv, wlog := [], hist := [] }
  loopGoN cast zero ifuel sl P f repair c draws fuel { s with st := st0 }

end
end MahfModel.Pso
