/-
PopMachine, C07 extension — tie-agnostic (witness-based) models of the best-individual update and of
the elitist archive update, and the executable predicates the C07 driver evaluates.

`population::best_individual` is `min_by_key` (first minimum) and `ElitistArchive::update` uses
`sort_unstable_by_key`: WHICH of several individuals with exactly equal objective values is offered
to the best-so-far record, or survives at the capacity boundary of the archive, is an implementation
detail the property does not speak about.  The models here take that choice as an explicit witness;
the theorems of `Props/C07Ties.lean` quantify over ALL legal witnesses, and the deterministic models
of `PopMachine.lean` are shown to be instances.
-/
import MahfModel.Model.PopMachine
namespace MahfModel.PopMachine

section Witness
variable {O : Type} [LT O] [DecidableLT O]

/-- Both evaluated and `b` is not strictly better than `a` (`a ≤ b` in a linear order). -/
def notWorse (a b : Ind O) : Bool :=
  match a.obj, b.obj with
  | some x, some y => !(decide (y < x))
  | _, _ => false

/-- Legal witness for "the best individual of `p`": position `w` holds a member no member beats. -/
def legalBest (p : List (Ind O)) (w : Nat) : Bool :=
  match p[w]? with
  | none => false
  | some c => p.all fun i => notWorse c i

/-- `BestIndividualUpdate::execute` where the population's best is the member at position `w`
(any member of minimal objective value is a legal choice; an empty population has no witness and
nothing happens). `none`: panic (empty stack, unevaluated member, unevaluated recorded best). -/
def bestUpdateStepW (pm : PM O) (w : Nat) : Option (PM O) :=
  match pm.stack with
  | [] => none
  | p :: _ =>
    match keyed p with
    | none => none
    | some _ =>
      match p[w]? with
      | none => some pm
      | some c => (bestUpdate pm.best c).map fun r => { pm with best := r.1 }

/-- Feeding `p` as the current population, offering the member at position `w`. -/
def feedW (best : Option (Ind O)) (p : List (Ind O)) (w : Nat) : Option (Option (Ind O)) :=
  (bestUpdateStepW ({ stack := [p], best := best } : PM O) w).map (·.best)

/-- A history of fed populations, each with its witness. -/
def feedAllW : Option (Ind O) → List (List (Ind O) × Nat) → Option (Option (Ind O))
  | b, [] => some b
  | b, (p, w) :: ps =>
    match feedW b p w with
    | none => none
    | some b' => feedAllW b' ps

/-- Every step of the history uses a legal witness (empty populations need none). -/
def legalHistory : List (List (Ind O) × Nat) → Bool
  | [] => true
  | (p, w) :: ps => (p.isEmpty || legalBest p w) && legalHistory ps

/-- Sorted by objective value: no later element is strictly better than an earlier one. -/
def sortedByObj : List (Ind O) → Bool
  | [] => true
  | x :: xs => xs.all (fun y => notWorse x y) && sortedByObj xs

/-- `ElitistArchive::update` for ANY admissible outcome `s` of `sort_unstable_by_key` on the extended
vector: `truncate(k)` of it. `none`: panic (an unevaluated member among at least two elements). -/
def archiveUpdateW (arch pop : List (Ind O)) (k : Nat) (s : List (Ind O)) : Option (List (Ind O)) :=
  let all := arch ++ pop
  if all.length < 2 then some (all.take k)
  else (keyed all).map fun _ => s.take k

/-- The objective values carried by a list (unevaluated members carry none). -/
def objKeys (l : List (Ind O)) : List O := l.filterMap (·.obj)

/-- Insertion sort of individuals by objective value (the resolution `archiveUpdate` uses), on
evaluated individuals. -/
def sortInds (l : List (Ind O)) : List (Ind O) :=
  match keyed l with
  | none => l
  | some kl => (sortByKey (·.2) kl).map (·.1)

end Witness

section WitnessEq
variable {O : Type} [LT O] [DecidableLT O] [DecidableEq O]

/-- `s` is an admissible result of sorting `all` by objective value. -/
def legalSort (all s : List (Ind O)) : Bool := s.isPerm all && sortedByObj s

/-- A history of archive updates, each with the sorted vector the implementation produced. -/
def archFeedW (k : Nat) : List (Ind O) → List (List (Ind O) × List (Ind O)) → Option (List (Ind O))
  | a, [] => some a
  | a, (p, s) :: ps =>
    match archiveUpdateW a p k s with
    | none => none
    | some a' => archFeedW k a' ps

/-- Every step of an archive history uses a legal witness. -/
def legalArchHistory (k : Nat) : List (Ind O) → List (List (Ind O) × List (Ind O)) → Bool
  | _, [] => true
  | a, (p, s) :: ps =>
    legalSort (a ++ p) s &&
      match archiveUpdateW a p k s with
      | none => true
      | some a' => legalArchHistory k a' ps

/-- Removes one occurrence of every element of the second list. -/
def eraseAll (l : List (Ind O)) : List (Ind O) → List (Ind O)
  | [] => l
  | x :: xs => eraseAll (l.erase x) xs

/-- `a` is a sub-multiset of `b`. -/
def subBag : List (Ind O) → List (Ind O) → Bool
  | [], _ => true
  | x :: xs, b => b.contains x && subBag xs (b.erase x)

/-- Completion of an observed archive `a'` (the truncated vector) to a full sorted vector: what was cut
off, in sorted order, behind it. The driver checks that this completion is a legal witness and that the
witness model reproduces `a'` from it. -/
def completeSort (all a' : List (Ind O)) : List (Ind O) := a' ++ sortInds (eraseAll all a')

/-- The property's predicate on an archive `a` after a history that showed `shown` (all evaluated):
a sub-multiset of everything shown, as full as it can be, and its objective values are exactly the `k`
smallest of everything shown (as sorted lists — whatever the order inside the archive). -/
def kBestOk (k : Nat) (shown a : List (Ind O)) : Bool :=
  subBag a shown && a.length == min k shown.length &&
    sortByKey id (objKeys a) == (sortByKey id (objKeys shown)).take k

/-- The property's predicate on the outcome `r` of re-inserting archive `arch` into population `pop`
(order-agnostic): every original member is still there, what was added are pairwise distinct elitists
that were absent, and every elitist is present afterwards. -/
def reinsertOk (arch pop r : List (Ind O)) : Bool :=
  subBag pop r &&
    (let extra := eraseAll r pop
     extra.all (fun e => arch.contains e && !pop.contains e && extra.count e == 1)) &&
    arch.all (fun e => r.contains e)

end WitnessEq

/-! ### Run level: updates only ever see values the objective function returned -/

section RunLevel
variable {O : Type} [DecidableEq O]

/-- Every population shown to a best-update consists of values the objective function returned earlier
in the run (`ret`: what was returned before the trace starts). True for every shipped template: the only
writers of objective values are the evaluator and the firefly update. -/
def updatesShowReturned : List O → List (Ev O) → Bool
  | _, [] => true
  | ret, .eval _ vals :: t => updatesShowReturned (ret ++ vals) t
  | ret, .selfEval vals :: t => updatesShowReturned (ret ++ vals) t
  | ret, .update pop :: t => pop.all (fun v => ret.contains v) && updatesShowReturned ret t
  | ret, _ :: t => updatesShowReturned ret t

end RunLevel

/-! ### Scopes are well bracketed -/

/-- Depth of open scopes after the events, starting at depth `d`; `none`: an `exit` without a matching `enter`. -/
def depthAfter {O : Type} : Nat → List (Ev O) → Option Nat
  | d, [] => some d
  | d, .enter _ _ :: t => depthAfter (d + 1) t
  | 0, .exit :: _ => none
  | d + 1, .exit :: t => depthAfter d t
  | d, _ :: t => depthAfter d t

/-- What a `Scope` body produces: every scope opened inside it is closed inside it. -/
def wellBracketed {O : Type} (evs : List (Ev O)) : Bool := depthAfter 0 evs == some 0

end MahfModel.PopMachine
