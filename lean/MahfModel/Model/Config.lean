/-
C03 — model of `Configuration::run` and the control-flow components `Block`, `Loop`, `Branch`,
`Scope` (src/configuration.rs, src/components/control_flow.rs), of the logical conditions
`And`/`Or`/`Not` (src/conditions/logical.rs) and of `State::with_inner_state`
(src/state/mod.rs, as repaired by the `fix:` commit).

Leaves are *scripted*: a leaf records the event `(phase, id)`, fails if the script says so (or, in
the require phase, if a state it needs is missing) and otherwise performs its declared
inserts / sets / removes on a small scoped registry (list of scopes, head = innermost; key 0 is
`Iterations`, the loop counter). Condition leaves read their successive truth values from the
script. The number of earlier occurrences of an event is read off the trace, so the whole
interpreter state is `(registry, trace)`.

Two semantics are given:
* `initC / reqC / exec / run` — *code-shaped*: one traversal per trait method, in the order the
  Rust is written, `?` as `andThen`, `while` as the fuel-bounded combinator `loopN`;
* `Stmt`, `prog`, `srun` — the *corresponding structured program*: the three-phase lifecycle is
  compiled into one program over `prim | seq | while | if | scoped`, with a textbook semantics.
`Proofs/C03.lean` shows they coincide.

`Comp.scopeW id si mg b` is `Scope::new_with(state_init, body, states_merge)` with *scripted hooks*:
`state_init` records `(init, id)`, may fail, and otherwise performs the `init`-tagged actions `si`
on the fresh child state; `states_merge` records `(exec, id)`, may fail, and otherwise copies
`Kb := child.Ka` into the caller's top scope for every `(a, b) ∈ mg` whose `Ka` the child's own map
holds. `Comp.scope b` is `Scope::new` (the hooks are the constant `Ok(())` and leave no event).
-/
import MahfModel.Model.Sexp
namespace MahfModel.Config

/-! ### Events, actions, scripts -/

inductive Phase where
  | init | req | exec      -- component leaf: `init`, `require`, `execute`
  | cinit | creq | ceval   -- condition leaf: `init`, `require`, `evaluate`
  deriving DecidableEq, Repr, Inhabited

abbrev Ev := Phase × Nat

/-- What a leaf does to the state (`k` names one of the harness's state types; 0 = `Iterations`). -/
inductive Act where
  | ins (ph : Phase) (k v : Nat)   -- `state.insert(K(v))` during `ph` (`init` or `exec`)
  | set (ph : Phase) (k v : Nat)   -- `state.set_value::<K>(v)` (no effect if `K` is absent)
  | rem (ph : Phase) (k : Nat)     -- `let _ = state.remove::<K>()`
  | need (k : Nat)                 -- `state_req.require::<Self, K>()?` during `require`
  deriving DecidableEq, Repr

structure Script where
  /-- condition leaf id ↦ (value once the list is exhausted, successive truth values) -/
  conds : List (Nat × Bool × List Bool)
  /-- fault injections: the `occ`-th (0-based) occurrence of event `(phase, id)` fails -/
  fails : List (Phase × Nat × Nat)
  deriving Repr

def Script.value (s : Script) (id occ : Nat) : Bool :=
  match s.conds.find? (fun e => e.1 == id) with
  | some (_, d, vs) => vs.getD occ d
  | none => false

def Script.default (s : Script) (id : Nat) : Bool :=
  match s.conds.find? (fun e => e.1 == id) with
  | some (_, d, _) => d
  | none => false

def Script.faulty (s : Script) (ev : Ev) (occ : Nat) : Bool :=
  s.fails.contains (ev.1, ev.2, occ)

/-- The same script without fault injections. -/
def Script.noFaults (s : Script) : Script := { conds := s.conds, fails := [] }

/-- In the trace `t` (oldest first) no scripted fault fires at any event after the initial part
`base`: the `n`-th earlier occurrence count of an event is the number of its occurrences before it. -/
def Script.quietAfter (s : Script) (base t : List Ev) : Prop :=
  ∀ pre e post, t = pre ++ e :: post → base <+: pre → s.faulty e (pre.count e) = false

/-! ### Scoped registry (`StateRegistry`: a map plus an owned parent) -/

abbrev Scope := List (Nat × Nat)
/-- Head = innermost scope; `length` = depth (number of `parent()` hops + 1). -/
abbrev Reg := List Scope

def Scope.has (m : Scope) (k : Nat) : Bool := m.any (fun e => e.1 == k)
def Scope.get? (m : Scope) (k : Nat) : Option Nat := (m.find? (fun e => e.1 == k)).map (·.2)
def Scope.erase (m : Scope) (k : Nat) : Scope := m.filter (fun e => e.1 != k)
def Scope.put (m : Scope) (k v : Nat) : Scope := (k, v) :: m.erase k

namespace Reg
/-- `insert`: always into the top map. -/
def insert : Reg → Nat → Nat → Reg
  | [], _, _ => []
  | m :: r, k, v => m.put k v :: r
/-- `contains` (`find(..).is_ok()`). -/
def contains : Reg → Nat → Bool
  | [], _ => false
  | m :: r, k => m.has k || contains r k
/-- `try_get_value`: the innermost scope that has the key. -/
def get? : Reg → Nat → Option Nat
  | [], _ => none
  | m :: r, k => if m.has k then m.get? k else get? r k
/-- `set_value`: overwrite in the innermost scope that has the key; nothing if absent. -/
def setv : Reg → Nat → Nat → Reg
  | [], _, _ => []
  | m :: r, k, v => if m.has k then m.put k v :: r else m :: setv r k v
/-- `remove` (result ignored): from the innermost scope that has the key. -/
def remove : Reg → Nat → Reg
  | [], _ => []
  | m :: r, k => if m.has k then m.erase k :: r else m :: remove r k
/-- `*state.try_borrow_value_mut::<Iterations>()? += 1`. -/
def incr : Reg → Option Reg
  | [] => none
  | m :: r =>
    match m.get? 0 with
    | some v => some (m.put 0 (v + 1) :: r)
    | none =>
      match incr r with
      | some r' => some (m :: r')
      | none => none
end Reg

def Act.apply (ph : Phase) (r : Reg) : Act → Reg
  | .ins p k v => if p = ph then r.insert k v else r
  | .set p k v => if p = ph then r.setv k v else r
  | .rem p k => if p = ph then r.remove k else r
  | .need _ => r

def applyActs (ph : Phase) (acts : List Act) (r : Reg) : Reg := acts.foldl (Act.apply ph) r

def Act.needOk (r : Reg) : Act → Bool
  | .need k => r.contains k
  | _ => true

/-! ### Interpreter state and results -/

structure St where
  reg : Reg
  /-- events so far, newest first -/
  tr : List Ev
  deriving Repr

def St.trace (σ : St) : List Ev := σ.tr.reverse

inductive Res where
  | ok
  | err (ph : Phase) (id : Nat)   -- the leaf `id` returned `Err` in phase `ph`
  | counter                        -- `Loop::execute` found no `Iterations` to increment
  | fuel                           -- the model's pass bound was exhausted (no Rust counterpart)
  deriving DecidableEq, Repr

inductive CRes where
  | val (b : Bool)
  | err (ph : Phase) (id : Nat)
  deriving DecidableEq, Repr

/-- `a?; k` -/
def andThen (r : St × Res) (k : St → St × Res) : St × Res :=
  match r with
  | (σ, .ok) => k σ
  | r => r

def push (σ : St) : St := { σ with reg := [] :: σ.reg }
def pop (σ : St) : St := { σ with reg := σ.reg.tail }

/-- A leaf call: record the event; fail if scripted; otherwise apply the effect
(`none` = the effect itself reports an error, e.g. a missing requirement). -/
def step (s : Script) (ev : Ev) (eff : Reg → Option Reg) (σ : St) : St × Res :=
  let n := σ.tr.count ev
  let σ1 : St := { σ with tr := ev :: σ.tr }
  if s.faulty ev n then (σ1, .err ev.1 ev.2)
  else
    match eff σ1.reg with
    | some r => ({ σ1 with reg := r }, .ok)
    | none => (σ1, .err ev.1 ev.2)

def leafEff (ph : Phase) (acts : List Act) : Reg → Option Reg := fun r => some (applyActs ph acts r)
def needEff (acts : List Act) : Reg → Option Reg := fun r => if acts.all (Act.needOk r) then some r else none

/-- `states_merge(parent, inner)` of a hooked scope: for every `(a, b)`, if the detached child `m`
holds `Ka = v` then `parent.insert(Kb(v))` (top scope of the restored parent). -/
def exportKeys (m : Scope) (mg : List (Nat × Nat)) (p : Reg) : Reg :=
  mg.foldl (fun p ab => match m.get? ab.1 with | some v => p.insert ab.2 v | none => p) p

/-- The same merge seen from inside the still-open scope (`m` = child map on top of the parent `p`). -/
def mergeEff (mg : List (Nat × Nat)) : Reg → Option Reg
  | [] => some []
  | m :: p => some (m :: exportKeys m mg p)

/-- `ScriptCond::evaluate`. -/
def evalLeaf (s : Script) (id : Nat) (σ : St) : St × CRes :=
  let n := σ.tr.count (Phase.ceval, id)
  let σ1 : St := { σ with tr := (Phase.ceval, id) :: σ.tr }
  if s.faulty (Phase.ceval, id) n then (σ1, .err .ceval id) else (σ1, .val (s.value id n))

/-! ### Conditions -/

mutual
  inductive Cond where
    | leaf (id : Nat)
    | all (cs : Conds)     -- `And`
    | any (cs : Conds)     -- `Or`
    | not (c : Cond)
  inductive Conds where
    | nil
    | cons (c : Cond) (cs : Conds)
end

mutual
  /-- `Condition::init` / `Condition::require` (`ph` = `cinit` / `creq`): children in order, `?`. -/
  def condPhase (s : Script) (ph : Phase) : Cond → St → St × Res
    | .leaf id, σ => step s (ph, id) some σ
    | .all cs, σ => condsPhase s ph cs σ
    | .any cs, σ => condsPhase s ph cs σ
    | .not c, σ => condPhase s ph c σ
  def condsPhase (s : Script) (ph : Phase) : Conds → St → St × Res
    | .nil, σ => (σ, .ok)
    | .cons c cs, σ => andThen (condPhase s ph c σ) (condsPhase s ph cs)
end

mutual
  /-- `Condition::evaluate`. `And`/`Or` evaluate *every* child (collect into `Result<Vec<_>,_>`,
  stopping only at the first `Err`) and then fold. -/
  def condEval (s : Script) : Cond → St → St × CRes
    | .leaf id, σ => evalLeaf s id σ
    | .all cs, σ => evalAll s cs σ
    | .any cs, σ => evalAny s cs σ
    | .not c, σ =>
      match condEval s c σ with
      | (σ1, .val b) => (σ1, .val (!b))
      | r => r
  def evalAll (s : Script) : Conds → St → St × CRes
    | .nil, σ => (σ, .val true)
    | .cons c cs, σ =>
      match condEval s c σ with
      | (σ1, .val b) =>
        match evalAll s cs σ1 with
        | (σ2, .val b') => (σ2, .val (b && b'))
        | r => r
      | r => r
  def evalAny (s : Script) : Conds → St → St × CRes
    | .nil, σ => (σ, .val false)
    | .cons c cs, σ =>
      match condEval s c σ with
      | (σ1, .val b) =>
        match evalAny s cs σ1 with
        | (σ2, .val b') => (σ2, .val (b || b'))
        | r => r
      | r => r
end

/-! ### Components -/

mutual
  inductive Comp where
    | leaf (id : Nat) (acts : List Act)
    | block (cs : Comps)
    | loop (c : Cond) (b : Comp)
    | branch (c : Cond) (t : Comp) (e : Comp) (hasElse : Bool)   -- `e` is ignored unless `hasElse`
    | scope (b : Comp)
    /-- `Scope::new_with` with scripted hooks `id`: `state_init` performs `si`, `states_merge` exports `mg`. -/
    | scopeW (id : Nat) (si : List Act) (mg : List (Nat × Nat)) (b : Comp)
  inductive Comps where
    | nil
    | cons (c : Comp) (cs : Comps)
end

/-- `Loop::init`'s `state.insert(common::Iterations(0))`. -/
def newCounter (σ : St) : St := { σ with reg := σ.reg.insert 0 0 }

mutual
  /-- `Component::init`. A `Scope` does nothing here. -/
  def initC (s : Script) : Comp → St → St × Res
    | .leaf id acts, σ => step s (.init, id) (leafEff .init acts) σ
    | .block cs, σ => initCs s cs σ
    | .loop c b, σ => andThen (condPhase s .cinit c (newCounter σ)) (initC s b)
    | .branch c t e he, σ =>
      andThen (condPhase s .cinit c σ) fun σ1 =>
        andThen (initC s t σ1) fun σ2 => if he then initC s e σ2 else (σ2, .ok)
    | .scope _, σ => (σ, .ok)
    | .scopeW _ _ _ _, σ => (σ, .ok)
  def initCs (s : Script) : Comps → St → St × Res
    | .nil, σ => (σ, .ok)
    | .cons c cs, σ => andThen (initC s c σ) (initCs s cs)
end

mutual
  /-- `Component::require` (gets only a `StateReq`, i.e. can look but not touch). -/
  def reqC (s : Script) : Comp → St → St × Res
    | .leaf id acts, σ => step s (.req, id) (needEff acts) σ
    | .block cs, σ => reqCs s cs σ
    | .loop c b, σ => andThen (condPhase s .creq c σ) (reqC s b)
    | .branch c t e he, σ =>
      andThen (condPhase s .creq c σ) fun σ1 =>
        andThen (reqC s t σ1) fun σ2 => if he then reqC s e σ2 else (σ2, .ok)
    | .scope _, σ => (σ, .ok)
    | .scopeW _ _ _ _, σ => (σ, .ok)
  def reqCs (s : Script) : Comps → St → St × Res
    | .nil, σ => (σ, .ok)
    | .cons c cs, σ => andThen (reqC s c σ) (reqCs s cs)
end

/-- The counter increment after a pass. -/
def bump (σ : St) : St × Res :=
  match σ.reg.incr with
  | some r => ({ σ with reg := r }, .ok)
  | none => (σ, .counter)

/-- `while cond.evaluate()? { body.execute()?; *iterations += 1 }`, at most `n` tests. -/
def loopN (cond : St → St × CRes) (body : St → St × Res) : Nat → St → St × Res
  | 0, σ => (σ, .fuel)
  | n + 1, σ =>
    match cond σ with
    | (σ1, .err ph id) => (σ1, .err ph id)
    | (σ1, .val false) => (σ1, .ok)
    | (σ1, .val true) => andThen (andThen (body σ1) bump) (loopN cond body n)

/-- The tail of `Scope::execute` after the closure handed to `with_inner_state` returned `x`:
the caller's registry is restored first (`pop`); an `Err` of the closure is propagated (`?`) and
`states_merge` is not called; on `Ok` the merge hook runs on the restored state with the detached
child (its own map only) and its result is the result. -/
def closeMerge (s : Script) (id : Nat) (mg : List (Nat × Nat)) : St × Res → St × Res
  | (σ2, .ok) => step s (.exec, id) (fun p => some (exportKeys (σ2.reg.headD []) mg p)) (pop σ2)
  | (σ2, r) => (pop σ2, r)

mutual
  /-- `Component::execute`. -/
  def exec (s : Script) (fuel : Nat) : Comp → St → St × Res
    | .leaf id acts, σ => step s (.exec, id) (leafEff .exec acts) σ
    | .block cs, σ => execs s fuel cs σ
    | .loop c b, σ =>
      andThen (condPhase s .cinit c σ) (loopN (condEval s c) (exec s fuel b) fuel)
    | .branch c t e he, σ =>
      match condEval s c σ with
      | (σ1, .val true) => exec s fuel t σ1
      | (σ1, .val false) => if he then exec s fuel e σ1 else (σ1, .ok)
      | (σ1, .err ph id) => (σ1, .err ph id)
    | .scope b, σ =>
      -- `with_inner_state`: take the registry, make it the parent of a fresh child, run the
      -- closure, restore the parent registry, and only then propagate the closure's result.
      match andThen (initC s b (push σ)) (fun σ1 => andThen (reqC s b σ1) (exec s fuel b)) with
      | (σ2, r) => (pop σ2, r)
    | .scopeW id si mg b, σ =>
      -- the closure: `state_init(child)?; body.init?; body.require?; body.execute?`
      closeMerge s id mg
        (andThen (step s (.init, id) (leafEff .init si) (push σ)) fun σ0 =>
          andThen (initC s b σ0) (fun σ1 => andThen (reqC s b σ1) (exec s fuel b)))
  def execs (s : Script) (fuel : Nat) : Comps → St → St × Res
    | .nil, σ => (σ, .ok)
    | .cons c cs, σ => andThen (exec s fuel c σ) (execs s fuel cs)
end

/-- `Configuration::run`. -/
def run (s : Script) (fuel : Nat) (c : Comp) (σ : St) : St × Res :=
  andThen (initC s c σ) fun σ1 => andThen (reqC s c σ1) (exec s fuel c)

/-! ### The corresponding structured program -/

/-- What a leaf call does to the registry, by phase: `init`/`execute` perform the declared
actions, `require` checks the needed states, condition `init`/`require` do nothing. -/
def effOf (ph : Phase) (acts : List Act) : Reg → Option Reg :=
  match ph with
  | .init => leafEff .init acts
  | .exec => leafEff .exec acts
  | .req => needEff acts
  | _ => some

/-- Atomic statements. -/
inductive Op where
  | prim (ev : Ev) (acts : List Act)   -- one leaf call
  | counter0                            -- `Iterations := 0` in the current scope
  | bump                                -- `Iterations += 1`
  | merge (id : Nat) (mg : List (Nat × Nat))   -- the merge hook of a scope, as its last statement

def opRun (s : Script) : Op → St → St × Res
  | .prim ev acts, σ => step s ev (effOf ev.1 acts) σ
  | .counter0, σ => (newCounter σ, .ok)
  | .bump, σ => bump σ
  | .merge id mg, σ => step s (.exec, id) (mergeEff mg) σ

inductive Stmt where
  | skip
  | atom (o : Op)
  | seq (a b : Stmt)
  | loop (c : Cond) (body : Stmt)
  | ite (c : Cond) (t e : Stmt)
  | inScope (b : Stmt)                 -- `{ … }` : fresh child scope, always closed again

/-- `while` of the structured language (no built-in counter). -/
def whileN (cond : St → St × CRes) (body : St → St × Res) : Nat → St → St × Res
  | 0, σ => (σ, .fuel)
  | n + 1, σ =>
    match cond σ with
    | (σ1, .err ph id) => (σ1, .err ph id)
    | (σ1, .val false) => (σ1, .ok)
    | (σ1, .val true) => andThen (body σ1) (whileN cond body n)

def srun (s : Script) (fuel : Nat) : Stmt → St → St × Res
  | .skip, σ => (σ, .ok)
  | .atom o, σ => opRun s o σ
  | .seq a b, σ => andThen (srun s fuel a σ) (srun s fuel b)
  | .loop c b, σ => whileN (condEval s c) (srun s fuel b) fuel σ
  | .ite c t e, σ =>
    match condEval s c σ with
    | (σ1, .val true) => srun s fuel t σ1
    | (σ1, .val false) => srun s fuel e σ1
    | (σ1, .err ph id) => (σ1, .err ph id)
  | .inScope b, σ =>
    match srun s fuel b (push σ) with
    | (σ2, r) => (pop σ2, r)

mutual
  def condProg (ph : Phase) : Cond → Stmt
    | .leaf id => .atom (.prim (ph, id) [])
    | .all cs => condsProg ph cs
    | .any cs => condsProg ph cs
    | .not c => condProg ph c
  def condsProg (ph : Phase) : Conds → Stmt
    | .nil => .skip
    | .cons c cs => .seq (condProg ph c) (condsProg ph cs)
end

mutual
  def initProg : Comp → Stmt
    | .leaf id acts => .atom (.prim (.init, id) acts)
    | .block cs => initProgs cs
    | .loop c b => .seq (.atom .counter0) (.seq (condProg .cinit c) (initProg b))
    | .branch c t e he => .seq (condProg .cinit c) (.seq (initProg t) (if he then initProg e else .skip))
    | .scope _ => .skip
    | .scopeW _ _ _ _ => .skip
  def initProgs : Comps → Stmt
    | .nil => .skip
    | .cons c cs => .seq (initProg c) (initProgs cs)
end

mutual
  def reqProg : Comp → Stmt
    | .leaf id acts => .atom (.prim (.req, id) acts)
    | .block cs => reqProgs cs
    | .loop c b => .seq (condProg .creq c) (reqProg b)
    | .branch c t e he => .seq (condProg .creq c) (.seq (reqProg t) (if he then reqProg e else .skip))
    | .scope _ => .skip
    | .scopeW _ _ _ _ => .skip
  def reqProgs : Comps → Stmt
    | .nil => .skip
    | .cons c cs => .seq (reqProg c) (reqProgs cs)
end

mutual
  def execProg : Comp → Stmt
    | .leaf id acts => .atom (.prim (.exec, id) acts)
    | .block cs => execProgs cs
    | .loop c b => .seq (condProg .cinit c) (.loop c (.seq (execProg b) (.atom .bump)))
    | .branch c t e he => .ite c (execProg t) (if he then execProg e else .skip)
    | .scope b => .inScope (.seq (initProg b) (.seq (reqProg b) (execProg b)))
    | .scopeW id si mg b =>
      .inScope (.seq (.atom (.prim (.init, id) si))
        (.seq (.seq (initProg b) (.seq (reqProg b) (execProg b))) (.atom (.merge id mg))))
  def execProgs : Comps → Stmt
    | .nil => .skip
    | .cons c cs => .seq (execProg c) (execProgs cs)
end

/-- The structured program a configuration stands for: initialise everything outside scopes,
check every requirement, then execute. -/
def prog (c : Comp) : Stmt := .seq (initProg c) (.seq (reqProg c) (execProg c))

/-! ### Vocabulary for the theorems: syntactic side conditions and loop unrolling -/

/-- The state type an action touches. -/
def Act.key : Act → Nat
  | .ins _ k _ => k | .set _ k _ => k | .rem _ k => k | .need k => k

/-- `set_value` or `remove`. -/
def Act.isWrite : Act → Bool
  | .set _ _ _ => true | .rem _ _ => true | _ => false
def Act.isRem : Act → Bool
  | .rem _ _ => true | _ => false
def Act.isIns : Act → Bool
  | .ins _ _ _ => true | _ => false

mutual
  def Cond.ids : Cond → List Nat
    | .leaf id => [id]
    | .all cs => cs.ids
    | .any cs => cs.ids
    | .not c => c.ids
  def Conds.ids : Conds → List Nat
    | .nil => []
    | .cons c cs => c.ids ++ cs.ids
end

mutual
  /-- Every action of every leaf satisfies `A`, every condition satisfies `C`, and (unless `L`)
  there is no loop. -/
  def Comp.sat (A : Act → Bool) (C : Cond → Bool) (L : Bool) : Comp → Bool
    | .leaf _ acts => acts.all A
    | .block cs => cs.sat A C L
    | .loop c b => L && C c && b.sat A C L
    | .branch c t e he => C c && t.sat A C L && (!he || e.sat A C L)
    | .scope b => b.sat A C L
    -- a hooked scope qualifies only if its merge exports nothing (exports are the subject of
    -- dedicated theorems); its `state_init` actions count like leaf actions
    | .scopeW _ si mg b => mg.isEmpty && si.all A && b.sat A C L
  def Comps.sat (A : Act → Bool) (C : Cond → Bool) (L : Bool) : Comps → Bool
    | .nil => true
    | .cons c cs => c.sat A C L && cs.sat A C L
end

mutual
  /-- A loop that is not inside a scope of the tree. -/
  def Comp.hasLoop : Comp → Bool
    | .leaf _ _ => false
    | .block cs => cs.hasLoop
    | .loop _ _ => true
    | .branch _ t e he => t.hasLoop || (he && e.hasLoop)
    | .scope _ => false
    | .scopeW _ _ _ _ => false
  def Comps.hasLoop : Comps → Bool
    | .nil => false
    | .cons c cs => c.hasLoop || cs.hasLoop
end

def Op.sat (A : Act → Bool) (L : Bool) : Op → Bool
  | .prim ev acts => ev.1 != .ceval && acts.all A
  | .counter0 => L
  | .bump => L
  | .merge _ mg => mg.isEmpty

/-- Every atomic statement satisfies `φ`, every tested condition satisfies `C`. -/
def Stmt.all (φ : Op → Bool) (C : Cond → Bool) : Stmt → Bool
  | .skip => true
  | .atom o => φ o
  | .seq a b => a.all φ C && b.all φ C
  | .loop c b => C c && b.all φ C
  | .ite c t e => C c && t.all φ C && e.all φ C
  | .inScope b => b.all φ C

/-- `Passes cond body n σ σ'`: starting in `σ` the test succeeds and the body completes `n` times
in a row, then the test fails, leaving `σ'` — i.e. `n` passes and `n + 1` tests. -/
inductive Passes (cond : St → St × CRes) (body : St → St × Res) : Nat → St → St → Prop where
  | done {σ σ' : St} : cond σ = (σ', .val false) → Passes cond body 0 σ σ'
  | pass {n : Nat} {σ σ1 σ2 σ' : St} : cond σ = (σ1, .val true) → body σ1 = (σ2, .ok) →
      Passes cond body n σ2 σ' → Passes cond body (n + 1) σ σ'

mutual
  def Comps.append : Comps → Comps → Comps
    | .nil, ds => ds
    | .cons c cs, ds => .cons c (cs.append ds)
end

/-! ### Static event lists (what `init` / `require` visit, in pre-order) -/

mutual
  def condEvents (ph : Phase) : Cond → List Ev
    | .leaf id => [(ph, id)]
    | .all cs => condsEvents ph cs
    | .any cs => condsEvents ph cs
    | .not c => condEvents ph c
  def condsEvents (ph : Phase) : Conds → List Ev
    | .nil => []
    | .cons c cs => condEvents ph c ++ condsEvents ph cs
end

mutual
  /-- Events of the `init` (`cph = cinit`, `ph = init`) or `require` pass over a tree:
  every node outside any scope, once, in pre-order. -/
  def phaseEvents (ph cph : Phase) : Comp → List Ev
    | .leaf id _ => [(ph, id)]
    | .block cs => phaseEventss ph cph cs
    | .loop c b => condEvents cph c ++ phaseEvents ph cph b
    | .branch c t e he => condEvents cph c ++ phaseEvents ph cph t ++ (if he then phaseEvents ph cph e else [])
    | .scope _ => []
    | .scopeW _ _ _ _ => []
  def phaseEventss (ph cph : Phase) : Comps → List Ev
    | .nil => []
    | .cons c cs => phaseEvents ph cph c ++ phaseEventss ph cph cs
end

def initEvents (c : Comp) : List Ev := phaseEvents .init .cinit c
def reqEvents (c : Comp) : List Ev := phaseEvents .req .creq c

/-! ### Well-formedness used by the generator: every loop condition is false once the script is
exhausted, so every loop terminates in the real code. -/

mutual
  def condDefault (s : Script) : Cond → Bool
    | .leaf id => s.default id
    | .all cs => condsDefault s true cs
    | .any cs => condsDefault s false cs
    | .not c => !condDefault s c
  /-- `isAll = true`: conjunction, else disjunction. -/
  def condsDefault (s : Script) (isAll : Bool) : Conds → Bool
    | .nil => isAll
    | .cons c cs => if isAll then condDefault s c && condsDefault s isAll cs else condDefault s c || condsDefault s isAll cs
end

mutual
  def loopsStop (s : Script) : Comp → Bool
    | .leaf _ _ => true
    | .block cs => loopsStops s cs
    | .loop c b => !condDefault s c && loopsStop s b
    | .branch _ t e he => loopsStop s t && (!he || loopsStop s e)
    | .scope b => loopsStop s b
    | .scopeW _ _ _ b => loopsStop s b
  def loopsStops (s : Script) : Comps → Bool
    | .nil => true
    | .cons c cs => loopsStop s c && loopsStops s cs
end

/-! ### Wire format (DESIGN Appendix C, domain `cfg`) -/
open MahfModel Sexp

def Phase.parse? : Sexp → Option Phase
  | .atom "init" => some .init | .atom "req" => some .req | .atom "exec" => some .exec
  | .atom "cinit" => some .cinit | .atom "creq" => some .creq | .atom "ceval" => some .ceval
  | _ => none

def Phase.name : Phase → String
  | .init => "init" | .req => "req" | .exec => "exec"
  | .cinit => "cinit" | .creq => "creq" | .ceval => "ceval"

def Act.parse? : Sexp → Option Act
  | .list [.atom "ins", p, k, v] => do pure (.ins (← Phase.parse? p) (← nat? k) (← nat? v))
  | .list [.atom "set", p, k, v] => do pure (.set (← Phase.parse? p) (← nat? k) (← nat? v))
  | .list [.atom "rem", p, k] => do pure (.rem (← Phase.parse? p) (← nat? k))
  | .list [.atom "need", k] => do pure (.need (← nat? k))
  | _ => none

/-- `C ∈ (c id) (and C*) (or C*) (not C)`; `fuel` bounds the nesting depth. -/
def parseCond : Nat → Sexp → Option Cond
  | 0, _ => none
  | n + 1, x =>
    let conds (xs : List Sexp) : Option Conds :=
      xs.foldr (fun x acc => do pure (Conds.cons (← parseCond n x) (← acc))) (some Conds.nil)
    match x with
    | .list [.atom "c", id] => (nat? id).map Cond.leaf
    | .list (.atom "and" :: xs) => (conds xs).map Cond.all
    | .list (.atom "or" :: xs) => (conds xs).map Cond.any
    | .list [.atom "not", c] => (parseCond n c).map Cond.not
    | _ => none

/-- `T ∈ (leaf id act*) (blk T*) (while C T) (if C T) (ifelse C T T) (scope T)
(scopew id (sinit act*) (merge (mv a b)*) T)`. -/
def parseComp : Nat → Sexp → Option Comp
  | 0, _ => none
  | n + 1, x =>
    let comps (xs : List Sexp) : Option Comps :=
      xs.foldr (fun x acc => do pure (Comps.cons (← parseComp n x) (← acc))) (some Comps.nil)
    match x with
    | .list (.atom "leaf" :: id :: acts) => do pure (.leaf (← nat? id) (← acts.mapM Act.parse?))
    | .list (.atom "blk" :: xs) => (comps xs).map Comp.block
    | .list [.atom "while", c, t] => do pure (.loop (← parseCond 64 c) (← parseComp n t))
    | .list [.atom "if", c, t] => do pure (.branch (← parseCond 64 c) (← parseComp n t) (.block .nil) false)
    | .list [.atom "ifelse", c, t, e] => do
      pure (.branch (← parseCond 64 c) (← parseComp n t) (← parseComp n e) true)
    | .list [.atom "scope", t] => (parseComp n t).map Comp.scope
    | .list [.atom "scopew", id, .list (.atom "sinit" :: si), .list (.atom "merge" :: mg), t] => do
      let mv (x : Sexp) : Option (Nat × Nat) := match x with
        | .list [.atom "mv", a, b] => do pure (← nat? a, ← nat? b)
        | _ => none
      pure (.scopeW (← nat? id) (← si.mapM Act.parse?) (← mg.mapM mv) (← parseComp n t))
    | _ => none

/-- `(script (cond id default b*)* (fail phase id occ)*)` -/
def parseScript (xs : List Sexp) : Option Script :=
  xs.foldr (fun x acc => do
    let s ← acc
    match x with
    | .list (.atom "cond" :: id :: d :: bs) =>
      pure { s with conds := (← nat? id, ← bool? d, ← bs.mapM bool?) :: s.conds }
    | .list [.atom "fail", p, id, occ] =>
      pure { s with fails := (← Phase.parse? p, ← nat? id, ← nat? occ) :: s.fails }
    | _ => none) (some { conds := [], fails := [] })

/-- `(pre op*)`, `op ∈ (ins K V) (push)`: the prepared caller state. -/
def parsePre (xs : List Sexp) : Option Reg :=
  xs.foldl (fun acc x => do
    let r ← acc
    match x with
    | .list [.atom "ins", k, v] => pure (r.insert (← nat? k) (← nat? v))
    | .list [.atom "push"] => pure ([] :: r)
    | _ => none) (some [[]])

def insertSorted (e : Nat × Nat) : List (Nat × Nat) → List (Nat × Nat)
  | [] => [e]
  | x :: xs => if e.1 ≤ x.1 then e :: x :: xs else x :: insertSorted e xs

def Scope.sorted (m : Scope) : Scope := m.foldr insertSorted []

def Res.toSexp : Res → Sexp
  | .ok => .atom "ok"
  | .err ph id => .list [.atom "err", .atom ph.name, ofNat id]
  | .counter => .atom "counter"
  | .fuel => .atom "timeout"

mutual
  def Cond.shape : Cond → Sexp
    | .leaf id => .list [.atom "c", ofNat id]
    | .all cs => .list (.atom "and" :: cs.shapes)
    | .any cs => .list (.atom "or" :: cs.shapes)
    | .not c => .list [.atom "not", c.shape]
  def Conds.shapes : Conds → List Sexp
    | .nil => []
    | .cons c cs => c.shape :: cs.shapes
end

mutual
  /-- The tree in wire form, without leaf actions: what `do_/while_/if_/if_else_/scope_/build`
  (or the constructors) must have built. -/
  def Comp.shape : Comp → Sexp
    | .leaf id _ => .list [.atom "leaf", ofNat id]
    | .block cs => .list (.atom "blk" :: cs.shapes)
    | .loop c b => .list [.atom "while", c.shape, b.shape]
    | .branch c t e he =>
      if he then .list [.atom "ifelse", c.shape, t.shape, e.shape] else .list [.atom "if", c.shape, t.shape]
    | .scope b => .list [.atom "scope", b.shape]
    | .scopeW _ _ _ b => .list [.atom "scope", b.shape]   -- the hooks are `#[serde(skip)]`
  def Comps.shapes : Comps → List Sexp
    | .nil => []
    | .cons c cs => c.shape :: cs.shapes
end

/-- `lost`: the caller never gets the state back (`optimize_with` returned `Err`). -/
def outSexp (c : Comp) (σ : St) (r : Res) (lost : Bool := false) : Sexp :=
  .list [ .list (.atom "trace" :: σ.trace.map fun e => .list [.atom e.1.name, ofNat e.2]),
          .list [.atom "res", r.toSexp],
          (if lost then .list [.atom "depth", .atom "-"] else .list [.atom "depth", ofNat σ.reg.length]),
          (if lost then .list [.atom "dump", .atom "-"] else
            .list (.atom "dump" :: σ.reg.map fun m => .list (m.sorted.map fun e => .list [ofNat e.1, ofNat e.2]))),
          .list [.atom "built", c.shape] ]

structure Case where
  comp : Comp
  script : Script
  pre : Reg
  fuel : Nat
  /-- how the harness builds and runs the tree: `run` (builder / constructors, `Configuration::run`),
  `alt` (the other public construction paths, a clone of the configuration is run), `opt`
  (`Configuration::optimize_with`: the final state is only returned on `Ok`) -/
  via : String := "run"

def parseCase3 (t : Sexp) (sc pre : List Sexp) (via : String) : Option Case := do
  let comp ← parseComp 256 t
  let script ← parseScript sc
  let pre ← parsePre pre
  -- one loop execution makes at most (number of scripted values) passes
  let fuel := (script.conds.map fun e => e.2.2.length).foldl (· + ·) 2
  pure { comp, script, pre, fuel, via }

/-- Input `((tree T) (script …) (pre …))` or `((tree T) (script …) (pre …) (via run|alt|opt))`. -/
def parseCase : Sexp → Option Case
  | .list [.list [.atom "tree", t], .list (.atom "script" :: sc), .list (.atom "pre" :: pre)] =>
    parseCase3 t sc pre "run"
  | .list [.list [.atom "tree", t], .list (.atom "script" :: sc), .list (.atom "pre" :: pre),
      .list [.atom "via", .atom v]] => parseCase3 t sc pre v
  | _ => none

def illFormed : Sexp := .list [.list [.atom "res", .atom "illformed"]]

/-- Code-shaped model output and structured-program output for one case. -/
def handleCase (input : Sexp) : Option (Sexp × Sexp × Case) := do
  let c ← parseCase input
  if !loopsStop c.script c.comp then pure (illFormed, illFormed, c)
  else
    let σ0 : St := { reg := c.pre, tr := [] }
    let (σm, rm) := run c.script c.fuel c.comp σ0
    let (σs, rs) := srun c.script c.fuel (prog c.comp) σ0
    pure (outSexp c.comp σm rm (c.via == "opt" && rm != .ok), outSexp c.comp σs rs (c.via == "opt" && rs != .ok), c)

end MahfModel.Config
