/-
C15 — model of the configuration export at the level where it can go wrong: the *leaves* of a
serialised component tree.

* `Ty`: a Rust type name as `std::any::type_name::<T>()` prints it — a path followed by its generic
  arguments, `path<arg,arg>`; `Ty.render` is that string (as characters).
  `SerializablePhantom<T>` (inside `IdLens<T>`, `ValueOf<T>`, `NormalizedDiversityLens<I>`;
  src/utils.rs) and `PhantomId<I>` (src/identifier.rs) write exactly this string.
* `Param`: what a serialised node carries besides its children — a parameter value, a type name
  written in full (`ty`), or a type parameter held as plain `PhantomData<I>` (`ph`), for which the
  derived `Serialize` writes the unit struct `PhantomData` and NOT the name (the six components of
  src/components/mutation/common.rs).
* `serFull`: the serialisation with every leaf carrying its full type name (the specification);
  `serCode`: what the code writes (`ph` parameters are dropped).
* the wire format of the `cfg pair` cases, and `readItem`: the generic reader turning the output of
  the harness's name-preserving serde traversal (`hcommon::sertree`, every struct / variant / field
  name kept) back into a tree of named nodes with parameter values and children.
-/
import MahfModel.Model.Log
namespace MahfModel.Log

/-- The characters that delimit generic arguments in a type name. -/
def isDelim (c : Char) : Bool := c == '<' || c == '>' || c == ','

/-- A path such as `mahf::state::common::Iterations`: any characters except `<`, `>`, `,`. -/
structure Seg where
  chars : List Char
  ok : chars.all (fun c => !isDelim c) = true

instance : DecidableEq Seg := fun a b =>
  if h : a.chars = b.chars then isTrue (by cases a; cases b; simp_all) else isFalse (fun e => h (by rw [e]))

def Seg.ofString? (s : String) : Option Seg :=
  if h : s.toList.all (fun c => !isDelim c) = true then some ⟨s.toList, h⟩ else none

mutual
  /-- A type name: path and generic arguments. -/
  inductive Ty where
    | mk (path : Seg) (args : Tys)
  inductive Tys where
    | nil
    | cons (t : Ty) (ts : Tys)
end

mutual
  /-- `type_name`: `path`, or `path<a1,…,an>`. -/
  def Ty.render : Ty → List Char
    | .mk p .nil => p.chars
    | .mk p (.cons t ts) => p.chars ++ '<' :: (t.render ++ Tys.renderRest ts)
  /-- the remaining arguments, each preceded by `,`, then the closing `>`. -/
  def Tys.renderRest : Tys → List Char
    | .nil => ['>']
    | .cons t ts => ',' :: (t.render ++ Tys.renderRest ts)
end

/-- The shortened name a "readable" export would write: generic arguments cut off, module path
stripped (`mahf::components::mutation::MutationRate<…>` ↦ `MutationRate`). NOT injective. -/
def Ty.base : Ty → List Char
  | .mk p _ => (p.chars.reverse.takeWhile (fun c => c != ':')).reverse

inductive Param where
  | val (s : String)     -- a parameter value as exported (digits, `x` + IEEE bits, …)
  | ty (t : Ty)          -- a type name written in full (`SerializablePhantom<T>`, `PhantomId<I>`)
  | ph (t : Ty)          -- a type parameter held as plain `PhantomData<I>`: exported as `PhantomData`

/-- Leaf tokens of the serialisation. -/
inductive PTok where
  | val (s : String) | name (cs : List Char) | hidden (cs : List Char)
  deriving DecidableEq, Repr

/-- Every leaf carries its full type name. -/
def encFull : Param → PTok
  | .val s => .val s
  | .ty t => .name t.render
  | .ph t => .hidden t.render

def Param.isPh : Param → Bool
  | .ph _ => true
  | _ => false

mutual
  /-- What the derived `Serialize` sees: a `PhantomData<I>` field has no content. -/
  def erasePh : CTree String Param → CTree String Param
    | .node a ps kids => .node a (ps.filter (fun p => !p.isPh)) (erasePhF kids)
  def erasePhF : CForest String Param → CForest String Param
    | .nil => .nil
    | .cons t ts => .cons (erasePh t) (erasePhF ts)
end

mutual
  def noPh : CTree String Param → Bool
    | .node _ ps kids => ps.all (fun p => !p.isPh) && noPhF kids
  def noPhF : CForest String Param → Bool
    | .nil => true
    | .cons t ts => noPh t && noPhF ts
end

/-- The serialisation with full type names in every leaf (specification). -/
def serFull (t : CTree String Param) : List (Tok String PTok) := ser id encFull t
/-- The serialisation the code produces. -/
def serCode (t : CTree String Param) : List (Tok String PTok) := ser id encFull (erasePh t)

/-- Do two descriptions denote the same configuration? (Decided through `serFull`, which is
injective: `Props.C15.ser_full_injective`.) -/
def sameConfig (a b : CTree String Param) : Bool := decide (serFull a = serFull b)

/-- The verdicts of one `cfg pair` case: both serialise, the three serialisers' equal/unequal
verdicts (`jsonEq = none`: JSON carries no struct names, not applicable to this kind of pair), a
clone serialises identically. -/
structure PairVerdict where
  aOk : Bool
  bOk : Bool
  ronEq : Bool
  treeEq : Bool
  jsonEq : Option Bool
  cloneEq : Bool
  deriving DecidableEq, Repr

/-- The code-shaped prediction. -/
def pairModel (jsonRelevant : Bool) (a b : CTree String Param) : PairVerdict :=
  let eq := decide (serCode a = serCode b)
  { aOk := true, bOk := true, ronEq := eq, treeEq := eq, jsonEq := if jsonRelevant then some eq else none, cloneEq := true }

/-- The property's predicate on the verdicts: every configuration serialises, a clone serialises
identically, and the exports are equal exactly when the configurations are the same. -/
def pairHolds (a b : CTree String Param) (v : PairVerdict) : Bool :=
  let same := sameConfig a b
  v.aOk && v.bOk && v.cloneEq && (v.ronEq == same) && (v.treeEq == same) &&
    (match v.jsonEq with | some j => j == same | none => true)

/-! ### Wire format -/
open MahfModel Sexp

mutual
  def Ty.parse? : Sexp → Option Ty
    | .list (.atom "ty" :: .atom path :: args) => do
        let p ← Seg.ofString? path
        let as ← Tys.parseList? args
        pure (.mk p as)
    | _ => none
  def Tys.parseList? : List Sexp → Option Tys
    | [] => some .nil
    | x :: xs => do
        let t ← Ty.parse? x; let ts ← Tys.parseList? xs; pure (.cons t ts)
end

def Param.parse? : Sexp → Option Param
  | .atom s => some (.val s)
  | .list [.atom "ph", t] => (Ty.parse? t).map .ph
  | t => (Ty.parse? t).map .ty

mutual
  def PTree.parse? : Sexp → Option (CTree String Param)
    | .list (.atom "n" :: .atom name :: .list (.atom "p" :: ps) :: kids) => do
        let ps ← ps.mapM Param.parse?
        let ks ← PForest.parseList? kids
        pure (.node name ps ks)
    | _ => none
  def PForest.parseList? : List Sexp → Option (CForest String Param)
    | [] => some .nil
    | x :: xs => do
        let t ← PTree.parse? x; let ts ← PForest.parseList? xs; pure (.cons t ts)
end

/-- A parameter as the export shows it (`none`: nothing is written). -/
def Param.shown : Param → Option String
  | .val s => some s
  | .ty t => some (String.ofList t.render)
  | .ph _ => none

def insertStr (s : String) : List String → List String
  | [] => [s]
  | q :: qs => if s ≤ q then s :: q :: qs else q :: insertStr s qs
/-- The parameter values of one node as a multiset: which field of a struct is written first is
representation (the exports attribute values by field name), the children keep their order. -/
def sortStrs (l : List String) : List String := l.foldr insertStr []

mutual
  /-- The tree of names, parameter values and children the code's export denotes. -/
  def shownTree : CTree String Param → Sexp
    | .node a ps kids => .list (.atom "n" :: .atom a :: .list (.atom "p" :: (sortStrs (ps.filterMap Param.shown)).map .atom) :: shownForest kids)
  def shownForest : CForest String Param → List Sexp
    | .nil => []
    | .cons t ts => shownTree t :: shownForest ts
end

/-- One item read back from the name-preserving traversal: a parameter value or a child node. -/
inductive RbItem where
  | par (s : String)
  | kid (t : Sexp)

def rbNode (name : String) (items : List RbItem) : Sexp :=
  .list (.atom "n" :: .atom name ::
    .list (.atom "p" :: (sortStrs (items.filterMap (fun i => match i with | .par s => some s | .kid _ => none))).map .atom) ::
    items.filterMap (fun i => match i with | .kid t => some t | .par _ => none))

mutual
  /-- Generic reader of `hcommon::sertree` output: `(S Name (field v)…)`, `(N Name v)`, `(T Name v…)`,
  `(U Name)`, `(seq v…)`, `(str s)`, `none`, `(some v)`, scalars. Structs, sequences and `none`
  become nodes; scalars and strings become parameter values of the enclosing node; field names are
  representation and are dropped, the order is kept. Anything else becomes the node `?`. -/
  def readItem : Sexp → RbItem
    | .atom "none" => .kid (rbNode "none" [])
    | .atom a => .par a
    | .list [.atom "str", .atom s] => .par s
    | .list [.atom "some", v] => readItem v
    | .list (.atom "seq" :: vs) => .kid (rbNode "seq" (readItems vs))
    | .list (.atom "tuple" :: vs) => .kid (rbNode "tuple" (readItems vs))
    | .list [.atom "U", .atom name] => .kid (rbNode name [])
    | .list [.atom "N", .atom name, v] => .kid (rbNode name [readItem v])
    | .list (.atom "T" :: .atom name :: vs) => .kid (rbNode name (readItems vs))
    | .list (.atom "S" :: .atom name :: fields) => .kid (rbNode name (readFields fields))
    | _ => .kid (rbNode "?" [])
  def readItems : List Sexp → List RbItem
    | [] => []
    | v :: vs => readItem v :: readItems vs
  def readFields : List Sexp → List RbItem
    | [] => []
    | .list [_, v] :: fs => readItem v :: readFields fs
    | _ :: fs => .kid (rbNode "?" []) :: readFields fs
end

/-- The export read back as a tree (`(err)` if the configuration did not serialise). -/
def readback (x : Sexp) : Sexp :=
  match x with
  | .atom _ => x
  | _ => match readItem x with
    | .kid t => t
    | .par s => .atom s

def verdictSexp (v : PairVerdict) : List Sexp :=
  [.list [.atom "a", .atom (if v.aOk then "ok" else "err")], .list [.atom "b", .atom (if v.bOk then "ok" else "err")],
   .list [.atom "ron-eq", ofBool v.ronEq], .list [.atom "tree-eq", ofBool v.treeEq],
   .list [.atom "json-eq", match v.jsonEq with | some b => ofBool b | none => .atom "-"],
   .list [.atom "clone-eq", ofBool v.cloneEq]]

def parseVerdict : List Sexp → Option PairVerdict
  | [.list [.atom "a", .atom a], .list [.atom "b", .atom b], .list [.atom "ron-eq", r], .list [.atom "tree-eq", t],
     .list [.atom "json-eq", j], .list [.atom "clone-eq", c]] => do
      let r ← bool? r; let t ← bool? t; let c ← bool? c
      let j ← (match j with | .atom "-" => some none | x => (bool? x).map some)
      pure { aOk := a == "ok", bOk := b == "ok", ronEq := r, treeEq := t, jsonEq := j, cloneEq := c }
  | _ => none

/-- Kinds of pair for which JSON (which carries no struct names) has to tell the two apart. -/
def jsonRelevantKind (kind : String) : Bool :=
  kind == "same" || kind == "param" || kind.startsWith "typaram"

/-- Site `cfg-pair*`: input `(cfg pair KIND A B)`, output
`(pair (a ok) (b ok) (ron-eq _) (tree-eq _) (json-eq _) (clone-eq _) (ta TREE) (tb TREE) (ra TREE) (rb TREE))`
where `ta`/`tb` are the name-preserving traversal of the real component tree and `ra`/`rb` the RON text
that `Configuration::to_ron` left behind (at a path that held junk / the export of `a` before), read
back as a whole by the harness's RON reader into the same generic form. -/
def handlePair (input implOut : Sexp) : Option CaseResult := do
  match input with
  | .list [.atom "cfg", .atom "pair", .atom kind, a, b] =>
    let ta ← PTree.parse? a
    let tb ← PTree.parse? b
    -- the declared kind must be what the two descriptions really are
    if (kind == "same") != sameConfig ta tb then none
    else
      let jr := jsonRelevantKind kind
      let mv := pairModel jr ta tb
      let model := Sexp.list (.atom "pair" :: (verdictSexp mv ++
        [.list [.atom "ta", shownTree ta], .list [.atom "tb", shownTree tb],
         .list [.atom "ra", shownTree ta], .list [.atom "rb", shownTree tb]]))
      match implOut with
      | .list (.atom "pair" :: rest) =>
        (match rest.take 6, rest.drop 6 with
         | vs, [.list [.atom "ta", xa], .list [.atom "tb", xb], .list [.atom "ra", ya], .list [.atom "rb", yb]] =>
           (match parseVerdict vs with
            | some v =>
              let namesOk := Sexp.beq (readback xa) (shownTree ta) && Sexp.beq (readback xb) (shownTree tb)
              -- the text `Configuration::to_ron` left at a path that held something else before, read back as a whole
              let ronOk := Sexp.beq (readback ya) (shownTree ta) && Sexp.beq (readback yb) (shownTree tb)
              let holds := pairHolds ta tb v && namesOk && ronOk
              let same := sameConfig ta tb
              let cls := if holds then "-"
                else if !(v.aOk && v.bOk) then "ser-err"
                else if namesOk && !ronOk then "ron-readback"
                else if !v.cloneEq then "clone-differs"
                else if !same && (v.ronEq || v.treeEq || v.jsonEq == some true) then "collision"
                else if same && !(v.ronEq && v.treeEq && v.jsonEq != some false) then "spurious-difference"
                else "names"
              pure { model, holds, cls }
            | none => pure { model, holds := false, cls := "wrong-value" })
         | _, _ => pure { model, holds := false, cls := "wrong-value" })
      | _ => pure { model, holds := false, cls := "wrong-value" }
  | _ => none

/-- Canonical form for the model ⇄ implementation comparison of a pair case: the traversal output
is replaced by the tree read back from it. -/
def canonPair : Sexp → Sexp
  | .list (.atom "pair" :: rest) =>
    .list (.atom "pair" :: rest.map fun x => match x with
      | .list [.atom "ta", t] => .list [.atom "ta", readback t]
      | .list [.atom "tb", t] => .list [.atom "tb", readback t]
      | .list [.atom "ra", t] => .list [.atom "ra", readback t]
      | .list [.atom "rb", t] => .list [.atom "rb", readback t]
      | y => y)
  | other => other

def handleConfigX (input implOut : Sexp) : Option CaseResult :=
  match input with
  | .list (.atom "cfg" :: .atom "pair" :: _) => handlePair input implOut
  | _ => handleConfig input implOut

end MahfModel.Log
