/-
C06 on the template level, part two — WHICH evaluator a template applies.

Every evaluation-performing component takes an evaluator identifier `I` as a type parameter and applies
the evaluator registered as `Evaluator<P, I>` (`PopulationEvaluator<I>` = builder steps `.evaluate()` for
`I = Global` / `.evaluate_with::<I>()`; `FireflyPositionsUpdate<I>` evaluates moved fireflies itself).
The generic loop functions `heuristics::xx::xx::<P, I>` promise to use the identifier they are
instantiated with.  After fix b8ffb7b the identifier is part of the component's own serialisation
(`PhantomId<I>` writes `(T Id (str <type name of I>))`), so the tree re-extracted from the code carries it.

* `IComp` — the component tree of `Model/Templates.lean` whose leaves additionally carry the identifier
  found in their serialised form (`none`: the component has none).
* `usesOnly w` — the checker: every evaluation-performing leaf names identifier `w`, and every leaf is known.
* `execI` / `runI` — abstract interpreter of `Configuration::run` as far as evaluators are concerned:
  `require` (every `PopulationEvaluator<I>` outside nested scopes demands `Evaluator<P, I>`; a `Scope`
  checks its body when it is executed), then `execute`, logging which evaluator every evaluation step
  applied; a step whose evaluator is not registered fails.
Soundness of the checker for every execution of the interpreter is proved in `Proofs/TemplatesId.lean`.
-/
import MahfModel.Model.TemplatesEval
namespace MahfModel.Tpl
open MahfModel Sexp

/-- Evaluator identifiers (`mahf::identifier`); any other type is `.other`. -/
inductive EvId where
  | Global | A | B | C | D | E | other
  deriving DecidableEq, Repr, Inhabited

/-- The identifier from `std::any::type_name::<I>()` as `PhantomId<I>` serialises it. Matching the whole
path: if the spelling ever changes every identifier becomes `.other` and every obligation fails loudly. -/
def EvId.ofTypeName : String → EvId
  | "mahf::identifier::inner::Global" => .Global
  | "mahf::identifier::inner::A" => .A
  | "mahf::identifier::inner::B" => .B
  | "mahf::identifier::inner::C" => .C
  | "mahf::identifier::inner::D" => .D
  | "mahf::identifier::inner::E" => .E
  | _ => .other

def EvId.ctorName : EvId → String
  | .Global => "Global" | .A => "A" | .B => "B" | .C => "C" | .D => "D" | .E => "E" | .other => "other"

mutual
  inductive IComp where
    | leaf (k : LeafKind) (id : Option EvId)
    | seq (cs : IComps)
    | loop (body : IComp)
    | branch (thn : IComp) (els : IComp)
    | scope (body : IComp)
  inductive IComps where
    | nil
    | cons (c : IComp) (cs : IComps)
end

/-- The evaluator a leaf applies: the identifier it names; a component that names none (or one the
translator does not know) applies some evaluator other than the named ones. -/
def evaluatorOf (id : Option EvId) : EvId := id.getD .other

/-- components whose `require` demands `Evaluator<P, I>` for their identifier -/
def requiresEvaluator : LeafKind → Bool
  | .PopulationEvaluator => true
  | _ => false

mutual
  /-- THE CHECKER: every evaluation-performing leaf (`callsObjective`) names identifier `w`; no leaf is unknown. -/
  def usesOnly (w : EvId) : IComp → Bool
    | .leaf k id => k != .opaque && (!callsObjective k || id == some w)
    | .seq cs => usesOnlys w cs
    | .loop b => usesOnly w b
    | .branch t e => usesOnly w t && usesOnly w e
    | .scope b => usesOnly w b
  def usesOnlys (w : EvId) : IComps → Bool
    | .nil => true
    | .cons c cs => usesOnly w c && usesOnlys w cs
end

mutual
  /-- the evaluator identifiers `require` of this tree demands (a `Scope` forwards neither `init` nor
  `require`; it checks its body when it is executed) -/
  def requiredIds : IComp → List EvId
    | .leaf k id => if requiresEvaluator k then [evaluatorOf id] else []
    | .seq cs => requiredIdss cs
    | .loop b => requiredIds b
    | .branch t e => requiredIds t ++ requiredIds e
    | .scope _ => []
  def requiredIdss : IComps → List EvId
    | .nil => []
    | .cons c cs => requiredIds c ++ requiredIdss cs
end

/-- `component.require(problem, &state.requirements())` as far as evaluators are concerned. -/
def requireOk (reg : List EvId) (c : IComp) : Bool := (requiredIds c).all reg.contains

/-- What the per-template theorems evaluate: the tree demands at least one evaluator before it runs
(so that a missing one is noticed before anything executes) and uses only `w`. -/
def usesOnlyTop (w : EvId) (c : IComp) : Bool := !(requiredIds c).isEmpty && usesOnly w c

/-! ### Abstract interpreter -/

structure IOracle where
  cond : Nat → Bool
  fails : Nat → Bool
  /-- how many individuals the evaluating component at this tick evaluates -/
  calls : Nat → Nat
  /-- which evaluator an unknown component applies -/
  opaqueId : Nat → EvId

structure ISt where
  /-- every application of an evaluator so far: (identifier it is registered under, individuals evaluated) -/
  log : List (EvId × Nat)
  tick : Nat

mutual
  def execI (reg : List EvId) (o : IOracle) : Nat → IComp → ISt → Option ISt
    | 0, _, _ => none
    | fuel + 1, c, s =>
      match c with
      | .leaf k id =>
        if o.fails s.tick then none
        else if k == .opaque then
          some { log := s.log ++ [(o.opaqueId s.tick, o.calls s.tick)], tick := s.tick + 1 }
        else if callsObjective k then
          -- `state.holding::<Evaluator<P, I>>(…)`: `Err` if it is not registered
          if reg.contains (evaluatorOf id) then
            some { log := s.log ++ [(evaluatorOf id, o.calls s.tick)], tick := s.tick + 1 }
          else none
        else some { s with tick := s.tick + 1 }
      | .seq cs => execsI reg o fuel cs s
      | .loop b => loopI reg o fuel b s
      | .branch t e =>
        let s' := { s with tick := s.tick + 1 }
        if o.cond s.tick then execI reg o fuel t s' else execI reg o fuel e s'
      | .scope b =>
        -- evaluators are looked up through the parent scopes; `require` of the body runs now
        if requireOk reg b then execI reg o fuel b s else none
  def execsI (reg : List EvId) (o : IOracle) : Nat → IComps → ISt → Option ISt
    | 0, _, _ => none
    | fuel + 1, cs, s =>
      match cs with
      | .nil => some s
      | .cons c rest =>
        match execI reg o fuel c s with
        | none => none
        | some s' => execsI reg o fuel rest s'
  def loopI (reg : List EvId) (o : IOracle) : Nat → IComp → ISt → Option ISt
    | 0, _, _ => none
    | fuel + 1, b, s =>
      let s0 := { s with tick := s.tick + 1 }
      if o.cond s.tick then
        match execI reg o fuel b s0 with
        | none => none
        | some s1 => loopI reg o fuel b s1
      else some s0
end

inductive IRun where
  /-- `require` failed: nothing was executed -/
  | requireFailed
  /-- a component failed, or the fuel ran out -/
  | failed
  | done (s : ISt)

/-- `Configuration::run` on a state in which exactly the evaluators `reg` are registered. -/
def runI (reg : List EvId) (o : IOracle) (fuel : Nat) (c : IComp) : IRun :=
  if requireOk reg c then
    match execI reg o fuel c { log := [], tick := 0 } with
    | none => .failed
    | some s => .done s
  else .requireFailed

/-! ### Translation from the serialised tree (`harness/src/sertree.rs`) -/

/-- `(T Id (str NAME))`, directly among a leaf's items (newtype struct) or as the value of a field. -/
def idOf? : List Sexp → Option EvId
  | [] => none
  | .list [.atom "T", .atom "Id", .list [.atom "str", .atom n]] :: _ => some (EvId.ofTypeName n)
  | .list [.atom _, .list [.atom "T", .atom "Id", .list [.atom "str", .atom n]]] :: _ => some (EvId.ofTypeName n)
  | _ :: rest => idOf? rest

mutual
  def IComp.ofSexp : Nat → Sexp → IComp
    | 0, _ => .leaf .opaque none
    | fuel + 1, s =>
      match s with
      | .list (.atom "seq" :: xs) => .seq (IComps.ofSexps fuel xs)
      | .list (.atom "S" :: .atom "Loop" :: fields) =>
        match field? "do" fields with
        | some b => .loop (IComp.ofSexp fuel b)
        | none => .leaf .opaque none
      | .list (.atom "S" :: .atom "Branch" :: fields) =>
        match field? "if_body" fields, field? "else_body" fields with
        | some t, some (.atom "none") => .branch (IComp.ofSexp fuel t) (.seq .nil)
        | some t, some (.list [.atom "some", e]) => .branch (IComp.ofSexp fuel t) (IComp.ofSexp fuel e)
        | _, _ => .leaf .opaque none
      | .list (.atom "S" :: .atom "Scope" :: fields) =>
        match field? "body" fields with
        | some b => .scope (IComp.ofSexp fuel b)
        | none => .leaf .opaque none
      | .list (.atom "S" :: .atom name :: items) => .leaf (LeafKind.ofName name) (idOf? items)
      | .list (.atom "N" :: .atom name :: items) => .leaf (LeafKind.ofName name) (idOf? items)
      | .list (.atom "U" :: .atom name :: _) => .leaf (LeafKind.ofName name) none
      | .list (.atom "T" :: .atom name :: items) => .leaf (LeafKind.ofName name) (idOf? items)
      | _ => .leaf .opaque none
  def IComps.ofSexps : Nat → List Sexp → IComps
    | 0, _ => .cons (.leaf .opaque none) .nil
    | _ + 1, [] => .nil
    | fuel + 1, x :: xs => .cons (IComp.ofSexp fuel x) (IComps.ofSexps fuel xs)
end

mutual
  /-- Lean source of a tree (for `Generated/TemplatesGenericA.lean`). -/
  def IComp.toLean : IComp → String
    | .leaf k none => s!"(.leaf .{k.ctorName} none)"
    | .leaf k (some i) => s!"(.leaf .{k.ctorName} (some .{i.ctorName}))"
    | .seq cs => s!"(.seq {IComps.toLeans cs})"
    | .loop b => s!"(.loop {IComp.toLean b})"
    | .branch t e => s!"(.branch {IComp.toLean t} {IComp.toLean e})"
    | .scope b => s!"(.scope {IComp.toLean b})"
  def IComps.toLeans : IComps → String
    | .nil => ".nil"
    | .cons c cs => s!"(.cons {IComp.toLean c} {IComps.toLeans cs})"
end

mutual
  /-- Forgetting the identifiers gives the tree of `Model/Templates.lean`. -/
  def IComp.erase : IComp → Comp
    | .leaf k _ => .leaf k
    | .seq cs => .seq (IComps.erases cs)
    | .loop b => .loop (IComp.erase b)
    | .branch t e => .branch (IComp.erase t) (IComp.erase e)
    | .scope b => .scope (IComp.erase b)
  def IComps.erases : IComps → Comps
    | .nil => .nil
    | .cons c cs => .cons (IComp.erase c) (IComps.erases cs)
end

mutual
  /-- the identifiers named by the evaluation-performing leaves, in tree order (for reports) -/
  def evaluatorIds : IComp → List EvId
    | .leaf k id => if callsObjective k then [evaluatorOf id] else []
    | .seq cs => evaluatorIdss cs
    | .loop b => evaluatorIds b
    | .branch t e => evaluatorIds t ++ evaluatorIds e
    | .scope b => evaluatorIds b
  def evaluatorIdss : IComps → List EvId
    | .nil => []
    | .cons c cs => evaluatorIds c ++ evaluatorIdss cs
end

end MahfModel.Tpl
