/-
C17 — model of `ExponentialAnnealingAcceptance::execute` (src/components/replacement/sa.rs) and
of `GeometricCooling` (src/components/mapping/sa.rs).

Generic over the numeric carrier `F` (core classes only): the driver instantiates `Float`, the
theorems an ordered field.  `exp` is a parameter.  The population stack is a list whose HEAD is the
top (what `peek(0)` returns); an individual is a tag with its objective value.
-/
import MahfModel.Model.Sexp
namespace MahfModel.Sa

structure Ind (F : Type) where
  tag : Nat
  obj : F
  deriving Repr, DecidableEq

abbrev Pop (F : Type) := List (Ind F)
/-- head = top of the stack = `peek(0)` -/
abbrev Stk (F : Type) := List (Pop F)

/-- Outcome of a component execution: the state is returned in every case because a Rust panic or
`Err` leaves the (possibly half-updated) state behind. -/
inductive Status where
  | ok | err | panic
  deriving Repr, DecidableEq

section
variable {F : Type}

/-- `p = ((o_current − o_candidate) / t).exp()` -/
def prob [Sub F] [Div F] (exp : F → F) (cur cand t : F) : F :=
  exp ((cur - cand) / t)

/-- `o_candidate <= o_current || rng.gen::<f64>() < p` -/
def accepts [Sub F] [Div F] [LT F] [LE F] [DecidableLT F] [DecidableLE F] (exp : F → F) (cur cand t u : F) : Bool :=
  decide (cand ≤ cur) || decide (u < prob exp cur cand t)

/-- `||` short-circuits: the generator is only asked when the candidate is worse (or incomparable). -/
def drawsUsed [LE F] [DecidableLE F] (cur cand : F) : Nat :=
  if cand ≤ cur then 0 else 1

/-- Result of `execute`: status, stack afterwards, number of uniform draws consumed.

```text
o_current   = peek(1).first()?      -- panics when fewer than two populations, Err when empty
o_candidate = peek(0).first()?
if accepted { c = pop(); pop(); push(c) } else { pop() }
#[ensures(current().len() == 1)]    -- checked on the Ok path only
``` -/
def acceptStep [Sub F] [Div F] [LT F] [LE F] [DecidableLT F] [DecidableLE F] (exp : F → F) (t u : F) (s : Stk F) :
    Status × Stk F × Nat :=
  match s with
  | candPop :: curPop :: rest =>
    match curPop with
    | [] => (.err, s, 0)
    | cur :: _ =>
      match candPop with
      | [] => (.err, s, 0)
      | cand :: _ =>
        let used := drawsUsed cur.obj cand.obj
        let survivor := if accepts exp cur.obj cand.obj t u then candPop else curPop
        let s' := survivor :: rest
        if survivor.length = 1 then (.ok, s', used) else (.panic, s', used)
  | _ => (.panic, s, 0)

/-- `GeometricCooling::map`: `value * alpha`. -/
def cool [Mul F] (alpha t : F) : F := t * alpha

/-- `from_params`: `ensure!((0.0..1.0).contains(&alpha))` -/
def alphaOk [LE F] [LT F] [DecidableLE F] [DecidableLT F] [OfNat F 0] [OfNat F 1] (alpha : F) : Bool :=
  decide (0 ≤ alpha) && decide (alpha < 1)

/-- `n` successive executions of the cooling component; all intermediate temperatures. -/
def coolTrace [Mul F] (alpha : F) : Nat → F → List F
  | 0, _ => []
  | n + 1, t => cool alpha t :: coolTrace alpha n (cool alpha t)

def iter {α : Type} (f : α → α) : Nat → α → α
  | 0, a => a
  | n + 1, a => iter f n (f a)

end

/-! ### Solutions are opaque to the acceptance; sequences of acceptances on one state -/

section
variable {F : Type}

/-- Renames the solution (tag) of every individual on the stack; objective values stay. -/
def relabel (g : Nat → Nat) (s : Stk F) : Stk F :=
  s.map (fun p => p.map (fun i => { i with tag := g i.tag }))

/-- One pass of the annealing loop as the acceptance sees it: the freshly evaluated candidate,
the temperature in force and the uniform draw available to this execution. -/
structure Step (F : Type) where
  cand : Ind F
  t : F
  u : F

/-- The individual that is the current solution after a sequence of passes (pure fold): every
decision compares the candidate with the objective value of the survivor of the pass before. -/
def chainSurvivor [Sub F] [Div F] [LT F] [LE F] [DecidableLT F] [DecidableLE F] (exp : F → F) (cur : Ind F) :
    List (Step F) → Ind F
  | [] => cur
  | st :: rest => chainSurvivor exp (if accepts exp cur.obj st.cand.obj st.t st.u then st.cand else cur) rest

/-- The same on the stack, through `acceptStep`: each pass pushes its single-individual candidate
population and executes the acceptance; the first pass that does not end `ok` stops the chain. -/
def acceptChain [Sub F] [Div F] [LT F] [LE F] [DecidableLT F] [DecidableLE F] (exp : F → F) :
    List (Step F) → Stk F → Status × Stk F
  | [], s => (.ok, s)
  | st :: rest, s =>
    match acceptStep exp st.t st.u ([st.cand] :: s) with
    | (.ok, s', _) => acceptChain exp rest s'
    | (r, s', _) => (r, s')

/-- Every candidate of the sequence is at least as good as the one before (the first one as the
initial current solution with objective `o`). -/
def notWorseChain [LE F] (o : F) : List (Step F) → Prop
  | [] => True
  | st :: rest => st.cand.obj ≤ o ∧ notWorseChain st.cand.obj rest

end

/-! ### The `gen::<f64>()` word mapping (rand 0.8: `(w >> 11) · 2⁻⁵³`) as exact integers -/

/-- The 53-bit numerator of the uniform draw produced from a 64-bit word. -/
def unitNumer (w : Nat) : Nat := (w % 2 ^ 64) / 2 ^ 11

/-- Number of 64-bit words whose draw `k/2⁵³` has numerator below `m`. -/
def wordsBelow (m : Nat) : Nat := ((List.range (2 ^ 64)).filter (fun w => unitNumer w < m)).length

end MahfModel.Sa
