/-
C08 — same seed, same run.

* `Sequential::evaluate` / `Parallel::evaluate` (src/problems/evaluate.rs): the parallel evaluator
  hands each individual to some worker; whatever the interleaving, what happens is one write
  `objective := f(solution)` per index, in some completion order (`sched`). Neither evaluator takes
  the generator: the model's evaluation functions have no RNG argument. ASSUMED (not in the types of
  the Rust code): `problem.objective(&self, …)` is a pure function of the solution, and the evaluators
  do not touch the `_state` they are handed.
* thread pools (`Split`, `blockIdx`, `chunks`, `chunksExact`, `evalParW`): the number of threads enters
  only through how the slice is divided into contiguous blocks, who processes which block and how the
  writes interleave; `popEvaluate` is the `PopulationEvaluator` component (src/components/evaluation.rs).
* a run language whose steps draw from the generator between evaluations, push/merge populations,
  update the best individual and log; the state is populations × generator position × evaluations ×
  best × log, plus a ghost record of the objective calls in completion order.
* `Random`, `Random::iter_children` (src/state/random.rs): a generator is a stream (fixed by its
  constructor and seed) and a position; a child is constructed from the parent's next `next_u64`.
* `Configuration::optimize_with` (src/configuration.rs): a default generator is inserted iff the
  user's initialiser did not insert one; the run draws from the generator in the state.
* `par_experiment` (src/experiments.rs): jobs = runs × problems, executed in any order; job (r, p)
  is `optimize_with` with `Random::new(r)`, its log goes to the file of (p, r). The job's initialiser
  is `insert(Random::new(r)); setup(state)` (`jobInit`): the user's `setup` comes last.
* `Random` as a wrapper of a seedable backend (`Backend`, `Random.withRng`, `Random.draw`,
  `Random.child`, `Random.descend`) and the transparent counter backend `ctr`, which the harness
  implements with the same definition so that the model predicts `Random::with_rng::<Ctr>(s)` itself.
-/
import MahfModel.Model.Sexp
namespace MahfModel.Determinism

structure Ind (S O : Type) where
  sol : S
  obj : Option O
  deriving Repr, DecidableEq

section Eval
variable {S O : Type}

/-- `individual.evaluate_with(|s| problem.objective(s))` -/
def evalInd (f : S → O) (i : Ind S O) : Ind S O := { i with obj := some (f i.sol) }

/-- `Sequential::evaluate`: `for individual in individuals { … }` -/
def evalSeq (f : S → O) (pop : List (Ind S O)) : List (Ind S O) := pop.map (evalInd f)

/-- The write a worker performs on slot `i` (out of range: no slot, nothing happens). -/
def modifyAt {α : Type} (g : α → α) : List α → Nat → List α
  | [], _ => []
  | x :: xs, 0 => g x :: xs
  | x :: xs, i + 1 => x :: modifyAt g xs i

/-- `Parallel::evaluate`: `par_iter_mut().for_each(…)` — one write per index, in completion order. -/
def evalPar (f : S → O) (pop : List (Ind S O)) (sched : List Nat) : List (Ind S O) :=
  sched.foldl (modifyAt (evalInd f)) pop

/-- Ghost: the solutions the objective function was called on, in completion order. -/
def callsPar (pop : List (Ind S O)) (sched : List Nat) : List S :=
  sched.filterMap fun i => pop[i]?.map (·.sol)

end Eval

/-! ### A run language: drawing steps, a population stack, best, log; evaluation under schedules -/

inductive Op where
  | eval          -- `PopulationEvaluator` on the current population (+ `Evaluations += len`)
  | perturb       -- draws one word, rewrites one solution of the current population (resets its objective)
  | spawn         -- draws one word, appends a new unevaluated individual to the current population
  | select        -- draws one word, pushes a population of copies of a prefix of the current one
  | merge         -- pops the current population and appends it to the one below
  | best          -- `BestIndividualUpdate`
  | log           -- `Logger`: appends (evaluations, best objective, size of the current population)
  deriving Repr, DecidableEq

structure RunSt where
  stack : List (List (Ind Nat Nat))   -- head = current population
  rng : Nat                           -- position in the generator's stream
  evals : Nat
  best : Option (Ind Nat Nat)
  log : List (Nat × Option Nat × Nat)
  calls : List Nat                    -- ghost: objective calls in completion order
  deriving Repr, DecidableEq

def better (a : Ind Nat Nat) : Option (Ind Nat Nat) → Option (Ind Nat Nat)
  | none => some a
  | some b => match a.obj, b.obj with
    | some x, some y => if x < y then some a else some b
    | _, _ => some b

def updBest (pop : List (Ind Nat Nat)) (b : Option (Ind Nat Nat)) : Option (Ind Nat Nat) :=
  pop.foldl (fun acc i => if i.obj.isSome then better i acc else acc) b

def cur (s : RunSt) : List (Ind Nat Nat) := s.stack.headD []

def setCur (s : RunSt) (p : List (Ind Nat Nat)) : RunSt := { s with stack := p :: s.stack.tail }

/-- Everything except evaluation. `stream` is the generator (a function of its seed). Does not read
the ghost field. -/
def stepOther (stream : Nat → Nat) : Op → RunSt → RunSt
  | .eval, s => s
  | .perturb, s =>
    let w := stream s.rng
    { setCur s (modifyAt (fun i => { sol := i.sol + w, obj := none }) (cur s) (w % ((cur s).length + 1))) with rng := s.rng + 1 }
  | .spawn, s =>
    let w := stream s.rng
    { setCur s (cur s ++ [{ sol := w, obj := none }]) with rng := s.rng + 1 }
  | .select, s =>
    let w := stream s.rng
    { s with rng := s.rng + 1, stack := (cur s).take (w % ((cur s).length + 1)) :: s.stack }
  | .merge, s =>
    match s.stack with
    | top :: below :: rest => { s with stack := (below ++ top) :: rest }
    | _ => s
  | .best, s => { s with best := updBest (cur s) s.best }
  | .log, s => { s with log := s.log ++ [(s.evals, s.best.bind (·.obj), (cur s).length)] }

/-- The evaluation step with the sequential evaluator. -/
def evalStepSeq (f : Nat → Nat) (s : RunSt) : RunSt :=
  { setCur s (evalSeq f (cur s)) with evals := s.evals + (cur s).length, calls := s.calls ++ (cur s).map (·.sol) }

/-- The evaluation step with the parallel evaluator completing in order `sch`. -/
def evalStepPar (f : Nat → Nat) (sch : List Nat) (s : RunSt) : RunSt :=
  { setCur s (evalPar f (cur s) sch) with evals := s.evals + (cur s).length, calls := s.calls ++ callsPar (cur s) sch }

def runSeq (f : Nat → Nat) (stream : Nat → Nat) : List Op → RunSt → RunSt
  | [], s => s
  | .eval :: ops, s => runSeq f stream ops (evalStepSeq f s)
  | op :: ops, s => runSeq f stream ops (stepOther stream op s)

/-- The run with the parallel evaluator; the i-th evaluation step completes in order `scheds[i]`
(with no schedule left it falls back to the slice order). -/
def runPar (f : Nat → Nat) (stream : Nat → Nat) : List Op → List (List Nat) → RunSt → RunSt
  | [], _, s => s
  | .eval :: ops, [], s => runPar f stream ops [] (evalStepSeq f s)
  | .eval :: ops, sch :: schs, s => runPar f stream ops schs (evalStepPar f sch s)
  | op :: ops, schs, s => runPar f stream ops schs (stepOther stream op s)

/-- One schedule per evaluation step, each a completion order of exactly the individuals present at
that step; no schedule left over. -/
def Legal (f : Nat → Nat) (stream : Nat → Nat) : List Op → List (List Nat) → RunSt → Prop
  | [], schs, _ => schs = []
  | .eval :: _, [], _ => False
  | .eval :: ops, sch :: schs, s =>
    sch.Perm (List.range (cur s).length) ∧ Legal f stream ops schs (evalStepSeq f s)
  | op :: ops, schs, s => Legal f stream ops schs (stepOther stream op s)

/-- Two states that differ at most in the order of the ghost call record. -/
def SameUpToCallOrder (a b : RunSt) : Prop :=
  a.stack = b.stack ∧ a.rng = b.rng ∧ a.evals = b.evals ∧ a.best = b.best ∧ a.log = b.log ∧ a.calls.Perm b.calls

/-! ### Generators -/

/-- A generator: its stream (determined by constructor and seed) and how many words were drawn. -/
structure Rng where
  stream : Nat → Nat
  pos : Nat

def Rng.next (r : Rng) : Nat × Rng := (r.stream r.pos, { r with pos := r.pos + 1 })

/-- `(constructor)(seed)`: `ctor seed` is the stream of a generator seeded with `seed`. -/
def mkRng (ctor : Nat → Nat → Nat) (seed : Nat) : Rng := { stream := ctor seed, pos := 0 }

/-- `iter_children().take(k)`: each child is constructed from a seed derived (`d`) from the parent's
next word. In the code as it is `d` is the identity (`let seed = rng.next_u64(); constructor(seed)`);
the property does not depend on which function it is, so the theorems quantify over `d` and the tie
reads the child's seed off `config().seed` (witness) instead of demanding `d = id`. -/
def children (ctor : Nat → Nat → Nat) (d : Nat → Nat) : Nat → Rng → List Rng × Rng
  | 0, r => ([], r)
  | k + 1, r =>
    let (w, r1) := r.next
    let (cs, r2) := children ctor d k r1
    (mkRng ctor (d w) :: cs, r2)

def childSeeds (d : Nat → Nat) : Nat → Rng → List Nat
  | 0, _ => []
  | k + 1, r => d r.next.1 :: childSeeds d k r.next.2

/-! ### `optimize_with` -/

/-- The part of the state that matters: which generator it holds. -/
structure Reg where
  random : Option Rng

/-- `optimize_with`: the user's initialiser may fail (`?`); a default generator is inserted iff none
is present; then the configuration runs, drawing from the generator in the state. -/
def optimizeWith {R : Type} (userInit : Reg → Except Unit Reg) (dflt : Rng) (run : Rng → R) : Except Unit R :=
  match userInit { random := none } with
  | .error e => .error e
  | .ok s =>
    let s' := if s.random.isSome then s else { s with random := some dflt }
    match s'.random with
    | some g => .ok (run g)
    | none => .error ()

/-! ### `par_experiment` -/

/-- `(0..runs).cartesian_product(problems)`: job = (run, problem index). -/
def jobs (runs nprob : Nat) : List (Nat × Nat) :=
  (List.range runs).flatMap fun r => (List.range nprob).map fun p => (r, p)

/-- `state.insert(Random::new(run))` -/
def jobSeed (job : Nat × Nat) : Nat := job.1

/-- The experiment with the jobs completing in order `sched`: each writes the file of
(problem, run) with the result of the single run of that problem with the job's seed. -/
def experiment {R : Type} (single : Nat → Nat → R) (runs nprob : Nat) (sched : List Nat) : List ((Nat × Nat) × R) :=
  sched.filterMap fun j => (jobs runs nprob)[j]?.map fun job => ((job.2, job.1), single job.2 (jobSeed job))

def fileOf {R : Type} (files : List ((Nat × Nat) × R)) (p r : Nat) : Option R :=
  (files.find? fun x => decide (x.1 = (p, r))).map (·.2)

/-! ### `Random` as a wrapper of a seedable backend (src/state/random.rs)

`Random { config, constructor, inner }`: `with_rng::<RNG>(seed)` stores the seed in `config`, keeps
`with_rng::<RNG>` as the constructor of children, and seeds the backend with **that** seed
(`RNG::seed_from_u64(seed)`); the four `RngCore` methods delegate to `inner`. -/

/-- A seedable backend (`RngCore + SeedableRng`). `fill n` is `fill_bytes` / `try_fill_bytes` on a
buffer of `n` bytes. -/
structure Backend where
  σ : Type
  seedFrom : Nat → σ
  nextU64 : σ → Nat × σ
  nextU32 : σ → Nat × σ
  fill : Nat → σ → List Nat × σ

inductive Draw where
  | u64 | u32 | fill (n : Nat) | tryFill (n : Nat)
  deriving Repr, DecidableEq

def Backend.draw (B : Backend) : Draw → B.σ → List Nat × B.σ
  | .u64, s => ([(B.nextU64 s).1], (B.nextU64 s).2)
  | .u32, s => ([(B.nextU32 s).1], (B.nextU32 s).2)
  | .fill n, s => B.fill n s
  | .tryFill n, s => B.fill n s

/-- What a draw script yields on a backend state. -/
def Backend.run (B : Backend) : List Draw → B.σ → List (List Nat)
  | [], _ => []
  | d :: ds, s => (B.draw d s).1 :: Backend.run B ds (B.draw d s).2

/-- The `i`-th `next_u64` word of a backend state. -/
def Backend.nthWord (B : Backend) : Nat → B.σ → Nat
  | 0, s => (B.nextU64 s).1
  | i + 1, s => Backend.nthWord B i (B.nextU64 s).2

/-- `Random`; the backend type (and with it the `constructor` field, always `with_rng::<RNG>` of
the same `RNG`) is the index `B`. -/
structure Random (B : Backend) where
  cfgSeed : Nat
  inner : B.σ

/-- `Random::with_rng::<RNG>(seed)` -/
def Random.withRng (B : Backend) (seed : Nat) : Random B := { cfgSeed := seed, inner := B.seedFrom seed }

/-- `impl RngCore for Random`: every method delegates to `inner`. -/
def Random.draw {B : Backend} (d : Draw) (r : Random B) : List Nat × Random B :=
  ((B.draw d r.inner).1, { r with inner := (B.draw d r.inner).2 })

def Random.run {B : Backend} : List Draw → Random B → List (List Nat)
  | [], _ => []
  | d :: ds, r => (r.draw d).1 :: Random.run ds (r.draw d).2

/-- `RandomIter::next`: `let seed = rng.next_u64(); (rng.constructor)(seed)` → (child, parent afterwards);
`d` = how the child's seed is derived from the word drawn (identity in the code as it is). -/
def Random.child {B : Backend} (d : Nat → Nat) (r : Random B) : Random B × Random B :=
  (Random.withRng B (d (B.nextU64 r.inner).1), { r with inner := (B.nextU64 r.inner).2 })

/-- `iter_children().take(i + 1).last()` -/
def Random.nthChild {B : Backend} (d : Nat → Nat) : Nat → Random B → Random B
  | 0, r => (r.child d).1
  | i + 1, r => Random.nthChild d i (r.child d).2

/-- The descendant reached by taking child number `i₁`, of that one child number `i₂`, … -/
def Random.descend {B : Backend} (d : Nat → Nat) : List Nat → Random B → Random B
  | [], r => r
  | i :: path, r => Random.descend d path (Random.nthChild d i r)

/-- `config().seed` of every generator on the way down (without the root). -/
def Random.descendSeeds {B : Backend} (d : Nat → Nat) : List Nat → Random B → List Nat
  | [], _ => []
  | i :: path, r => (Random.nthChild d i r).cfgSeed :: Random.descendSeeds d path (Random.nthChild d i r)

/-- The seed of the descendant along `path`, computed on the backend alone. -/
def Backend.descendSeed (B : Backend) (d : Nat → Nat) : List Nat → Nat → Nat
  | [], seed => seed
  | i :: path, seed => Backend.descendSeed B d path (d (B.nthWord i (B.seedFrom seed)))

/-- A transparent backend: the stream of seed `s` is `s, s+1, s+2, …` (mod 2^64); `next_u32` is the
low half of the next word; `fill` writes the little-endian bytes of successive words. Implemented
with the same definition in the harness (`Ctr`), so `Random::with_rng::<Ctr>(s)` can be predicted
completely — in particular its first word shows which seed really reached the backend. -/
def leBytes (w : Nat) : List Nat := (List.range 8).map fun i => (w / 256 ^ i) % 256

def ctrFill : Nat → Nat → Nat → List Nat × Nat
  | 0, _, c => ([], c)
  | fuel + 1, n, c =>
    if n = 0 then ([], c)
    else
      let r := ctrFill fuel (n - 8) ((c + 1) % 2 ^ 64)
      ((leBytes c).take n ++ r.1, r.2)

def ctr : Backend where
  σ := Nat
  seedFrom s := s % 2 ^ 64
  nextU64 c := (c, (c + 1) % 2 ^ 64)
  nextU32 c := (c % 2 ^ 32, (c + 1) % 2 ^ 64)
  fill n c := ctrFill (n + 1) n c

/-! ### `par_experiment` with the user's `setup` closure -/

/-- `optimize_with` over an arbitrary generator type: the user's initialiser sees an empty slot; a
default generator is inserted iff none is present afterwards. -/
def optimizeWithG {G R : Type} (init : Option G → Except Unit (Option G)) (dflt : G) (run : G → R) : Except Unit R :=
  match init none with
  | .error e => .error e
  | .ok none => .ok (run dflt)
  | .ok (some g) => .ok (run g)

/-- The initialiser `par_experiment` hands to `optimize_with` for run number `run`:
`state.insert(Random::new(run)); setup(state)` — the user's `setup` comes LAST, so whatever it
inserts overwrites the run-seeded generator. -/
def jobInit {G : Type} (newG : Nat → G) (setup : Option G → Except Unit (Option G)) (run : Nat) :
    Option G → Except Unit (Option G) :=
  fun _ => setup (some (newG run))

/-- The generator job `run` draws from. -/
def jobGenerator {G : Type} (newG : Nat → G) (setup : Option G → Except Unit (Option G)) (dflt : G) (run : Nat) :
    Except Unit G :=
  optimizeWithG (jobInit newG setup run) dflt id

/-- Identity of a generator as observable from outside: backend (0 = the default ChaCha12) and seed. -/
structure GenId where
  backend : Nat
  seed : Nat
  deriving Repr, DecidableEq

/-- `setup` closures used on the wire: `keep` does not touch the generator, `supply g` inserts `g`. -/
def setupKeep : Option GenId → Except Unit (Option GenId) := fun s => .ok s
def setupSupply (g : GenId) : Option GenId → Except Unit (Option GenId) := fun _ => .ok (some g)

/-! ### Thread pools: how a slice is divided among workers

`Parallel::evaluate` is `individuals.par_iter_mut().for_each(…)`. On a pool of `t` threads rayon divides
the slice adaptively into contiguous blocks (a binary split tree whose depth and shape depend on `t`
and on work stealing); every block is processed front to back by SOME worker. The number of threads
therefore enters only through (i) the shape of the split tree, (ii) which worker takes which block and
(iii) how the workers' writes interleave — all of which is a completion order `sched` of the indices.
Because a split tree divides `[lo, lo + len)` without remainder by construction (`Split.blocks_tile` in
Proofs/C08.lean), every such order is a permutation of the indices. A blockwise evaluator
(`par_chunks_mut(size)`) is the special case `chunks`; `par_chunks_exact_mut(size)` (`chunksExact`) is NOT
a division of the slice unless `size ∣ len` — it is modelled only to state what goes wrong. -/

/-- A binary split tree: `node k l r` splits the current block `[lo, lo + len)` at `lo + min k len`. -/
inductive Split where
  | leaf
  | node (k : Nat) (l r : Split)
  deriving Repr

/-- The blocks `(start, length)` at the leaves, left to right. -/
def Split.blocks : Split → Nat → Nat → List (Nat × Nat)
  | .leaf, lo, len => [(lo, len)]
  | .node k l r, lo, len =>
    Split.blocks l lo (min k len) ++ Split.blocks r (lo + min k len) (len - min k len)

/-- The indices of a block, in the order a worker processes them. -/
def blockIdx (b : Nat × Nat) : List Nat := List.range' b.1 b.2

/-- `par_chunks_mut(size)`: `⌈n / size⌉` blocks, the last one shorter. -/
def chunks (size n : Nat) : List (Nat × Nat) :=
  (List.range ((n + size - 1) / size)).map fun c => (c * size, min size (n - c * size))

/-- `par_chunks_exact_mut(size)`: `⌊n / size⌋` full blocks; the remainder is NOT visited. -/
def chunksExact (size n : Nat) : List (Nat × Nat) :=
  (List.range (n / size)).map fun c => (c * size, size)

/-- A run of the parallel evaluator as seen from outside (the tie's witness): the writes in completion
order, each tagged with the worker that performed it. The worker tags carry no information for the
result — that is the point. -/
def evalParW {S O : Type} (f : S → O) (pop : List (Ind S O)) (events : List (Nat × Nat)) : List (Ind S O) :=
  evalPar f pop (events.map (·.2))

/-- Executable legality check of a witness schedule used by the driver: sorted, it is exactly the
index range (`legalSched_sound`: then it is a permutation of the indices). -/
def legalSched (sched : List Nat) (n : Nat) : Bool :=
  sched.mergeSort (fun a b => decide (a ≤ b)) == List.range n

/-- `PopulationEvaluator::execute` on a population stack (head = top) and the `Evaluations` counter:
the top population is popped, handed to the evaluator (`ev`), the counter grows by its length, and it is
pushed back; an empty stack is left alone. -/
def popEvaluate {S O : Type} (ev : List (Ind S O) → List (Ind S O)) (stack : List (List (Ind S O))) (evals : Nat) :
    List (List (Ind S O)) × Nat :=
  match stack with
  | [] => ([], evals)
  | top :: rest => (ev top :: rest, evals + top.length)

/-! ### Wire format -/
open MahfModel Sexp

def degenerateDigest (d : Sexp) : Bool :=
  match d with
  | .atom s => !(s.startsWith "h")
  | _ => true

/-- `(digests (tag d)…)`: all digests of a case must be equal (and be digests of completed runs). -/
def digestsEqual (implOut : Sexp) : Option (Sexp × Bool) :=
  match implOut with
  | .list (.atom "digests" :: .list [.atom t0, d0] :: rest) => do
    let tags ← rest.mapM fun e => match e with
      | .list [.atom t, _] => some t
      | _ => none
    let want := Sexp.list (.atom "digests" :: .list [.atom t0, d0] :: tags.map fun t => .list [.atom t, d0])
    pure (want, Sexp.beq want implOut)
  | _ => none

/-- `(children (parent s) (words w…) (seeds s…) (a d…) (b d…) (c d…))`: `seeds` = the children's
`config().seed` (the WITNESS: which seed each child was constructed from; in the code as it is these are
the parent's successive words `words`, which is not demanded); deriving twice gives the same child
streams (`a`, `b`: digests of the children's first 64 words), and every child IS the pristine generator
with the seed it reports (`c`: digests of the first 64 words of the bare backend seeded with that seed
through rand's `seed_from_u64`). Legal witness: sibling seeds pairwise different and different from the
parent's seed. -/
def predictChildren (implOut : Sexp) : Option (Sexp × Bool) :=
  match implOut with
  | .list [.atom "children", .list [.atom "parent", ps], .list (.atom "words" :: ws), .list (.atom "seeds" :: ss), .list (.atom "a" :: _),
           .list (.atom "b" :: _), .list (.atom "c" :: dc)] => do
    let p ← nat? ps
    let seeds ← ss.mapM nat?
    let legal := decide (seeds.Nodup) && !seeds.contains p && seeds.length == dc.length
    let model := Sexp.list [.atom "children", .list [.atom "parent", ps], .list (.atom "words" :: ws), .list (.atom "seeds" :: ss),
      .list (.atom "a" :: dc), .list (.atom "b" :: dc), .list (.atom "c" :: dc)]
    pure (model, legal && Sexp.beq model implOut)
  | _ => none

/-- `(exp (seeds (p r seed)…) (digests …))`: the generator seed observed inside job (p, r) must be
the model's `jobSeed`. -/
def predictExpSeeds (seedsS : Sexp) : Option (Sexp × Bool) := do
  let items ← tagged? "seeds" seedsS
  let triples ← items.mapM fun t => match t with
    | .list [p, r, s] => do let p ← nat? p; let r ← nat? r; let s ← nat? s; pure (p, r, s)
    | _ => none
  let model := Sexp.list (.atom "seeds" :: triples.map fun (p, r, _) =>
    match jobGenerator (fun run => (⟨0, run⟩ : GenId)) setupKeep ⟨99, 0⟩ (jobSeed (r, p)) with
    | .ok g => .list [ofNat p, ofNat r, ofNat g.seed]
    | .error _ => .list [ofNat p, ofNat r, .atom "err"])
  pure (model, Sexp.beq model seedsS)

/-- Children, property part only: deriving twice from equally seeded parents gives the same child
streams (`a` = `b`; the harness appends a marker to `a` when the parents' positions differ afterwards).
That the child seed is exactly the parent's next word is the model's shape (K), not the property. -/
def childrenDeterministic (implOut : Sexp) : Bool :=
  match implOut with
  | .list [.atom "children", _, _, _, .list (.atom "a" :: da), .list (.atom "b" :: db), _] =>
    Sexp.beq (.list da) (.list db)
  | _ => false

def draw? : Sexp → Option Draw
  | .atom "u64" => some .u64
  | .atom "u32" => some .u32
  | .list [.atom "fill", n] => (nat? n).map .fill
  | .list [.atom "try", n] => (nat? n).map .tryFill
  | _ => none

/-- `(stream backend seed (path i…) (ops o…))` ↦ `(stream (impl (seeds …) (kept b) (out …)) (again …) (ref (seeds …) (out …)))`.
`impl`/`again`: two independently constructed `Random::with_rng::<B>(seed)` (or `Random::new`), walked
down `path` through `iter_children`, then the draw script; `seeds`: what `config().seed` reports on the
way down (the witness — how a child's seed is derived from the parent's draw is not demanded);
`kept`: every generator on the way reports the backend `B`; `ref`: the draw script on the bare backend
seeded by rand's own `seed_from_u64` with the last witness seed. For the transparent backend `ctr` the
model computes the output itself.
Returns (model output, agree, deterministic). -/
def predictStream (input implOut : Sexp) : Option (Sexp × Bool × Bool) :=
  match input, implOut with
  | .list [.atom "stream", .atom backend, seedS, pathS, opsS],
    .list [.atom "stream", impl, again, .list [.atom "ref", refSeeds, refOut]] => do
    let seed ← nat? seedS
    let path ← (← tagged? "path" pathS).mapM nat?
    let ops ← (← tagged? "ops" opsS).mapM draw?
    -- the seeds the generators on the way down report (witness); the descendant must behave as the
    -- pristine generator of the backend with the LAST of them (the root's seed for the empty path)
    let witness ← match impl with
      | .list (.atom "impl" :: .list (.atom "seeds" :: ws) :: _) => ws.mapM nat?
      | _ => none
    let legal := witness.length == path.length
    let (mSeeds, mOut) :=
      if backend == "ctr" then
        (Sexp.list (.atom "seeds" :: witness.map ofNat),
         Sexp.list (.atom "out" :: ((Random.withRng ctr (witness.getLastD seed)).run ops).map ofNats))
      else (refSeeds, refOut)
    let want := Sexp.list [.atom "impl", mSeeds, .list [.atom "kept", .atom "t"], mOut]
    let wantAgain := Sexp.list [.atom "again", mSeeds, .list [.atom "kept", .atom "t"], mOut]
    let model := Sexp.list [.atom "stream", want, wantAgain, .list [.atom "ref", mSeeds, mOut]]
    let det := match impl, again with
      | .list (.atom "impl" :: xs), .list (.atom "again" :: ys) => Sexp.beq (.list xs) (.list ys)
      | _, _ => false
    pure (model, legal && Sexp.beq model implOut, det)
  | _, _ => none

/-- `(seedmap s)` ↦ `(seedmap (eff e) (eff2 e2) (same-stream b))`: `e` = first word of
`Random::with_rng::<Ctr>(s)` = the seed that really reached the backend, `e2` the same for seed `e`,
`b` = the first 16 words of the generators seeded `s` and `e` coincide. Model: `e = s`.
The property fails when two DIFFERENT seeds `s ≠ e` give the same stream. -/
def predictSeedmap (input implOut : Sexp) : Option (Sexp × Bool × Bool) :=
  match input, implOut with
  | .list [.atom "seedmap", seedS], .list [.atom "seedmap", .list [.atom "eff", e], .list [.atom "eff2", _], .list [.atom "same-stream", b]] => do
    let seed ← nat? seedS
    let e ← nat? e
    let b ← bool? b
    let m := (Random.withRng ctr seed).run [.u64]
    let eff := (m.headD []).headD 0
    let model := Sexp.list [.atom "seedmap", .list [.atom "eff", ofNat eff], .list [.atom "eff2", ofNat eff], .list [.atom "same-stream", .atom "t"]]
    pure (model, Sexp.beq model implOut, e == seed || !b)
  | _, _ => none

/-- `(exp-user name v iters runs pool nprob backend useed)` ↦ `(exp-user (gens (p r backend seed)…) digests)`:
the generator observed DURING job (p, r) of the real `par_experiment` whose `setup` supplies the
generator (backend, useed) must be that generator. -/
def predictExpUser (input gensS : Sexp) : Option (Sexp × Bool) :=
  match input with
  | .list [.atom "exp-user", _, _, _, _, _, _, kb, us] => do
    let kb ← nat? kb
    let us ← nat? us
    let items ← tagged? "gens" gensS
    let rows ← items.mapM fun t => match t with
      | .list [p, r, _, _] => do let p ← nat? p; let r ← nat? r; pure (p, r)
      | _ => none
    let model := Sexp.list (.atom "gens" :: rows.map fun (p, r) =>
      match jobGenerator (fun run => (⟨0, run⟩ : GenId)) (setupSupply ⟨kb, us⟩) ⟨99, 0⟩ r with
      | .ok g => .list [ofNat p, ofNat r, ofNat g.backend, ofNat g.seed]
      | .error _ => .list [ofNat p, ofNat r, .atom "err", .atom "err"])
    pure (model, Sexp.beq model gensS)
  | _ => none

/-! #### Direct evaluator calls on prepared populations -/

/-- The objective function of the harness problem `EvalProbe`: `Σ xᵢ²` on small integer vectors (exact
in `f64`, so the values travel as naturals). -/
def objF (s : List Nat) : Nat := (s.map fun x => x * x).sum

/-- Individual `i` of the prepared population: solution `[i, (seed + 7 i) mod 101]` (the first component
is the individual's tag), objective by `prep`: 0 unevaluated · 1 stale value 7 (never a value of `objF`
on these solutions … must be overwritten) · 2 every third stale, the rest unevaluated · 3 already
correct · otherwise even slots correct, odd slots unevaluated. -/
def prepInd (prep seed i : Nat) : Ind (List Nat) Nat :=
  let sol := [i, (seed + 7 * i) % 101]
  { sol, obj := match prep with
      | 0 => none
      | 1 => some 7
      | 2 => if i % 3 = 0 then some 7 else none
      | 3 => some (objF sol)
      | _ => if i % 2 = 0 then some (objF sol) else none }

def prepPop (n prep seed : Nat) : List (Ind (List Nat) Nat) := (List.range n).map (prepInd prep seed)

def objAtom (o : Option Nat) : Sexp := match o with
  | none => .atom "-"
  | some v => ofNat v

/-- What the harness reports of one evaluator call: `(res (objs o…) (sched i…) (extra e…))` or `panic`. -/
structure EvalRes where
  objs : List Sexp
  sched : List Nat
  extra : List Sexp

def evalRes? : Sexp → Option EvalRes
  | .list [.atom "res", .list (.atom "objs" :: os), .list (.atom "sched" :: ss), .list (.atom "extra" :: es)] => do
    let sched ← ss.mapM nat?
    pure { objs := os, sched, extra := es }
  | _ => none

/-- The lower population of the `component` entry: three unevaluated individuals that must stay so. -/
def lowerPop (n : Nat) : List (Ind (List Nat) Nat) := (List.range 3).map fun j => ⟨[n + j, 0], none⟩

/-- Model of one entry point with evaluator `ev` → (objective column of the evaluated slice, extras).
`direct`: `Evaluate::evaluate(problem, state, &mut pop[lo .. lo + len])`; `component`: the
`PopulationEvaluator` component run by `Configuration::run` on a state whose stack is `[slice, lower]`
→ extras = Evaluations counter, stack height, number of evaluated individuals in the lower population. -/
def evalEntry (entry : String) (n : Nat) (sub : List (Ind (List Nat) Nat))
    (ev : List (Ind (List Nat) Nat) → List (Ind (List Nat) Nat)) : List Sexp × List Sexp :=
  if entry == "component" then
    let (stack, evals) := popEvaluate ev [sub, lowerPop n] 0
    ((stack.headD []).map (objAtom ·.obj),
     [ofNat evals, ofNat stack.length, ofNat (((stack.drop 1).headD []).filter (·.obj.isSome)).length])
  else ((ev sub).map (objAtom ·.obj), [])

def firstDiff (a b : List Sexp) : Sexp :=
  match (List.range (max a.length b.length)).find? fun j => !(Sexp.beq (a.getD j (.atom "?")) (b.getD j (.atom "?"))) with
  | none => .atom "none"
  | some j => .list [ofNat j, a.getD j (.atom "?"), b.getD j (.atom "?")]

/-- `(evaluate entry n threads prep seed lo len)` ↦ `(evaluate (seq R) (par R))`, `R` as in `evalRes?`.
The population is `prepPop n prep seed`, the evaluator is handed its sub-slice `[lo, lo + len)`; `sched` =
the slice-relative indices in the order in which the objective function was entered (WITNESS of the
schedule; for the parallel evaluator under a pool of `threads` workers).
K: the sequential result is `evalSeq objF` of the slice; the parallel result is `evalPar objF` of the slice
along the witness schedule; both witnesses are legal (a permutation of the slice's indices: every
individual is handed to the objective function exactly once); extras as the model says.
O (the property, implementation against implementation): the parallel evaluator leaves exactly what
the sequential evaluator leaves — every objective value and the extras; neither panics.
Returns (model, agree, holds, class). -/
def predictEvaluate (input implOut : Sexp) : Option (Sexp × Bool × Bool × String) :=
  match input, implOut with
  | .list [.atom "evaluate", .atom entry, nS, _, prepS, seedS, loS, lenS],
    .list [.atom "evaluate", .list [.atom "seq", sq], .list [.atom "par", pr]] => do
    let n ← nat? nS; let prep ← nat? prepS; let seed ← nat? seedS; let lo ← nat? loS; let len ← nat? lenS
    let sub := ((prepPop n prep seed).drop lo).take len
    let (wantObjs, wantExtra) := evalEntry entry n sub (evalSeq objF)
    let summary (objs extra : List Sexp) := Sexp.list
      [.list (.atom "objs" :: (if objs.length ≤ 48 then objs else [.atom "...", ofNat objs.length])), .list (.atom "extra" :: extra)]
    let model := Sexp.list [.atom "evaluate", .list (.atom "seq" :: [summary wantObjs wantExtra]), .list (.atom "par" :: [summary wantObjs wantExtra])]
    match evalRes? sq, evalRes? pr with
    | some s, some p =>
      let seqOk := Sexp.beq (.list s.objs) (.list wantObjs) && Sexp.beq (.list s.extra) (.list wantExtra) && legalSched s.sched sub.length
      let (parObjs, parExtra) := evalEntry entry n sub (fun q => evalPar objF q p.sched)
      let parOk := Sexp.beq (.list p.objs) (.list parObjs) && Sexp.beq (.list p.extra) (.list parExtra) && legalSched p.sched sub.length
      let same := Sexp.beq (.list p.objs) (.list s.objs) && Sexp.beq (.list p.extra) (.list s.extra)
      let missing := (p.objs.zip s.objs).any fun (a, b) => Sexp.beq a (.atom "-") && !(Sexp.beq b (.atom "-"))
      let cls := if same then (if seqOk && parOk then "-" else "evaluator-model")
        else if missing then "unevaluated" else if p.objs.length != s.objs.length then "count" else "wrong-value"
      let model := if same && seqOk && parOk then model else
        Sexp.list [model, .list [.atom "first-diff-par-vs-seq", firstDiff p.objs s.objs],
                   .list [.atom "first-diff-seq-vs-model", firstDiff s.objs wantObjs]]
      pure (model, seqOk && parOk, same, cls)
    | _, _ =>
      -- a panic of either evaluator: the other one did not panic, or both did (then they agree in that)
      let bothPanic := Sexp.beq sq (.atom "panic") && Sexp.beq pr (.atom "panic")
      pure (model, false, bothPanic, if bothPanic then "evaluator-model" else "panic")
  | _, _ => none

end MahfModel.Determinism
