/-
C08 — same seed, same run.

* `Sequential::evaluate` / `Parallel::evaluate` (src/problems/evaluate.rs): the parallel evaluator
  hands each individual to some worker; whatever the interleaving, what happens is one write
  `objective := f(solution)` per index, in some completion order (`sched`). Neither evaluator takes
  the generator: the model's evaluation functions have no RNG argument.
* `Random`, `Random::iter_children` (src/state/random.rs): a generator is a stream (fixed by its
  constructor and seed) and a position; a child is constructed from the parent's next `next_u64`.
* `Configuration::optimize_with` (src/configuration.rs): a default generator is inserted iff the
  user's initialiser did not insert one.
-/
import MahfModel.Model.Sexp
namespace MahfModel.Determinism

structure Ind (S O : Type) where
  sol : S
  obj : Option O
  deriving Repr, DecidableEq

section Eval
variable {S O : Type}

/-- `individual.evaluate_with(|s| problem.objective(s))` -/
def evalInd (f : S → O) (i : Ind S O) : Ind S O := { i with obj := some (f i.sol) }

/-- `Sequential::evaluate`: `for individual in individuals { … }` -/
def evalSeq (f : S → O) (pop : List (Ind S O)) : List (Ind S O) := pop.map (evalInd f)

/-- The write a worker performs on slot `i` (out of range: no slot, nothing happens). -/
def modifyAt {α : Type} (g : α → α) : List α → Nat → List α
  | [], _ => []
  | x :: xs, 0 => g x :: xs
  | x :: xs, i + 1 => x :: modifyAt g xs i

/-- `Parallel::evaluate`: `par_iter_mut().for_each(…)` — one write per index, in completion order. -/
def evalPar (f : S → O) (pop : List (Ind S O)) (sched : List Nat) : List (Ind S O) :=
  sched.foldl (modifyAt (evalInd f)) pop

end Eval

/-! ### A small run language: evaluation steps under arbitrary schedules, steps that draw -/

inductive Op where
  | eval          -- `PopulationEvaluator` (+ `Evaluations += len`)
  | perturb       -- draws one word, rewrites one solution with it (resets its objective)
  | spawn         -- draws one word, appends a new unevaluated individual
  | best          -- `BestIndividualUpdate`
  deriving Repr, DecidableEq

structure RunSt where
  pop : List (Ind Nat Nat)
  rng : Nat                      -- position in the generator's stream
  evals : Nat
  best : Option (Ind Nat Nat)
  deriving Repr, DecidableEq

def better (a : Ind Nat Nat) : Option (Ind Nat Nat) → Option (Ind Nat Nat)
  | none => some a
  | some b => match a.obj, b.obj with
    | some x, some y => if x < y then some a else some b
    | _, _ => some b

def updBest (pop : List (Ind Nat Nat)) (b : Option (Ind Nat Nat)) : Option (Ind Nat Nat) :=
  pop.foldl (fun acc i => if i.obj.isSome then better i acc else acc) b

/-- Everything except evaluation. `stream` is the generator (a function of its seed). -/
def stepOther (stream : Nat → Nat) : Op → RunSt → RunSt
  | .eval, s => s
  | .perturb, s =>
    let w := stream s.rng
    { s with rng := s.rng + 1,
             pop := modifyAt (fun i => { sol := i.sol + w, obj := none }) s.pop (w % (s.pop.length + 1)) }
  | .spawn, s =>
    let w := stream s.rng
    { s with rng := s.rng + 1, pop := s.pop ++ [{ sol := w, obj := none }] }
  | .best, s => { s with best := updBest s.pop s.best }

/-- The run with the sequential evaluator. -/
def runSeq (f : Nat → Nat) (stream : Nat → Nat) : List Op → RunSt → RunSt
  | [], s => s
  | .eval :: ops, s => runSeq f stream ops { s with pop := evalSeq f s.pop, evals := s.evals + s.pop.length }
  | op :: ops, s => runSeq f stream ops (stepOther stream op s)

/-- The run with the parallel evaluator; the i-th evaluation step completes in order `scheds[i]`. -/
def runPar (f : Nat → Nat) (stream : Nat → Nat) : List Op → List (List Nat) → RunSt → RunSt
  | [], _, s => s
  | .eval :: ops, [], s => runPar f stream ops [] { s with pop := evalSeq f s.pop, evals := s.evals + s.pop.length }
  | .eval :: ops, sch :: schs, s =>
    runPar f stream ops schs { s with pop := evalPar f s.pop sch, evals := s.evals + s.pop.length }
  | op :: ops, schs, s => runPar f stream ops schs (stepOther stream op s)

/-- Every schedule is a completion order of exactly the individuals present at that step. -/
def Legal (f : Nat → Nat) (stream : Nat → Nat) : List Op → List (List Nat) → RunSt → Prop
  | [], _, _ => True
  | .eval :: ops, [], s => Legal f stream ops [] { s with pop := evalSeq f s.pop, evals := s.evals + s.pop.length }
  | .eval :: ops, sch :: schs, s =>
    sch.Perm (List.range s.pop.length) ∧
    Legal f stream ops schs { s with pop := evalSeq f s.pop, evals := s.evals + s.pop.length }
  | op :: ops, schs, s => Legal f stream ops schs (stepOther stream op s)

/-! ### Generators -/

/-- A generator: its stream (determined by constructor and seed) and how many words were drawn. -/
structure Rng where
  stream : Nat → Nat
  pos : Nat

def Rng.next (r : Rng) : Nat × Rng := (r.stream r.pos, { r with pos := r.pos + 1 })

/-- `(constructor)(seed)`: `ctor seed` is the stream of a generator seeded with `seed`. -/
def mkRng (ctor : Nat → Nat → Nat) (seed : Nat) : Rng := { stream := ctor seed, pos := 0 }

/-- `iter_children().take(k)`: each child is constructed from the parent's next word. -/
def children (ctor : Nat → Nat → Nat) : Nat → Rng → List Rng × Rng
  | 0, r => ([], r)
  | k + 1, r =>
    let (seed, r1) := r.next
    let (cs, r2) := children ctor k r1
    (mkRng ctor seed :: cs, r2)

def childSeeds : Nat → Rng → List Nat
  | 0, _ => []
  | k + 1, r => r.next.1 :: childSeeds k r.next.2

/-! ### `optimize_with` -/

/-- The part of the state that matters: which generator object it holds (by identity `G`). -/
structure Reg (G : Type) where
  random : Option G

def optimizeWith {G : Type} (userInit : Reg G → Reg G) (dflt : G) : Reg G :=
  let s := userInit { random := none }
  if s.random.isSome then s else { s with random := some dflt }

/-! ### Wire format -/
open MahfModel Sexp

/-- `(digests (tag d)…)`: the model's prediction is that every digest equals the first one. -/
def predictDigests (implOut : Sexp) : Option (Sexp × Bool) :=
  match implOut with
  | .list (.atom "digests" :: .list [.atom t0, d0] :: rest) => do
    let tags ← rest.mapM fun e => match e with
      | .list [.atom t, _] => some t
      | _ => none
    let model := Sexp.list (.atom "digests" :: .list [.atom t0, d0] :: tags.map fun t => .list [.atom t, d0])
    pure (model, Sexp.beq model implOut)
  | _ => none

/-- `(children (words w…) (seeds s…) (a d…) (b d…))`: child seeds are the parent's successive words
(`words` is the parent stream as observed on an identically seeded twin); deriving twice gives the
same child streams (`a`, `b` are digests of the children's first 64 words). -/
def predictChildren (implOut : Sexp) : Option (Sexp × Bool) :=
  match implOut with
  | .list [.atom "children", .list (.atom "words" :: ws), .list (.atom "seeds" :: _), .list (.atom "a" :: da), .list (.atom "b" :: _)] => do
    let w ← ws.mapM nat?
    let r : Rng := { stream := fun i => w.getD i 0, pos := 0 }
    let seeds := childSeeds w.length r
    let model := Sexp.list [.atom "children", .list (.atom "words" :: ws), .list (.atom "seeds" :: seeds.map ofNat),
      .list (.atom "a" :: da), .list (.atom "b" :: da)]
    pure (model, Sexp.beq model implOut)
  | _ => none

end MahfModel.Determinism
