/-
C08 — same seed, same run.

* `Sequential::evaluate` / `Parallel::evaluate` (src/problems/evaluate.rs): the parallel evaluator
  hands each individual to some worker; whatever the interleaving, what happens is one write
  `objective := f(solution)` per index, in some completion order (`sched`). Neither evaluator takes
  the generator: the model's evaluation functions have no RNG argument. ASSUMED (not in the types of
  the Rust code): `problem.objective(&self, …)` is a pure function of the solution, and the evaluators
  do not touch the `_state` they are handed.
* a run language whose steps draw from the generator between evaluations, push/merge populations,
  update the best individual and log; the state is populations × generator position × evaluations ×
  best × log, plus a ghost record of the objective calls in completion order.
* `Random`, `Random::iter_children` (src/state/random.rs): a generator is a stream (fixed by its
  constructor and seed) and a position; a child is constructed from the parent's next `next_u64`.
* `Configuration::optimize_with` (src/configuration.rs): a default generator is inserted iff the
  user's initialiser did not insert one; the run draws from the generator in the state.
* `par_experiment` (src/experiments.rs): jobs = runs × problems, executed in any order; job (r, p)
  is `optimize_with` with `Random::new(r)`, its log goes to the file of (p, r).
-/
import MahfModel.Model.Sexp
namespace MahfModel.Determinism

structure Ind (S O : Type) where
  sol : S
  obj : Option O
  deriving Repr, DecidableEq

section Eval
variable {S O : Type}

/-- `individual.evaluate_with(|s| problem.objective(s))` -/
def evalInd (f : S → O) (i : Ind S O) : Ind S O := { i with obj := some (f i.sol) }

/-- `Sequential::evaluate`: `for individual in individuals { … }` -/
def evalSeq (f : S → O) (pop : List (Ind S O)) : List (Ind S O) := pop.map (evalInd f)

/-- The write a worker performs on slot `i` (out of range: no slot, nothing happens). -/
def modifyAt {α : Type} (g : α → α) : List α → Nat → List α
  | [], _ => []
  | x :: xs, 0 => g x :: xs
  | x :: xs, i + 1 => x :: modifyAt g xs i

/-- `Parallel::evaluate`: `par_iter_mut().for_each(…)` — one write per index, in completion order. -/
def evalPar (f : S → O) (pop : List (Ind S O)) (sched : List Nat) : List (Ind S O) :=
  sched.foldl (modifyAt (evalInd f)) pop

/-- Ghost: the solutions the objective function was called on, in completion order. -/
def callsPar (pop : List (Ind S O)) (sched : List Nat) : List S :=
  sched.filterMap fun i => pop[i]?.map (·.sol)

end Eval

/-! ### A run language: drawing steps, a population stack, best, log; evaluation under schedules -/

inductive Op where
  | eval          -- `PopulationEvaluator` on the current population (+ `Evaluations += len`)
  | perturb       -- draws one word, rewrites one solution of the current population (resets its objective)
  | spawn         -- draws one word, appends a new unevaluated individual to the current population
  | select        -- draws one word, pushes a population of copies of a prefix of the current one
  | merge         -- pops the current population and appends it to the one below
  | best          -- `BestIndividualUpdate`
  | log           -- `Logger`: appends (evaluations, best objective, size of the current population)
  deriving Repr, DecidableEq

structure RunSt where
  stack : List (List (Ind Nat Nat))   -- head = current population
  rng : Nat                           -- position in the generator's stream
  evals : Nat
  best : Option (Ind Nat Nat)
  log : List (Nat × Option Nat × Nat)
  calls : List Nat                    -- ghost: objective calls in completion order
  deriving Repr, DecidableEq

def better (a : Ind Nat Nat) : Option (Ind Nat Nat) → Option (Ind Nat Nat)
  | none => some a
  | some b => match a.obj, b.obj with
    | some x, some y => if x < y then some a else some b
    | _, _ => some b

def updBest (pop : List (Ind Nat Nat)) (b : Option (Ind Nat Nat)) : Option (Ind Nat Nat) :=
  pop.foldl (fun acc i => if i.obj.isSome then better i acc else acc) b

def cur (s : RunSt) : List (Ind Nat Nat) := s.stack.headD []

def setCur (s : RunSt) (p : List (Ind Nat Nat)) : RunSt := { s with stack := p :: s.stack.tail }

/-- Everything except evaluation. `stream` is the generator (a function of its seed). Does not read
the ghost field. -/
def stepOther (stream : Nat → Nat) : Op → RunSt → RunSt
  | .eval, s => s
  | .perturb, s =>
    let w := stream s.rng
    { setCur s (modifyAt (fun i => { sol := i.sol + w, obj := none }) (cur s) (w % ((cur s).length + 1))) with rng := s.rng + 1 }
  | .spawn, s =>
    let w := stream s.rng
    { setCur s (cur s ++ [{ sol := w, obj := none }]) with rng := s.rng + 1 }
  | .select, s =>
    let w := stream s.rng
    { s with rng := s.rng + 1, stack := (cur s).take (w % ((cur s).length + 1)) :: s.stack }
  | .merge, s =>
    match s.stack with
    | top :: below :: rest => { s with stack := (below ++ top) :: rest }
    | _ => s
  | .best, s => { s with best := updBest (cur s) s.best }
  | .log, s => { s with log := s.log ++ [(s.evals, s.best.bind (·.obj), (cur s).length)] }

/-- The evaluation step with the sequential evaluator. -/
def evalStepSeq (f : Nat → Nat) (s : RunSt) : RunSt :=
  { setCur s (evalSeq f (cur s)) with evals := s.evals + (cur s).length, calls := s.calls ++ (cur s).map (·.sol) }

/-- The evaluation step with the parallel evaluator completing in order `sch`. -/
def evalStepPar (f : Nat → Nat) (sch : List Nat) (s : RunSt) : RunSt :=
  { setCur s (evalPar f (cur s) sch) with evals := s.evals + (cur s).length, calls := s.calls ++ callsPar (cur s) sch }

def runSeq (f : Nat → Nat) (stream : Nat → Nat) : List Op → RunSt → RunSt
  | [], s => s
  | .eval :: ops, s => runSeq f stream ops (evalStepSeq f s)
  | op :: ops, s => runSeq f stream ops (stepOther stream op s)

/-- The run with the parallel evaluator; the i-th evaluation step completes in order `scheds[i]`
(with no schedule left it falls back to the slice order). -/
def runPar (f : Nat → Nat) (stream : Nat → Nat) : List Op → List (List Nat) → RunSt → RunSt
  | [], _, s => s
  | .eval :: ops, [], s => runPar f stream ops [] (evalStepSeq f s)
  | .eval :: ops, sch :: schs, s => runPar f stream ops schs (evalStepPar f sch s)
  | op :: ops, schs, s => runPar f stream ops schs (stepOther stream op s)

/-- One schedule per evaluation step, each a completion order of exactly the individuals present at
that step; no schedule left over. -/
def Legal (f : Nat → Nat) (stream : Nat → Nat) : List Op → List (List Nat) → RunSt → Prop
  | [], schs, _ => schs = []
  | .eval :: _, [], _ => False
  | .eval :: ops, sch :: schs, s =>
    sch.Perm (List.range (cur s).length) ∧ Legal f stream ops schs (evalStepSeq f s)
  | op :: ops, schs, s => Legal f stream ops schs (stepOther stream op s)

/-- Two states that differ at most in the order of the ghost call record. -/
def SameUpToCallOrder (a b : RunSt) : Prop :=
  a.stack = b.stack ∧ a.rng = b.rng ∧ a.evals = b.evals ∧ a.best = b.best ∧ a.log = b.log ∧ a.calls.Perm b.calls

/-! ### Generators -/

/-- A generator: its stream (determined by constructor and seed) and how many words were drawn. -/
structure Rng where
  stream : Nat → Nat
  pos : Nat

def Rng.next (r : Rng) : Nat × Rng := (r.stream r.pos, { r with pos := r.pos + 1 })

/-- `(constructor)(seed)`: `ctor seed` is the stream of a generator seeded with `seed`. -/
def mkRng (ctor : Nat → Nat → Nat) (seed : Nat) : Rng := { stream := ctor seed, pos := 0 }

/-- `iter_children().take(k)`: each child is constructed from the parent's next word. -/
def children (ctor : Nat → Nat → Nat) : Nat → Rng → List Rng × Rng
  | 0, r => ([], r)
  | k + 1, r =>
    let (seed, r1) := r.next
    let (cs, r2) := children ctor k r1
    (mkRng ctor seed :: cs, r2)

def childSeeds : Nat → Rng → List Nat
  | 0, _ => []
  | k + 1, r => r.next.1 :: childSeeds k r.next.2

/-! ### `optimize_with` -/

/-- The part of the state that matters: which generator it holds. -/
structure Reg where
  random : Option Rng

/-- `optimize_with`: the user's initialiser may fail (`?`); a default generator is inserted iff none
is present; then the configuration runs, drawing from the generator in the state. -/
def optimizeWith {R : Type} (userInit : Reg → Except Unit Reg) (dflt : Rng) (run : Rng → R) : Except Unit R :=
  match userInit { random := none } with
  | .error e => .error e
  | .ok s =>
    let s' := if s.random.isSome then s else { s with random := some dflt }
    match s'.random with
    | some g => .ok (run g)
    | none => .error ()

/-! ### `par_experiment` -/

/-- `(0..runs).cartesian_product(problems)`: job = (run, problem index). -/
def jobs (runs nprob : Nat) : List (Nat × Nat) :=
  (List.range runs).flatMap fun r => (List.range nprob).map fun p => (r, p)

/-- `state.insert(Random::new(run))` -/
def jobSeed (job : Nat × Nat) : Nat := job.1

/-- The experiment with the jobs completing in order `sched`: each writes the file of
(problem, run) with the result of the single run of that problem with the job's seed. -/
def experiment {R : Type} (single : Nat → Nat → R) (runs nprob : Nat) (sched : List Nat) : List ((Nat × Nat) × R) :=
  sched.filterMap fun j => (jobs runs nprob)[j]?.map fun job => ((job.2, job.1), single job.2 (jobSeed job))

def fileOf {R : Type} (files : List ((Nat × Nat) × R)) (p r : Nat) : Option R :=
  (files.find? fun x => decide (x.1 = (p, r))).map (·.2)

/-! ### Wire format -/
open MahfModel Sexp

def degenerateDigest (d : Sexp) : Bool :=
  match d with
  | .atom s => !(s.startsWith "h")
  | _ => true

/-- `(digests (tag d)…)`: all digests of a case must be equal (and be digests of completed runs). -/
def digestsEqual (implOut : Sexp) : Option (Sexp × Bool) :=
  match implOut with
  | .list (.atom "digests" :: .list [.atom t0, d0] :: rest) => do
    let tags ← rest.mapM fun e => match e with
      | .list [.atom t, _] => some t
      | _ => none
    let want := Sexp.list (.atom "digests" :: .list [.atom t0, d0] :: tags.map fun t => .list [.atom t, d0])
    pure (want, Sexp.beq want implOut)
  | _ => none

/-- `(children (words w…) (seeds s…) (a d…) (b d…) (c d…))`: child seeds are the parent's successive
words (`words` is the parent stream as observed on an identically seeded twin); deriving twice gives
the same child streams (`a`, `b`: digests of the children's first 64 words), and a child's stream is
the stream of a generator constructed directly from that word (`c`). -/
def predictChildren (implOut : Sexp) : Option (Sexp × Bool) :=
  match implOut with
  | .list [.atom "children", .list (.atom "words" :: ws), .list (.atom "seeds" :: _), .list (.atom "a" :: da),
           .list (.atom "b" :: _), .list (.atom "c" :: _)] => do
    let w ← ws.mapM nat?
    let r : Rng := { stream := fun i => w.getD i 0, pos := 0 }
    let seeds := childSeeds w.length r
    let model := Sexp.list [.atom "children", .list (.atom "words" :: ws), .list (.atom "seeds" :: seeds.map ofNat),
      .list (.atom "a" :: da), .list (.atom "b" :: da), .list (.atom "c" :: da)]
    pure (model, Sexp.beq model implOut)
  | _ => none

/-- `(exp (seeds (p r seed)…) (digests …))`: the generator seed observed inside job (p, r) must be
the model's `jobSeed`. -/
def predictExpSeeds (seedsS : Sexp) : Option (Sexp × Bool) := do
  let items ← tagged? "seeds" seedsS
  let triples ← items.mapM fun t => match t with
    | .list [p, r, s] => do let p ← nat? p; let r ← nat? r; let s ← nat? s; pure (p, r, s)
    | _ => none
  let model := Sexp.list (.atom "seeds" :: triples.map fun (p, r, _) => .list [ofNat p, ofNat r, ofNat (jobSeed (r, p))])
  pure (model, Sexp.beq model seedsS)

end MahfModel.Determinism
