/-
C12 — model of the replacement operators (src/components/replacement/{mod.rs,common.rs}).

Code-shaped: `replacement()` pops the offspring, pops the parents, calls `replace`, and pushes the
result only when `replace` returned `Ok`; on `Err` (and on a panic inside `replace`) both
populations are gone.  Individuals are `(tag, objective?)`; the harness tags every individual
uniquely, the objective is carried along untouched.  The objective carrier `F` is generic (core
classes only): the driver instantiates it with IEEE bit patterns ordered as `f64`, the theorems with
an arbitrary linear order.

Randomness / unspecified order is an explicit witness `w : List Nat`, a permutation of
`0 … a+b-1`:
* `RandomReplacement`: `shuffle` = apply the permutation, then `truncate`;
* `MuPlusLambda`: `sort_unstable_by_key` = *stable* sort of some permutation of the input (the
  order among equal keys is left free by Rust), then `truncate`.
-/
import MahfModel.Model.Sexp
namespace MahfModel.Replacement

structure Ind (F : Type) where
  tag : Nat
  obj : Option F
  deriving DecidableEq, Repr

abbrev Pop (F : Type) := List (Ind F)

inductive Op where
  | discardOffspring | generational | merge
  | muPlusLambda (mu : Nat) | randomReplacement (mu : Nat) | keepBetterAtIndex
  deriving DecidableEq, Repr

/-- What `execute` can do besides returning `Ok`: return `Err`, or panic. -/
inductive Err where
  | exec | panic
  deriving DecidableEq, Repr

/-- Total preorder on optional keys used by the sort (`none` never reaches the comparator in the
code — `objective()` panics first — it is ordered first only to keep the comparator total). -/
def leO {F : Type} [LE F] [DecidableLE F] : Option F → Option F → Bool
  | none, _ => true
  | some _, none => false
  | some x, some y => decide (x ≤ y)

def leInd {F : Type} [LE F] [DecidableLE F] (a b : Ind F) : Bool := leO a.obj b.obj

/-- Apply the witness permutation: position `k` of the result is element `w[k]` of `l`. -/
def permute {α : Type} (l : List α) (w : List Nat) : List α := w.filterMap (l[·]?)

/-- `w` is a permutation of `0 … n-1`. Executable form (`legalB`) is in the wire section. -/
def Legal (w : List Nat) (n : Nat) : Prop := w.Perm (List.range n)

/-- `KeepBetterAtIndex`: `zip` + `if parent.objective() > offspring.objective() { offspring } else
{ parent }`; `objective()` panics on an unevaluated individual. -/
def keepBetter {F : Type} [LT F] [DecidableLT F] : Pop F → Pop F → Except Err (Pop F)
  | p :: ps, o :: os =>
    match p.obj, o.obj with
    | some a, some b =>
      match keepBetter ps os with
      | .ok r => .ok ((if b < a then o else p) :: r)
      | .error e => .error e
    | _, _ => .error .panic
  | _, _ => .ok []

/-- `Replacement::replace` of each operator. -/
def replace {F : Type} [LE F] [DecidableLE F] [LT F] [DecidableLT F]
    (op : Op) (w : List Nat) (parents offspring : Pop F) : Except Err (Pop F) :=
  match op with
  | .discardOffspring => .ok parents
  | .generational => .ok offspring
  | .merge => .ok (parents ++ offspring)
  | .muPlusLambda mu =>
    -- parents.extend(offspring); sort_unstable_by_key(|i| *i.objective()); truncate(mu)
    let all := parents ++ offspring
    -- the key function runs (and unwraps the objective) as soon as there is anything to compare
    if 2 ≤ all.length ∧ all.any (fun i => i.obj.isNone) then .error .panic
    else .ok (((permute all w).mergeSort leInd).take mu)
  | .randomReplacement mu =>
    -- parents.extend(offspring); shuffle(rng); truncate(mu)
    .ok ((permute (parents ++ offspring) w).take mu)
  | .keepBetterAtIndex =>
    if parents.length = offspring.length then keepBetter parents offspring else .error .exec

inductive Outcome where
  | ok | err | panic
  deriving DecidableEq, Repr

/-- `replacement()`: the population stack (head = top) after `execute`, and what `execute` did.
`Populations::pop` panics on an empty stack; the first pop has already happened when the second
one panics. -/
def step {F : Type} [LE F] [DecidableLE F] [LT F] [DecidableLT F]
    (op : Op) (w : List Nat) : List (Pop F) → List (Pop F) × Outcome
  | [] => ([], .panic)
  | [_] => ([], .panic)
  | offspring :: parents :: rest =>
    match replace op w parents offspring with
    | .ok r => (r :: rest, .ok)
    | .error .exec => (rest, .err)
    | .error .panic => (rest, .panic)

/-! ### The property as an executable predicate on an observed outcome -/

/-- Multiset inclusion `r ≤ all`, executable. -/
def subBagB {α : Type} [DecidableEq α] (r all : List α) : Bool :=
  r.all fun x => r.count x ≤ all.count x

/-- Multiset inclusion, proof-friendly form: `r` can be completed to a permutation of `all`. -/
def SubBag {α : Type} (r all : List α) : Prop := ∃ rest, (r ++ rest).Perm all

/-- remove one occurrence of every element of `r` from `all` (what was discarded) -/
def bagDiff {α : Type} [DecidableEq α] (all r : List α) : List α := r.foldl (fun acc x => acc.erase x) all

/-- no discarded individual is strictly better than a kept one -/
def noBetterDiscardedB {F : Type} [LT F] [DecidableLT F] (kept discarded : Pop F) : Bool :=
  kept.all fun x => discarded.all fun y =>
    match x.obj, y.obj with
    | some a, some b => !decide (b < a)
    | _, _ => true

def keepBetterSpecB {F : Type} [DecidableEq F] [LT F] [DecidableLT F] : Pop F → Pop F → Pop F → Bool
  | p :: ps, o :: os, r :: rs =>
    (match p.obj, o.obj with
     | some a, some b => decide (r = if b < a then o else p)
     | _, _ => true) && keepBetterSpecB ps os rs
  | [], [], [] => true
  | _, _, _ => false

/-- Class of the deviation of an observed `(stack', outcome)` from what C12 states, or `none` if the
property holds on this observation.  Only inputs inside the property's quantifier (at least two
populations, every individual evaluated) are judged. -/
def violation {F : Type} [DecidableEq F] [LT F] [DecidableLT F]
    (op : Op) (stack : List (Pop F)) (stack' : List (Pop F)) (out : Outcome) : Option String :=
  match stack with
  | offspring :: parents :: rest =>
    let all := parents ++ offspring
    if all.any (fun i => i.obj.isNone) then none else
    let expectErr := op == .keepBetterAtIndex && parents.length != offspring.length
    match out with
    | .panic => some "panic"
    | .err => if !expectErr then some "err" else if stack' = rest then none else some "frame"
    | .ok =>
      if expectErr then some "no-err" else
      match stack' with
      | r :: rest' =>
        if rest' ≠ rest then some "frame"
        else if !subBagB r all then some "not-member"
        else match op with
          | .discardOffspring => if r = parents then none else some "wrong-value"
          | .generational => if r = offspring then none else some "wrong-value"
          | .merge => if r = parents ++ offspring then none else some "wrong-value"
          | .muPlusLambda mu =>
            if r.length ≠ min mu all.length then some "count"
            else if !noBetterDiscardedB r (bagDiff all r) then some "not-best" else none
          | .randomReplacement mu => if r.length ≠ min mu all.length then some "count" else none
          | .keepBetterAtIndex => if keepBetterSpecB parents offspring r then none else some "wrong-value"
      | [] => some "frame"
  | _ => none

/-! ### Wire format -/
open MahfModel Sexp

def legalB (w : List Nat) (n : Nat) : Bool :=
  w.length == n && (List.range n).all (fun i => w.contains i)

/-- IEEE bit pattern ordered as `f64` (objective values are never NaN). -/
structure Bits where
  b : UInt64
  deriving DecidableEq

instance : LT Bits := ⟨fun x y => Float.ofBits x.b < Float.ofBits y.b⟩
instance : LE Bits := ⟨fun x y => Float.ofBits x.b ≤ Float.ofBits y.b⟩
instance : DecidableLT Bits := fun x y => inferInstanceAs (Decidable (Float.ofBits x.b < Float.ofBits y.b))
instance : DecidableLE Bits := fun x y => inferInstanceAs (Decidable (Float.ofBits x.b ≤ Float.ofBits y.b))

def Ind.parse? : Sexp → Option (Ind Bits)
  | .list [t, .atom "u"] => do pure { tag := ← nat? t, obj := none }
  | .list [t, o] => do pure { tag := ← nat? t, obj := some ⟨← bits? o⟩ }
  | _ => none

def Ind.toSexp (i : Ind Bits) : Sexp :=
  .list [ofNat i.tag, match i.obj with | some o => ofBits o.b | none => .atom "u"]

def Pop.parse? (s : Sexp) : Option (Pop Bits) := do
  let xs ← tagged? "pop" s
  xs.mapM Ind.parse?

def Pop.toSexp (p : Pop Bits) : Sexp := .list (.atom "pop" :: p.map Ind.toSexp)

def Op.parse? : Sexp → Option Op
  | .list [.atom "op", .atom "discard"] => some .discardOffspring
  | .list [.atom "op", .atom "generational", _] => some .generational
  | .list [.atom "op", .atom "merge"] => some .merge
  | .list [.atom "op", .atom "mupl", m] => (nat? m).map .muPlusLambda
  | .list [.atom "op", .atom "rand", m] => (nat? m).map .randomReplacement
  | .list [.atom "op", .atom "keepbetter"] => some .keepBetterAtIndex
  | _ => none

def Outcome.toSexp : Outcome → Sexp
  | .ok => .atom "ok"
  | .err => .list [.atom "e", .atom "exec"]
  | .panic => .atom "panic"

def Outcome.parse? : Sexp → Option Outcome
  | .atom "ok" => some .ok
  | .atom "panic" => some .panic
  | .list [.atom "e", .atom "exec"] => some .err
  | _ => none

def outToSexp (stack : List (Pop Bits)) (o : Outcome) : Sexp :=
  .list [.list [.atom "res", o.toSexp], .list (.atom "stack" :: stack.map Pop.toSexp)]

/-- Reads the witness off the observed result: for every kept individual the first not yet used
position in `parents ++ offspring` holding an equal individual (tags may repeat when offspring are
clones of parents), followed by the remaining positions in ascending order.  Arrays only for speed
(populations of several hundred individuals); `used[i]` marks positions already taken. -/
def recoverKept (all : Array (Ind Bits)) : Pop Bits → Array Bool → List Nat → List Nat × Array Bool
  | [], used, acc => (acc.reverse, used)
  | x :: xs, used, acc =>
    match (List.range all.size).find? fun i => !(used.getD i true) && all[i]? == some x with
    | some i => recoverKept all xs (used.setIfInBounds i true) (i :: acc)
    | none => recoverKept all xs used (all.size :: acc)

def recoverWitness (all r : Pop Bits) : List Nat :=
  let (kept, used) := recoverKept all.toArray r (Array.replicate all.length false) []
  kept ++ (List.range all.length).filter (fun i => !(used.getD i true))

/-- Executable "is a permutation of" (multiset equality). -/
def permB {α : Type} [DecidableEq α] (r r' : List α) : Bool :=
  r.length == r'.length && r.all fun x => r.count x == r'.count x

structure CaseResult where
  agree : Bool
  cls : Option String
  model : Sexp

/-- `MuPlusLambda` is compared up to the order of the result: the statement (and the operator's
documentation) fixes *which* individuals survive (up to ties), not their order inside the population;
`mu_plus_lambda_order_free` shows that the property predicate cannot tell two orders apart. -/
def agreeUpToOrder (op : Op) (mstack : List (Pop Bits)) (mout : Outcome)
    (stack' : List (Pop Bits)) (out : Outcome) : Bool :=
  match op, mout, out, mstack, stack' with
  | .muPlusLambda _, .ok, .ok, m :: mrest, r :: rest => decide (mrest = rest) && permB m r
  | _, _, _, _, _ => false

/-- Outside the property's quantifier (an unevaluated individual among the two top populations)
`MuPlusLambda` is not pinned to the exact point at which `objective()` panics: whether the sort ever
asks for a key (one individual; everything fits) is an implementation detail.  Accepted there: the
panic outcome (both populations gone), or an `Ok` whose result is, up to order, what the sort gives
when unevaluated individuals are ordered first and nothing panics. -/
def agreeOutsideDomain (op : Op) (w : List Nat) (stack stack' : List (Pop Bits)) (out : Outcome) : Bool :=
  match op, stack with
  | .muPlusLambda mu, o :: p :: rest =>
    let all := p ++ o
    all.any (fun i => i.obj.isNone) &&
    (match out, stack' with
     | .panic, s => decide (s = rest)
     | .ok, r :: rest' => decide (rest' = rest) && permB r (((permute all w).mergeSort leInd).take mu)
     | _, _ => false)
  | _, _ => false

/-- Input `(rep (op …) (seed s) (stack P*) [(via replace)])` (top first), output
`((res R) (stack P*))`.  With `(via replace)` the harness called the trait method
`Replacement::replace` directly on exactly two populations and reports `(stack (pop r))` for `Ok(r)`
and `(stack)` otherwise — which is what `step` gives on a two-population stack. -/
def handleRep (args : List Sexp) (implOut : Sexp) : Option CaseResult := do
  let (opS, stackS) ← match args with
    | [o, _, s] => some (o, s)
    | [o, _, s, _] => some (o, s)
    | _ => none
  let op ← Op.parse? opS
  let stack ← (← tagged? "stack" stackS).mapM Pop.parse?
  let (resS, stS) ← match implOut with
    | .list [r, s] => some (r, s)
    | _ => none
  let out ← match ← tagged? "res" resS with
    | [o] => Outcome.parse? o
    | _ => none
  let stack' ← (← tagged? "stack" stS).mapM Pop.parse?
  let all := match stack with
    | o :: p :: _ => p ++ o
    | _ => []
  let w := match out, stack' with
    | .ok, r :: _ => recoverWitness all r
    | _, _ => List.range all.length
  let (mstack, mout) := step op w stack
  let model := outToSexp mstack mout
  let agree := legalB w all.length &&
    (Sexp.beq model implOut || agreeUpToOrder op mstack mout stack' out ||
      agreeOutsideDomain op w stack stack' out)
  pure { agree, cls := violation op stack stack' out, model }

/-! ### Frequency oracle for `RandomReplacement` ("mu random ones")

The harness runs the real component `runs` times with different seeds on `a` parents and `b`
offspring and reports, per input position, how often it survived (`counts`), per pair of positions
how often both survived (`pairs`, upper triangle row by row), the number of distinct kept *sets* and the
number of runs that did not return `min mu n` individuals (`bad`).  Under a uniform shuffle
(`random_replacement_uniform_survival`) position `i` survives with probability `k/n`,
`k = min mu n`; a pair survives with probability `k(k-1)/(n(n-1))`.  Tolerance: six standard
deviations of the binomial count plus one. -/

def within (runs : Nat) (p : Float) (c : Nat) : Bool :=
  let m := runs.toFloat * p
  let sd := Float.sqrt (runs.toFloat * p * (1 - p))
  Float.abs (c.toFloat - m) ≤ 6 * sd + 1

def freqViolation (n k runs : Nat) (counts pairs : List Nat) (distinct : Nat) : Option String :=
  let p := k.toFloat / n.toFloat
  let q := (k * (k - 1)).toFloat / (n * (n - 1)).toFloat
  if k ≥ 1 && k < n && runs ≥ 2 && distinct < 2 then some "seed-independent"
  else if n ≥ 1 && !counts.all (within runs p) then some "not-uniform"
  else if n ≥ 2 && !pairs.all (within runs q) then some "not-uniform-pair"
  else none

def natArg (tag : String) (s : Sexp) : Option Nat := do
  match ← tagged? tag s with
  | [x] => nat? x
  | _ => none

/-- Input `(freq (mu M) (a A) (b B) (runs N) (seed S))`, output
`((counts c*) (pairs p*) (distinct D) (bad B))`. -/
def handleFreq (args : List Sexp) (implOut : Sexp) : Option CaseResult := do
  let (muS, aS, bS, runsS) ← match args with
    | [m, a, b, r, _] => some (m, a, b, r)
    | _ => none
  let mu ← natArg "mu" muS
  let a ← natArg "a" aS
  let b ← natArg "b" bS
  let runs ← natArg "runs" runsS
  let (cS, pS, dS, badS) ← match implOut with
    | .list [c, p, d, x] => some (c, p, d, x)
    | _ => none
  let counts ← (← tagged? "counts" cS).mapM nat?
  let pairs ← (← tagged? "pairs" pS).mapM nat?
  let distinct ← natArg "distinct" dS
  let bad ← natArg "bad" badS
  let n := a + b
  let k := min mu n
  -- what the model fixes whatever the witnesses are: every run keeps exactly k positions
  let sum := runs * k
  let pairSum := runs * (k * (k - 1) / 2)
  let agree := bad == 0 && counts.length == n && pairs.length == n * (n - 1) / 2 &&
    counts.foldl (· + ·) 0 == sum && pairs.foldl (· + ·) 0 == pairSum
  let model := Sexp.list [.list [.atom "sum", ofNat sum], .list [.atom "pairsum", ofNat pairSum],
    .list [.atom "bad", ofNat 0]]
  pure { agree, cls := freqViolation n k runs counts pairs distinct, model }

def handleCase (input implOut : Sexp) : Option CaseResult :=
  match input with
  | .list (.atom "rep" :: args) => handleRep args implOut
  | .list (.atom "freq" :: args) => handleFreq args implOut
  | _ => none

end MahfModel.Replacement
