/-
C12 — model of the replacement operators (src/components/replacement/{mod.rs,common.rs}).

Code-shaped: `replacement()` pops the offspring, pops the parents, calls `replace`, and pushes the
result only when `replace` returned `Ok`; on `Err` (and on a panic inside `replace`) both
populations are gone.  Individuals are `(tag, objective?)`; the harness tags every individual
uniquely, the objective is carried along untouched.  The objective carrier `F` is generic (core
classes only): the driver instantiates it with IEEE bit patterns ordered as `f64`, the theorems with
an arbitrary linear order.

Randomness / unspecified order is an explicit witness `w : List Nat`, a permutation of
`0 … a+b-1`:
* `RandomReplacement`: `shuffle` = apply the permutation, then `truncate`;
* `MuPlusLambda`: `sort_unstable_by_key` = *stable* sort of some permutation of the input (the
  order among equal keys is left free by Rust), then `truncate`.
-/
import MahfModel.Model.Sexp
namespace MahfModel.Replacement

structure Ind (F : Type) where
  tag : Nat
  obj : Option F
  deriving DecidableEq, Repr

abbrev Pop (F : Type) := List (Ind F)

inductive Op where
  | discardOffspring | generational | merge
  | muPlusLambda (mu : Nat) | randomReplacement (mu : Nat) | keepBetterAtIndex
  deriving DecidableEq, Repr

/-- What `execute` can do besides returning `Ok`: return `Err`, or panic. -/
inductive Err where
  | exec | panic
  deriving DecidableEq, Repr

/-- Total preorder on optional keys used by the sort (`none` never reaches the comparator in the
code — `objective()` panics first — it is ordered first only to keep the comparator total). -/
def leO {F : Type} [LE F] [DecidableLE F] : Option F → Option F → Bool
  | none, _ => true
  | some _, none => false
  | some x, some y => decide (x ≤ y)

def leInd {F : Type} [LE F] [DecidableLE F] (a b : Ind F) : Bool := leO a.obj b.obj

/-- Apply the witness permutation: position `k` of the result is element `w[k]` of `l`. -/
def permute {α : Type} (l : List α) (w : List Nat) : List α := w.filterMap (l[·]?)

/-- `w` is a permutation of `0 … n-1`. Executable form (`legalB`) is in the wire section. -/
def Legal (w : List Nat) (n : Nat) : Prop := w.Perm (List.range n)

/-- `KeepBetterAtIndex`: `zip` + `if parent.objective() > offspring.objective() { offspring } else
{ parent }`; `objective()` panics on an unevaluated individual. -/
def keepBetter {F : Type} [LT F] [DecidableLT F] : Pop F → Pop F → Except Err (Pop F)
  | p :: ps, o :: os =>
    match p.obj, o.obj with
    | some a, some b =>
      match keepBetter ps os with
      | .ok r => .ok ((if b < a then o else p) :: r)
      | .error e => .error e
    | _, _ => .error .panic
  | _, _ => .ok []

/-- `Replacement::replace` of each operator. -/
def replace {F : Type} [LE F] [DecidableLE F] [LT F] [DecidableLT F]
    (op : Op) (w : List Nat) (parents offspring : Pop F) : Except Err (Pop F) :=
  match op with
  | .discardOffspring => .ok parents
  | .generational => .ok offspring
  | .merge => .ok (parents ++ offspring)
  | .muPlusLambda mu =>
    -- parents.extend(offspring); sort_unstable_by_key(|i| *i.objective()); truncate(mu)
    let all := parents ++ offspring
    -- the key function runs (and unwraps the objective) as soon as there is anything to compare
    if 2 ≤ all.length ∧ all.any (fun i => i.obj.isNone) then .error .panic
    else .ok (((permute all w).mergeSort leInd).take mu)
  | .randomReplacement mu =>
    -- parents.extend(offspring); shuffle(rng); truncate(mu)
    .ok ((permute (parents ++ offspring) w).take mu)
  | .keepBetterAtIndex =>
    if parents.length = offspring.length then keepBetter parents offspring else .error .exec

inductive Outcome where
  | ok | err | panic
  deriving DecidableEq, Repr

/-- `replacement()`: the population stack (head = top) after `execute`, and what `execute` did.
`Populations::pop` panics on an empty stack; the first pop has already happened when the second
one panics. -/
def step {F : Type} [LE F] [DecidableLE F] [LT F] [DecidableLT F]
    (op : Op) (w : List Nat) : List (Pop F) → List (Pop F) × Outcome
  | [] => ([], .panic)
  | [_] => ([], .panic)
  | offspring :: parents :: rest =>
    match replace op w parents offspring with
    | .ok r => (r :: rest, .ok)
    | .error .exec => (rest, .err)
    | .error .panic => (rest, .panic)

/-! ### The property as an executable predicate on an observed outcome -/

/-- Multiset inclusion `r ≤ all`, executable. -/
def subBagB {α : Type} [DecidableEq α] (r all : List α) : Bool :=
  r.all fun x => r.count x ≤ all.count x

/-- Multiset inclusion, proof-friendly form: `r` can be completed to a permutation of `all`. -/
def SubBag {α : Type} (r all : List α) : Prop := ∃ rest, (r ++ rest).Perm all

/-- remove one occurrence of every element of `r` from `all` (what was discarded) -/
def bagDiff {α : Type} [DecidableEq α] (all r : List α) : List α := r.foldl (fun acc x => acc.erase x) all

/-- no discarded individual is strictly better than a kept one -/
def noBetterDiscardedB {F : Type} [LT F] [DecidableLT F] (kept discarded : Pop F) : Bool :=
  kept.all fun x => discarded.all fun y =>
    match x.obj, y.obj with
    | some a, some b => !decide (b < a)
    | _, _ => true

def keepBetterSpecB {F : Type} [DecidableEq F] [LT F] [DecidableLT F] : Pop F → Pop F → Pop F → Bool
  | p :: ps, o :: os, r :: rs =>
    (match p.obj, o.obj with
     | some a, some b => decide (r = if b < a then o else p)
     | _, _ => true) && keepBetterSpecB ps os rs
  | [], [], [] => true
  | _, _, _ => false

/-- Class of the deviation of an observed `(stack', outcome)` from what C12 states, or `none` if the
property holds on this observation.  Only inputs inside the property's quantifier (at least two
populations, every individual evaluated) are judged. -/
def violation {F : Type} [DecidableEq F] [LT F] [DecidableLT F]
    (op : Op) (stack : List (Pop F)) (stack' : List (Pop F)) (out : Outcome) : Option String :=
  match stack with
  | offspring :: parents :: rest =>
    let all := parents ++ offspring
    if all.any (fun i => i.obj.isNone) then none else
    let expectErr := op == .keepBetterAtIndex && parents.length != offspring.length
    match out with
    | .panic => some "panic"
    | .err => if !expectErr then some "err" else if stack' = rest then none else some "frame"
    | .ok =>
      if expectErr then some "no-err" else
      match stack' with
      | r :: rest' =>
        if rest' ≠ rest then some "frame"
        else if !subBagB r all then some "not-member"
        else match op with
          | .discardOffspring => if r = parents then none else some "wrong-value"
          | .generational => if r = offspring then none else some "wrong-value"
          | .merge => if r = parents ++ offspring then none else some "wrong-value"
          | .muPlusLambda mu =>
            if r.length ≠ min mu all.length then some "count"
            else if !noBetterDiscardedB r (bagDiff all r) then some "not-best" else none
          | .randomReplacement mu => if r.length ≠ min mu all.length then some "count" else none
          | .keepBetterAtIndex => if keepBetterSpecB parents offspring r then none else some "wrong-value"
      | [] => some "frame"
  | _ => none

/-! ### Wire format -/
open MahfModel Sexp

def legalB (w : List Nat) (n : Nat) : Bool :=
  w.length == n && (List.range n).all (fun i => w.contains i)

/-- IEEE bit pattern ordered as `f64` (objective values are never NaN). -/
structure Bits where
  b : UInt64
  deriving DecidableEq

instance : LT Bits := ⟨fun x y => Float.ofBits x.b < Float.ofBits y.b⟩
instance : LE Bits := ⟨fun x y => Float.ofBits x.b ≤ Float.ofBits y.b⟩
instance : DecidableLT Bits := fun x y => inferInstanceAs (Decidable (Float.ofBits x.b < Float.ofBits y.b))
instance : DecidableLE Bits := fun x y => inferInstanceAs (Decidable (Float.ofBits x.b ≤ Float.ofBits y.b))

def Ind.parse? : Sexp → Option (Ind Bits)
  | .list [t, .atom "u"] => do pure { tag := ← nat? t, obj := none }
  | .list [t, o] => do pure { tag := ← nat? t, obj := some ⟨← bits? o⟩ }
  | _ => none

def Ind.toSexp (i : Ind Bits) : Sexp :=
  .list [ofNat i.tag, match i.obj with | some o => ofBits o.b | none => .atom "u"]

def Pop.parse? (s : Sexp) : Option (Pop Bits) := do
  let xs ← tagged? "pop" s
  xs.mapM Ind.parse?

def Pop.toSexp (p : Pop Bits) : Sexp := .list (.atom "pop" :: p.map Ind.toSexp)

def Op.parse? : Sexp → Option Op
  | .list [.atom "op", .atom "discard"] => some .discardOffspring
  | .list [.atom "op", .atom "generational", _] => some .generational
  | .list [.atom "op", .atom "merge"] => some .merge
  | .list [.atom "op", .atom "mupl", m] => (nat? m).map .muPlusLambda
  | .list [.atom "op", .atom "rand", m] => (nat? m).map .randomReplacement
  | .list [.atom "op", .atom "keepbetter"] => some .keepBetterAtIndex
  | _ => none

def Outcome.toSexp : Outcome → Sexp
  | .ok => .atom "ok"
  | .err => .list [.atom "e", .atom "exec"]
  | .panic => .atom "panic"

def Outcome.parse? : Sexp → Option Outcome
  | .atom "ok" => some .ok
  | .atom "panic" => some .panic
  | .list [.atom "e", .atom "exec"] => some .err
  | _ => none

def outToSexp (stack : List (Pop Bits)) (o : Outcome) : Sexp :=
  .list [.list [.atom "res", o.toSexp], .list (.atom "stack" :: stack.map Pop.toSexp)]

/-- Reads the witness off the observed result: for every kept individual the first not yet used
position in `parents ++ offspring` holding an equal individual (tags may repeat when offspring are
clones of parents), followed by the remaining positions in ascending order. -/
def recoverKept (all : Pop Bits) : Pop Bits → List Nat → List Nat
  | [], used => used.reverse
  | x :: xs, used =>
    let cand := (List.range all.length).find? fun i => !used.contains i && all[i]? == some x
    recoverKept all xs (cand.getD all.length :: used)

def recoverWitness (all r : Pop Bits) : List Nat :=
  let kept := recoverKept all r []
  kept ++ (List.range all.length).filter (fun i => !kept.contains i)

structure CaseResult where
  agree : Bool
  cls : Option String
  model : Sexp

/-- Input `(rep (op …) (seed s) (stack P*))` (top first), output `((res R) (stack P*))`. -/
def handleCase (input implOut : Sexp) : Option CaseResult := do
  let args ← tagged? "rep" input
  let (opS, stackS) ← match args with
    | [o, _, s] => some (o, s)
    | _ => none
  let op ← Op.parse? opS
  let stack ← (← tagged? "stack" stackS).mapM Pop.parse?
  let (resS, stS) ← match implOut with
    | .list [r, s] => some (r, s)
    | _ => none
  let out ← match ← tagged? "res" resS with
    | [o] => Outcome.parse? o
    | _ => none
  let stack' ← (← tagged? "stack" stS).mapM Pop.parse?
  let all := match stack with
    | o :: p :: _ => p ++ o
    | _ => []
  let w := match out, stack' with
    | .ok, r :: _ => recoverWitness all r
    | _, _ => List.range all.length
  let (mstack, mout) := step op w stack
  let model := outToSexp mstack mout
  let agree := legalB w all.length && Sexp.beq model implOut
  pure { agree, cls := violation op stack stack' out, model }

end MahfModel.Replacement
