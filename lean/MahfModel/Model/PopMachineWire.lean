/-
Wire format of the PopMachine domains (C05 API histories, C06 evaluation steps / run traces,
C07 best / archive feeding sequences / run traces). Objective values travel as IEEE bit patterns and
are mapped to order-preserving integer keys (objective values are never NaN; `-0.0` is not generated).
-/
import MahfModel.Model.PopMachine
namespace MahfModel.PopMachine.Wire
open MahfModel Sexp

/-- Order-preserving key of a non-NaN double. -/
def keyOfBits (b : UInt64) : Int :=
  if b >>> 63 == 0 then Int.ofNat b.toNat
  else - Int.ofNat (b &&& 0x7FFFFFFFFFFFFFFF).toNat

def bitsOfKey (k : Int) : UInt64 :=
  if k ≥ 0 then k.toNat.toUInt64 else (0x8000000000000000 : UInt64) ||| (-k).toNat.toUInt64

def obj? (s : Sexp) : Option Int := (bits? s).map keyOfBits
def ofObj (k : Int) : Sexp := ofBits (bitsOfKey k)

abbrev I := Ind Int

/-- `(sol)` unevaluated, `(sol x…)` evaluated. -/
def ind? : Sexp → Option I
  | .list [s] => (nat? s).map fun n => ⟨n, none⟩
  | .list [s, o] => do
    let n ← nat? s
    let k ← obj? o
    pure ⟨n, some k⟩
  | _ => none

def ofInd (i : I) : Sexp :=
  match i.obj with
  | none => .list [ofNat i.sol]
  | some o => .list [ofNat i.sol, ofObj o]

def pop? : Sexp → Option (List I)
  | .list xs => xs.mapM ind?
  | _ => none

def ofPop (p : List I) : Sexp := .list (p.map ofInd)

def objs? : Sexp → Option (List Int)
  | .list xs => xs.mapM obj?
  | _ => none

/-- Objective table `(f x… x… …)`: value of solution id `k` is the `k`-th entry. -/
def ftab? (s : Sexp) : Option (List Int) := do
  let xs ← tagged? "f" s
  xs.mapM obj?

def fOf (tab : List Int) (s : Nat) : Int := tab.getD s 0

/-- `(tag n)` -/
def tnat? (tag : String) (s : Sexp) : Option Nat :=
  match tagged? tag s with
  | some [n] => nat? n
  | _ => none

def insertNat (x : Nat) : List Nat → List Nat
  | [] => [x]
  | y :: ys => if y < x then y :: insertNat x ys else x :: y :: ys
def sortNat : List Nat → List Nat
  | [] => []
  | x :: xs => insertNat x (sortNat xs)

def optNat? : Sexp → Option (Option Nat)
  | .atom "none" => some none
  | s => (nat? s).map some

def ofOptNat : Option Nat → Sexp
  | none => .atom "none"
  | some n => ofNat n

/-! ## C06 — evaluation steps -/
namespace C06

inductive EStep where
  | push (p : List I) | pop | eval (id : String)

def EStep.parse? : Sexp → Option EStep
  | .list [.atom "push", p] => (pop? p).map .push
  | .list [.atom "pop"] => some .pop
  | .list [.atom "eval", .atom id] => some (.eval id)
  | _ => none

structure EvRec where
  evals : Nat
  calls : List Nat
  top : Option (List I)

def EvRec.toSexp (par : Bool) (r : EvRec) : Sexp :=
  .list [.atom "ev", ofNat r.evals,
         .list (.atom "calls" :: (if par then sortNat r.calls else r.calls).map ofNat),
         match r.top with | none => .atom "notop" | some p => .list (.atom "top" :: p.map ofInd)]

def EvRec.parse? : Sexp → Option EvRec
  | .list [.atom "ev", e, .list (.atom "calls" :: cs), t] => do
    let e ← nat? e
    let cs ← cs.mapM nat?
    let t ← match t with
      | .atom "notop" => some none
      | .list (.atom "top" :: is) => (is.mapM ind?).map some
      | _ => none
    pure ⟨e, cs, t⟩
  | _ => none

/-- Runs the steps on the machine. `none`: panic (`pop()` on an empty stack). -/
def runSteps (f : Nat → Int) : PM Int → List EStep → List EvRec → Option (PM Int × List EvRec)
  | pm, [], acc => some (pm, acc.reverse)
  | pm, .push p :: rest, acc => runSteps f { pm with stack := p :: pm.stack } rest acc
  | pm, .pop :: rest, acc =>
    match pm.stack with
    | [] => none
    | _ :: s => runSteps f { pm with stack := s } rest acc
  | pm, .eval _ :: rest, acc =>
    let pm' := evalStep f pm
    runSteps f pm' rest (⟨pm'.evals, pm'.calls.drop pm.calls.length, pm'.stack.head?⟩ :: acc)

/-- `Configuration::run`: `init` (counter := 0), `require` (every evaluation step's identifier must be
registered — otherwise `Err` before anything executes), `execute`. -/
def runConfig (f : Nat → Int) (reg : List String) (steps : List EStep) : String × PM Int × List EvRec :=
  let missing := steps.any fun s => match s with | .eval id => !reg.contains id | _ => false
  if missing then ("required", {}, [])
  else match runSteps f {} steps [] with
    | none => ("panic", {}, [])
    | some (pm, recs) => ("ok", pm, recs)

def resSexp (r : String) : Sexp :=
  if r == "ok" then .list [.atom "res", .atom "ok"]
  else if r == "panic" then .list [.atom "res", .atom "panic"]
  else .list [.atom "res", .list [.atom "e", .atom r]]

def finalSexp (evals : Option Nat) (ncalls : Nat) (stack : List (List I)) : Sexp :=
  .list [.atom "final", .list [.atom "evals", ofOptNat evals], .list [.atom "ncalls", ofNat ncalls],
         .list (.atom "stack" :: stack.map ofPop)]

structure ImplOut where
  res : Sexp
  recs : List EvRec
  evals : Option Nat
  ncalls : Nat
  stack : List (List I)

def ImplOut.parse? : Sexp → Option ImplOut
  | .list [.list [.atom "res", r], .list (.atom "evs" :: rs),
           .list [.atom "final", .list [.atom "evals", e], .list [.atom "ncalls", c], .list (.atom "stack" :: ps)]] => do
    let recs ← rs.mapM EvRec.parse?
    let e ← optNat? e
    let c ← nat? c
    let ps ← ps.mapM pop?
    pure ⟨r, recs, e, c, ps⟩
  | _ => none

/-- The property on the implementation's output, step by step. `expect` is the stack of solution
lists prescribed by the input's push/pop steps. Returns the deviation class, `"-"` if none. -/
def holdsSteps (f : Nat → Int) : List EStep → List (List Nat) → Nat → List EvRec → String
  | [], _, _, [] => "-"
  | [], _, _, _ :: _ => "count"
  | .push p :: rest, st, ev, recs => holdsSteps f rest (p.map (·.sol) :: st) ev recs
  | .pop :: rest, st, ev, recs => holdsSteps f rest (st.drop 1) ev recs
  | .eval _ :: _, _, _, [] => "count"
  | .eval _ :: rest, st, ev, r :: recs =>
    match st, r.top with
    | [], none =>
      if r.evals == ev && r.calls.isEmpty then holdsSteps f rest st ev recs else "count"
    | sols :: _, some top =>
      if top.map (·.sol) != sols then "order"
      else if !(top.all fun i => i.obj == some (f i.sol)) then "wrong-value"
      else if sortNat r.calls != sortNat sols then "count"
      else if r.evals != ev + sols.length then "count"
      else holdsSteps f rest st r.evals recs
    | _, _ => "leak"

def comp (input implOut : Sexp) : Option Verdict := do
  let args ← tagged? "evalsteps" input
  match args with
  | [.list [.atom "ev", .atom kind, _], .list (.atom "reg" :: reg), ft, .list (.atom "steps" :: ss)] =>
    let par := kind == "par"
    let reg ← reg.mapM atom?
    let tab ← ftab? ft
    let steps ← ss.mapM EStep.parse?
    let f := fOf tab
    let (res, pm, recs) := runConfig f reg steps
    -- the counter only exists if some `PopulationEvaluator::init` inserted it
    let hasEval := steps.any fun s => match s with | .eval _ => true | _ => false
    let model := Sexp.list [resSexp res, .list (.atom "evs" :: recs.map (EvRec.toSexp par)),
                            finalSexp (if hasEval then some pm.evals else none) pm.calls.length pm.stack]
    let io ← ImplOut.parse? implOut
    let implCanon := Sexp.list [.list [.atom "res", io.res], .list (.atom "evs" :: io.recs.map (EvRec.toSexp par)),
                                finalSexp io.evals io.ncalls io.stack]
    let agree := Sexp.beq model implCanon
    -- O: the property, on the implementation's output
    let cls :=
      if res == "required" then
        (if Sexp.beq io.res (.list [.atom "e", .atom "required"]) && io.recs.isEmpty && io.ncalls == 0 && io.stack.isEmpty
         then "-" else "err")
      else if res == "panic" then "-"          -- outside the quantifier (pop on an empty stack)
      else if !Sexp.beq io.res (.atom "ok") then "err"
      else
        let c := holdsSteps f steps [] 0 io.recs
        if c != "-" then c
        else if hasEval && io.evals != some io.ncalls then "count"
        else if !hasEval && io.ncalls != 0 then "count" else "-"
    pure { agree, holds := cls == "-", cls, model }
  | _ => none

/-- `(budget (n N) (m M))`: `while evals < N { push M new individuals; evaluate; pop }`. -/
def budget (input implOut : Sexp) : Option Verdict := do
  let args ← tagged? "budget" input
  match args with
  | [a, b] =>
    let n ← tnat? "n" a
    let m ← tnat? "m" b
    let body : PM Int → PM Int := fun pm =>
      let pm1 := { pm with stack := (List.range m).map (fun s => (⟨s, none⟩ : I)) :: pm.stack }
      let pm2 := evalStep (fun _ => 0) pm1
      { pm2 with stack := pm2.stack.drop 1 }
    let r := budgetLoop n body (n + 2) {}
    let model := match r with
      | some pm => Sexp.list [.list [.atom "evals", ofNat pm.evals], .list [.atom "ncalls", ofNat pm.calls.length]]
      | none => .atom "diverges"
    let agree := Sexp.beq model implOut
    match implOut with
    | .list [.list [.atom "evals", e], .list [.atom "ncalls", c]] =>
      let e ← nat? e
      let c ← nat? c
      let ok := e == c && n ≤ e && e < n + m
      pure { agree, holds := ok, cls := if ok then "-" else "count", model }
    | _ => pure { agree, holds := false, cls := "err", model }
  | _ => none

/-- `(fa ID (reg …) …)`: the firefly skeleton with evaluator identifier `ID`; the evaluator registered
under `ID` counts into probe A, a different evaluator registered under the other identifier into
probe G. Model: every evaluation (population steps and single moves) goes through `Evaluator<P, ID>`
and is counted. -/
def fa (_input implOut : Sexp) : Option Verdict := do
  match implOut with
  | .list [.list [.atom "res", r], .list [.atom "evals", e], .list [.atom "callsA", a], .list [.atom "callsG", g]] =>
    let e ← optNat? e
    let a ← nat? a
    let g ← nat? g
    let okRes := Sexp.beq r (.atom "ok")
    let cls := if !okRes then "err" else if g != 0 then "wrong-evaluator" else if e != some a then "count" else "-"
    let model := Sexp.list [.list [.atom "res", .atom "ok"], .list [.atom "evals", ofNat a], .list [.atom "callsA", ofNat a],
                            .list [.atom "callsG", ofNat 0]]
    pure { agree := Sexp.beq model implOut, holds := cls == "-", cls, model }
  | _ => none

/-! Run level: the trace of leaf steps of a template run. -/

inductive REv where
  | enter (he : Bool) | exit
  | eval (n k : Nat) (d : Option Nat)       -- evaluator leaf: population size, calls made, counter delta
  | self (k : Nat) (d : Option Nat)         -- self-evaluating leaf (firefly update)
  | other (k : Nat) (d : Option Nat)        -- any other leaf that made calls / moved the counter

def REv.parse? : Sexp → Option REv
  | .list [.atom "s", he] => (bool? he).map .enter
  | .list [.atom "x"] => some .exit
  | .list [.atom "ev", n, k, d] => do pure (.eval (← nat? n) (← nat? k) (← optNat? d))
  | .list [.atom "fa", k, d] => do pure (.self (← nat? k) (← optNat? d))
  | .list [.atom "o", _, k, d] => do pure (.other (← nat? k) (← optNat? d))
  | _ => none

/-- The model's view of the trace: what each leaf does to the visible counter. -/
def REv.toEv : REv → Ev Int
  | .enter he => .enter he false
  | .exit => .exit
  | .eval n _ _ => .eval n []
  | .self k _ => .selfEval (List.replicate k 0)
  | .other _ _ => .other

/-- Does the implementation's leaf behave as the model's leaf (calls and counter delta)? -/
def REv.leafAgrees : REv → Bool
  | .eval n k d => k == n && d == some n
  | .self k d => d == some k
  | .other k d => k == 0 && (d == some 0 || d == none)
  | _ => true

/-- The property on one leaf: the visible counter moves by exactly the calls made. -/
def REv.leafHolds : REv → Bool
  | .eval n k d => k == n && d == some k
  | .self k d => d == some k
  | .other k d => (d == some k) || (k == 0 && d == none)
  | _ => true

def REv.calls : REv → Nat
  | .eval _ k _ => k | .self k _ => k | .other k _ => k | _ => 0

def run (_input implOut : Sexp) : Option Verdict := do
  match implOut with
  | .list [.list [.atom "out", .atom out], .list (.atom "trace" :: evs), .list [.atom "evals", e], .list [.atom "ncalls", c]] =>
    let evs ← evs.mapM REv.parse?
    let e ← optNat? e
    let c ← nat? c
    let s := scopedRun ({} : Scoped Int) (evs.map REv.toEv)
    let reported := reportedEvals s
    let total := s.returned.length + (evs.foldl (fun a ev => match ev with | .eval n _ _ => a + n | _ => a) 0)
    let finished := out == "ok"
    let model := Sexp.list [.list [.atom "evals", ofNat reported], .list [.atom "ncalls", ofNat total]]
    let agree := evs.all REv.leafAgrees && (!finished || (e == some reported && c == total))
    let leafOk := evs.all REv.leafHolds
    let traceCalls := evs.foldl (fun a ev => a + ev.calls) 0
    let finalOk := !finished || (e == some c && traceCalls == c)
    let ok := leafOk && finalOk
    pure { agree, holds := ok, cls := if ok then "-" else "count", model }
  | _ => none

end C06

/-! ## C07 — best-so-far and elitist archive -/
namespace C07

inductive Op where
  | feed (p : List I) | upd (c : I) | arch (p : List I) | into (p : List I)

def Op.parse? : Sexp → Option Op
  | .list [.atom "feed", p] => (pop? p).map .feed
  | .list [.atom "upd", c] => (ind? c).map .upd
  | .list [.atom "arch", p] => (pop? p).map .arch
  | .list [.atom "into", p] => (pop? p).map .into
  | _ => none

def ofBest : Option I → Sexp
  | none => .list [.atom "best", .atom "none"]
  | some b => .list [.atom "best", ofInd b]

def best? : Sexp → Option (Option I)
  | .list [.atom "best", .atom "none"] => some none
  | .list [.atom "best", b] => (ind? b).map some
  | _ => none

/-- `a` is a sub-multiset of `b`. -/
def subMultiset : List I → List I → Bool
  | [], _ => true
  | x :: xs, b => b.contains x && subMultiset xs (b.erase x)

def keysOf (l : List I) : List Int := l.filterMap (·.obj)
def sortedKeys (l : List I) : List Int := sortByKey id (keysOf l)
def leObj (a b : I) : Bool :=
  match a.obj, b.obj with
  | some x, some y => x ≤ y
  | _, _ => false
def ltObj (a b : I) : Bool :=
  match a.obj, b.obj with
  | some x, some y => x < y
  | _, _ => false

structure St where
  best : Option I := none          -- the implementation's best (as last reported)
  arch : List I := []              -- the implementation's archive (as last reported; witness for tie order)
  shownB : List I := []            -- every candidate fed to the best-update so far
  shownA : List I := []            -- every individual shown to the archive so far

/-- One op: model output, does the implementation's output agree, deviation class of the property
predicate evaluated on the implementation's output, next state. -/
def stepOp (k : Nat) (st : St) (op : Op) (out : Sexp) : Option (Sexp × Bool × String × St) :=
  match op with
  | .feed p =>
    let m := bestUpdateStep ({ stack := [p], best := st.best } : PM Int)
    match m with
    | none =>   -- model: panic (unevaluated member); outside the property's quantifier
      some (.atom "panic", Sexp.beq out (.atom "panic"), "-", st)
    | some pm =>
      let model := ofBest pm.best
      match best? out with
      | none => some (model, false, "panic", st)
      | some b =>
        let shown := st.shownB ++ p
        let cls :=
          if !(shown.all (·.obj.isSome)) then "-" else   -- unevaluated candidates: outside the quantifier
          match b with
          | none => if shown.isEmpty then "-" else "best-not-min"
          | some bi =>
            if !(p.all fun i => leObj bi i) then "best-not-min"             -- dominates the population
            else if !(shown.all fun i => leObj bi i) || !shown.contains bi then "best-not-min"
            else match st.best with
              | none => "-"
              | some old => if bi == old || ltObj bi old then "-" else "not-monotone"
        -- K: which of several equally good candidates of the population is remembered is not part of the
        -- property (`min_by_key` takes the first): when the model replaces the best, any member of the population
        -- with the same objective value agrees; when it keeps the old best, so must the implementation.
        let agree := Sexp.beq model out ||
          (match pm.best, b with
           | some mb, some bi => pm.best != st.best && p.contains bi && bi.obj.isSome && bi.obj == mb.obj
           | _, _ => false)
        some (model, agree, cls, { st with best := b, shownB := shown })
  | .upd c =>
    match bestUpdate st.best c with
    | none => some (.atom "panic", Sexp.beq out (.atom "panic"), "-", st)
    | some (b', r) =>
      let model := Sexp.list [.list [.atom "ret", ofBool r], ofBest b']
      match out with
      | .list [.list [.atom "ret", rs], bs] =>
        match bool? rs, best? bs with
        | some ri, some bi =>
          let shown := st.shownB ++ [c]
          -- best_update_spec on the implementation's own previous state
          let should := match st.best with
            | none => true
            | some old => ltObj c old
          let cls := if ri != should then "wrong-value"
            else if bi != (if should then some c else st.best) then "wrong-value"
            else "-"
          some (model, Sexp.beq model out, cls, { st with best := bi, shownB := shown })
        | _, _ => none
      | _ => some (model, false, "panic", st)
  | .arch p =>
    -- An unevaluated individual has no objective value, so "the k best" is not defined for it: such inputs lie
    -- outside the property. Whether the sort happens to look at its key (and panics) is an implementation detail
    -- (a single element is never compared by `sort_unstable_by_key`, a sorted insertion may look at it): there a panic
    -- of either side is accepted, and nothing is demanded of the result.
    let uneval := (st.arch ++ p).any (fun i => i.obj.isNone)
    if uneval then
      -- a panic ends the history; otherwise it continues from the implementation's own archive
      match out with
      | .list (.atom "arch" :: is) =>
        match is.mapM ind? with
        | some ai => some (out, true, "-", { st with arch := ai, shownA := st.shownA ++ p })
        | none => none
      | _ => some (.atom "panic", Sexp.beq out (.atom "panic"), "-", st)
    else
    match archiveUpdate st.arch p k with
    | none => some (.atom "panic", Sexp.beq out (.atom "panic"), "-", st)
    | some a' =>
      let model := Sexp.list (.atom "arch" :: a'.map ofInd)
      match out with
      | .list (.atom "arch" :: is) =>
        match is.mapM ind? with
        | none => none
        | some ai =>
          let shown := st.shownA ++ p
          -- K: same keys in the same order, members taken from (previous archive ++ population)
          let agree := keysOf ai == keysOf a' && ai.length == a'.length && subMultiset ai (st.arch ++ p)
          -- O: the k best of everything shown so far
          let cls := if !subMultiset ai shown then "archive"
            else if ai.length != min k shown.length then "archive"
            else if sortedKeys ai != (sortedKeys shown).take k then "archive"
            else "-"
          some (model, agree, cls, { st with arch := ai, shownA := shown })
      | _ => some (model, false, "panic", st)
  | .into p =>
    let r := archiveInto st.arch p
    let model := Sexp.list (.atom "pop" :: r.map ofInd)
    match out with
    | .list (.atom "pop" :: is) =>
      match is.mapM ind? with
      | none => none
      | some ri =>
        let extra := ri.drop p.length
        let cls := if ri.take p.length != p then "dup"
          else if !(extra.all fun e => st.arch.contains e && !p.contains e) then "dup"
          else if !(st.arch.all fun e => ri.contains e) then "lost-elitist"
          else if !(extra.all fun e => extra.count e == 1) then "dup"
          else "-"
        some (model, Sexp.beq model out, cls, st)
    | _ => some (model, false, "panic", st)

def runOps (k : Nat) : St → List Op → List Sexp → Option (List Sexp × Bool × String)
  | _, [], [] => some ([], true, "-")
  | st, op :: ops, o :: outs => do
    let (m, a, c, st') ← stepOp k st op o
    -- a panic ends the history (the harness stops there: the state may be half-updated)
    if Sexp.beq o (.atom "panic") || Sexp.beq m (.atom "panic") then
      pure ([m], a && outs.isEmpty, c)
    else
      let (ms, as, cs) ← runOps k st' ops outs
      pure (m :: ms, a && as, if c != "-" then c else cs)
  | _, _, _ => none

def comp (input implOut : Sexp) : Option Verdict := do
  let args ← tagged? "bestarch" input
  match args with
  | [kk, .list (.atom "ops" :: os)] =>
    let k ← tnat? "k" kk
    let ops ← os.mapM Op.parse?
    let outs ← tagged? "outs" implOut
    match runOps k {} ops outs with
    | some (ms, agree, cls) => pure { agree, holds := cls == "-", cls, model := .list (.atom "outs" :: ms) }
    | none => none
  | _ => none

/-! Run level. -/
inductive REv where
  | enter (he hb : Bool) | exit
  | calls (vals : List Int)
  | update (pop : List Int) (after : Option Int)

def optObj? : Sexp → Option (Option Int)
  | .atom "none" => some none
  | s => (obj? s).map some

def ofOptObj : Option Int → Sexp
  | none => .atom "none"
  | some k => ofObj k

def REv.parse? : Sexp → Option REv
  | .list [.atom "s", he, hb] => do pure (.enter (← bool? he) (← bool? hb))
  | .list [.atom "x"] => some .exit
  | .list (.atom "c" :: vs) => (vs.mapM obj?).map .calls
  | .list [.atom "u", vs, b] => do pure (.update (← objs? vs) (← optObj? b))
  | _ => none

def REv.toEv : REv → Ev Int
  | .enter he hb => .enter he hb
  | .exit => .exit
  | .calls vals => .selfEval vals
  | .update pop _ => .update pop

/-- Replays the trace on the scoped model; checks every update leaf's visible best. Returns
(model state, all update leaves agree, all update leaves dominate their population). -/
def replay : Scoped Int → List REv → Scoped Int × Bool × Bool
  | s, [] => (s, true, true)
  | s, ev :: evs =>
    let s' := scopedStep s ev.toEv
    let (a, h) := match ev with
      | .update pop after =>
        (s'.bests.headD none == after,
         match after with
         | none => pop.isEmpty
         | some b => pop.all fun v => b ≤ v)
      | _ => (true, true)
    let (sf, as, hs) := replay s' evs
    (sf, a && as, h && hs)

def run (_input implOut : Sexp) : Option Verdict := do
  match implOut with
  | .list [.list [.atom "out", .atom out], .list (.atom "trace" :: evs), .list [.atom "best", b], .list [.atom "min", m]] =>
    let evs ← evs.mapM REv.parse?
    let b ← optObj? b
    let m ← optObj? m
    let (s, leafAgree, leafHolds) := replay {} evs
    let finished := out == "ok"
    let modelBest := reportedBest s
    let modelMin := listMin s.returned
    let model := Sexp.list [.list [.atom "best", ofOptObj modelBest], .list [.atom "min", ofOptObj modelMin]]
    let agree := leafAgree && (!finished || (b == modelBest && m == modelMin))
    let finalOk := !finished || b == m
    let cls := if !leafHolds then "update-not-dominating" else if !finalOk then "best-not-min" else "-"
    pure { agree, holds := cls == "-", cls, model }
  | _ => none

end C07

/-! ## C05 — objective values are never stale -/
namespace C05

def optSol? : Sexp → Option (Option Nat)
  | .atom "-" => some none
  | s => (nat? s).map some

def ApiOp.parse? : Sexp → Option (ApiOp Int)
  | .list [.atom "new", s, o] => do pure (.new (← nat? s) (← obj? o))
  | .list [.atom "newu", s] => (nat? s).map .newU
  | .list [.atom "eval", i] => (nat? i).map .eval
  | .list [.atom "evalw", i, o] => do pure (.evalW (← nat? i) (← obj? o))
  | .list [.atom "setobj", i, o] => do pure (.setObj (← nat? i) (← obj? o))
  | .list [.atom "sol", i] => (nat? i).map .sol
  | .list [.atom "solmut", i, w] => do pure (.solMut (← nat? i) (← optSol? w))
  | .list [.atom "intosol", i] => (nat? i).map .intoSol
  | .list [.atom "clone", i] => (nat? i).map .clone
  | .list [.atom "clonefrom", i, j] => do pure (.cloneFrom (← nat? i) (← nat? j))
  | .list (.atom "vclonefrom" :: is) => (is.mapM ind?).map .vecCloneFrom
  | .list (.atom "sclonefrom" :: is) => (is.mapM ind?).map .sliceCloneFrom
  | .list [.atom "iseval", i] => (nat? i).map .isEval
  | .list [.atom "getobj", i] => (nat? i).map .getObj
  | .list [.atom "obj", i] => (nat? i).map .objective
  | .list [.atom "eq", i, j] => do pure (.eq (← nat? i) (← nat? j))
  | .list [.atom "assols"] => some .asSols
  | .list (.atom "assolsmut" :: ws) => (ws.mapM optSol?).map .asSolsMut
  | .list [.atom "intosols"] => some .intoSols
  | .list (.atom "intoinds" :: ss) => (ss.mapM nat?).map .intoInds
  | .list [.atom "single"] => some .single
  | .list [.atom "singleref"] => some .singleRef
  | .list [.atom "best"] => some .best
  | _ => none

def ofOut : ApiOut Int → Sexp
  | .unit => .atom "u"
  | .skip => .atom "skip"
  | .panic => .atom "panic"
  | .bool b => ofBool b
  | .nat n => .list [.atom "n", ofNat n]
  | .nats ns => .list (.atom "ns" :: ns.map ofNat)
  | .obj none => .list [.atom "o", .atom "none"]
  | .obj (some o) => .list [.atom "o", ofObj o]
  | .ind none => .list [.atom "i", .atom "none"]
  | .ind (some i) => .list [.atom "i", ofInd i]
  | .errEmpty => .list [.atom "e", .atom "empty"]
  | .errMany n => .list [.atom "e", .atom "many", ofNat n]

def validB (f : Nat → Int) (i : I) : Bool :=
  match i.obj with
  | none => true
  | some o => o == f i.sol

/-- Ghost "taint": a member may legitimately carry a value ≠ f(sol) only if a raw writer
(`new` / `set_objective` / `evaluate_with` with a foreign closure) put it there and it was copied. -/
def taintStep (f : Nat → Int) (p : List I) (t : List Bool) : ApiOp Int → List Bool
  | .new s o => t ++ [o != f s]
  | .newU _ => t ++ [false]
  | .eval i => t.set i false
  | .evalW i o => match p[i]? with | some x => t.set i (o != f x.sol) | none => t
  | .setObj i o => match p[i]? with | some x => t.set i (o != f x.sol) | none => t
  | .solMut i _ => t.set i false
  | .intoSol i => if i < p.length then t.eraseIdx i else t
  | .clone i => match t[i]? with | some b => t ++ [b] | none => t
  | .cloneFrom i j => match t[j]? with | some b => t.set i b | none => t
  | .vecCloneFrom src => src.map fun x => !validB f x
  | .sliceCloneFrom src => if p.length = src.length then src.map fun x => !validB f x else t
  | .asSolsMut _ => t.map fun _ => false
  | .intoSols => []
  | .intoInds ss => t ++ ss.map fun _ => false
  | _ => t

/-- The property on the implementation's population after one op. -/
def holdsStep (f : Nat → Int) (op : ApiOp Int) (taint : List Bool) (implPop : List I) : String :=
  if implPop.length != taint.length then "leak"
  else if !((implPop.zip taint).all fun (i, t) => t || validB f i) then "stale"
  else match op with
    | .solMut i _ => match implPop[i]? with | some x => if x.obj.isNone then "-" else "not-reset" | none => "-"
    | .asSolsMut _ => if implPop.all (·.obj.isNone) then "-" else "not-reset"
    | .newU _ => match implPop.getLast? with | some x => if x.obj.isNone then "-" else "not-reset" | none => "leak"
    | _ => "-"

def walk (f : Nat → Int) : List I → List Bool → List (ApiOp Int) → List Sexp → Option (List Sexp × String)
  | _, _, [], [] => some ([], "-")
  | p, t, op :: ops, o :: outs => do
    let r := apiStep f p op
    let t' := taintStep f p t op
    let implPop ← match o with
      | .list [_, ip] => pop? ip
      | _ => none
    let c := holdsStep f op t' implPop
    let (ms, cs) ← walk f r.1 t' ops outs
    pure (Sexp.list [ofOut r.2, ofPop r.1] :: ms, if c != "-" then c else cs)
  | _, _, _, _ => none

def api (input implOut : Sexp) : Option Verdict := do
  let args ← tagged? "api" input
  match args, implOut with
  | [_, .list (.atom "ops" :: os)], .list [ft, .list (.atom "steps" :: outs)] =>
    let ops ← os.mapM ApiOp.parse?
    let tab ← ftab? ft
    let f := fOf tab
    let (ms, cls) ← walk f [] [] ops outs
    let model := Sexp.list [ft, .list (.atom "steps" :: ms)]
    pure { agree := Sexp.beq model implOut, holds := cls == "-", cls, model }
  | _, _ => none

/-! Run level: audit of every individual reachable from the state after every step, plus the
evaluated-flag behaviour of every leaf component (Appendix B of DESIGN.md). -/

/-- What a leaf component does to the population stack, as far as C05 is concerned. -/
inductive Kind where
  | evalAll      -- height same, same solutions, all evaluated afterwards
  | unevalTop    -- goes through `as_solutions_mut`: height same, same length, ALL unevaluated (also at rate 0)
  | keep         -- does not touch the stack
  | pushNew      -- height + 1, the new top is all unevaluated
  | copy         -- height + 1, every member of the new top is an exact copy of a member of the old top
  | newTop       -- height same, the top is replaced by new, unevaluated individuals
  | merge        -- height − 1, every member of the new top is an exact copy of a member of the two old tops
  | selfEval     -- height same, same length, all evaluated afterwards (firefly)
  | any          -- no prediction beyond validity
  deriving DecidableEq

def kindOf (name : String) : Kind :=
  if name == "PopulationEvaluator" then .evalAll
  else if ["Saturation", "Toroidal", "Mirror", "CompleteOneTailedNormalCorrection", "NormalMutation", "UniformMutation",
           "BitFlipMutation", "PartialRandomSpread", "PartialRandomBitstring", "ScrambleMutation", "SwapMutation",
           "InversionMutation", "InsertionMutation", "TranslocationMutation", "ParticleVelocitiesUpdate",
           "BlackHoleParticlesUpdate"].contains name then .unevalTop
  else if ["BestIndividualUpdate", "ElitistArchiveUpdate", "Logger", "GeometricCooling", "Linear", "Polynomial",
           "ParticleVelocitiesInit", "PersonalBestParticlesInit", "PersonalBestParticlesUpdate", "GlobalBestParticleUpdate",
           "ChemicalReactionInit", "AsPheromoneUpdate", "MinMaxPheromoneUpdate", "StepsWithoutImprovementUpdate",
           "RandomRange", "Noop"].contains name then .keep
  else if ["RandomSpread", "RandomPermutation", "RandomBitstring", "Empty"].contains name then .pushNew
  else if ["All", "Tournament", "FullyRandom", "RandomWithoutRepetition", "RouletteWheel", "StochasticUniversalSampling",
           "LinearRank", "ExponentialRank", "CloneSingle", "DeterministicFitnessProportional", "DERand", "DEBest",
           "DECurrentToBest"].contains name then .copy
  else if ["NPointCrossover", "UniformCrossover", "ArithmeticCrossover", "CycleCrossover", "AcoGeneration", "DEMutation",
           "DEBinomialCrossover", "DEExponentialCrossover"].contains name then .newTop
  else if ["MuPlusLambda", "Generational", "Merge", "KeepBetterAtIndex", "DiscardOffspring", "RandomReplacement",
           "ExponentialAnnealingAcceptance"].contains name then .merge
  else if name == "FireflyPositionsUpdate" then .selfEval
  else .any

/-- One observed leaf transition: name, height delta (as `p`/`m` + magnitude), flags of the top before
and after, same solutions position-wise, every new member an exact copy of a member of the old top /
of the old two tops. -/
structure Leaf where
  name : String
  dh : Int
  before : List Bool
  after : List Bool
  sameSols : Bool
  subTop : Bool
  subTop2 : Bool

def Leaf.parse? : Sexp → Option Leaf
  | .list [.atom name, dh, .list bs, .list as, ss, s1, s2] => do
    let dh ← int? dh
    let bs ← bs.mapM bool?
    let as ← as.mapM bool?
    pure ⟨name, dh, bs, as, ← bool? ss, ← bool? s1, ← bool? s2⟩
  | _ => none

/-- Does the observed transition match the model of the component? -/
def Leaf.ok (l : Leaf) : Bool :=
  match kindOf l.name with
  | .evalAll => l.dh == 0 && l.sameSols && l.after.all id && l.after.length == l.before.length
  | .unevalTop => l.dh == 0 && l.after.length == l.before.length && l.after.all (!·)
  | .keep => l.dh == 0 && l.sameSols && l.after == l.before
  | .pushNew => l.dh == 1 && l.after.all (!·)
  | .copy => l.dh == 1 && l.subTop
  | .newTop => l.dh == 0 && l.after.all (!·)
  | .merge => l.dh == -1 && l.subTop2
  | .selfEval => l.dh == 0 && l.after.length == l.before.length && l.after.all id
  | .any => true

def run (_input implOut : Sexp) : Option Verdict := do
  match implOut with
  | .list [.list [.atom "out", _], .list [.atom "steps", _], .list [.atom "checked", _], .list [.atom "evaluated", _],
           .list [.atom "stale", st], .list (.atom "leaves" :: ls)] =>
    let ls ← ls.mapM Leaf.parse?
    let leavesOk := ls.all Leaf.ok
    let noStale := match st with | .atom "none" => true | _ => false
    let model := Sexp.list [.list [.atom "stale", .atom "none"],
                            .list (.atom "mismatch" :: (ls.filter (!·.ok)).map fun l => .atom l.name)]
    pure { agree := noStale && leavesOk, holds := noStale, cls := if noStale then "-" else "stale", model }
  | _ => none

/-! Component level: a solution-modifying component executed on a prepared stack of EVALUATED
populations; afterwards every individual is reported as `t` (evaluated, value = raw_f(solution)),
`f` (unevaluated) or `s` (evaluated but STALE). -/

def findTag (tag : String) : List Sexp → Option (List Sexp)
  | [] => none
  | x :: xs => match tagged? tag x with | some r => some r | none => findTag tag xs

def flagsOf : Sexp → Option (List String)
  | .list xs => xs.mapM atom?
  | _ => none

def comp (input implOut : Sexp) : Option Verdict := do
  match input with
  | .list (.atom "comp" :: .atom name :: rest) =>
    let pops ← findTag "pops" rest
    let inTop := match pops.head? with | some (.list xs) => xs.length | _ => 0
    match implOut with
    | .list [.list [.atom "res", r], .list (.atom "stack" :: st)] =>
      let st ← st.mapM flagsOf
      let ok := Sexp.beq r (.atom "ok")
      let kind := kindOf name
      let top := st.headD []
      let below := st.drop 1
      let belowKept := below.all fun p => p.all (· == "t")
      let agree :=
        if !ok then true
        else match kind with
          | .unevalTop => st.length == pops.length && top.length == inTop && top.all (· == "f") && belowKept
          | .newTop => st.length == pops.length && top.all (· == "f") && belowKept
          | _ => true
      let stale := st.any fun p => p.any (· == "s")
      let model := Sexp.list [.atom "kind", .atom (match kind with
        | .unevalTop => "unevalTop" | .newTop => "newTop" | _ => "any")]
      pure { agree, holds := !stale, cls := if stale then "stale" else "-", model }
    | _ => none
  | _ => none

end C05

end MahfModel.PopMachine.Wire
