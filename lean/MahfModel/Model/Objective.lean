/-
C09 — exact model of `f64` as far as `mahf::problems::objective::{single, multi}` uses it.

`F64` is the *value* of a double: NaN, the two infinities, or a finite number.  Every finite double
is an integer multiple of 2^-1074, so a finite value is stored as that integer (`fin k` means
`k · 2^-1074`, exactly; +0 and −0 are the same value, which is what every comparison sees).
`ofBits` decodes sign / exponent / mantissa of an IEEE-754 binary64 pattern exactly.

Code-shaped parts (follow the Rust line by line):
* `f64::partial_cmp` (core: `match (a <= b, a >= b)`), the derived `PartialEq/PartialOrd` of the
  newtype `SingleObjective(f64)`, `Ord::cmp = partial_cmp().unwrap()` (the `unwrap` is an outcome);
* `TryFrom<f64> for SingleObjective`, `TryFrom<Vec<f64>> for MultiObjective` (NaN is looked for in
  the whole vector first, then −inf);
* `PartialOrd for MultiObjective` (equality test, length test, the flag loop over `zip`, the match);
* the operators derived by `derive_more` — `Add`, `Sub` (rhs `SingleObjective`), `Mul`, `Div`
  (rhs is a raw `f64` scalar: `impl<T> Mul<T> for SingleObjective where f64: Mul<T, Output = f64>`),
  `Neg` — at the level of the *class* (nan / −inf / +inf / finite) of the correctly rounded IEEE
  result: a finite exact result `x` rounds to an infinity iff `|x| ≥ 2^1024 − 2^970`
  (round-to-nearest-even), `inf − inf`, `0 · inf`, `0 / 0`, `inf / inf` are NaN, `x / ±0 = ±inf`.
-/
import MahfModel.Model.Sexp
namespace MahfModel.Objective

/-- The value of a double. `fin k` is the real number `k · 2^-1074`. -/
inductive F64 where
  | nan | ninf | pinf
  | fin (k : Int)
  deriving DecidableEq, Repr, Inhabited

/-- Decoding of a 64-bit pattern given as a natural number `< 2^64`:
bit 63 sign, bits 62..52 biased exponent `e`, bits 51..0 fraction `f`.
`e = 2047`: infinity (`f = 0`) or NaN; `e = 0`: subnormal `f · 2^-1074`;
otherwise `(2^52 + f) · 2^(e − 1075) = (2^52 + f) · 2^(e−1) · 2^-1074`. -/
def ofNatBits (n : Nat) : F64 :=
  let neg := (n / 2 ^ 63) % 2 == 1
  let e := (n / 2 ^ 52) % 2048
  let f := n % 2 ^ 52
  if e == 2047 then
    if f == 0 then (if neg then .ninf else .pinf) else .nan
  else
    let m : Nat := if e == 0 then f else (2 ^ 52 + f) * 2 ^ (e - 1)
    .fin (if neg then -(m : Int) else (m : Int))

def ofBits (b : UInt64) : F64 := ofNatBits b.toNat

/-- The sign bit (needed only for a zero divisor: `x / −0`). -/
def signBit (b : UInt64) : Bool := (b.toNat / 2 ^ 63) % 2 == 1

/-! ### IEEE-754 comparison predicates (`<=`, `<`, `==` on `f64`) -/

def le : F64 → F64 → Bool
  | .nan, _ => false
  | _, .nan => false
  | .ninf, _ => true
  | .pinf, .pinf => true
  | .pinf, _ => false
  | .fin _, .ninf => false
  | .fin _, .pinf => true
  | .fin a, .fin b => decide (a ≤ b)

def lt : F64 → F64 → Bool
  | .nan, _ => false
  | _, .nan => false
  | .ninf, .ninf => false
  | .ninf, _ => true
  | .pinf, _ => false
  | .fin _, .ninf => false
  | .fin _, .pinf => true
  | .fin a, .fin b => decide (a < b)

def eq : F64 → F64 → Bool
  | .nan, _ => false
  | _, .nan => false
  | .ninf, .ninf => true
  | .pinf, .pinf => true
  | .fin a, .fin b => decide (a = b)
  | _, _ => false

def ge (a b : F64) : Bool := le b a
def gt (a b : F64) : Bool := lt b a

/-- `f64::partial_cmp` (core::cmp): `match (*self <= *other, *self >= *other)`. -/
def partialCmp (a b : F64) : Option Ordering :=
  match le a b, ge a b with
  | false, false => none
  | false, true => some .gt
  | true, false => some .lt
  | true, true => some .eq

def isNan : F64 → Bool
  | .nan => true
  | _ => false

def isInfinite : F64 → Bool
  | .ninf => true
  | .pinf => true
  | _ => false

/-- `is_sign_negative` — only ever asked of an infinite value (`&&` short-circuits). -/
def infIsNegative : F64 → Bool
  | .ninf => true
  | _ => false

def isFinite : F64 → Bool
  | .fin _ => true
  | _ => false

/-! ### `SingleObjective` -/

inductive Illegal where
  | nan | negInf
  deriving DecidableEq, Repr

/-- A panic is an outcome. -/
inductive Outcome (α : Type) where
  | ok (a : α)
  | panic
  deriving DecidableEq, Repr

/-- `impl TryFrom<f64> for SingleObjective` (single.rs:80-92). -/
def tryFrom (x : F64) : Except Illegal F64 :=
  if isNan x then .error .nan
  else if isInfinite x && infIsNegative x then .error .negInf
  else .ok x

/-- What the type documents as a legal objective value: not NaN, not −inf. -/
def legal : F64 → Bool
  | .nan => false
  | .ninf => false
  | _ => true

/-- Derived `PartialOrd` on the newtype delegates to `f64::partial_cmp`;
`a < b` is the trait default `matches!(partial_cmp, Some(Less))`; derived `PartialEq` is `f64 ==`. -/
def objPartialCmp (a b : F64) : Option Ordering := partialCmp a b
def objLt (a b : F64) : Bool := objPartialCmp a b == some .lt
def objLe (a b : F64) : Bool :=
  match objPartialCmp a b with
  | some .lt => true
  | some .eq => true
  | _ => false
def objEq (a b : F64) : Bool := eq a b

/-- `Ord::cmp`: `self.partial_cmp(other).unwrap()` (single.rs:55-61). -/
def objCmp (a b : F64) : Outcome Ordering :=
  match objPartialCmp a b with
  | some o => .ok o
  | none => .panic

/-- `Default` and `SingleObjective::INFINITY`. -/
def objDefault : F64 := .pinf

/-- Stable insertion sort driven by `Ord::cmp`, as `slice::sort` uses it (any failing comparison
is a panic). Generic in the element so the driver can carry the bit pattern along with the value. -/
def insertSorted {α : Type} (key : α → F64) (x : α) : List α → Outcome (List α)
  | [] => .ok [x]
  | y :: ys =>
    match objCmp (key x) (key y) with
    | .panic => .panic
    | .ok .gt =>
      match insertSorted key x ys with
      | .ok r => .ok (y :: r)
      | .panic => .panic
    | .ok _ => .ok (x :: y :: ys)

/-- Inserts from the right; `x` precedes everything already inserted, so it goes in front of the
elements it is equal to (stable). -/
def sortObjs {α : Type} (key : α → F64) : List α → Outcome (List α)
  | [] => .ok []
  | x :: xs =>
    match sortObjs key xs with
    | .ok r => insertSorted key x r
    | .panic => .panic

/-- `Iterator::min` (`min_by(Ord::cmp)`): keeps the earlier element unless the later is strictly less. -/
def minGo {α : Type} (key : α → F64) (m : α) : List α → Outcome α
  | [] => .ok m
  | y :: ys =>
    match objCmp (key m) (key y) with
    | .panic => .panic
    | .ok .gt => minGo key y ys
    | .ok _ => minGo key m ys

def minObjs {α : Type} (key : α → F64) : List α → Outcome (Option α)
  | [] => .ok none
  | x :: xs =>
    match minGo key x xs with
    | .ok m => .ok (some m)
    | .panic => .panic

/-- `Iterator::max`: the later of equal elements wins. -/
def maxGo {α : Type} (key : α → F64) (m : α) : List α → Outcome α
  | [] => .ok m
  | y :: ys =>
    match objCmp (key m) (key y) with
    | .panic => .panic
    | .ok .gt => maxGo key m ys
    | .ok _ => maxGo key y ys

def maxObjs {α : Type} (key : α → F64) : List α → Outcome (Option α)
  | [] => .ok none
  | x :: xs =>
    match maxGo key x xs with
    | .ok m => .ok (some m)
    | .panic => .panic

/-! ### Class of the result of the derived operators -/

inductive Cls where
  | nan | ninf | pinf | fin
  deriving DecidableEq, Repr

def cls : F64 → Cls
  | .nan => .nan
  | .ninf => .ninf
  | .pinf => .pinf
  | .fin _ => .fin

def Cls.legal : Cls → Bool
  | .nan => false
  | .ninf => false
  | _ => true

/-- `(2^1024 − 2^970) · 2^1074`: the smallest magnitude (in units of 2^-1074) that rounds to an
infinity under round-to-nearest-even (the midpoint between `f64::MAX` and `2^1024` ties to the even
neighbour, which is `2^1024`). -/
def ovf : Nat := (2 ^ 54 - 1) * 2 ^ 2044

/-- `2^1074`: one unit of the integer representation. -/
def scale : Nat := 2 ^ 1074

/-- Class of the correctly rounded value of the exact number `(num / den) · 2^-1074` (`den > 0`). -/
def roundCls (num : Int) (den : Nat) : Cls :=
  if ovf * den ≤ num.natAbs then (if num < 0 then .ninf else .pinf) else .fin

def sgnInf (neg : Bool) : Cls := if neg then .ninf else .pinf

/-- `a + b`. -/
def addC : F64 → F64 → Cls
  | .nan, _ => .nan
  | _, .nan => .nan
  | .pinf, .ninf => .nan
  | .ninf, .pinf => .nan
  | .pinf, _ => .pinf
  | .ninf, _ => .ninf
  | .fin _, .pinf => .pinf
  | .fin _, .ninf => .ninf
  | .fin a, .fin b => roundCls (a + b) 1

/-- `a − b`. -/
def subC : F64 → F64 → Cls
  | .nan, _ => .nan
  | _, .nan => .nan
  | .pinf, .pinf => .nan
  | .ninf, .ninf => .nan
  | .pinf, _ => .pinf
  | .ninf, _ => .ninf
  | .fin _, .pinf => .ninf
  | .fin _, .ninf => .pinf
  | .fin a, .fin b => roundCls (a - b) 1

/-- `−a`. -/
def negC : F64 → Cls
  | .nan => .nan
  | .pinf => .ninf
  | .ninf => .pinf
  | .fin _ => .fin

/-- Exact negation of a value (flips the sign bit). -/
def negF : F64 → F64
  | .nan => .nan
  | .pinf => .ninf
  | .ninf => .pinf
  | .fin k => .fin (-k)

/-- `±inf · y`. -/
def infMul (neg : Bool) : F64 → Cls
  | .nan => .nan
  | .pinf => sgnInf neg
  | .ninf => sgnInf (!neg)
  | .fin k => if k = 0 then .nan else sgnInf (neg != decide (k < 0))

/-- `a · b`: the exact product of `a·2^-1074` and `b·2^-1074` is `(a·b / 2^1074) · 2^-1074`. -/
def mulC : F64 → F64 → Cls
  | .nan, _ => .nan
  | _, .nan => .nan
  | .pinf, y => infMul false y
  | .ninf, y => infMul true y
  | .fin a, .pinf => infMul false (.fin a)
  | .fin a, .ninf => infMul true (.fin a)
  | .fin a, .fin b => roundCls (a * b) scale

/-- `a / b`; `bNeg` is the sign bit of the divisor (it decides the sign of `x / ±0` and `inf / ±0`).
The exact quotient of two finite values is `a / b = (a · 2^1074 / b) · 2^-1074`. -/
def divC (a b : F64) (bNeg : Bool) : Cls :=
  match a, b with
  | .nan, _ => .nan
  | _, .nan => .nan
  | .pinf, .pinf => .nan
  | .pinf, .ninf => .nan
  | .ninf, .pinf => .nan
  | .ninf, .ninf => .nan
  | .pinf, .fin k => sgnInf (if k = 0 then bNeg else decide (k < 0))
  | .ninf, .fin k => sgnInf (!(if k = 0 then bNeg else decide (k < 0)))
  | .fin _, .pinf => .fin
  | .fin _, .ninf => .fin
  | .fin a, .fin b =>
    if b = 0 then
      if a = 0 then .nan else sgnInf (decide (a < 0) != bNeg)
    else roundCls ((if b < 0 then -a else a) * scale) b.natAbs

/-! ### `MultiObjective` -/

/-- `impl TryFrom<Vec<f64>> for MultiObjective` (multi.rs:106-138; the `&[f64]` variant is the same). -/
def tryFromVec (v : List F64) : Except Illegal (List F64) :=
  if v.any isNan then .error .nan
  else if v.any (fun o => isInfinite o && infIsNegative o) then .error .negInf
  else .ok v

def legalVec (v : List F64) : Bool := v.all legal

/-- Derived `PartialEq` on `MultiObjective(Vec<f64>)`: slice equality = same length and all `==`. -/
def vecEq : List F64 → List F64 → Bool
  | [], [] => true
  | x :: xs, y :: ys => eq x y && vecEq xs ys
  | _, _ => false

/-- The loop `for (own, other) in self.iter().zip(other) { if own < other {better = true} else if own > other {worse = true} }`. -/
def flagLoop : List F64 → List F64 → Bool × Bool → Bool × Bool
  | x :: xs, y :: ys, (better, worse) =>
    if lt x y then flagLoop xs ys (true, worse)
    else if gt x y then flagLoop xs ys (better, true)
    else flagLoop xs ys (better, worse)
  | _, _, acc => acc

/-- `impl PartialOrd for MultiObjective` (multi.rs:49-97). -/
def paretoCmp (a b : List F64) : Option Ordering :=
  if vecEq a b then some .eq
  else if a.length != b.length then none
  else
    match flagLoop a b (false, false) with
    | (true, false) => some .lt
    | (false, true) => some .gt
    | _ => none

/-! ### Specification-level Pareto order (what the property says, independent of the loop) -/

def allLe : List F64 → List F64 → Bool
  | x :: xs, y :: ys => le x y && allLe xs ys
  | _, _ => true

def anyLt : List F64 → List F64 → Bool
  | x :: xs, y :: ys => lt x y || anyLt xs ys
  | _, _ => false

/-- `a` dominates `b`: same length, nowhere worse, somewhere better. -/
def dominates (a b : List F64) : Bool := a.length == b.length && allLe a b && anyLt a b

def paretoSpec (a b : List F64) : Option Ordering :=
  if a.length == b.length && vecEq a b then some .eq
  else if dominates a b then some .lt
  else if dominates b a then some .gt
  else none

/-! ### Specification-level numeric order of legal single objectives -/

/-- Numeric order of legal values: finite ones by their integer (in units of 2^-1074), +inf above
every finite value. Undefined (`none`) as soon as NaN or −inf is involved. -/
def valueCmp : F64 → F64 → Option Ordering
  | .fin a, .fin b => some (compare a b)
  | .fin _, .pinf => some .lt
  | .pinf, .fin _ => some .gt
  | .pinf, .pinf => some .eq
  | _, _ => none

/-! ### Wire format -/
open MahfModel Sexp

def Cls.toSexp : Cls → Sexp
  | .nan => .atom "nan"
  | .ninf => .atom "ninf"
  | .pinf => .atom "pinf"
  | .fin => .atom "fin"

def ordSexp : Ordering → Sexp
  | .lt => .atom "lt"
  | .eq => .atom "eq"
  | .gt => .atom "gt"

def optOrdSexp : Option Ordering → Sexp
  | some o => ordSexp o
  | none => .atom "none"

def outOrdSexp : Outcome Ordering → Sexp
  | .ok o => ordSexp o
  | .panic => .atom "panic"

def illegalSexp : Illegal → Sexp
  | .nan => .list [.atom "e", .atom "nan"]
  | .negInf => .list [.atom "e", .atom "ninf"]

def bitsList? : Sexp → Option (List UInt64)
  | .list xs => xs.mapM bits?
  | _ => none

end MahfModel.Objective
