/-
C19 — model of the ant-colony components in `src/components/generative.rs`
(`PheromoneMatrix`, `AcoGeneration`, `AsPheromoneUpdate`, `MinMaxPheromoneUpdate`) as wired by
`src/heuristics/aco.rs` (generation → evaluation → pheromone update).

Code-shaped: the matrix is a flat row-major `Vec` with a dimension and Rust's index assertions;
tours are built by repeatedly `remove`-ing an index from `remaining`; panics (`WeightedIndex::new(..).unwrap()`
on illegal weights, `objective()` of an unevaluated individual, slice indexing) are explicit outcomes.
Generic over the numeric carrier `F` (core classes only): the driver instantiates `Float`, the theorems an
ordered field.  `rand` is not modelled: a sampled tour is a function of a witness (for every step the index
chosen from `remaining`).
-/
import MahfModel.Model.Sexp
namespace MahfModel.Aco

/-- `PheromoneMatrix { dimension, inner }` — row-major `dimension × dimension`. -/
structure PM (F : Type) where
  dim : Nat
  inner : List F
  deriving Repr

/-- What the generic carrier cannot express with core classes. -/
structure Num (F : Type) where
  /-- `f64::powf` -/
  pow : F → F → F
  /-- `f64::is_finite` -/
  fin : F → Bool
  /-- `a.total_cmp(b) != Greater` -/
  tle : F → F → Bool
  /-- the literal `1e-15` added to every sampling weight -/
  eps : F
  /-- equality up to rounding (property predicates only; never used by the model of the code) -/
  close : F → F → Bool

section
variable {F : Type}

/-- `PheromoneMatrix::new(dimension, initial_value)` -/
def PM.new (n : Nat) (v : F) : PM F := ⟨n, List.replicate (n * n) v⟩

/-- `inner.len() == dimension²` (established by `new`, kept by every operation). -/
def PM.wf (pm : PM F) : Bool := pm.inner.length == pm.dim * pm.dim

/-- `Index<usize>`: `assert!(index < dimension)`; `&inner[start..end]` (panics when `end > len`). -/
def PM.row? (pm : PM F) (i : Nat) : Option (List F) :=
  if i < pm.dim then
    if i * pm.dim + pm.dim ≤ pm.inner.length then some ((pm.inner.drop (i * pm.dim)).take pm.dim)
    else none
  else none

/-- `pm[i][j]` (`none` = panic). -/
def PM.get? (pm : PM F) (i j : Nat) : Option F :=
  match pm.row? i with
  | some r => r[j]?
  | none => none

/-- `pm[i][j] += δ` through `IndexMut` (`none` = panic). -/
def PM.add? [Add F] (pm : PM F) (i j : Nat) (δ : F) : Option (PM F) :=
  match pm.get? i j with
  | some x => some { pm with inner := pm.inner.set (i * pm.dim + j) (x + δ) }
  | none => none

/-- `MulAssign<f64>`: every element of `inner`. -/
def PM.scale [Mul F] (pm : PM F) (k : F) : PM F := { pm with inner := pm.inner.map (· * k) }

/-- Total read used by specifications (default outside the matrix). -/
def PM.getD (pm : PM F) (i j : Nat) (d : F) : F := (pm.get? i j).getD d

/-! ### `AcoGeneration` -/

/-- Position returned by `iter.enumerate().max_by(|a, b| a.total_cmp(b))`: `max_by` keeps the LAST of
several maximal elements (`fold1(|x, y| if cmp(x, y) == Greater { x } else { y })`). -/
def argmaxGo (tle : F → F → Bool) : Nat → Nat → F → List F → Nat
  | _, bi, _, [] => bi
  | i, bi, bv, x :: xs => if tle bv x then argmaxGo tle (i + 1) i x xs else argmaxGo tle (i + 1) bi bv xs

def argmaxLast (tle : F → F → Bool) : List F → Option Nat
  | [] => none
  | x :: xs => some (argmaxGo tle 1 0 x xs)

/-- The comparison `max_by` uses when the carrier is linearly ordered (no NaN, no signed zero). -/
def dle [LE F] [DecidableLE F] : F → F → Bool := fun a b => decide (a ≤ b)

/-- `(1..dimension).collect()` -/
def remaining0 (n : Nat) : List Nat := List.range' 1 (n - 1)

/-- Pheromone values `remaining.iter().map(|&r| pm[last][r])` (`none` = index panic). -/
def pheromones (pm : PM F) (last : Nat) : List Nat → Option (List F)
  | [] => some []
  | r :: rs =>
    match pm.get? last r, pheromones pm last rs with
    | some x, some xs => some (x :: xs)
    | _, _ => none

/-- Greedy route: `while !remaining.is_empty() { next_index = argmax pheromone; next = remaining.remove(next_index) }`.
`fuel` is `remaining.len()`; `none` = panic. -/
def greedyGo (N : Num F) (pm : PM F) : Nat → List Nat → Nat → List Nat → Option (List Nat)
  | 0, route, _, _ => some route
  | fuel + 1, route, last, remaining =>
    if remaining.isEmpty then some route
    else
      match pheromones pm last remaining with
      | none => none
      | some ph =>
        match argmaxLast N.tle ph with
        | none => none
        | some k =>
          match remaining[k]? with
          | none => none
          | some c => greedyGo N pm fuel (route ++ [c]) c (remaining.eraseIdx k)

def greedyTour (N : Num F) (pm : PM F) (n : Nat) : Option (List Nat) :=
  greedyGo N pm (remaining0 n).length [0] 0 (remaining0 n)

inductive TourOut where
  | ok (route : List Nat)
  | panic
  /-- the witness is not a legal sequence of choices (index outside `remaining`, too short, too long; for the
  greedy route: not an index of maximal pheromone) -/
  | badWitness
  deriving Repr, DecidableEq

/-! ### The greedy route with the tie-breaking left open

`max_by` keeps the last of several maximal trails; the property only asks for *a* greedy route. `greedyGoW` is the
greedy construction as a function of a witness (the index taken from `remaining` at every step); a witness is
legal iff every index it takes has a trail that no other remaining city exceeds under `le`. The code-shaped
`greedyGo` is the instance "last maximal index" (`Props.C19.argmax_last_is_legal_witness`). -/

/-- `k` indexes an element of `ph` that no element of `ph` exceeds. -/
def isArgmax (le : F → F → Bool) (ph : List F) (k : Nat) : Bool :=
  match ph[k]? with
  | none => false
  | some w => ph.all (fun x => le x w)

def greedyGoW (le : F → F → Bool) (pm : PM F) : List Nat → List Nat → Nat → List Nat → TourOut
  | [], route, _, remaining => if remaining.isEmpty then .ok route else .badWitness
  | k :: ks, route, last, remaining =>
    if remaining.isEmpty then .badWitness
    else
      match pheromones pm last remaining with
      | none => .panic
      | some ph =>
        if isArgmax le ph k then
          match remaining[k]? with
          | none => .badWitness
          | some c => greedyGoW le pm ks (route ++ [c]) c (remaining.eraseIdx k)
        else .badWitness

def greedyTourW (le : F → F → Bool) (pm : PM F) (n : Nat) (gw : List Nat) : TourOut :=
  greedyGoW le pm gw [0] 0 (remaining0 n)

/-- The indices (into `remaining`, `Vec::remove` semantics) a route took; an unexplainable city gives an index
outside `remaining`, which no model accepts. -/
def recoverWitGo : List Nat → List Nat → List Nat
  | [], _ => []
  | c :: cs, rem =>
    match rem.findIdx? (· == c) with
    | some k => k :: recoverWitGo cs (rem.eraseIdx k)
    | none => rem.length :: recoverWitGo cs rem

def recoverWit (n : Nat) (t : List Nat) : List Nat := recoverWitGo t.tail (remaining0 n)

/-- A sampling witness is legal iff it has one index per step and every index points into what is left of
`remaining` (`m` cities left). These are exactly the values `WeightedIndex::sample` can return. -/
def witLegalGo : List Nat → Nat → Bool
  | [], m => m == 0
  | k :: ks, m => decide (k < m) && witLegalGo ks (m - 1)

/-- One legal witness per ant. -/
def witsLegal (n numAnts : Nat) (wits : List (List Nat)) : Bool :=
  wits.length == numAnts && wits.all (fun w => witLegalGo w (n - 1))

variable [Add F] [Sub F] [Mul F] [Div F] [LT F] [LE F] [DecidableLT F] [DecidableLE F]
  [OfNat F 0] [OfNat F 1]

/-- Sampling weights `m.powf(alpha) * (1.0 / d).powf(beta) + 1e-15` over `remaining`. -/
def weights (N : Num F) (pm : PM F) (dist : Nat → Nat → F) (α β : F) (last : Nat) : List Nat → Option (List F)
  | [] => some []
  | r :: rs =>
    match pm.get? last r, weights N pm dist α β last rs with
    | some m, some ws => some ((N.pow m α * N.pow (1 / dist last r) β + N.eps) :: ws)
    | _, _ => none

/-- `WeightedIndex::new(weights).unwrap()` succeeds: at least one item, no weight fails `w >= 0` (NaN fails),
and the total passes `Uniform::new(0, total)` (`0 < total`, finite). -/
def weightsLegal (N : Num F) : List F → Bool
  | [] => false
  | w :: rest =>
    (w :: rest).all (fun x => decide ((0 : F) ≤ x)) &&
      (let total := rest.foldl (· + ·) w
       decide ((0 : F) < total) && N.fin total)

/-- One probabilistic route, as a function of the witness `ks` (the index `dist.sample(rng)` returned at
every step). -/
def sampleGo (N : Num F) (pm : PM F) (dist : Nat → Nat → F) (α β : F) :
    List Nat → List Nat → Nat → List Nat → TourOut
  | [], route, _, remaining => if remaining.isEmpty then .ok route else .badWitness
  | k :: ks, route, last, remaining =>
    if remaining.isEmpty then .badWitness
    else
      match weights N pm dist α β last remaining with
      | none => .panic
      | some ws =>
        if weightsLegal N ws then
          match remaining[k]? with
          | none => .badWitness
          | some c => sampleGo N pm dist α β ks (route ++ [c]) c (remaining.eraseIdx k)
        else .panic

inductive GenOut where
  | tours (ts : List (List Nat))
  | panic
  | badWitness
  deriving Repr, DecidableEq

/-- `for _ in 0..num_ants { … }` with one witness per ant. -/
def sampleAll (N : Num F) (pm : PM F) (dist : Nat → Nat → F) (α β : F) (n : Nat) :
    Nat → List (List Nat) → GenOut
  | 0, [] => .tours []
  | 0, _ :: _ => .badWitness
  | _ + 1, [] => .badWitness
  | ants + 1, w :: ws =>
    match sampleGo N pm dist α β w [0] 0 (remaining0 n) with
    | .panic => .panic
    | .badWitness => .badWitness
    | .ok t =>
      match sampleAll N pm dist α β n ants ws with
      | .tours ts => .tours (t :: ts)
      | o => o

/-- `AcoGeneration::execute`: the greedy route first, then `num_ants` sampled routes. -/
def generate (N : Num F) (pm : PM F) (dist : Nat → Nat → F) (α β : F) (n numAnts : Nat)
    (wits : List (List Nat)) : GenOut :=
  match greedyTour N pm n with
  | none => .panic
  | some g =>
    match sampleAll N pm dist α β n numAnts wits with
    | .tours ts => .tours (g :: ts)
    | o => o

/-- `AcoGeneration::execute` with the greedy tie-breaking left open (`gw` = the greedy route's witness). -/
def generateW (N : Num F) (le : F → F → Bool) (pm : PM F) (dist : Nat → Nat → F) (α β : F) (n numAnts : Nat)
    (gw : List Nat) (wits : List (List Nat)) : GenOut :=
  match greedyTourW le pm n gw with
  | .panic => .panic
  | .badWitness => .badWitness
  | .ok g =>
    match sampleAll N pm dist α β n numAnts wits with
    | .tours ts => .tours (g :: ts)
    | o => o

/-! ### Pheromone updates -/

/-- An individual of the current population: its route and its objective value (`none` = not evaluated;
`Individual::objective()` panics then). -/
structure Ind (F : Type) where
  route : List Nat
  obj : Option F
  deriving Repr

/-- `route.iter().zip(route.iter().skip(1))` — consecutive cities; the closing edge is NOT included. -/
def edges (route : List Nat) : List (Nat × Nat) := route.zip route.tail

/-- `for (a, b) in edges { pm[a][b] += delta; pm[b][a] += delta; }` -/
def reward (pm : PM F) (δ : F) : List (Nat × Nat) → Option (PM F)
  | [] => some pm
  | (a, b) :: es =>
    match pm.add? a b δ with
    | none => none
    | some pm1 =>
      match pm1.add? b a δ with
      | none => none
      | some pm2 => reward pm2 δ es

/-- Loop of `AsPheromoneUpdate` over `populations.current().iter().skip(1)`. -/
def asGo (c : F) (pm : PM F) : List (Ind F) → Option (PM F)
  | [] => some pm
  | ind :: rest =>
    match ind.obj with
    | none => none
    | some o =>
      match reward pm (c / o) (edges ind.route) with
      | none => none
      | some pm1 => asGo c pm1 rest

/-- `AsPheromoneUpdate::execute` (`none` = panic). -/
def asUpdate (pm : PM F) (ρ c : F) (pop : List (Ind F)) : Option (PM F) :=
  asGo c (pm.scale (1 - ρ)) (pop.drop 1)

/-- `iter.min_by_key(|i| i.objective())`: the FIRST minimal element; all keys are computed. -/
def firstMinGo : Ind F → F → List (Ind F) → Option (Ind F × F)
  | bi, bv, [] => some (bi, bv)
  | bi, bv, x :: xs =>
    match x.obj with
    | none => none
    | some v => if v < bv then firstMinGo x v xs else firstMinGo bi bv xs

/-- `none` = the iterator is empty, or (panic) an individual is not evaluated. -/
def firstMin : List (Ind F) → Option (Ind F × F)
  | [] => none
  | x :: xs =>
    match x.obj with
    | none => none
    | some v => firstMinGo x v xs

/-- `f64::clamp`: `assert!(min <= max)`, `if x < min {min} else if x > max {max} else x`. -/
def clamp (lo hi x : F) : F := if x < lo then lo else if hi < x then hi else x

/-- `MinMaxPheromoneUpdate::execute` (`none` = panic): evaporate; `if let Some(best) = iter.skip(1).min_by_key(..)`
reinforce the edges of `best`; clamp the whole matrix. With no sampled individual nothing is reinforced. -/
def mmasUpdate (pm : PM F) (ρ hi lo : F) (pop : List (Ind F)) : Option (PM F) :=
  let pm1 := pm.scale (1 - ρ)
  let rewarded : Option (PM F) :=
    match pop.drop 1 with
    | [] => some pm1
    | x :: xs =>
      match firstMin (x :: xs) with
      | none => none
      | some (ind, o) => reward pm1 (1 / o) (edges ind.route)
  match rewarded with
  | none => none
  | some pm2 =>
    if lo ≤ hi then some { pm2 with inner := pm2.inner.map (clamp lo hi) }
    else if pm2.inner.isEmpty then some pm2 else none

/-! ### Specifications (entry by entry) and executable property predicates -/

/-- `x + δ` for every occurrence of the edge `(i, j)` or `(j, i)` in `es`, in order of occurrence
(`(i, i)` counts twice, as in the code). -/
def depositEdges (δ : F) (i j : Nat) : List (Nat × Nat) → F → F
  | [], x => x
  | (a, b) :: es, x =>
    let x1 := if a = i ∧ b = j then x + δ else x
    let x2 := if b = i ∧ a = j then x1 + δ else x1
    depositEdges δ i j es x2

/-- Number of deposits a route makes on entry `(i, j)`: its consecutive-city edges `(i, j)` and `(j, i)`. -/
def hits (route : List Nat) (i j : Nat) : Nat := (edges route).count (i, j) + (edges route).count (j, i)

/-- Ant-system entry: evaporate, then every individual but the first deposits `c / objective`. -/
def asSpecGo (c : F) (i j : Nat) : List (Ind F) → F → F
  | [], x => x
  | ind :: rest, x =>
    match ind.obj with
    | none => x
    | some o => asSpecGo c i j rest (depositEdges (c / o) i j (edges ind.route) x)

def asSpec (pm : PM F) (ρ c : F) (pop : List (Ind F)) (i j : Nat) : F :=
  asSpecGo c i j (pop.drop 1) (pm.getD i j 0 * (1 - ρ))

/-- Max-min entry: evaporate, the best of the individuals but the first (if there is one) deposits
`1 / objective`, clamp. -/
def mmasSpec (pm : PM F) (ρ hi lo : F) (pop : List (Ind F)) (i j : Nat) : F :=
  match firstMin (pop.drop 1) with
  | none => clamp lo hi (pm.getD i j 0 * (1 - ρ))
  | some (ind, o) => clamp lo hi (depositEdges (1 / o) i j (edges ind.route) (pm.getD i j 0 * (1 - ρ)))

/-- A route is a permutation of `0..n` that starts at city 0. -/
def isPermFromZero (n : Nat) (t : List Nat) : Bool :=
  t.head? == some 0 && t.length == n && (List.range n).all (fun c => t.contains c)

/-- Every step of `route` (from `last`, over `remaining`) moves to a city of maximal pheromone. -/
def greedyOkGo (pm : PM F) : List Nat → Nat → List Nat → Bool
  | [], _, _ => true
  | c :: cs, last, remaining =>
    remaining.all (fun r => decide (pm.getD last r 0 ≤ pm.getD last c 0)) &&
      greedyOkGo pm cs c (remaining.erase c)

def greedyOk (pm : PM F) (n : Nat) (t : List Nat) : Bool :=
  match t with
  | [] => false
  | s :: cs => s == 0 && greedyOkGo pm cs 0 (remaining0 n)

/-- Property clauses on a generated population: `1 + num_ants` routes, each a permutation from city 0,
the first one greedy. -/
def holdsGen (pm : PM F) (n numAnts : Nat) (ts : List (List Nat)) : Bool :=
  ts.length == 1 + numAnts && ts.all (isPermFromZero n) &&
    (match ts with
     | [] => false
     | g :: _ => greedyOk pm n g)

def allEntries (n : Nat) (p : Nat → Nat → Bool) : Bool :=
  (List.range n).all (fun i => (List.range n).all (fun j => p i j))

def isSym (N : Num F) (pm : PM F) : Bool :=
  allEntries pm.dim (fun i j => N.close (pm.getD i j 0) (pm.getD j i 0))

/-- Property clauses on an ant-system update: dimension kept, every entry is the specified one, finite and
non-negative, symmetric if it was. -/
def holdsAs (N : Num F) (pm : PM F) (ρ c : F) (pop : List (Ind F)) (pm' : PM F) : Bool :=
  pm'.dim == pm.dim && pm'.wf &&
    allEntries pm.dim (fun i j =>
      N.close (pm'.getD i j 0) (asSpec pm ρ c pop i j) &&
        N.fin (pm'.getD i j 0) && decide ((0 : F) ≤ pm'.getD i j 0)) &&
    (!isSym N pm || isSym N pm')

/-- The bound clause alone: `lo ≤ x ≤ hi` for every entry. -/
def withinBounds (lo hi : F) (pm : PM F) : Bool :=
  allEntries pm.dim (fun i j => decide (lo ≤ pm.getD i j lo) && decide (pm.getD i j lo ≤ hi))

def holdsMmas (N : Num F) (pm : PM F) (ρ hi lo : F) (pop : List (Ind F)) (pm' : PM F) : Bool :=
  pm'.dim == pm.dim && pm'.wf &&
    allEntries pm.dim (fun i j =>
      N.close (pm'.getD i j 0) (mmasSpec pm ρ hi lo pop i j) &&
        N.fin (pm'.getD i j 0) && decide ((0 : F) ≤ pm'.getD i j 0)) &&
    withinBounds lo hi pm' &&
    (!isSym N pm || isSym N pm')

/-! ### Which of several equally short tours is rewarded is not part of the property

`min_by_key` rewards the first minimal tour; the property only says "the rewarded tour(s)". The predicate the
correspondence check applies to the implementation therefore accepts the update for *any* of the tied best
sampled tours (`holdsMmasAny`); `mmasUpdateWith` is the update with the rewarded tour given explicitly. -/

/-- `b` is evaluated and no member of `l` has a smaller objective value (all members evaluated). -/
def isMinOf (l : List (Ind F)) (b : Ind F) : Bool :=
  match b.obj with
  | none => false
  | some o => l.all (fun y => match y.obj with
      | some v => decide (o ≤ v)
      | none => false)

/-- `MinMaxPheromoneUpdate` when `best` is the rewarded tour (`none`: no sampled tour, nothing rewarded). -/
def mmasUpdateWith (pm : PM F) (ρ hi lo : F) (best : Option (Ind F × F)) : Option (PM F) :=
  let pm1 := pm.scale (1 - ρ)
  let rewarded : Option (PM F) :=
    match best with
    | none => some pm1
    | some (ind, o) => reward pm1 (1 / o) (edges ind.route)
  match rewarded with
  | none => none
  | some pm2 =>
    if lo ≤ hi then some { pm2 with inner := pm2.inner.map (clamp lo hi) }
    else if pm2.inner.isEmpty then some pm2 else none

def mmasSpecWith (pm : PM F) (ρ hi lo : F) (best : Option (Ind F × F)) (i j : Nat) : F :=
  match best with
  | none => clamp lo hi (pm.getD i j 0 * (1 - ρ))
  | some (ind, o) => clamp lo hi (depositEdges (1 / o) i j (edges ind.route) (pm.getD i j 0 * (1 - ρ)))

def holdsMmasWith (N : Num F) (pm : PM F) (ρ hi lo : F) (best : Option (Ind F × F)) (pm' : PM F) : Bool :=
  pm'.dim == pm.dim && pm'.wf &&
    allEntries pm.dim (fun i j =>
      N.close (pm'.getD i j 0) (mmasSpecWith pm ρ hi lo best i j) &&
        N.fin (pm'.getD i j 0) && decide ((0 : F) ≤ pm'.getD i j 0)) &&
    withinBounds lo hi pm' &&
    (!isSym N pm || isSym N pm')

/-- The max-min clauses for some choice of the rewarded tour among the tied best sampled tours. -/
def holdsMmasAny (N : Num F) (pm : PM F) (ρ hi lo : F) (pop : List (Ind F)) (pm' : PM F) : Bool :=
  match pop.drop 1 with
  | [] => holdsMmasWith N pm ρ hi lo none pm'
  | x :: xs => (x :: xs).any (fun b => isMinOf (x :: xs) b &&
      (match b.obj with
       | some o => holdsMmasWith N pm ρ hi lo (some (b, o)) pm'
       | none => false))

/-! ### Validity of inputs (the region the property quantifies over) -/

def pmValid (N : Num F) (pm : PM F) : Bool :=
  pm.wf && pm.inner.all (fun x => N.fin x && decide ((0 : F) ≤ x))

def routesValid (n : Nat) (pop : List (Ind F)) : Bool :=
  pop.all (fun ind => ind.route.all (fun c => decide (c < n)))

def objsValid (N : Num F) (pop : List (Ind F)) : Bool :=
  pop.all (fun ind => match ind.obj with
    | some o => N.fin o && decide ((0 : F) < o)
    | none => false)

/-- Closing-edge tour length, summed like the harness' `Tsp::f`. -/
def tourLenGo (dist : Nat → Nat → F) (first : Nat) : List Nat → F → F
  | [], s => s
  | [a], s => s + dist a first
  | a :: b :: rest, s => tourLenGo dist first (b :: rest) (s + dist a b)

def tourLen (dist : Nat → Nat → F) (t : List Nat) : F :=
  match t with
  | [] => 0
  | a :: _ => tourLenGo dist a t 0


/-! ### One generation → evaluation → update step, as `heuristics/aco.rs` wires it -/

inductive Kind (F : Type) where
  | as (ρ c : F)
  | mmas (ρ hi lo : F)
  deriving Repr

def update (k : Kind F) (pm : PM F) (pop : List (Ind F)) : Option (PM F) :=
  match k with
  | .as ρ c => asUpdate pm ρ c pop
  | .mmas ρ hi lo => mmasUpdate pm ρ hi lo pop

/-- `MinMaxPheromoneUpdate::from_params`: `ensure!(min < max)`. -/
def ctorOk (k : Kind F) : Bool :=
  match k with
  | .as _ _ => true
  | .mmas _ hi lo => decide (lo < hi)

def holdsUpd (N : Num F) (k : Kind F) (pm : PM F) (pop : List (Ind F)) (pm' : PM F) : Bool :=
  match k with
  | .as ρ c => holdsAs N pm ρ c pop pm'
  | .mmas ρ hi lo => holdsMmasAny N pm ρ hi lo pop pm'

/-- The update property on the outcome of an update: a panic is a violation. -/
def holdsUpdRun (N : Num F) (k : Kind F) (pm : PM F) (pop : List (Ind F)) : Option (PM F) → Bool
  | none => false
  | some pm' => holdsUpd N k pm pop pm'

inductive StepOut (F : Type) where
  | ok (tours : List (List Nat)) (objs : List F) (pm' : PM F)
  | genPanic
  | updPanic (tours : List (List Nat)) (objs : List F)
  | badWitness

/-- Generation, evaluation with the closing-edge tour length, pheromone update. -/
def stepOf (k : Kind F) (pm : PM F) (dist : Nat → Nat → F) (g : GenOut) : StepOut F :=
  match g with
  | .panic => .genPanic
  | .badWitness => .badWitness
  | .tours ts =>
    let objs := ts.map (tourLen dist)
    let pop := ts.map (fun t => ({ route := t, obj := some (tourLen dist t) } : Ind F))
    match update k pm pop with
    | none => .updPanic ts objs
    | some pm' => .ok ts objs pm'

def step (N : Num F) (k : Kind F) (pm : PM F) (dist : Nat → Nat → F) (α β : F) (n numAnts : Nat)
    (wits : List (List Nat)) : StepOut F :=
  stepOf k pm dist (generate N pm dist α β n numAnts wits)

/-- The same step with the greedy tie-breaking left open. -/
def stepW (N : Num F) (le : F → F → Bool) (k : Kind F) (pm : PM F) (dist : Nat → Nat → F) (α β : F)
    (n numAnts : Nat) (gw : List Nat) (wits : List (List Nat)) : StepOut F :=
  stepOf k pm dist (generateW N le pm dist α β n numAnts gw wits)

/-! ### The same step composed from the public components under an evaluator identifier

`heuristics::aco::aco::<P, I>` (and every hand-built colony) puts `evaluate_with::<I>()` =
`PopulationEvaluator<I>` between `AcoGeneration` and the pheromone update. The state may hold an evaluator
under each identifier; the step must use the one registered under the REQUESTED identifier `I`, whatever
is registered under the others. -/

/-- Identifiers an evaluator can be registered under (`Global`, `A`, `B`). -/
inductive EvalId where
  | global | a | b
  deriving DecidableEq, Repr

/-- The evaluators held by the state: for every identifier at most one objective function on routes. -/
abbrev EvalStore (F : Type) := EvalId → Option (List Nat → F)

/-- Generation, `PopulationEvaluator<I>` (the evaluator under identifier `i`; `none` = `execute` returns
`Err` because the state holds no evaluator under `i`), pheromone update. -/
def stepOfWith (store : EvalStore F) (i : EvalId) (k : Kind F) (pm : PM F) (g : GenOut) : Option (StepOut F) :=
  match g with
  | .panic => some .genPanic
  | .badWitness => some .badWitness
  | .tours ts =>
    match store i with
    | none => none
    | some f =>
      let objs := ts.map f
      let pop := ts.map (fun t => ({ route := t, obj := some (f t) } : Ind F))
      match update k pm pop with
      | none => some (.updPanic ts objs)
      | some pm' => some (.ok ts objs pm')

/-- The composed step with the greedy tie-breaking left open. -/
def stepWWith (N : Num F) (le : F → F → Bool) (store : EvalStore F) (i : EvalId) (k : Kind F) (pm : PM F)
    (dist : Nat → Nat → F) (α β : F) (n numAnts : Nat) (gw : List Nat) (wits : List (List Nat)) :
    Option (StepOut F) :=
  stepOfWith store i k pm (generateW N le pm dist α β n numAnts gw wits)

/-! ### Runs: every pheromone state the algorithm can reach -/

/-- What a run of `aco` fixes: the update component, the instance, the generation parameters and the value
`AcoGeneration::init` fills the matrix with. -/
structure RunCfg (F : Type) where
  kind : Kind F
  dist : Nat → Nat → F
  α : F
  β : F
  n : Nat
  numAnts : Nat
  τ0 : F

/-- The pheromone states a run can reach: the matrix `AcoGeneration::init` inserts and, from a reachable
state, the result of one loop pass (generation → evaluation → update) — for ANY choice among tied greedy
trails (`gw`) and ANY draws of the sampler (`wits`), after any number of passes. -/
inductive Reach (N : Num F) (le : F → F → Bool) (c : RunCfg F) : PM F → Prop
  | init : Reach N le c (PM.new c.n c.τ0)
  | pass {pm pm' : PM F} (gw : List Nat) (wits ts : List (List Nat)) (objs : List F) :
      Reach N le c pm →
      stepW N le c.kind pm c.dist c.α c.β c.n c.numAnts gw wits = .ok ts objs pm' →
      Reach N le c pm'

end

/-! ### Wire format and verdicts (carrier `Float`) -/
namespace Wire
open MahfModel Sexp

/-- Sort key of `f64::total_cmp`. -/
def totalKey (x : Float) : UInt64 :=
  let b := x.toBits
  if b >>> 63 == 1 then ~~~ b else b ||| 0x8000000000000000

def tolRel : Float := 1e-9
def tolAbs : Float := 1e-300

def closeF (a b : Float) : Bool :=
  a.toBits == b.toBits || (a.isNaN && b.isNaN) ||
    (a.isFinite && b.isFinite &&
      Float.abs (a - b) ≤ tolRel * (if Float.abs a ≤ Float.abs b then Float.abs b else Float.abs a) + tolAbs)

def num : Num Float :=
  { pow := Float.pow, fin := Float.isFinite, tle := fun a b => totalKey a ≤ totalKey b,
    eps := 1e-15, close := closeF }

def floats? (xs : List Sexp) : Option (List Float) := xs.mapM float?

def pm? (tag : String) (s : Sexp) : Option (PM Float) := do
  let args ← tagged? tag s
  match args with
  | d :: rest => pure ⟨← nat? d, ← floats? rest⟩
  | [] => none

def pmToSexp (pm : PM Float) : Sexp := .list (.atom "pm" :: ofNat pm.dim :: pm.inner.map ofFloat)

def natLists? (tag : String) (s : Sexp) : Option (List (List Nat)) := do
  let args ← tagged? tag s
  args.mapM nats?

def toursToSexp (ts : List (List Nat)) : Sexp := .list (.atom "tours" :: ts.map ofNats)

def distFn (d : PM Float) : Nat → Nat → Float :=
  let a := d.inner.toArray
  fun i j => if i < d.dim ∧ j < d.dim then a.getD (i * d.dim + j) (0.0 / 0.0) else 0.0 / 0.0

def kind? (s : Sexp) : Option (Kind Float) :=
  match s with
  | .list [.atom "as", r, c] => do pure (.as (← float? r) (← float? c))
  | .list [.atom "mmas", r, hi, lo] => do pure (.mmas (← float? r) (← float? hi) (← float? lo))
  | _ => none

def ind? (s : Sexp) : Option (Ind Float) :=
  match s with
  | .list [.atom "ind", r, .atom "none"] => do pure ⟨← nats? r, none⟩
  | .list [.atom "ind", r, o] => do pure ⟨← nats? r, some (← float? o)⟩
  | _ => none

def pmClose (a b : PM Float) : Bool :=
  a.dim == b.dim && a.inner.length == b.inner.length &&
    (a.inner.zip b.inner).all (fun p => closeF p.1 p.2)

/-- Agreement outside the region the property quantifies over: positions whose *input* trail is not
finite (only the malformed stream has them) are not compared — there `x * (1 - ρ)` and `x - ρ * x`
are both legitimate evaporation formulas and differ (`inf` vs `NaN`); every other position must be close. -/
def pmCloseWhereFinite (inp a b : PM Float) : Bool :=
  a.dim == b.dim && a.inner.length == b.inner.length && inp.inner.length == a.inner.length &&
    ((inp.inner.zip (a.inner.zip b.inner)).all (fun p => !p.1.isFinite || closeF p.2.1 p.2.2))

/-- The model's outcomes of an update for every admissible choice of the rewarded tour: the code-shaped
`update` (first minimal tour) and, for the max-min variant, every other tied best sampled tour. -/
def updOutcomes (k : Kind Float) (pm : PM Float) (pop : List (Ind Float)) : List (Option (PM Float)) :=
  update k pm pop ::
    (match k with
     | .mmas ρ hi lo => (pop.drop 1).filterMap (fun b =>
        if isMinOf (pop.drop 1) b then
          (match b.obj with
           | some o => some (mmasUpdateWith pm ρ hi lo (some (b, o)))
           | none => none)
        else none)
     | _ => [])

/-- Agreement of an update result with the model, whichever of the tied best sampled tours was rewarded.
`close` is `pmClose`, or `pmCloseWhereFinite pm` outside the region the property quantifies over. -/
def updAgree (k : Kind Float) (pm : PM Float) (pop : List (Ind Float)) (pm' : PM Float)
    (close : PM Float → PM Float → Bool := pmClose) : Bool :=
  (updOutcomes k pm pop).any (fun q => match q with
    | some q => close q pm'
    | none => false)

def updAgreePanic (k : Kind Float) (pm : PM Float) (pop : List (Ind Float)) : Bool :=
  (updOutcomes k pm pop).any Option.isNone

def listClose (a b : List Float) : Bool :=
  a.length == b.length && (a.zip b).all (fun p => closeF p.1 p.2)

/-! Validity (the region the property quantifies over), with explicit magnitudes so that no
intermediate value can overflow. -/

def inRange (lo hi x : Float) : Bool := x.isFinite && lo ≤ x && x ≤ hi

/-- Bounds as constants (evaluated once; a literal with a large exponent is costly to convert). -/
def distLo : Float := 1e-9
def distHi : Float := 1e300
def objHi : Float := 1e301
def posInf : Float := 1.0 / 0.0

def pmHi : Float := 1e15

def pmOk (pm : PM Float) : Bool := pm.wf && pm.inner.all (inRange 0.0 pmHi)

/-- Distances between distinct cities: positive, not so small that `(1/d)^beta` could overflow, and otherwise
of any finite size that keeps a tour length finite — `(1/d)^beta` may underflow to 0, the `1e-15` offset keeps
the weight legal. -/
def distOk (d : PM Float) : Bool :=
  d.wf && allEntries d.dim (fun i j => i == j || inRange distLo distHi (d.getD i j 0.0))

def genValid (pm d : PM Float) (α β : Float) : Bool :=
  pmOk pm && distOk d && pm.dim == d.dim && 1 ≤ d.dim && inRange 0.0 5.0 α && inRange 0.0 5.0 β

def kindValid (k : Kind Float) : Bool :=
  match k with
  | .as ρ c => inRange 0.0 1.0 ρ && inRange 0.0 1e6 c
  | .mmas ρ hi lo => inRange 0.0 1.0 ρ && inRange 0.0 1e15 lo && inRange 0.0 1e15 hi && lo < hi

def popValid (n : Nat) (pop : List (Ind Float)) : Bool :=
  routesValid n pop && (pop.drop 1).all (fun ind => match ind.obj with
    | some o => inRange distLo objHi o || o == posInf
    | none => false)

/-- A pair `(last, r)` whose sampling weight alone makes `WeightedIndex::new` fail — then some sequence
of draws reaches a panic. -/
def mayPanic (pm d : PM Float) (α β : Float) : Bool :=
  !allEntries d.dim (fun a b =>
    a == b || b == 0 ||
      (match weights num pm (distFn d) α β a [b] with
       | some [w] => (0.0 ≤ w) && w.isFinite
       | _ => false))

/-- "No remaining trail exceeds the chosen one": IEEE `≤`, or `total_cmp` (which also orders NaN and the
signed zeros — only the malformed stream has those). -/
def leAny (a b : Float) : Bool := a ≤ b || num.tle a b

/-- Count and permutation clauses alone. -/
def structOk (n ants : Nat) (ts : List (List Nat)) : Bool :=
  ts.length == 1 + ants && ts.all (isPermFromZero n)

/-- The model's generation for the implementation's tours `ts`: the code-shaped `generate` (last maximal
trail) if that is what the implementation produced, otherwise the generation whose greedy route takes the
implementation's choices — accepted only if every one of them is a maximal trail.
Outside the region the property quantifies over (`valid = false`: NaN / negative / infinite trails or
distances, …) neither the comparison of such trails nor the point at which an illegal weight vector is
noticed is demanded: any population of permutations from city 0 is accepted there. -/
def genFor (valid : Bool) (pm : PM Float) (dist : Nat → Nat → Float) (α β : Float) (n ants : Nat)
    (ts wits : List (List Nat)) : GenOut :=
  let g := generate num pm dist α β n ants wits
  let fallback : GenOut := if !valid && structOk n ants ts then .tours ts else g
  match g with
  | .tours mts =>
    if mts == ts then g
    else
      match generateW num (if valid then leAny else fun _ _ => true) pm dist α β n ants
          (recoverWit n (ts.headD [])) wits with
      | .tours wts => if wts == ts then .tours wts else fallback
      | _ => fallback
  | _ => fallback

/-- First failing clause of the generation property on `ts` (`-` = all hold). -/
def genClass (pm : PM Float) (n ants : Nat) (ts : List (List Nat)) (checkGreedy : Bool) : String :=
  -- an instance without any city is outside the property: the route `[0]` the code builds names a city
  -- that does not exist, and no route could be a permutation "starting at city 0"
  if n == 0 then "-"
  else if ts.length != 1 + ants then "count"
  else if !ts.all (isPermFromZero n) then "not-perm"
  else if checkGreedy && !(match ts with | [] => false | g :: _ => greedyOk pm n g) then "not-greedy"
  else "-"

def entriesAll (pm : PM Float) (p : Float → Bool) : Bool := pm.inner.all p

/-- First failing clause of the update property (`-` = all hold). -/
def updClass (k : Kind Float) (pm : PM Float) (pop : List (Ind Float)) (pm' : PM Float) : String :=
  if !(pm'.dim == pm.dim && pm'.wf) then "dim"
  else if !entriesAll pm' Float.isFinite then "nonfinite"
  else if !entriesAll pm' (fun x => 0.0 ≤ x) then "negative"
  else if (match k with | .mmas _ hi lo => !withinBounds lo hi pm' | _ => false) then "bounds"
  else if isSym num pm && !isSym num pm' then "asym"
  else if !holdsUpd num k pm pop pm' then "wrong-value"
  else "-"

/-- `valid` (is the input inside the region the property quantifies over?) is reported with the model
output, for the evidence. -/
def verdict (agree : Bool) (cls : String) (model : Sexp) (valid : Bool := true) : Verdict :=
  { agree, holds := cls == "-", cls, model := .list [.atom (if valid then "valid" else "outside"), model] }

/-- `(gen (pm ..) (dist ..) (par α β) (ants k) (seed s))` -/
def handleGen (args : List Sexp) (impl : Sexp) : Option Verdict := do
  let [pmS, dS, .list [.atom "par", aS, bS], .list [.atom "ants", kS], _] := args | none
  let pm ← pm? "pm" pmS
  let d ← pm? "dist" dS
  let α ← float? aS
  let β ← float? bS
  let ants ← nat? kS
  let n := d.dim
  let valid := genValid pm d α β
  let refused (cls : String) : Option Verdict :=
    -- outside the domain a refusal may be a panic or an `Err`; inside it either one is a violation
    let predicted := (greedyTour num pm n).isNone || (ants > 0 && mayPanic pm d α β)
    pure (verdict (predicted || !valid) (if valid then cls else "-")
      (.atom (if predicted then "panic" else "no-panic")) valid)
  match impl with
  | .atom "panic" => refused "panic"
  | .atom "err" => refused "err"
  | .atom "timeout" => pure (verdict false "timeout" (.atom "-"))
  | .list (.atom "ok" :: tS :: wS :: rest) =>
    let ts ← natLists? "tours" tS
    let wits ← natLists? "wit" wS
    -- the routes replace the current population: the stack keeps its height (1 in the harness' state)
    let depthOk := match rest with
      | [.list [.atom "depth", dS]] => nat? dS == some 1
      | [] => true
      | _ => false
    let (agree, model) := match genFor valid pm (distFn d) α β n ants ts wits with
      | .tours mts => (mts == ts, toursToSexp mts)
      | .panic => (false, .atom "panic")
      | .badWitness => (false, .atom "badwitness")
    let gc := genClass pm n ants ts valid
    pure (verdict (agree && depthOk) (if gc != "-" then gc else if depthOk then "-" else "stack") model valid)
  | _ => none

/-- `(upd kind (pm ..) (pop (ind route obj)*))` -/
def handleUpd (args : List Sexp) (impl : Sexp) : Option Verdict := do
  let [kS, pmS, popS] := args | none
  let k ← kind? kS
  let pm ← pm? "pm" pmS
  let pop ← (← tagged? "pop" popS).mapM ind?
  let valid := kindValid k && pmOk pm && popValid pm.dim pop
  if !ctorOk k then
    let isErr := match impl with | .atom "ctor-err" => true | _ => false
    return verdict isErr "-" (.atom "ctor-err") false
  let m := update k pm pop
  let modelS := match m with | some pm' => pmToSexp pm' | none => .atom "panic"
  match impl with
  | .atom "panic" => pure (verdict (updAgreePanic k pm pop) (if valid then "panic" else "-") modelS valid)
  | .atom "err" => pure (verdict false (if valid then "err" else "-") modelS valid)
  | .atom "ctor-err" => pure (verdict false (if valid then "err" else "-") modelS valid)
  | .list [.atom "ok", pS] =>
    let pm' ← pm? "pm" pS
    let agree := if valid then updAgree k pm pop pm' else updAgree k pm pop pm' (pmCloseWhereFinite pm)
    pure (verdict agree (if valid then updClass k pm pop pm' else "-") modelS valid)
  | _ => none

structure StepIn where
  k : Kind Float
  pm : PM Float
  d : PM Float
  α : Float
  β : Float
  ants : Nat

def stepIn? (kS pmS dS parS antsS : Sexp) : Option StepIn := do
  let .list [.atom "par", aS, bS] := parS | none
  let .list [.atom "ants", nS] := antsS | none
  pure { k := ← kind? kS, pm := ← pm? "pm" pmS, d := ← pm? "dist" dS, α := ← float? aS, β := ← float? bS,
         ants := ← nat? nS }

def stepOutSexp : StepOut Float → Sexp
  | .ok ts objs pm' => .list [.atom "ok", toursToSexp ts, .list (.atom "objs" :: objs.map ofFloat), pmToSexp pm']
  | .genPanic => .atom "gen-panic"
  | .updPanic ts objs => .list [.atom "upd-panic", toursToSexp ts, .list (.atom "objs" :: objs.map ofFloat)]
  | .badWitness => .atom "badwitness"

def mkPop (ts : List (List Nat)) (objs : List Float) : List (Ind Float) :=
  (ts.zip objs).map (fun p => ⟨p.1, some p.2⟩)

/-- Verdict on one generation → evaluation → update step of the real components. -/
def judgeStep (i : StepIn) (impl : Sexp) : Option Verdict := do
  let n := i.d.dim
  let dist := distFn i.d
  let validG := genValid i.pm i.d i.α i.β
  let valid := validG && kindValid i.k
  if !ctorOk i.k then
    let isErr := match impl with | .atom "ctor-err" => true | _ => false
    return verdict isErr "-" (.atom "ctor-err") false
  match impl with
  | .atom "ctor-err" => pure (verdict false (if valid then "err" else "-") (.atom "-") valid)
  | .atom "timeout" => pure (verdict false "timeout" (.atom "-"))
  | .atom "gen-panic" =>
    let predicted := (greedyTour num i.pm n).isNone || (i.ants > 0 && mayPanic i.pm i.d i.α i.β)
    pure (verdict (predicted || !validG) (if valid then "panic" else "-")
      (.atom (if predicted then "gen-panic" else "no-panic")) valid)
  | .list [.atom "eval-panic", tS, wS] =>
    -- the harness' objective function refuses NaN / -inf tour lengths
    let ts ← natLists? "tours" tS
    let wits ← natLists? "wit" wS
    let (agree, model) := match genFor validG i.pm dist i.α i.β n i.ants ts wits with
      | .tours mts => (mts == ts && (mts.map (tourLen dist)).any (fun o => o.isNaN || o == -(1.0 / 0.0)), toursToSexp mts)
      | _ => (false, .atom "-")
    let gc := genClass i.pm n i.ants ts validG
    pure (verdict agree (if gc != "-" then gc else if valid then "panic" else "-") model valid)
  | .list [.atom "upd-panic", tS, wS, oS] =>
    let ts ← natLists? "tours" tS
    let wits ← natLists? "wit" wS
    let objs ← floats? (← tagged? "objs" oS)
    let m := stepOf i.k i.pm dist (genFor validG i.pm dist i.α i.β n i.ants ts wits)
    let agree := match m with
      | .updPanic mts mobjs => mts == ts && listClose mobjs objs
      | _ => false
    let gc := genClass i.pm n i.ants ts validG
    pure (verdict agree (if gc != "-" then gc else if valid then "panic" else "-") (stepOutSexp m) valid)
  | .list [.atom "ok", tS, wS, oS, pS] =>
    let ts ← natLists? "tours" tS
    let wits ← natLists? "wit" wS
    let objs ← floats? (← tagged? "objs" oS)
    let pm' ← pm? "pm" pS
    let m := stepOf i.k i.pm dist (genFor validG i.pm dist i.α i.β n i.ants ts wits)
    let agree := match m with
      | .ok mts mobjs mpm => mts == ts && listClose mobjs objs && (pmClose mpm pm' || updAgree i.k i.pm (mkPop mts mobjs) pm')
      | _ => false
    let gc := genClass i.pm n i.ants ts validG
    let oc := if objs.length == ts.length && listClose (ts.map (tourLen dist)) objs then "-" else "objective"
    let cls :=
      if gc != "-" then gc
      else if !valid then "-"
      else if oc != "-" then oc
      else updClass i.k i.pm (mkPop ts objs) pm'
    pure (verdict agree cls (stepOutSexp m) valid)
  | _ => none

/-- `(run name variant instance iters seed)` ↦ `(outcome (gens G) (upds U) (bad (k clause)*))` -/
def handleRun (args : List Sexp) (impl : Sexp) : Option Verdict := do
  let [_, _, _, itS, _] := args | none
  let iters ← nat? itS
  let expected := Sexp.list [.atom "ok", .list [.atom "gens", ofNat iters], .list [.atom "upds", ofNat iters],
    .list [.atom "bad"]]
  match impl with
  | .list [.atom o, .list [.atom "gens", g], .list [.atom "upds", u], .list (.atom "bad" :: bad)] =>
    let gn ← nat? g
    let un ← nat? u
    let cls :=
      if o != "ok" then o
      else match bad with
        | .list [_, .atom c] :: _ => c
        | _ :: _ => "bad"
        | [] => if gn != iters || un != iters then "count" else "-"
    pure (verdict (Sexp.beq impl expected) cls expected)
  | _ => none

/-- `(init n default)` ↦ the matrix `AcoGeneration::init` inserts: `n × n`, `default` everywhere. -/
def handleInit (args : List Sexp) (impl : Sexp) : Option Verdict := do
  let [nS, vS] := args | none
  let n ← nat? nS
  let v ← float? vS
  let m := PM.new n v
  match impl with
  | .list [.atom "ok", pS] =>
    let pm' ← pm? "pm" pS
    let same := pm'.dim == m.dim && pm'.inner.length == m.inner.length &&
      (pm'.inner.zip m.inner).all (fun p => p.1.toBits == p.2.toBits)
    pure (verdict same (if same then "-" else "init") (pmToSexp m))
  | .atom "panic" => pure (verdict false "panic" (pmToSexp m))
  | .atom "err" => pure (verdict false "err" (pmToSexp m))
  | _ => none

def handleCase (input impl : Sexp) : Option Verdict :=
  match input with
  | .list (.atom "init" :: args) => handleInit args impl
  | .list (.atom "gen" :: args) => handleGen args impl
  | .list (.atom "upd" :: args) => handleUpd args impl
  | .list [.atom "step", kS, pmS, dS, parS, antsS, _] => do
    judgeStep (← stepIn? kS pmS dS parS antsS) impl
  -- the step composed under evaluator identifier `id` with decoy evaluators under the other identifiers:
  -- the tour-length evaluator is the one registered under `id`, so the verdict is that of the plain step
  -- (`stepOfWith_eq_stepOf`): in particular the objectives must be the closing-edge tour lengths.
  | .list [.atom "cstep", .list [.atom "eval", .atom id, .atom _decoy], kS, pmS, dS, parS, antsS, _] => do
    if id != "g" && id != "a" && id != "b" then none
    judgeStep (← stepIn? kS pmS dS parS antsS) impl
  | .list (.atom "tstep" :: _) =>
    match impl with
    | .list [.atom "at", kS, pmS, dS, parS, antsS, out] => do
      judgeStep (← stepIn? kS pmS dS parS antsS) out
    | .atom "missing" => some (verdict false "missing" (.atom "-"))
    | _ => none
  | .list (.atom "run" :: args) => handleRun args impl
  | _ => none

end Wire
end MahfModel.Aco
