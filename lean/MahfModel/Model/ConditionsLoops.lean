/-
C10 — iteration-bounded loops inside a `State`: `Loop::init`, `Loop::execute`, `Scope::execute`,
`LessThanN::{init, evaluate}` over `ValueOf<Iterations>` and `Configuration::run`, on the registry
chain (src/components/control_flow.rs:190-228, 462-475; src/conditions/common.rs:168-186;
src/configuration.rs `run`).

Code-shaped: the state is the chain of registries (innermost first), each of which may or may not
hold `Iterations` and `Progress<ValueOf<Iterations>>`; `insert` writes the top registry, lookups
resolve through the parents. The progress carrier is generic (core classes only).
-/
import MahfModel.Model.Sexp
import MahfModel.Model.Conditions
namespace MahfModel.Conditions

/-- One registry level, as far as iteration-bounded loops are concerned. -/
structure LFrame (F : Type) where
  iters : Option Nat        -- `Iterations`
  progress : Option F       -- `Progress<ValueOf<Iterations>>`
  deriving DecidableEq, Repr

/-- The registry chain: `top` is the registry `insert` writes to, `rest` its parents (innermost first). -/
structure LReg (F : Type) where
  top : LFrame F
  rest : List (LFrame F)
  deriving DecidableEq, Repr

/-- `try_borrow::<Iterations>()`: the innermost registry that holds the counter. -/
def lookIters {F : Type} : List (LFrame F) → Option Nat
  | [] => none
  | f :: fs =>
    match f.iters with
    | some v => some v
    | none => lookIters fs

def lookProgress {F : Type} : List (LFrame F) → Option F
  | [] => none
  | f :: fs =>
    match f.progress with
    | some v => some v
    | none => lookProgress fs

/-- `set_value::<Progress<_>>(p)`: writes the innermost registry that holds one; silently nothing otherwise. -/
def setProgressL {F : Type} (p : F) : List (LFrame F) → List (LFrame F)
  | [] => []
  | f :: fs =>
    match f.progress with
    | some _ => { f with progress := some p } :: fs
    | none => f :: setProgressL p fs

/-- `*state.try_borrow_value_mut::<Iterations>()? += 1`; `none` = `Err` (no counter anywhere). -/
def bumpL {F : Type} : List (LFrame F) → Option (List (LFrame F))
  | [] => none
  | f :: fs =>
    match f.iters with
    | some v => some ({ f with iters := some (v + 1) } :: fs)
    | none =>
      match bumpL fs with
      | some fs' => some (f :: fs')
      | none => none

def LReg.iters {F : Type} (r : LReg F) : Option Nat := lookIters (r.top :: r.rest)
def LReg.progress {F : Type} (r : LReg F) : Option F := lookProgress (r.top :: r.rest)

def LReg.setProgress {F : Type} (r : LReg F) (p : F) : LReg F :=
  match r.top.progress with
  | some _ => { r with top := { r.top with progress := some p } }
  | none => { r with rest := setProgressL p r.rest }

def LReg.bump {F : Type} (r : LReg F) : Option (LReg F) :=
  match r.top.iters with
  | some v => some { r with top := { r.top with iters := some (v + 1) } }
  | none =>
    match bumpL r.rest with
    | some rest' => some { r with rest := rest' }
    | none => none

/-- What the harness observes. -/
inductive LEvent (F : Type) where
  /-- loop `id` tested its condition: the verdict, the counter it read, the progress readable afterwards -/
  | test (id : Nat) (verdict : Bool) (iters : Nat) (progress : Option F)
  /-- leaf `tag` was executed and saw this counter (`none`: no `Iterations` anywhere) -/
  | pass (tag : Nat) (iters : Option Nat)
  deriving DecidableEq, Repr

mutual
  /-- Component trees as the builder makes them: the bodies of `while_` and `scope_` are blocks. -/
  inductive LItem where
    | leaf (tag : Nat)
    | loop (id n : Nat) (body : LItems)      -- `Loop` guarded by `LessThanN::iterations(n)`
    | scope (body : LItems)
  inductive LItems where
    | nil
    | cons (i : LItem) (is : LItems)
end

inductive LStop where
  | fuel          -- the model's fuel ran out (more tests in one loop entry than the bound allows)
  | noCounter     -- `Err`: no `Iterations` to read or to increment
  deriving DecidableEq, Repr

inductive LRes (F : Type) where
  | ok (r : LReg F) (log : List (LEvent F))
  | stop (why : LStop)
  deriving DecidableEq, Repr

/-- `LessThanN::evaluate` (under the harness's logging wrapper):
`let value = lens.get(..)?; state.set_value::<Progress<L>>(value.into() / n.into()); Ok(value < n)`. -/
def lTest {F : Type} [Div F] (toF : Nat → F) (id n : Nat) (r : LReg F) : Option (LReg F × Bool × LEvent F) :=
  match r.iters with
  | none => none
  | some v =>
    let r1 := r.setProgress (toF v / toF n)
    some (r1, decide (v < n), .test id (decide (v < n)) v r1.progress)

/-- `while condition.evaluate()? { body.execute()?; *Iterations += 1 }`; `fuel` bounds the tests of this entry. -/
def lLoop {F : Type} [Div F] (toF : Nat → F) (id n : Nat) (body : LReg F → List (LEvent F) → LRes F) :
    Nat → LReg F → List (LEvent F) → LRes F
  | 0, _, _ => .stop .fuel
  | fuel + 1, r, log =>
    match lTest toF id n r with
    | none => .stop .noCounter
    | some (r1, v, e) =>
      if v then
        match body r1 (log ++ [e]) with
        | .stop w => .stop w
        | .ok r2 log2 =>
          match r2.bump with
          | none => .stop .noCounter
          | some r3 => lLoop toF id n body fuel r3 log2
      else .ok r1 (log ++ [e])

mutual
  /-- `Component::init`. `Loop::init`: `state.insert(Iterations(0))`, `condition.init`
  (`state.insert(Progress::default())`), `body.init`. `Scope::init` does nothing. -/
  def lInit {F : Type} [OfNat F 0] : LItem → LReg F → LReg F
    | .leaf _, r => r
    | .loop _ _ b, r => lInits b { r with top := { iters := some 0, progress := some 0 } }
    | .scope _, r => r
  def lInits {F : Type} [OfNat F 0] : LItems → LReg F → LReg F
    | .nil, r => r
    | .cons i is, r => lInits is (lInit i r)
end

mutual
  /-- `Component::execute`. -/
  def lExec {F : Type} [Div F] [OfNat F 0] (toF : Nat → F) (fuel : Nat) : LItem → LReg F → List (LEvent F) → LRes F
    | .leaf tag, r, log => .ok r (log ++ [.pass tag r.iters])
    | .loop id n b, r, log =>
      -- `self.condition.init(..)`: a fresh `Progress` in the top registry
      lLoop toF id n (lExecs toF fuel b) fuel { r with top := { r.top with progress := some 0 } } log
    | .scope b, r, log =>
      -- `with_inner_state`: child registry; `body.init`, `body.execute`; the child is dropped
      let child : LReg F := { top := { iters := none, progress := none }, rest := r.top :: r.rest }
      match lExecs toF fuel b (lInits b child) log with
      | .stop w => .stop w
      | .ok r' log' =>
        match r'.rest with
        | t :: rs => .ok { top := t, rest := rs } log'
        | [] => .ok { top := r'.top, rest := [] } log'   -- unreachable: a child always has a parent
  def lExecs {F : Type} [Div F] [OfNat F 0] (toF : Nat → F) (fuel : Nat) : LItems → LReg F → List (LEvent F) → LRes F
    | .nil, r, log => .ok r log
    | .cons i is, r, log =>
      match lExec toF fuel i r log with
      | .stop w => .stop w
      | .ok r' log' => lExecs toF fuel is r' log'
end

/-- `Configuration::run`: `init`, (`require`: nothing for these components), `execute`. -/
def lRun {F : Type} [Div F] [OfNat F 0] (toF : Nat → F) (fuel : Nat) (is : LItems) (r : LReg F)
    (log : List (LEvent F)) : LRes F :=
  lExecs toF fuel is (lInits is r) log

/-- `k` successive runs of the same configuration on the same state. -/
def lRunTimes {F : Type} [Div F] [OfNat F 0] (toF : Nat → F) (fuel : Nat) (is : LItems) :
    Nat → LReg F → List (LEvent F) → LRes F
  | 0, r, log => .ok r log
  | k + 1, r, log =>
    match lRun toF fuel is r log with
    | .stop w => .stop w
    | .ok r' log' => lRunTimes toF fuel is k r' log'

/-! Largest loop bound of a tree (`fuel > maxN` is enough for every loop entry). -/
mutual
  def maxN : LItem → Nat
    | .leaf _ => 0
    | .loop _ n b => max n (maxNs b)
    | .scope b => maxNs b
  def maxNs : LItems → Nat
    | .nil => 0
    | .cons i is => max (maxN i) (maxNs is)
end

/-! #### Which trees the property speaks about

mahf documents that nested loops need a `Scope` ("so that the inner `Loop` doesn't overwrite the
outer amount of `Iterations`"): the counter lives in the registry, one per level. A loop counts
what its name says exactly when it is the only loop on its registry level — `lvl1s`: exactly one
loop on this level (reached through the block only, its own body has none on this level);
`lvl0s`: none. Scopes inside open new levels, which must again be one or the other. -/
mutual
  def lvl0 : LItem → Bool
    | .leaf _ => true
    | .loop _ _ _ => false
    | .scope b => lvl0s b || lvl1s b
  def lvl0s : LItems → Bool
    | .nil => true
    | .cons i is => lvl0 i && lvl0s is
  def lvl1 : LItem → Bool
    | .leaf _ => false
    | .loop _ _ b => lvl0s b
    | .scope _ => false
  def lvl1s : LItems → Bool
    | .nil => false
    | .cons i is => (lvl1 i && lvl0s is) || (lvl0 i && lvl1s is)
end

def wellScoped (is : LItems) : Bool := lvl0s is || lvl1s is

/-! #### Specification side: no registry, no counter state

What "makes exactly n passes, tests its condition n+1 times and reports progress value/n" means
for a whole tree: a loop contributes, for k = 0 … n−1, a `true` test at value k with progress k/n
followed by its body (whose leaves see k), then one `false` test at n with progress n/n.
`cur` is the counter a leaf sees; the second component is the counter visible afterwards. -/
mutual
  def specItem {F : Type} [Div F] (toF : Nat → F) : LItem → Option Nat → List (LEvent F) × Option Nat
    | .leaf tag, cur => ([.pass tag cur], cur)
    | .loop id n b, _ =>
      ((List.range' 0 n).flatMap (fun k =>
          LEvent.test id true k (some (toF k / toF n)) :: (specItems toF b (some k)).1) ++
        [.test id false n (some (toF n / toF n))], some n)
    | .scope b, cur => ((specItems toF b (if lvl1s b then some 0 else cur)).1, cur)
  def specItems {F : Type} [Div F] (toF : Nat → F) : LItems → Option Nat → List (LEvent F) × Option Nat
    | .nil, cur => ([], cur)
    | .cons i is, cur =>
      let a := specItem toF i cur
      let b := specItems toF is a.2
      (a.1 ++ b.1, b.2)
end

/-- The expected log of one `Configuration::run` on a state whose visible counter is `cur0`. -/
def specRun {F : Type} [Div F] (toF : Nat → F) (is : LItems) (cur0 : Option Nat) : List (LEvent F) × Option Nat :=
  specItems toF is (if lvl1s is then some 0 else cur0)

def specRunTimes {F : Type} [Div F] (toF : Nat → F) (is : LItems) : Nat → Option Nat → List (LEvent F)
  | 0, _ => []
  | k + 1, cur0 =>
    let a := specRun toF is cur0
    a.1 ++ specRunTimes toF is k a.2

/-! ### A loop guarded by a composite of two bounds (`iterations(n) & evaluations(m)`, `… | …`, `!(!… | !…)`)

`while cond.evaluate()? { body; Iterations += 1 }` where `cond` is built with the operators of
logical.rs from `LessThanN::iterations(n)` and `LessThanN::evaluations(m)`, and the body adds `step`
to `Evaluations`. And / Or evaluate BOTH operands at every test (no short-circuit), so both
`Progress` values are written at every test. -/

inductive Conn where
  | and     -- `a & b`
  | or      -- `a | b`
  | nand    -- `!(!a | !b)` (what `a & b` is by De Morgan, through three `Not`s and an `Or`)
  deriving DecidableEq, Repr

def connB : Conn → Bool → Bool → Bool
  | .and, a, b => allB [a, b]
  | .or, a, b => anyB [a, b]
  | .nand, a, b => !(anyB [!a, !b])

structure L2St (F : Type) where
  it : Nat          -- `Iterations`
  ev : Nat          -- `Evaluations`
  pit : F           -- `Progress<ValueOf<Iterations>>`
  pev : F           -- `Progress<ValueOf<Evaluations>>`
  passes : Nat

/-- One test as the harness logs it: verdict, both counters, both progress values. -/
structure L2Ev (F : Type) where
  verdict : Bool
  it : Nat
  ev : Nat
  pit : F
  pev : F

def loop2Go {F : Type} [Div F] (toF : Nat → F) (c : Conn) (n m step : Nat) :
    Nat → L2St F → List (L2Ev F) → Option (L2St F × List (L2Ev F))
  | 0, _, _ => none
  | fuel + 1, s, log =>
    let a := lessThanN toF n s.it
    let b := lessThanN toF m s.ev
    let v := connB c a.1 b.1
    let s1 : L2St F := { s with pit := a.2, pev := b.2 }
    let log1 := log ++ [{ verdict := v, it := s.it, ev := s.ev, pit := a.2, pev := b.2 }]
    if v then loop2Go toF c n m step fuel { s1 with it := s1.it + 1, ev := s1.ev + step, passes := s1.passes + 1 } log1
    else some (s1, log1)

/-- `Loop::init` (`Iterations(0)`, both `Progress` 0) on a state with `Evaluations(0)`, then `execute`. -/
def loop2Run {F : Type} [Div F] [OfNat F 0] (toF : Nat → F) (c : Conn) (n m step fuel : Nat) :
    Option (L2St F × List (L2Ev F)) :=
  loop2Go toF c n m step fuel { it := 0, ev := 0, pit := 0, pev := 0, passes := 0 } []

/-- Specification side: does the composite allow pass number `k` (after `k` passes the counters are
`k` and `k · step`)? -/
def goesOn (c : Conn) (n m step k : Nat) : Bool :=
  match c with
  | .and => decide (k < n) && decide (k * step < m)
  | .or => decide (k < n) || decide (k * step < m)
  | .nand => decide (k < n) && decide (k * step < m)

/-- The test the specification expects at pass count `k`. -/
def specEv2 {F : Type} [Div F] (toF : Nat → F) (c : Conn) (n m step k : Nat) : L2Ev F :=
  { verdict := goesOn c n m step k, it := k, ev := k * step, pit := toF k / toF n, pev := toF (k * step) / toF m }

/-- The least `k ≤ bound` at which the composite says stop (`none`: it goes on up to the bound). -/
def firstStop (c : Conn) (n m step : Nat) : Nat → Nat → Option Nat
  | 0, k => if goesOn c n m step k then none else some k
  | fuel + 1, k => if goesOn c n m step k then firstStop c n m step fuel (k + 1) else some k

/-! #### Reading counts off a log -/

/-- A condition test of loop `id`. -/
def isTestOf {F : Type} (id : Nat) : LEvent F → Bool
  | .test i _ _ _ => i == id
  | .pass _ _ => false

/-- A condition test of loop `id` that answered `true` (= one pass of that loop). -/
def isTrueTestOf {F : Type} (id : Nat) : LEvent F → Bool
  | .test i v _ _ => i == id && v
  | .pass _ _ => false

/-- An execution of leaf `tag`. -/
def isPassOf {F : Type} (tag : Nat) : LEvent F → Bool
  | .test _ _ _ _ => false
  | .pass t _ => t == tag

def logOf {F : Type} : LRes F → List (LEvent F)
  | .ok _ log => log
  | .stop _ => []

/-! #### Wire format -/
open MahfModel Sexp

/-- `(p tag)`, `(loop id n ITEM*)`, `(scope ITEM*)`; `fuel` bounds the nesting depth of the parser. -/
def parseLItems : Nat → List Sexp → Option LItems
  | 0, _ => none
  | fuel + 1, xs => go fuel xs
where
  go (fuel : Nat) : List Sexp → Option LItems
    | [] => some .nil
    | x :: xs => do
      let i ← match x with
        | .list [.atom "p", t] => do pure (LItem.leaf (← nat? t))
        | .list (.atom "loop" :: id :: n :: body) => do
          pure (LItem.loop (← nat? id) (← nat? n) (← parseLItems fuel body))
        | .list (.atom "scope" :: body) => do pure (LItem.scope (← parseLItems fuel body))
        | _ => none
      let rest ← go fuel xs
      pure (.cons i rest)

end MahfModel.Conditions
