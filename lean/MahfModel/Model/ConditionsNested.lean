/-
C10 — the shipped conditions evaluated on NESTED states (`State::with_inner_state`, `Scope`): a state
is a chain of registries, every lookup (`try_borrow`, `try_borrow_value_mut`, `set_value`,
`State::best_individual`) resolves to the INNERMOST registry that holds the state type, `insert`
writes the top registry. A value inserted in an inner registry therefore SHADOWS the outer one: the
condition must answer about the value of the state it is evaluated on, whatever the enclosing
registries hold (src/state/mod.rs:71-83, 214-224; src/state/registry/mod.rs `find`, `try_borrow`;
src/lens/common.rs `ValueOf::get_ref`, `BestObjectiveValueLens::{get, get_ref}`;
src/conditions/common.rs).

Code-shaped, carrier generic (core classes only).
-/
import MahfModel.Model.Sexp
import MahfModel.Model.Conditions
namespace MahfModel.Conditions

/-- One registry, as far as the conditions are concerned. `none` = the registry does not hold that state type. -/
structure NFrame (F : Type) where
  /-- observed `u32` states: `Iterations` (0), `Evaluations` (1), two user-defined ones (2, 3) -/
  obs : Nat → Option Nat
  /-- `BestIndividual`: `some none` = inserted but still empty, `some (some v)` = objective value `v` -/
  best : Option (Option F)
  /-- `Progress<L>` per lens (0 … 3: `ValueOf` of the observed states, 4: `BestObjectiveValueLens`) -/
  prog : Nat → Option F
  /-- `Previous<ValueOf<_>>` of ChangeOf, per observed state -/
  prevN : Nat → Option (Option Nat)
  /-- `Previous<BestObjectiveValueLens>` -/
  prevB : Option (Option F)

def NFrame.empty {F : Type} : NFrame F :=
  { obs := fun _ => none, best := none, prog := fun _ => none, prevN := fun _ => none, prevB := none }

/-- `try_borrow::<T>()`: the innermost registry that holds `T` (`sel` picks `T` out of a registry). -/
def nLook {F α : Type} (sel : NFrame F → Option α) : List (NFrame F) → Option α
  | [] => none
  | f :: fs =>
    match sel f with
    | some a => some a
    | none => nLook sel fs

/-- `try_borrow_mut::<T>()` followed by a write: changes the innermost registry that holds `T`;
nothing happens if none does (`set_value` returns `None`, `try_…` callers get `Err`). -/
def nWrite {F α : Type} (sel : NFrame F → Option α) (wr : NFrame F → NFrame F) : List (NFrame F) → List (NFrame F)
  | [] => []
  | f :: fs =>
    match sel f with
    | some _ => wr f :: fs
    | none => f :: nWrite sel wr fs

/-- `insert`: always the top registry. -/
def nTop {F : Type} (wr : NFrame F → NFrame F) : List (NFrame F) → List (NFrame F)
  | [] => []
  | f :: fs => wr f :: fs

/-- `State::best_objective_value`: `try_borrow::<BestIndividual>().ok()?` — the NEAREST one — and then
`filter_map(as_ref)`: an empty nearest `BestIndividual` means no best value. -/
def nBest {F : Type} (fs : List (NFrame F)) : Option F :=
  match nLook (fun f => f.best) fs with
  | some (some b) => some b
  | _ => none

/-- The conditions that read the state. -/
inductive NCond (F : Type) where
  | opt (eps : F)                       -- `OptimumReached::new(eps)`
  | lt (key n : Nat)                    -- `LessThanN` over `ValueOf<key>`
  | ltb (n : F)                         -- `LessThanN` over `BestObjectiveValueLens`
  | every (key n : Nat)                 -- `EveryN` over `ValueOf<key>`
  | chg (key : Nat) (th : Option Nat)   -- `ChangeOf` over `ValueOf<key>`, PartialEq / Delta checker
  | chgb (th : Option F)                -- `ChangeOf` over `BestObjectiveValueLens`

/-- Lens key of the `Progress` state a condition writes (`none`: it writes none). -/
def NCond.progKey {F : Type} : NCond F → Option Nat
  | .lt key _ => some key
  | .ltb _ => some 4
  | _ => none

def chkN (th : Option Nat) : Nat → Nat → Bool :=
  match th with
  | none => partialEq
  | some t => deltaEq t

def chkF {F : Type} [BEq F] [LT F] [DecidableLT F] [Sub F] (th : Option F) : F → F → Bool :=
  match th with
  | none => fun a b => a == b
  | some t => deltaEqG t

/-- `Condition::init`: LessThanN inserts `Progress::default()`, ChangeOf inserts `Previous::default()`
— into the TOP registry; the others have nothing to initialise. -/
def nInit {F : Type} [OfNat F 0] : NCond F → List (NFrame F) → List (NFrame F)
  | .lt key _, fs => nTop (fun f => { f with prog := upd f.prog key (some 0) }) fs
  | .ltb _, fs => nTop (fun f => { f with prog := upd f.prog 4 (some 0) }) fs
  | .chg key _, fs => nTop (fun f => { f with prevN := upd f.prevN key (some none) }) fs
  | .chgb _, fs => nTop (fun f => { f with prevB := some none }) fs
  | _, fs => fs

/-- `Condition::evaluate`: the result (`none` = `Err`) and the state afterwards. -/
def nEval {F : Type} [Add F] [Sub F] [Div F] [LT F] [LE F] [DecidableLT F] [DecidableLE F] [BEq F]
    (toF : Nat → F) (optimum : F) : NCond F → List (NFrame F) → Option Bool × List (NFrame F)
  | .opt eps, fs => (some (optimumReached eps (nBest fs) optimum), fs)
  | .lt key n, fs =>
    match nLook (fun f => f.obs key) fs with
    | none => (none, fs)
    | some v =>
      let r := lessThanN toF n v
      (some r.1, nWrite (fun f => f.prog key) (fun f => { f with prog := upd f.prog key (some r.2) }) fs)
  | .ltb n, fs =>
    match nBest fs with
    | none => (none, fs)
    | some b =>
      let r := lessThanN (fun x : F => x) n b
      (some r.1, nWrite (fun f => f.prog 4) (fun f => { f with prog := upd f.prog 4 (some r.2) }) fs)
  | .every key n, fs =>
    match nLook (fun f => f.obs key) fs with
    | none => (none, fs)
    | some v => (some (everyN n v), fs)
  | .chg key th, fs =>
    match nLook (fun f => f.obs key) fs, nLook (fun f => f.prevN key) fs with
    | some v, some prev =>
      let r := changeOfStep (chkN th) prev v
      (some r.1, nWrite (fun f => f.prevN key) (fun f => { f with prevN := upd f.prevN key (some r.2) }) fs)
    | _, _ => (none, fs)
  | .chgb th, fs =>
    -- `BestObjectiveValueLens::get_ref`: the nearest `BestIndividual`; `Err` while it is empty
    match nBest fs, nLook (fun f => f.prevB) fs with
    | some b, some prev =>
      let r := changeOfStep (chkF th) prev b
      (some r.1, nWrite (fun f => f.prevB) (fun f => { f with prevB := some r.2 }) fs)
    | _, _ => (none, fs)

/-- What the harness does to the state between evaluations. -/
inductive NOp (F : Type) where
  | put (key v : Nat)        -- `state.insert(Key(v))`: top registry
  | putb (b : Option F)      -- `state.insert(BestIndividual)` empty / holding `b`: top registry
  | set (key v : Nat)        -- `state.set_value::<Key>(v)`: innermost holder, nothing if none
  | updb (b : F)             -- `BestIndividual::update` on the innermost holder (kept if not better)
  | init (c : Nat)           -- `conds[c].init`
  | eval (c : Nat)           -- `conds[c].evaluate`

mutual
  inductive NItem (F : Type) where
    | op (o : NOp F)
    | inner (body : NItems F)    -- `state.with_inner_state(|state| body)`
  inductive NItems (F : Type) where
    | nil
    | cons (i : NItem F) (is : NItems F)
end

/-- `BestIndividual::update` on its content: `if candidate < current { replace }`; an empty one takes the candidate. -/
def upd1 {F : Type} [LT F] [DecidableLT F] (b : F) : Option F → Option F
  | some cur => if b < cur then some b else some cur
  | none => some b

/-- …on a registry's slot (a registry that holds no `BestIndividual` is never the target of the write). -/
def bestUpdate {F : Type} [LT F] [DecidableLT F] (b : F) : Option (Option F) → Option (Option F)
  | some cur => some (upd1 b cur)
  | none => none

/-- One logged evaluation: which condition, its result (`none` = `Err`) and, for LessThanN, the
`Progress` value readable in that state afterwards (`some none`: no `Progress` state anywhere). -/
structure NEvent (F : Type) where
  c : Nat
  res : Option Bool
  prog : Option (Option F)

/-- The state operations (everything but `eval`). -/
def nOp {F : Type} [OfNat F 0] [LT F] [DecidableLT F] (conds : List (NCond F)) : NOp F → List (NFrame F) → List (NFrame F)
  | .put key v, fs => nTop (fun f => { f with obs := upd f.obs key (some v) }) fs
  | .putb b, fs => nTop (fun f => { f with best := some b }) fs
  | .set key v, fs => nWrite (fun f => f.obs key) (fun f => { f with obs := upd f.obs key (some v) }) fs
  | .updb b, fs => nWrite (fun f => f.best) (fun f => { f with best := bestUpdate b f.best }) fs
  | .init c, fs =>
    match conds[c]? with
    | some cd => nInit cd fs
    | none => fs
  | .eval _, fs => fs

mutual
  /-- The interpreter, generic in how an evaluation is judged (`ev`: the code-shaped `nEval` for the
  model, the specification-side judge for the property predicate). -/
  def nExecItem {F E : Type} [OfNat F 0] [LT F] [DecidableLT F] (conds : List (NCond F))
      (ev : Nat → NCond F → List (NFrame F) → E × List (NFrame F)) :
      NItem F → List (NFrame F) → List E → List (NFrame F) × List E
    | .op (.eval c), fs, log =>
      match conds[c]? with
      | some cd => let r := ev c cd fs; (r.2, log ++ [r.1])
      | none => (fs, log)
    | .op o, fs, log => (nOp conds o fs, log)
    | .inner body, fs, log =>
      -- child registry on top; dropped afterwards (writes that went through to the parents stay)
      let r := nExecItems conds ev body (NFrame.empty :: fs) log
      (r.1.tail, r.2)
  def nExecItems {F E : Type} [OfNat F 0] [LT F] [DecidableLT F] (conds : List (NCond F))
      (ev : Nat → NCond F → List (NFrame F) → E × List (NFrame F)) :
      NItems F → List (NFrame F) → List E → List (NFrame F) × List E
    | .nil, fs, log => (fs, log)
    | .cons i is, fs, log =>
      let r := nExecItem conds ev i fs log
      nExecItems conds ev is r.1 r.2
end

/-- The model's judge: the code-shaped evaluation and the progress readable afterwards. -/
def nEvalEvent {F : Type} [Add F] [Sub F] [Div F] [LT F] [LE F] [DecidableLT F] [DecidableLE F] [BEq F]
    (toF : Nat → F) (optimum : F) (c : Nat) (cd : NCond F) (fs : List (NFrame F)) : NEvent F × List (NFrame F) :=
  let r := nEval toF optimum cd fs
  ({ c := c, res := r.1, prog := cd.progKey.map fun k => nLook (fun f => f.prog k) r.2 }, r.2)

/-- A script on a fresh `State::new()` (one empty registry). -/
def nRun {F : Type} [OfNat F 0] [Add F] [Sub F] [Div F] [LT F] [LE F] [DecidableLT F] [DecidableLE F] [BEq F]
    (toF : Nat → F) (optimum : F) (conds : List (NCond F)) (items : NItems F) : List (NEvent F) :=
  (nExecItems conds (nEvalEvent toF optimum) items [NFrame.empty] []).2

/-! #### Specification side: what a state SEES

The values of a state type declared along the chain, innermost first; a state sees the first. -/
def declared {F α : Type} (sel : NFrame F → Option α) (fs : List (NFrame F)) : List α := fs.filterMap sel

def visible {F α : Type} (sel : NFrame F → Option α) (fs : List (NFrame F)) : Option α := (declared sel fs).head?

/-- Position-wise: registry `i` is the innermost one that holds the state type, and it holds `a`. -/
def Innermost {F α : Type} (sel : NFrame F → Option α) (fs : List (NFrame F)) (i : Nat) (a : α) : Prop :=
  ∃ fr, fs[i]? = some fr ∧ sel fr = some a ∧ ∀ j, j < i → ∀ g, fs[j]? = some g → sel g = none

/-! ### A nested search: `scope_`* around `while !OptimumReached(eps) & iterations < k`

The configuration the builder makes for "the outer heuristic holds `outer`; `depth` scopes, each of
which may keep its own best individual (`update_best_individual`, whose `init` inserts an EMPTY
`BestIndividual` into the scope's registry); in the innermost scope a loop that runs while the
optimum is not reached and fewer than `k` iterations are done; every pass feeds the next scripted
objective value to the nearest `BestIndividual`". -/

/-- One test of the loop condition as the harness logs it. -/
structure SEvent (F : Type) where
  verdict : Bool
  iters : Nat
  best : Option F        -- the best value of the state the condition is evaluated on

/-- `while (!opt & lt).evaluate() { body; Iterations += 1 }` on the chain; `fuel` bounds the tests. -/
def nsGo {F : Type} [Add F] [Sub F] [Div F] [LT F] [LE F] [DecidableLT F] [DecidableLE F] [BEq F]
    (toF : Nat → F) (optimum eps : F) (k : Nat) :
    Nat → List (NFrame F) → List F → Nat → List (SEvent F) → Option (List (NFrame F) × Nat × List (SEvent F))
  | 0, _, _, _, _ => none
  | fuel + 1, fs, script, passes, log =>
    -- `And::evaluate`: both operands, in order: `Not(OptimumReached)`, then `LessThanN` (writes progress)
    let a := nEval toF optimum (.opt eps) fs
    let b := nEval toF optimum (.lt 0 k) a.2
    match a.1, b.1, nLook (fun f => f.obs 0) fs with
    | some ra, some rb, some it =>
      let v := allB [!ra, rb]
      let log1 := log ++ [{ verdict := v, iters := it, best := nBest fs }]
      if v then
        let fs1 := match script with
          | s :: _ => nWrite (fun f => f.best) (fun f => { f with best := bestUpdate s f.best }) b.2
          | [] => b.2
        let fs2 := nWrite (fun f => f.obs 0) (fun f => { f with obs := upd f.obs 0 (some (it + 1)) }) fs1
        nsGo toF optimum eps k fuel fs2 script.tail (passes + 1) log1
      else some (b.2, passes, log1)
    | _, _, _ => none

/-- Pushes the scopes (outermost first in `shadow`): a child registry; `body.init` inserts an empty
`BestIndividual` where the scope keeps its own. -/
def nsScopes {F : Type} : List Bool → List (NFrame F) → List (NFrame F)
  | [], fs => fs
  | sh :: rest, fs => nsScopes rest ({ (NFrame.empty : NFrame F) with best := if sh then some none else none } :: fs)

/-- The whole run: root registry with the outer best, the scopes, `Loop::init` in the innermost
scope (`Iterations(0)`, `Progress`), the loop; afterwards the scopes are dropped. Returns the
passes, the log of tests and the best value of the ROOT state afterwards. -/
def nsRun {F : Type} [OfNat F 0] [Add F] [Sub F] [Div F] [LT F] [LE F] [DecidableLT F] [DecidableLE F] [BEq F]
    (toF : Nat → F) (optimum eps : F) (k : Nat) (outer : Option F) (shadow : List Bool) (script : List F) (fuel : Nat) :
    Option (Nat × List (SEvent F) × Option F) :=
  let root : NFrame F := { (NFrame.empty : NFrame F) with best := some outer }
  let fs := nsScopes shadow [root]
  let fs := nTop (fun f : NFrame F => { f with obs := upd f.obs 0 (some 0), prog := upd f.prog 0 (some (0 : F)) }) fs
  match nsGo toF optimum eps k fuel fs script 0 [] with
  | none => none
  | some (fs', passes, log) => some (passes, log, nBest (fs'.drop shadow.length))

/-! Specification side of the nested search: no registries. -/

/-- The best of the first `j` scripted values on top of `start` (`BestIndividual::update` keeps the smaller). -/
def runningBest {F : Type} [LT F] [DecidableLT F] (start : Option F) : List F → Nat → Option F
  | _, 0 => start
  | [], _ + 1 => start
  | s :: rest, j + 1 => runningBest (upd1 s start) rest j

/-- What the search's own state sees before anything is found: nothing if ANY scope keeps its own
best individual (the innermost such scope shadows everything outside), the outer best otherwise. -/
def searchStart {F : Type} (outer : Option F) (shadow : List Bool) : Option F :=
  if shadow.any id then none else outer

/-- Does the search go on after `j` passes? -/
def searchGoesOn {F : Type} [Add F] [LT F] [LE F] [DecidableLT F] [DecidableLE F]
    (optimum eps : F) (k : Nat) (start : Option F) (script : List F) (j : Nat) : Bool :=
  !(optimumReached eps (runningBest start script j) optimum) && decide (j < k)

/-! #### Wire format -/
open MahfModel Sexp

def nKey? : Sexp → Option Nat
  | .atom "it" => some 0
  | .atom "ev" => some 1
  | .atom "oa" => some 2
  | .atom "ob" => some 3
  | _ => none

end MahfModel.Conditions
