/-
C02 — EVERY public entry point of the multi-borrow (src/state/registry/multi.rs, src/state/registry/mod.rs), on top
of `Model/Registry.lean` / `Model/Borrow.lean` (both unchanged).

A client can ask for several exclusive references at once in three ways, all public and safe:
* `<(T1, …, Tn) as MultiStateTuple>::try_get_mut(&mut registry)` — the trait is public (`mahf::state::registry::
  MultiStateTuple`), implemented by `impl_multi_state_tuple!` for tuples of arity 2..8; this method contains the
  `unsafe` block and is therefore the place whose own check has to make the block sound;
* `StateRegistry::try_get_multiple_mut::<(T1, …, Tn)>()`, whose body is `T::try_get_mut(self)`;
* `StateRegistry::get_multiple_mut::<(T1, …, Tn)>()` = `try_get_multiple_mut().unwrap_or_else(StateError::panic)`;
each of them on the current registry, on any registry reached by `parent_mut()`, and on the `State` wrapper (which
`DerefMut`s to its registry and has no method of its own: method syntax on `State` and deref coercion of a `&mut State`
argument reach the same three functions).

Code-shaped: one definition per function, in the call structure of the source.
-/
import MahfModel.Model.Borrow
namespace MahfModel.BorrowMulti
open MahfModel.Registry MahfModel.Borrow

/-- The public functions a multi-borrow request can be issued through. -/
inductive Via where
  /-- `MultiStateTuple::try_get_mut` called directly -/
  | tuple
  /-- `StateRegistry::try_get_multiple_mut` -/
  | reg
  /-- `StateRegistry::get_multiple_mut` (panicking) -/
  | regP
  deriving DecidableEq, Repr

/-- multi.rs, `impl_multi_state_tuple!`, `fn try_get_mut(state)`:
`if !Self::distinct() { return Err(MultipleBorrowConflict) }` and then the `unsafe` sequential
`(*state).get_mut::<Ti>().ok_or_else(not_found)?` — the cells the returned `&mut`s point to. -/
def tupleTryGetMut (r : Reg) (ks : List Key) : Except Err (List (Nat × Key)) :=
  if !distinct ks then .error .multi else getAllMut r ks

/-- mod.rs, `try_get_multiple_mut::<T>()`: `T::try_get_mut(self)`. -/
def regTryGetMultipleMut (r : Reg) (ks : List Key) : Except Err (List (Nat × Key)) :=
  tupleTryGetMut r ks

/-- What a request is answered with: references (the cells they point to), an error, or a panic. -/
inductive Answer where
  | refs (cs : List (Nat × Key))
  | err (e : Err)
  | panic
  deriving DecidableEq, Repr

def Answer.ofRes : Except Err (List (Nat × Key)) → Answer
  | .ok cs => .refs cs
  | .error e => .err e

/-- mod.rs, `get_multiple_mut::<T>()`: `self.try_get_multiple_mut::<T>().unwrap_or_else(StateError::panic)`. -/
def regGetMultipleMut (r : Reg) (ks : List Key) : Answer :=
  match regTryGetMultipleMut r ks with
  | .ok cs => .refs cs
  | .error _ => .panic

/-- The answer of the entry point `via` on the registry `r` for the type tuple `ks`. -/
def askVia : Via → Reg → List Key → Answer
  | .tuple, r, ks => Answer.ofRes (tupleTryGetMut r ks)
  | .reg, r, ks => Answer.ofRes (regTryGetMultipleMut r ks)
  | .regP, r, ks => regGetMultipleMut r ks

/-- A request: entry point, `parent_mut()` distance of the registry it is issued on, type tuple, and the increment
the client writes through every reference it gets. -/
structure Req where
  via : Via
  dist : Nat
  ks : List Key
  d : Nat
  deriving Repr

/-- The request on the chain `r`; output: the values seen through the references before the writes. -/
def stepVia (r : Reg) (q : Req) : Reg × Out :=
  match parentN r q.dist with
  | none => (r, .noParent)
  | some p =>
    match askVia q.via p q.ks with
    | .refs cs =>
      (r.take q.dist ++ writeAll p cs q.d, .vals (cs.map fun c => ((cellAt p c.1 c.2).map (·.val)).getD 0))
    | .err e => (r, .err e)
    | .panic => (r, .panic)

/-- How an entry point refuses. -/
def refusal : Via → Err → Out
  | .regP, _ => .panic
  | _, e => .err e

/-- The property's reading, on the stack of partial maps: whatever the entry point, the request is granted iff no
type repeats and every type is visible from the registry it is issued on; then each type's innermost binding (seen
from there) is written once; otherwise nothing changes and the refusal says why (repetition before absence). -/
def specVia (sp : Spec) (q : Req) : Spec × Out :=
  if q.dist < sp.length then
    if q.ks.Nodup then
      if q.ks.all (fun k => (Spec.lookup (sp.drop q.dist) k).isSome) then
        (sp.take q.dist ++ Spec.addAll (sp.drop q.dist) q.ks q.d,
          .vals (q.ks.map fun k => (Spec.lookup (sp.drop q.dist) k).getD 0))
      else (sp, refusal q.via .notFound)
    else (sp, refusal q.via .multi)
  else (sp, .noParent)

/-! ### The machine of `Model/Borrow.lean` with these requests -/

inductive XOp where
  | base (o : MOp)
  /-- needs `&mut`: compiles only when no guard is alive -/
  | multiVia (q : Req)

def xmstep (m : M) : XOp → M × List Out
  | .base o => mstep m o
  | .multiVia q =>
    if m.guards.isEmpty then let (r', out) := stepVia m.reg q; ({ m with reg := r' }, [out])
    else (m, [.illegal])

def xmrun (m : M) : List XOp → M × List Out
  | [] => (m, [])
  | op :: ops =>
    let (m', o) := xmstep m op
    let (m'', os) := xmrun m' ops
    (m'', o ++ os)

def xsstep (m : SM) : XOp → SM × List Out
  | .base o => sstep m o
  | .multiVia q =>
    if m.guards.isEmpty then let (sp', out) := specVia m.sp q; ({ m with sp := sp' }, [out])
    else (m, [.illegal])

def xsrun (m : SM) : List XOp → SM × List Out
  | [] => (m, [])
  | op :: ops =>
    let (m', o) := xsstep m op
    let (m'', os) := xsrun m' ops
    (m'', o ++ os)

/-! ### Wire format -/
open MahfModel Sexp

/-- `reg` / `regp` / `tup` on a registry; `st` / `stp` / `sttup`: the same functions reached through the `State`
wrapper (`State: DerefMut<Target = StateRegistry>`, no method of its own). -/
def via? : Sexp → Option Via
  | .atom "tup" | .atom "sttup" => some .tuple
  | .atom "reg" | .atom "st" => some .reg
  | .atom "regp" | .atom "stp" => some .regP
  | _ => none

def XOp.parse? : Sexp → Option XOp
  | .list [.atom "ex", .list [.atom "multiv", via, dist, ks, d]] => do
    pure (.multiVia { via := ← via? via, dist := ← nat? dist, ks := ← keys? ks, d := ← nat? d })
  | s => (MOp.parse? s).map .base

/-- Input `(mops mop*)`; output `(outs out*)`. Returns (model, spec). -/
def handleCase (input : Sexp) : Option (Sexp × Sexp) := do
  let opsS ← tagged? "mops" input
  let ops ← opsS.mapM XOp.parse?
  let (_, outs) := xmrun M.init ops
  let (_, outsSpec) := xsrun SM.init ops
  pure (.list (.atom "outs" :: outs.map (Out.toSexp nTypes)),
        .list (.atom "outs" :: outsSpec.map (Out.toSexp nTypes)))

/-- Step O on a history with multi-borrow requests through any entry point. -/
def holdsOnX (ops : List XOp) : Bool :=
  ((xmrun M.init ops).2.map fun o => (o.toSexp nTypes).render) ==
    ((xsrun SM.init ops).2.map fun o => (o.toSexp nTypes).render)

end MahfModel.BorrowMulti
