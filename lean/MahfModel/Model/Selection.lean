/-
C11 — model of the selection operators
(src/components/selection/{mod.rs,common.rs,functional.rs,de.rs,iwo.rs}).

Individuals are `(tag, objective?)`.  Every operator is a function of the population, its
parameters and an explicit WITNESS standing for the draws of the random generator (chosen indices,
the uniform draw of stochastic universal sampling, the competitor index lists of a tournament, the
per-member index lists of the DE selections).  The functions are code-shaped: same order of checks,
`Err` where the Rust returns `Err`, `panic` where it panics.  The numeric helpers are generic over
the carrier `F` (core classes only + the explicit operations in `Ops`): the driver runs them on
`Float`, the theorems on an ordered field.
-/
import MahfModel.Model.Sexp
namespace MahfModel.Selection

structure Ind (F : Type) where
  tag : Nat
  obj : Option F
  deriving DecidableEq, Repr

abbrev Pop (F : Type) := List (Ind F)

/-- `Err` returned by `select`, or a panic. -/
inductive Err where
  | exec | panic
  deriving DecidableEq, Repr

/-- Operations on the carrier that are not core classes. -/
structure Ops (F : Type) where
  /-- `f64::is_finite` -/
  fin : F → Bool
  /-- `n as f64` -/
  ofNat : Nat → F
  /-- `x.floor() as u32` (the cast saturates: negative values give 0) -/
  floorNat : F → Nat
  /-- `x.powi(k)` -/
  powi : F → Nat → F
  /-- `f64::is_nan` (constantly `false` in exact arithmetic) -/
  isNaN : F → Bool

section numeric
variable {F : Type} [Add F] [Sub F] [Mul F] [Div F] [LT F] [LE F] [DecidableLT F] [DecidableLE F]
  [OfNat F 0] [OfNat F 1]

/-- `==` on objective values (never NaN): neither is smaller. -/
def eqF (a b : F) : Bool := !decide (a < b) && !decide (b < a)

/-- `objective_bounds`: `(max, min)`, with the `if f > max {..} else if f < min {..}` update. -/
def boundsGo : F → F → List F → F × F
  | mx, mn, [] => (mx, mn)
  | mx, mn, f :: rest =>
    if mx < f then boundsGo f mn rest
    else if f < mn then boundsGo mx f rest
    else boundsGo mx mn rest

def objectiveBounds : List F → Option (F × F)
  | [] => none
  | f :: rest => some (boundsGo f f rest)

/-- `all_eq`: `windows(2).all(|w| w[0] == w[1])`. -/
def allEq : List F → Bool
  | a :: b :: rest => eqF a b && allEq (b :: rest)
  | _ => true

/-- `iter().sum()` -/
def sum (l : List F) : F := l.foldl (· + ·) 0

/-- `proportional_weights(population, offset, normalize)` on the list of objective values.
`.error .panic`: the `requires(offset >= 0.0)` contract; `.ok none`: the function's `None`. -/
def proportionalWeights (O : Ops F) (objs : List F) (offset : F) (normalize : Bool) :
    Except Err (Option (List F)) :=
  if ¬ (0 ≤ offset) then .error .panic else
  match objectiveBounds objs with
  | none => .ok none
  | some (mx, mn) =>
    if !O.fin mx then .ok none
    else if 0 < mn then .ok (some (objs.map fun o => mx - o + offset))
    else if allEq objs then
      .ok (some (List.replicate objs.length (if normalize then 1 / O.ofNat objs.length else 1)))
    else
      let shifted := objs.map fun o => (mx - mn) - (o - mn) + offset
      if !normalize then .ok (some shifted)
      else
        let total := sum shifted
        .ok (some (shifted.map fun f => f / total))

/-! `reverse_rank`: sort `(index, objective)` by objective (stable), number the groups of equal
objective 1, 2, …, and return the group number of every index. -/

def leKey (a b : Nat × F) : Bool := decide (a.2 ≤ b.2)

/-- group numbers along the sorted list: a new group starts whenever the key differs from the previous one -/
def rankScan : F → Nat → List (Nat × F) → List (Nat × Nat)
  | _, _, [] => []
  | prev, r, (i, o) :: rest =>
    let r' := if eqF prev o then r else r + 1
    (i, r') :: rankScan o r' rest

def rankSorted : List (Nat × F) → List (Nat × Nat)
  | [] => []
  | (i, o) :: rest => (i, 1) :: rankScan o 1 rest

/-- `.sorted_by_key(index).map(rank)` of a list whose indices are exactly `0 … n-1`: look the index up. -/
def lookupRank (t : List (Nat × Nat)) (i : Nat) : Nat :=
  match t.find? (fun p => p.1 == i) with
  | some p => p.2
  | none => 0

def enumFrom {α : Type} : Nat → List α → List (Nat × α)
  | _, [] => []
  | k, x :: xs => (k, x) :: enumFrom (k + 1) xs

def reverseRank (objs : List F) : List Nat :=
  let t := rankSorted ((enumFrom 0 objs).mergeSort leKey)
  (List.range objs.length).map (lookupRank t)

def maxNat (l : List Nat) : Nat := l.foldl max 0

/-- `LinearRank` weights: `max_rank + 1 - rank`. -/
def linearRankWeights (ranks : List Nat) : List Nat :=
  let m := maxNat ranks
  ranks.map fun r => m + 1 - r

/-- `ExponentialRank` weights: `factor * base.powi(rank - 1)`, `factor = (base - 1) / (base.powi(max_rank) - 1)`. -/
def exponentialRankWeights (O : Ops F) (base : F) (ranks : List Nat) : List F :=
  let m := maxNat ranks
  let factor := (base - 1) / (O.powi base m - 1)
  ranks.map fun r => factor * O.powi base (r - 1)

/-- `WeightedIndex::new(weights)`: `Err` on no item / a weight that is not `>= 0` / total `0`;
float weights: panic (`Uniform::new: range overflow`) when the total is not finite. -/
def weightedIndexNew (O : Ops F) (ws : List F) : Except Err Unit :=
  if ws.isEmpty then .error .exec
  else if ws.any (fun w => !decide (0 ≤ w)) then .error .exec
  else
    let total := sum ws
    if eqF total 0 then .error .exec
    else if !O.fin total then .error .panic
    else .ok ()

/-- IWO `DeterministicFitnessProportional`: number of copies of an individual with objective `o`.
`if bonus.is_nan()`: without overflow the only NaN is `0/0`, i.e. `best == worst`; exact arithmetic has
no NaN, so that case is tested explicitly as well (on `Float` the disjunction equals `bonus.is_nan()`). -/
def iwoCount (O : Ops F) (minSel maxSel : Nat) (worst best o : F) : Nat :=
  let bonus := (o - worst) / (best - worst)
  let bonusOffspring := O.ofNat (maxSel - minSel)
  minSel + if O.isNaN bonus || eqF best worst then O.floorNat (bonusOffspring / (1 + 1)) else O.floorNat (bonus * bonusOffspring)

/-- Stochastic universal sampling, the pointer walk: advance `i` while
`sum_weights < distance && i + 1 < weights.len()` (`rest` = the weights after position `i`). -/
def susInner (distance : F) : (rest : List F) → (i : Nat) → (sumW : F) → Nat × F × List F
  | rest, i, sumW =>
    if sumW < distance then
      match rest with
      | [] => (i, sumW, [])
      | w :: rest' => susInner distance rest' (i + 1) (sumW + w)
    else (i, sumW, rest)

/-- `for k in 0..num_selected { distance = start + k as f64 * gaps; walk; push i }` — `cnt` points
remain, the next one is the `k`-th. -/
def susGo (O : Ops F) (start gaps : F) : (cnt k : Nat) → (rest : List F) → (i : Nat) → (sumW : F) → List Nat
  | 0, _, _, _, _ => []
  | cnt + 1, k, rest, i, sumW =>
    let distance := start + O.ofNat k * gaps
    let (i', sumW', rest') := susInner distance rest i sumW
    i' :: susGo O start gaps cnt (k + 1) rest' i' sumW'

/-- indices selected by SUS for weights `ws`, `n = num_selected`, uniform draw `u`:
`ensure!(weights_total > 0.0)`, then exactly `n` selection points. -/
def susIndices (O : Ops F) (ws : List F) (n : Nat) (u : F) : Except Err (List Nat) :=
  let total := sum ws
  if ¬ (0 < total) then .error .exec else
  match ws with
  | [] => .error .panic                  -- `weights[0]` (unreachable: an empty list has total 0)
  | w0 :: rest =>
    let gaps := total / O.ofNat n
    let start := u * gaps
    .ok (susGo O start gaps n 0 rest 0 w0)

end numeric

/-! ### Operators -/

inductive Op (F : Type) where
  | all | none
  | cloneSingle (n : Nat)
  | fullyRandom (n : Nat)
  | randomWithoutRepetition (n : Nat)
  | rouletteWheel (n : Nat) (offset : F)
  | sus (n : Nat) (offset : F)
  | tournament (n size : Nat)
  | linearRank (n : Nat)
  | exponentialRank (n : Nat) (base : F)
  | deRand (y : Nat) | deBest (y : Nat) | deCurrentToBest (y : Nat)
  | iwo (minSel maxSel : Nat)

/-- The random choices of one `select` call. -/
inductive Witness (F : Type) where
  | none
  /-- chosen indices into the population, in output order -/
  | idx (is : List Nat)
  /-- the uniform draw `rng.gen::<f64>()` -/
  | draw (u : F)
  /-- one index list per tournament / per population member (indices into the sampled slice) -/
  | sets (ss : List (List Nat))
  /-- `DEBest` / `DECurrentToBest`: additionally the position of the member standing in the "best" slot -/
  | setsBest (bi : Nat) (ss : List (List Nat))

section ops
variable {F : Type} [Add F] [Sub F] [Mul F] [Div F] [LT F] [LE F] [DecidableLT F] [DecidableLE F]
  [OfNat F 0] [OfNat F 1]

/-- objective values of the whole population; `none` if some individual is unevaluated
(`Individual::objective` panics). -/
def objectives (pop : Pop F) : Option (List F) := pop.mapM (·.obj)

def pick {α : Type} (l : List α) (is : List Nat) : List α := is.filterMap (l[·]?)

/-- `iter.min_by_key(|i| i.objective())`: the FIRST minimum; `none` on an empty iterator.
Individuals are paired with their key. -/
def firstMin : List (Ind F × F) → Option (Ind F × F)
  | [] => none
  | x :: rest =>
    match firstMin rest with
    | none => some x
    | some m => if m.2 < x.2 then some m else some x

def withKeys (l : Pop F) : Option (List (Ind F × F)) := l.mapM fun i => i.obj.map fun o => (i, o)

/-- `f::best(population)` -/
def best (pop : Pop F) : Except Err (Option (Ind F)) :=
  match withKeys pop with
  | none => .error .panic
  | some ks => .ok ((firstMin ks).map (·.1))

/-- The member in the "best" slot of the DE selections.  The documentation says "best"; WHICH of
several equally good members that is, is not fixed by it, so the witness carries the position `i` the
implementation chose (`Legal` demands `BestIdx`: a member of minimal objective; the code's own choice
`best` — `min_by_key`, the first minimum — is one of them).  As in `best`: an unevaluated member
panics, an empty population has no best (`None`, reported as `Err` by the callers). -/
def bestAt (pop : Pop F) (i : Nat) : Except Err (Option (Ind F)) :=
  match withKeys pop with
  | none => .error .panic
  | some _ => .ok pop[i]?

/-- `Individual: PartialEq` — same solution and same objective (`==` on `f64`). -/
def sameInd (a b : Ind F) : Bool :=
  a.tag == b.tag &&
    match a.obj, b.obj with
    | some x, some y => eqF x y
    | none, none => true
    | _, _ => false

/-- `sample_population_weighted` for float weights -/
def sampleWeighted (O : Ops F) (pop : Pop F) (ws : List F) (is : List Nat) : Except Err (Pop F) :=
  match weightedIndexNew O ws with
  | .error e => .error e
  | .ok () => .ok (pick pop is)

/-- one tournament: the first minimum among the competitors; `Err` for an empty tournament -/
def tournamentRound (pop : Pop F) (competitors : List Nat) : Except Err (Ind F) :=
  match withKeys (pick pop competitors) with
  | none => .error .panic
  | some ks =>
    match firstMin ks with
    | none => .error .exec
    | some m => .ok m.1

def tournamentRounds (pop : Pop F) : List (List Nat) → Except Err (Pop F)
  | [] => .ok []
  | c :: cs =>
    match tournamentRound pop c with
    | .error e => .error e
    | .ok x =>
      match tournamentRounds pop cs with
      | .error e => .error e
      | .ok xs => .ok (x :: xs)

/-- `Selection::select` of every operator. -/
def select (O : Ops F) (op : Op F) (w : Witness F) (pop : Pop F) : Except Err (Pop F) :=
  match op, w with
  | .all, _ => .ok pop
  | .none, _ => .ok []
  | .cloneSingle n, _ =>
    match pop with
    | [x] => .ok (List.replicate n x)
    | _ => .error .exec
  | .fullyRandom n, .idx is =>
    -- for _ in 0..n { population.choose(rng).wrap_err(..)? }
    if n = 0 then .ok [] else if pop.isEmpty then .error .exec else .ok (pick pop is)
  | .randomWithoutRepetition n, .idx is =>
    if pop.length < n then .error .exec else .ok (pick pop is)
  | .rouletteWheel _ offset, .idx is =>
    match objectives pop with
    | none => .error .panic
    | some objs =>
      match proportionalWeights O objs offset false with
      | .error e => .error e
      | .ok none => .error .exec
      | .ok (some ws) => sampleWeighted O pop ws is
  | .sus n offset, .draw u =>
    match objectives pop with
    | none => .error .panic
    | some objs =>
      match proportionalWeights O objs offset false with
      | .error e => .error e
      | .ok none => .error .exec
      | .ok (some ws) =>
        match susIndices O ws n u with
        | .error e => .error e
        | .ok is => .ok (pick pop is)
  | .tournament _ size, .sets ss =>
    if pop.length < size then .error .exec else tournamentRounds pop ss
  | .linearRank _, .idx is =>
    match objectives pop with
    | none => .error .panic
    | some objs =>
      let ws := linearRankWeights (reverseRank objs)
      -- WeightedIndex<usize>: Err on no item / total 0 (never: every weight is ≥ 1)
      if ws.isEmpty then .error .exec else if maxNat ws = 0 then .error .exec else .ok (pick pop is)
  | .exponentialRank _ base, .idx is =>
    match objectives pop with
    | none => .error .panic
    | some objs => sampleWeighted O pop (exponentialRankWeights O base (reverseRank objs)) is
  | .deRand y, .sets ss =>
    -- ensure!(len >= 2y+1); (0..len).flat_map(|_| population.choose_multiple(rng, 2y+1))
    if pop.length < 2 * y + 1 then .error .exec else .ok (ss.flatMap fun s => pick pop s)
  | .deBest y, .setsBest bi ss =>
    -- ensure!(len >= 2y) comes before the best lookup
    if pop.length < 2 * y then .error .exec else
    match bestAt pop bi with
    | .error e => .error e
    | .ok none => .error .exec
    | .ok (some b) => .ok (ss.flatMap fun s => b :: pick pop s)
  | .deCurrentToBest y, .setsBest bi ss =>
    match bestAt pop bi with
    | .error e => .error e
    | .ok none => .error .exec
    | .ok (some b) =>
      -- per individual: ensure!(remaining.len() >= 2y-1); the first failure discards everything
      if pop.any (fun ind => decide ((pop.filter (fun j => !sameInd j ind)).length < 2 * y - 1)) then .error .exec
      else .ok ((pop.zip ss).flatMap fun (ind, s) => ind :: b :: pick (pop.filter (fun j => !sameInd j ind)) s)
  | .iwo minSel maxSel, _ =>
    -- ensure!(min_selected <= max_selected) comes first, before any objective is read
    if maxSel < minSel then .error .exec else
    match pop with
    | [] => .error .exec
    | _ =>
      match objectives pop with
      | none => .error .panic
      | some objs =>
        match objectiveBounds objs with
        | none => .error .exec
        | some (worst, bst) =>
          if !O.fin worst then .error .exec
          else .ok ((pop.zip objs).flatMap fun (ind, o) => List.replicate (iwoCount O minSel maxSel worst bst o) ind)
  | _, _ => .error .panic                                 -- witness of the wrong shape

inductive Outcome where
  | ok | err | panic
  deriving DecidableEq, Repr

/-- `selection()`: `populations.current()` (panics on an empty stack), `select`, clone, push. -/
def step (O : Ops F) (op : Op F) (w : Witness F) : List (Pop F) → List (Pop F) × Outcome
  | [] => ([], .panic)
  | cur :: rest =>
    match select O op w cur with
    | .ok sel => (sel :: cur :: rest, .ok)
    | .error .exec => (cur :: rest, .err)
    | .error .panic => (cur :: rest, .panic)

/-- What the `State` a selection component runs on may hold besides the population stack: other best /
memory states whose content need NOT be in the current population (`BestIndividual` = the best individual
found so far, `ElitistArchive`, the personal and global bests of PSO — `BestParticles` / `BestParticle`). -/
structure SelState (F : Type) where
  stack : List (Pop F)
  best : Option (Ind F)
  archive : Pop F
  pbest : Pop F
  gbest : Option (Ind F)

/-- `Component::execute` of every selection operator (`selection(self, problem, state)`): `select` on the
current population of `state.populations_mut()` with `state.random_mut()`, clone, push.  No other state is
read or written. -/
def execute (O : Ops F) (op : Op F) (w : Witness F) (st : SelState F) : SelState F × Outcome :=
  ({ st with stack := (step O op w st.stack).1 }, (step O op w st.stack).2)

/-! ### Legal witnesses: what the sampling primitives guarantee -/

def inRange (n : Nat) (is : List Nat) : Prop := ∀ i ∈ is, i < n

/-- `choose_multiple(rng, k)` on a slice of length `n`: `min k n` distinct positions. -/
def ChooseMultiple (n k : Nat) (s : List Nat) : Prop := s.length = min k n ∧ s.Nodup ∧ inRange n s

/-- position of a best member: its objective is minimal (any position on an empty population) -/
def BestIdx (pop : Pop F) (i : Nat) : Prop :=
  pop = [] ∨ ∃ x a, pop[i]? = some x ∧ x.obj = some a ∧ ∀ y ∈ pop, ∀ b, y.obj = some b → a ≤ b

def Legal (op : Op F) (pop : Pop F) : Witness F → Prop
  | .none => match op with
    | .all | .none | .cloneSingle _ | .iwo _ _ => True
    | _ => False
  | .idx is => match op with
    | .fullyRandom n | .rouletteWheel n _ | .linearRank n | .exponentialRank n _ =>
      is.length = n ∧ inRange pop.length is
    | .randomWithoutRepetition n => ChooseMultiple pop.length n is
    | _ => False
  | .draw u => match op with
    | .sus _ _ => 0 ≤ u ∧ u < 1
    | _ => False
  | .sets ss => match op with
    | .tournament n size => ss.length = n ∧ ∀ s ∈ ss, ChooseMultiple pop.length size s
    | .deRand y => ss.length = pop.length ∧ ∀ s ∈ ss, ChooseMultiple pop.length (2 * y + 1) s
    | _ => False
  | .setsBest bi ss => match op with
    | .deBest y => (ss.length = pop.length ∧ ∀ s ∈ ss, ChooseMultiple pop.length (2 * y) s) ∧ BestIdx pop bi
    | .deCurrentToBest y => (ss.length = pop.length ∧
        ∀ p ∈ pop.zip ss, ChooseMultiple (pop.filter (fun j => !sameInd j p.1)).length (2 * y - 1) p.2) ∧
        BestIdx pop bi
    | _ => False

end ops

/-! ### Wire format and the executable predicate of the correspondence check (carrier `Float`) -/
section wire
open MahfModel Sexp

/-- compiler-rt `__powidf2` (what `f64::powi` lowers to): square-and-multiply. -/
def powiGo : Nat → Float → Nat → Float → Float
  | 0, _, _, r => r
  | fuel + 1, a, b, r =>
    let r := if b % 2 == 1 then r * a else r
    let b := b / 2
    if b == 0 then r else powiGo fuel (a * a) b r

def floatOps : Ops Float where
  fin := Float.isFinite
  ofNat := Nat.toFloat
  floorNat := fun x => (Float.floor x).toUInt32.toNat
  powi := fun a k => powiGo 64 a k 1.0
  isNaN := Float.isNaN

abbrev FInd := Ind Float
abbrev FPop := Pop Float

def objBitsEq : Option Float → Option Float → Bool
  | some a, some b => a.toBits == b.toBits
  | none, none => true
  | _, _ => false

/-- exact copy: same tag, same objective bit pattern -/
def indEq (a b : FInd) : Bool := a.tag == b.tag && objBitsEq a.obj b.obj
def popEq (a b : FPop) : Bool := a.length == b.length && (a.zip b).all fun (x, y) => indEq x y
def stackEq (a b : List FPop) : Bool := a.length == b.length && (a.zip b).all fun (x, y) => popEq x y

def parseInd : Sexp → Option FInd
  | .list [t, .atom "u"] => do pure { tag := ← nat? t, obj := none }
  | .list [t, o] => do pure { tag := ← nat? t, obj := some (← float? o) }
  | _ => none

def indToSexp (i : FInd) : Sexp :=
  .list [ofNat i.tag, match i.obj with | some o => ofFloat o | none => .atom "u"]

def parsePop (s : Sexp) : Option FPop := do (← tagged? "pop" s).mapM parseInd
def popToSexp (p : FPop) : Sexp := .list (.atom "pop" :: p.map indToSexp)

def parseOp : Sexp → Option (Op Float)
  | .list [.atom "op", .atom "all"] => some .all
  | .list [.atom "op", .atom "none"] => some .none
  | .list [.atom "op", .atom "clone", n] => (nat? n).map .cloneSingle
  | .list [.atom "op", .atom "fullyrandom", n] => (nat? n).map .fullyRandom
  | .list [.atom "op", .atom "rwor", n] => (nat? n).map .randomWithoutRepetition
  | .list [.atom "op", .atom "roulette", n, o] => do pure (.rouletteWheel (← nat? n) (← float? o))
  | .list [.atom "op", .atom "sus", n, o] => do pure (.sus (← nat? n) (← float? o))
  | .list [.atom "op", .atom "tournament", n, k] => do pure (.tournament (← nat? n) (← nat? k))
  | .list [.atom "op", .atom "linrank", n] => (nat? n).map .linearRank
  | .list [.atom "op", .atom "exprank", n, b] => do pure (.exponentialRank (← nat? n) (← float? b))
  | .list [.atom "op", .atom "derand", y] => (nat? y).map .deRand
  | .list [.atom "op", .atom "debest", y] => (nat? y).map .deBest
  | .list [.atom "op", .atom "dectb", y] => (nat? y).map .deCurrentToBest
  | .list [.atom "op", .atom "iwo", a, b] => do pure (.iwo (← nat? a) (← nat? b))
  | _ => none

/-- result of `execute`, plus "the constructor refused the parameters" -/
inductive Res where
  | ok | err | panic | ctor
  deriving DecidableEq

def Res.toSexp : Res → Sexp
  | .ok => .atom "ok"
  | .err => .list [.atom "e", .atom "exec"]
  | .ctor => .list [.atom "e", .atom "ctor"]
  | .panic => .atom "panic"

def Res.parse? : Sexp → Option Res
  | .atom "ok" => some .ok
  | .atom "panic" => some .panic
  | .list [.atom "e", .atom "exec"] => some .err
  | .list [.atom "e", .atom "ctor"] => some .ctor
  | _ => none

/-- `f64::EPSILON` -/
def epsilon : Float := Float.ofBits 0x3cb0000000000000

/-- the constructors' parameter checks (`ExponentialRank`: base ∈ [ε, 1); DE: y ∈ {1, 2}) -/
def ctorOk : Op Float → Bool
  | .exponentialRank _ b => epsilon ≤ b && b < 1
  | .deRand y | .deBest y | .deCurrentToBest y => y == 1 || y == 2
  | _ => true

def nodupB (l : List Nat) : Bool :=
  match l with
  | [] => true
  | x :: xs => !xs.contains x && nodupB xs

def chooseMultipleB (n k : Nat) (s : List Nat) : Bool :=
  s.length == min k n && nodupB s && s.all (· < n)

/-- executable `BestIdx` (evaluated populations) -/
def bestIdxB (pop : FPop) (i : Nat) : Bool :=
  pop.isEmpty ||
  match pop[i]? with
  | some x => x.obj.isSome && pop.all fun y => !((y.obj.getD 0) < (x.obj.getD 0))
  | none => false

/-- executable `Legal` -/
def legalB (op : Op Float) (pop : FPop) : Witness Float → Bool
  | .none => match op with
    | .all | .none | .cloneSingle _ | .iwo _ _ => true
    | _ => false
  | .idx is => match op with
    | .fullyRandom n | .rouletteWheel n _ | .linearRank n | .exponentialRank n _ =>
      is.length == n && is.all (· < pop.length)
    | .randomWithoutRepetition n => chooseMultipleB pop.length n is
    | _ => false
  | .draw u => match op with
    | .sus _ _ => 0 ≤ u && u < 1
    | _ => false
  | .sets ss => match op with
    | .tournament n size => ss.length == n && ss.all (chooseMultipleB pop.length size)
    | .deRand y => ss.length == pop.length && ss.all (chooseMultipleB pop.length (2 * y + 1))
    | _ => false
  | .setsBest bi ss => match op with
    | .deBest y => ss.length == pop.length && ss.all (chooseMultipleB pop.length (2 * y)) && bestIdxB pop bi
    | .deCurrentToBest y => ss.length == pop.length &&
        ((pop.zip ss).all fun p => chooseMultipleB (pop.filter (fun j => !sameInd j p.1)).length (2 * y - 1) p.2) &&
        bestIdxB pop bi
    | _ => false

/-- the position the code's `min_by_key` picks: the first member of minimal objective -/
def codeBestIdx (cur : FPop) : Nat :=
  cur.findIdx fun x => cur.all fun y => !((y.obj.getD 0) < (x.obj.getD 0))

/-- indices of the selected individuals in the source population: the first position holding an exact copy
(tag AND objective — members may share a tag, i.e. a solution, and differ in the objective) -/
def recoverIdx (pop sel : FPop) : List Nat := sel.map fun x => pop.findIdx (fun y => indEq y x)

/-- positions in `src` of the individuals `xs` (exact copies), every position used at most once:
the first not yet used position holding an equal individual; `src.length` if there is none. -/
def recoverUnused (src : FPop) : FPop → List Nat → List Nat
  | [], used => used.reverse
  | x :: xs, used =>
    let cand := (List.range src.length).find? fun i => !used.contains i &&
      match src[i]? with
      | some y => indEq y x
      | none => false
    recoverUnused src xs (cand.getD src.length :: used)

def minF : List Float → Option Float
  | [] => none
  | x :: xs => match minF xs with
    | none => some x
    | some m => some (if m < x then m else x)

def maxF : List Float → Option Float
  | [] => none
  | x :: xs => match maxF xs with
    | none => some x
    | some m => some (if x < m then m else x)

def chunks {α : Type} (k : Nat) : Nat → List α → List (List α)
  | 0, _ => []
  | fuel + 1, l => if l.isEmpty || k == 0 then [] else l.take k :: chunks k fuel (l.drop k)

def objOf (i : FInd) : Float := i.obj.getD 0

/-- number of members with a strictly lower objective than `w` -/
def strictlyBetter (cur : FPop) (w : FInd) : Nat := (cur.filter fun c => objOf c < objOf w).length

/-- `w` can win SOME tournament of `size` distinct members: it is a member and at most `len - size`
members are strictly better (so `size = len` forces a best member; ties are free). -/
def legalWinner (cur : FPop) (size : Nat) (w : FInd) : Bool :=
  cur.any (indEq w) && size ≤ cur.length && strictlyBetter cur w ≤ cur.length - size

/-- A competitor list that explains the winner `w` (read off the output only): `w`'s own position
first, then `size - 1` other positions whose objective is not lower. -/
def synthCompetitors (cur : FPop) (size : Nat) (w : FInd) : List Nat :=
  if size = 0 then [] else
  let i := cur.findIdx (indEq w)
  let others := (List.range cur.length).filter fun j => j != i &&
    match cur[j]? with
    | some c => c.obj.isSome && !(objOf c < objOf w)
    | none => false
  i :: others.take (size - 1)

/-- SUS: is `is` the outcome of SOME draw `u ∈ [0,1)`?  The `k`-th point `(u + k)·gaps` must lie in
`(cum[i_k - 1], cum[i_k]]` (no lower bound for the first, no upper bound for the last position);
the intersection of the resulting intervals for `u` must be non-empty (tolerance 1e-9). -/
def susLegal (ws : List Float) (n : Nat) (is : List Nat) : Bool :=
  let total := sum ws
  let gaps := total / n.toFloat
  let cum := (ws.foldl (fun (acc : List Float × Float) w => (acc.1 ++ [acc.2 + w], acc.2 + w)) ([], 0)).1
  let last := ws.length - 1
  let bounds := (List.range is.length).zip is |>.map fun (k, i) =>
    let lo := if i == 0 then (0 : Float) else (cum.getD (i - 1) 0) / gaps - k.toFloat
    let hi := if i ≥ last then (1 : Float) else (cum.getD i 0) / gaps - k.toFloat
    (lo, hi)
  let lo := bounds.foldl (fun a b => if a < b.1 then b.1 else a) 0
  let hi := bounds.foldl (fun a b => if b.2 < a then b.2 else a) 1
  is.length == n && is.all (· < ws.length) && lo ≤ hi + 1e-9

/-- Class of the deviation of one observed `execute` from what C11 states; `none` = holds.
`cur`: source population (evaluated), `rest`: populations below, `stack'`/`res`: observation.
The predicate looks at the observation only — never at replayed generator draws. -/
def violation (op : Op Float) (cur : FPop) (rest : List FPop) (stack' : List FPop) (res : Res) :
    Option String :=
  let objs := cur.map objOf
  let len := cur.length
  let hasInf := objs.any fun o => !o.isFinite
  let mn := (minF objs).getD 0
  let errRequired : Bool := match op with
    | .cloneSingle _ => len != 1
    | .randomWithoutRepetition n => len < n
    | .rouletteWheel _ _ | .sus _ _ => hasInf
    | .iwo a b => hasInf || b < a
    | .deRand y => len < 2 * y + 1
    | .deBest y => len < 2 * y
    | .deCurrentToBest y => cur.any fun ind => decide ((cur.filter (fun j => !sameInd j ind)).length < 2 * y - 1)
    | .tournament _ size => len < size
    | _ => false
  let errAllowed : Bool := errRequired || match op with
    | .fullyRandom n => n > 0 && len == 0
    | .rouletteWheel _ off | .sus _ off =>
      len == 0 || match proportionalWeights floatOps objs off false with
        | .ok (some ws) => ws.all (fun x => x == 0)
        | _ => false
    | .linearRank _ | .exponentialRank _ _ | .deBest _ | .deCurrentToBest _ | .iwo _ _ => len == 0
    | .tournament n size => size == 0 && n > 0
    | _ => false
  match res with
  | .panic => some "panic"
  | .ctor => some "err"
  | .err =>
    if !errAllowed then some "err"
    else if stackEq stack' (cur :: rest) then none else some "frame"
  | .ok =>
    if errRequired then some "no-err" else
    match stack' with
    | sel :: below =>
      if !stackEq below (cur :: rest) then some "frame"
      else if !sel.all (fun x => cur.any (indEq x)) then some "not-member"
      else
        let count (n : Nat) : Option String := if sel.length == n then none else some "count"
        match op with
        | .all =>
          -- everything, every member once (the order of the copies is not part of the property)
          if sel.length == len && cur.all (fun x => (sel.filter (indEq x)).length == (cur.filter (indEq x)).length)
          then none else some "count"
        | .none => count 0
        | .cloneSingle n | .fullyRandom n | .rouletteWheel n _ | .linearRank n
        | .exponentialRank n _ => count n
        | .sus n _ =>
          -- copies in proportion to the weights up to one copy (`sus_copies_proportional`): a worse member
          -- never gets more than two copies more than a better one (two: one boundary point on either side)
          -- members are (solution, objective) pairs; `m` identical members are one group whose copies cannot be told
          -- apart: with group totals C, C' and sizes m, m' the member-wise bound c' ≤ c + 2 gives C'·m ≤ m'·(C + 2m)
          let counts := cur.map fun x => ((sel.filter (indEq x)).length, (cur.filter (indEq x)).length)
          if sel.length != n then some "count"
          else if (objs.zip counts).all (fun (o, c, m) => (objs.zip counts).all fun (o', c', m') =>
              !(o ≤ o') || c' * m ≤ m' * (c + 2 * m))
          then none else some "pressure"
        | .randomWithoutRepetition n =>
          if sel.length != n then some "count"
          else
            -- distinct MEMBERS (positions): identical members may each be returned once
            let ix := recoverUnused cur sel []
            if ix.all (· < len) && nodupB ix then none else some "repeat"
        | .tournament n size =>
          if sel.length != n then some "count"
          else if sel.all (legalWinner cur size) then none else some "winner"
        | .deRand y =>
          if sel.length != len * (2 * y + 1) then some "count"
          else if (chunks (2 * y + 1) len sel).all (fun blk =>
              let ix := recoverUnused cur blk []
              ix.all (· < len) && nodupB ix) then none else some "repeat"
        | .deBest y =>
          if sel.length != len * (2 * y + 1) then some "count"
          else if !(chunks (2 * y + 1) len sel).all (fun c => match c with
              | b :: _ => objOf b ≤ mn
              | [] => false) then some "wrong-value"
          else if (chunks (2 * y + 1) len sel).all (fun blk =>
              let ix := recoverUnused cur blk.tail []
              ix.all (· < len) && nodupB ix) then none else some "repeat"
        | .deCurrentToBest y =>
          if sel.length != len * (2 * y + 1) then some "count"
          else if !((chunks (2 * y + 1) len sel).zip cur).all (fun (c, ind) => match c with
              | x :: b :: _ => indEq x ind && objOf b ≤ mn
              | _ => false) then some "wrong-value"
          else if ((chunks (2 * y + 1) len sel).zip cur).all (fun (blk, ind) =>
              let remaining := cur.filter (fun j => !sameInd j ind)
              let ix := recoverUnused remaining (blk.drop 2) []
              ix.all (· < remaining.length) && nodupB ix) then none else some "repeat"
        | .iwo a b =>
          -- copies per member; `m` identical members (same solution and objective) share their copies evenly
          let mults := cur.map fun x => (cur.filter (indEq x)).length
          let groups := cur.map fun x => (sel.filter (indEq x)).length
          if !(groups.zip mults).all (fun (g, m) => g % m == 0) then some "count" else
          let counts := (groups.zip mults).map fun (g, m) => g / m
          let mx := (maxF objs).getD 0
          -- (the order of the copies is not part of the property; it is compared with the model only)
          if !counts.all (fun c => a ≤ c && c ≤ b) then some "count"
          else if !(objs.zip counts).all (fun (o, c) => (objs.zip counts).all fun (o', c') => !(o ≤ o') || c' ≤ c) then some "pressure"
          else if mn < mx && !(objs.zip counts).all (fun (o, c) => (!(o == mn) || c == b) && (!(o == mx) || c == a)) then some "count"
          else none
    | [] => some "frame"

structure CaseResult where
  agree : Bool
  cls : Option String
  model : Sexp

def parseWitness : Sexp → Option (Witness Float)
  | .atom "none" => some .none
  | .list [.atom "draw", u] => (float? u).map .draw
  | .list (.atom "sets" :: ss) => (ss.mapM nats?).map .sets
  | _ => none

/-- operators whose `select` reads objective values (`Individual::objective` panics on an
unevaluated individual) -/
def usesFitness : Op Float → Bool
  | .rouletteWheel _ _ | .sus _ _ | .tournament _ _ | .linearRank _ | .exponentialRank _ _
  | .deBest _ | .deCurrentToBest _ | .iwo _ _ => true
  | _ => false

/-- The harness' 'extreme' stream: the weight arithmetic of RouletteWheel / SUS / IWO may overflow to
inf / NaN or underflow to 0 — every objective finite and `len · ((max − min) + offset)` not below 1e300 (no
way of writing the weights, their total or the selection points exceeds that bound), or a spread
`max − min` / an offset that is positive but below 1e-290 (the distance `total / n` between two SUS points
underflows to 0 for objectives that differ by a subnormal amount), or an offset beyond 1e150.  Every other
operator only COMPARES objective values (nothing can overflow), and a population with a `+inf` member
is a documented `Err` of the three weight based operators before any arithmetic is done. -/
def isExtreme (op : Op Float) (cur : FPop) : Bool :=
  let big (v : Float) : Bool := v.isFinite && v.abs > 1e150
  let tiny (v : Float) : Bool := 0 < v && v < 1e-290
  let risk (off : Float) : Bool :=
    let objs := cur.map objOf
    let spread := ((maxF objs).getD 0) - ((minF objs).getD 0)
    cur.all (fun i => i.obj.isSome) &&
    (big off ||
     (!objs.isEmpty && objs.all Float.isFinite &&
      (tiny off || tiny spread || !(objs.length.toFloat * (spread + off.abs) ≤ 1e300))))
  match op with
  | .rouletteWheel _ off | .sus _ off => risk off
  | .iwo _ _ => risk 0
  | _ => false

def inQuantifier (op : Op Float) (stack : List FPop) : Bool :=
  ctorOk op &&
  match stack with
  | [] => false
  | cur :: _ =>
    -- an unevaluated member is outside the quantifier only for the operators that read objective values
    (cur.all (fun i => i.obj.isSome) || !usesFitness op) &&
    -- where the weight arithmetic can overflow: outside the (exact-arithmetic) property; the whole range of
    -- objective values (−f64::MAX … f64::MAX, +inf, signed zeros, subnormals) is inside for everything else
    !isExtreme op cur &&
    match op with
    | .rouletteWheel _ off | .sus _ off => 0 ≤ off && off.isFinite && off ≤ 1e150
    | _ => true

def handleSel (args : List Sexp) (implOut : Sexp) : Option CaseResult := do
  -- optional further arguments: `(via select)` — `Selection::select` was called directly (same model: `step`);
  -- `(extra (best i) (archive i*) (pbest i*) (gbest i))` — other best / memory states held by the State
  let (opS, stackS, more) ← match args with
    | o :: _ :: s :: more => some (o, s, more)
    | _ => none
  let op ← parseOp opS
  let stack ← (← tagged? "stack" stackS).mapM parsePop
  let extra : List Sexp := (more.filterMap fun m => tagged? "extra" m).flatten
  let part (t : String) : Option FPop := (extra.filterMap fun e => tagged? t e).head?.bind fun l => l.mapM parseInd
  let st0 : SelState Float :=
    { stack, best := (part "best").bind (·.head?), archive := (part "archive").getD [],
      pbest := (part "pbest").getD [], gbest := (part "gbest").bind (·.head?) }
  let (resS, stS, witS) ← match implOut with
    | .list [r, s, w] => some (r, s, w)
    | _ => none
  let res ← match ← tagged? "res" resS with
    | [o] => Res.parse? o
    | _ => none
  let stack' ← (← tagged? "stack" stS).mapM parsePop
  let wRep ← match ← tagged? "wit" witS with
    | [w] => parseWitness w
    | _ => none
  let cur := stack.headD []
  -- the witness: replayed draws where the harness reports them, otherwise read off the tags
  -- the witness is read off the OUTPUT (tags); only the SUS draw is taken from the harness' replay,
  -- and a mismatch there falls back to a legality check (`susLegal`)
  let okSel : Option FPop := match res, stack' with
    | .ok, sel :: _ => some sel
    | _, _ => none
  let len := cur.length
  let w : Witness Float := match op with
    | .fullyRandom _ | .rouletteWheel _ _ | .linearRank _ | .exponentialRank _ _ =>
      .idx ((okSel.map (recoverIdx cur)).getD [])
    | .randomWithoutRepetition _ => .idx ((okSel.map fun sel => recoverUnused cur sel []).getD [])
    | .all | .none | .cloneSingle _ | .iwo _ _ => .none
    | .tournament n size =>
      match okSel with
      | some sel => .sets (sel.map (synthCompetitors cur size))
      | none =>
        -- Err / panic: any legal competitor list; a panic (malformed stream only) is explained by a
        -- list that contains an unevaluated member
        let u := cur.findIdx (fun c => c.obj.isNone)
        let c := if res == .panic && u < len && 0 < size
          then u :: ((List.range len).filter (· != u)).take (size - 1)
          else (List.range len).take size
        .sets (List.replicate n c)
    | .deRand y => .sets (((okSel.map (chunks (2 * y + 1) len)).getD []).map fun blk => recoverUnused cur blk [])
    | .deBest y =>
      -- the member in the "best" slot is read off the first block (any member of minimal objective is legal)
      let blks := (okSel.map (chunks (2 * y + 1) len)).getD []
      let bi := match blks with
        | (b :: _) :: _ => cur.findIdx (indEq b)
        | _ => codeBestIdx cur
      .setsBest bi (blks.map fun blk => recoverUnused cur blk.tail [])
    | .deCurrentToBest y =>
      let blks := (okSel.map (chunks (2 * y + 1) len)).getD []
      let bi := match blks with
        | (_ :: b :: _) :: _ => cur.findIdx (indEq b)
        | _ => codeBestIdx cur
      .setsBest bi ((blks.zip cur).map fun (blk, ind) =>
        recoverUnused (cur.filter (fun j => !sameInd j ind)) (blk.drop 2) [])
    | .sus _ _ => wRep
  let (mstack, mres) : List FPop × Res :=
    if !ctorOk op then (stack, .ctor)
    else match execute floatOps op w st0 with
      | (s, .ok) => (s.stack, .ok)
      | (s, .err) => (s.stack, .err)
      | (s, .panic) => (s.stack, .panic)
  let model := Sexp.list [.list [.atom "res", mres.toSexp], .list (.atom "stack" :: mstack.map popToSexp)]
  let legal := res != .ok || legalB op cur w
  let exact := legal && mres == res && stackEq mstack stack'
  -- SUS: the replayed draw need not be the one the code used; any draw explaining the output will do
  let susFallback : Bool := match op, okSel, stack' with
    | .sus n off, some sel, _ :: below =>
      mres == .ok && stackEq below stack &&
      (match proportionalWeights floatOps (cur.map objOf) off false with
       | .ok (some ws) =>
         let is := recoverIdx cur sel
         sel.all (fun x => cur.any (indEq x)) && (is.zip (is.drop 1)).all (fun (a, b) => a ≤ b) && susLegal ws n is
       | _ => false)
    | _, _, _ => false
  -- Fitness-based selection applied to a population with an UNEVALUATED member is outside the property
  -- (there is no fitness to select by); whether — and at which point — the implementation panics there
  -- is not pinned down (`min_by_key` reads the key of a single competitor, an explicit first-minimum
  -- loop does not).  Agreement on such a case: the implementation panics; or it does what the model
  -- does (`exact`); or the model panics and the implementation reports an error (stack untouched) or
  -- pushes a selection consisting of copies of source members (everything below untouched).
  let unevalFallback : Bool :=
    ctorOk op && usesFitness op && !stack.isEmpty && cur.any (fun i => i.obj.isNone) &&
    match res with
    | .panic => true
    | .err => mres == .panic && stackEq stack' stack
    | .ok => mres == .panic &&
      (match stack' with
       | sel :: below => stackEq below stack && sel.all (fun x => cur.any (indEq x))
       | [] => false)
    | .ctor => false
  -- The 'extreme' stream (finite values beyond 1e150: the weight arithmetic of RouletteWheel / SUS / IWO
  -- overflows to inf / NaN) is outside the exact-arithmetic property, and WHERE the overflow happens
  -- depends on how the same weight is written (`(max - min) - (o - min)` overflows, `max - o` does not)
  -- and on the association order of the sums — none of which is pinned down.  There, besides exact
  -- agreement, any outcome that keeps the frame counts as agreement: `Err` / panic with the stack
  -- untouched, or one pushed population of copies of source members (the requested number for the two
  -- samplers).  The operators that only COMPARE objective values are still compared exactly.
  let extremeFallback : Bool :=
    isExtreme op cur &&
    (match op with
     | .rouletteWheel _ _ | .sus _ _ | .iwo _ _ => true
     | _ => false) &&
    match res with
    | .err | .panic => stackEq stack' stack
    | .ok =>
      (match stack' with
       | sel :: below =>
         stackEq below stack && sel.all (fun x => cur.any (indEq x)) &&
         (match op with
          | .rouletteWheel n _ | .sus n _ => sel.length == n
          | _ => true)
       | [] => false)
    | .ctor => false
  let agree := exact || susFallback || unevalFallback || extremeFallback
  let cls := if inQuantifier op stack then
      match stack with
      | c :: rest => violation op c rest stack' res
      | [] => none
    else none
  pure { agree, cls, model }

def closeF (a b : Float) : Bool :=
  a.toBits == b.toBits || (a - b).abs ≤ 1e-9 * (max a.abs b.abs)

def floatsOf (s : Sexp) (tag : String) : Option (List Float) := do (← tagged? tag s).mapM float?

def handleCase (input implOut : Sexp) : Option CaseResult :=
  match input with
  | .list (.atom "sel" :: args) => handleSel args implOut
  | .list [.atom "pw", objsS, .list [.atom "off", offS], .list [.atom "norm", normS]] => do
    let objs ← floatsOf objsS "objs"
    let off ← float? offS
    let norm ← bool? normS
    let m := proportionalWeights floatOps objs off norm
    let model : Sexp := match m with
      | .error _ => .atom "panic"
      | .ok none => .atom "none"
      | .ok (some ws) => .list (.atom "ws" :: ws.map ofFloat)
    let implWs := floatsOf implOut "ws"
    let agree := match m, implWs with
      | .ok (some ws), some iw =>
        -- tolerance relative to the largest weight: `(max - min) - (o - min)` and `max - o` are the same
        -- weight up to rounding, but a weight near 0 has no relative precision
        let scale := ws.foldl (fun m w => if m < w.abs then w.abs else m) 0
        ws.length == iw.length && (ws.zip iw).all fun (a, b) => closeF a b || (a - b).abs ≤ 1e-12 * scale
      | _, _ => Sexp.beq model implOut
    -- a better objective never gets a smaller weight
    let cls := match implWs with
      | some iw =>
        if iw.length != objs.length then some "count"
        else if (objs.zip iw).all (fun (o, w) => (objs.zip iw).all fun (o', w') => !(o ≤ o') || w' ≤ w) then none
        else some "pressure"
      | none => if 0 ≤ off && implOut.beq (.atom "panic") then some "panic" else none
    pure { agree, cls, model }
  | .list [.atom "rrank", objsS] => do
    let objs ← floatsOf objsS "objs"
    let model := Sexp.list (.atom "ranks" :: (reverseRank objs).map ofNat)
    let cls := match tagged? "ranks" implOut >>= (·.mapM nat?) with
      | some rs =>
        if rs.length != objs.length then some "count"
        else if (objs.zip rs).all (fun (o, r) => (r ≥ 1) && (!(o == (minF objs).getD 0) || r == 1) &&
            (objs.zip rs).all fun (o', r') => (!(o < o') || r < r') && (!(o == o') || r == r')) then none
        else some "wrong-value"
      | none => some "panic"
    pure { agree := Sexp.beq model implOut, cls, model }
  | .list [.atom "bounds", objsS] => do
    let objs ← floatsOf objsS "objs"
    let model : Sexp := match objectiveBounds objs with
      | none => .atom "none"
      | some (mx, mn) => .list [.atom "b", ofFloat mx, ofFloat mn]
    let cls := match implOut with
      | .list [.atom "b", mxS, mnS] =>
        match float? mxS, float? mnS with
        | some mx, some mn =>
          if objs.all (fun o => mn ≤ o && o ≤ mx) && objs.any (· == mx) && objs.any (· == mn) then none else some "wrong-value"
        | _, _ => some "wrong-value"
      | .atom "none" => if objs.isEmpty then none else some "wrong-value"
      | _ => some "panic"
    -- the sign of a zero bound is not pinned down (`f64::min(-0.0, 0.0)` may return either)
    let agree := Sexp.beq model implOut || match objectiveBounds objs, implOut with
      | some (mx, mn), .list [.atom "b", mxS, mnS] =>
        (match float? mxS, float? mnS with
         | some a, some b => a == mx && b == mn
         | _, _ => false)
      | _, _ => false
    pure { agree, cls, model }
  | .list [.atom "freq", _, objsS, .list [.atom "draws", dS], _] => do
    let objs ← floatsOf objsS "objs"
    let draws ← nat? dS
    let counts ← tagged? "counts" implOut >>= (·.mapM nat?)
    let total := counts.foldl (· + ·) 0
    -- a better member must not be drawn significantly less often than a worse one (5σ)
    let ok := (objs.zip counts).all fun (o, c) => (objs.zip counts).all fun (o', c') =>
      !(o < o') || c'.toFloat - c.toFloat ≤ 5 * Float.sqrt (c.toFloat + c'.toFloat)
    pure { agree := total == draws, cls := if total != draws then some "count" else if ok then none else some "pressure",
           model := .list [.atom "total", ofNat draws] }
  | _ => none

end wire
end MahfModel.Selection
