/-
C09 — users of the order of `SingleObjective`.

Everything in std (and in /repo) that sorts, searches, picks a minimum … can touch the wrapped
floats only through the three trait methods `Ord::cmp`, `PartialOrd::partial_cmp` (which `<`, `<=`,
`>`, `>=` are default methods of) and `PartialEq::eq`.  `CmpProg α β` is the type of such
computations: a decision tree whose inner nodes are exactly those three questions.

* `CmpProg.run key` answers the questions as the code does (`objCmp`, `objPartialCmp`, `objEq`;
  a failing `unwrap` inside `cmp` is a panic of the whole computation);
* `CmpProg.runSpec key` answers them from the numeric order `valueCmp` alone.

The algorithms whose *results* std documents are written as such programs, following the
documentation: `Iterator::min`/`min_by_key` (first of equal minima), `max`/`max_by_key` (last of
equal maxima), the stable sorts, `Ord::min`/`max`/`clamp` (provided methods), lexicographic
comparison of slices, `BTreeSet::insert` / `BTreeMap::insert` (an equal key is not replaced, its value
is), `Vec::dedup`.

`totalKey` / `totalCmp` model `f64::total_cmp` on bit patterns (the order two seeded changes put in
place of the numeric one), as core implements it: the bits as `i64`, low 63 bits flipped when
negative, compared as integers.
-/
import MahfModel.Model.Objective
namespace MahfModel.Objective

/-- A computation that can look at its elements only by comparing them. `fail` is a panic the
algorithm documents itself (`clamp` with `min > max`). -/
inductive CmpProg (α β : Type) where
  | ret (b : β)
  | fail
  | ask (x y : α) (k : Ordering → CmpProg α β)
  | askP (x y : α) (k : Option Ordering → CmpProg α β)
  | askEq (x y : α) (k : Bool → CmpProg α β)

namespace CmpProg
variable {α β γ : Type}

/-- Execution against the code: `Ord::cmp` may panic. -/
def run (key : α → F64) : CmpProg α β → Outcome β
  | .ret b => .ok b
  | .fail => .panic
  | .ask x y k =>
    match objCmp (key x) (key y) with
    | .ok o => (k o).run key
    | .panic => .panic
  | .askP x y k => (k (objPartialCmp (key x) (key y))).run key
  | .askEq x y k => (k (objEq (key x) (key y))).run key

/-- Execution against the numeric order of the values. -/
def runSpec (key : α → F64) : CmpProg α β → Outcome β
  | .ret b => .ok b
  | .fail => .panic
  | .ask x y k =>
    match valueCmp (key x) (key y) with
    | some o => (k o).runSpec key
    | none => .panic
  | .askP x y k => (k (valueCmp (key x) (key y))).runSpec key
  | .askEq x y k => (k (valueCmp (key x) (key y) == some .eq)).runSpec key

def bind : CmpProg α β → (β → CmpProg α γ) → CmpProg α γ
  | .ret b, f => f b
  | .fail, _ => .fail
  | .ask x y k, f => .ask x y (fun o => (k o).bind f)
  | .askP x y k, f => .askP x y (fun o => (k o).bind f)
  | .askEq x y k, f => .askEq x y (fun o => (k o).bind f)

end CmpProg

open CmpProg

section programs
variable {α : Type}

/-- `Iterator::min`, `min_by(cmp)`, `min_by_key`: a later element replaces the candidate only if it
is strictly less ("if several elements are equally minimum, the first element is returned"). -/
def pMinGo (m : α) : List α → CmpProg α α
  | [] => .ret m
  | y :: ys => .ask m y fun o =>
    match o with
    | .gt => pMinGo y ys
    | _ => pMinGo m ys

def pMin : List α → CmpProg α (Option α)
  | [] => .ret none
  | x :: xs => (pMinGo x xs).bind (fun m => .ret (some m))

/-- `Iterator::max`, `max_by(cmp)`, `max_by_key`: "if several elements are equally maximum, the last
element is returned". -/
def pMaxGo (m : α) : List α → CmpProg α α
  | [] => .ret m
  | y :: ys => .ask m y fun o =>
    match o with
    | .gt => pMaxGo m ys
    | _ => pMaxGo y ys

def pMax : List α → CmpProg α (Option α)
  | [] => .ret none
  | x :: xs => (pMaxGo x xs).bind (fun m => .ret (some m))

/-- Stable insertion; `rev` asks the question the other way round (`cmp::Reverse`). -/
def pInsert (rev : Bool) (x : α) : List α → CmpProg α (List α)
  | [] => .ret [x]
  | y :: ys =>
    let k := fun o : Ordering =>
      match o with
      | .gt => (pInsert rev x ys).bind (fun r => .ret (y :: r))
      | _ => .ret (x :: y :: ys)
    if rev then .ask y x k else .ask x y k

/-- The result every *stable* sort must produce (`slice::sort`, `sort_by`, `sort_by_key`,
`sort_by_cached_key`): ascending, equal elements in their original order. -/
def pSort (rev : Bool) : List α → CmpProg α (List α)
  | [] => .ret []
  | x :: xs => (pSort rev xs).bind (pInsert rev x)

/-- `Ord::min(self, other)`: "returns the first argument if the comparison determines them to be equal". -/
def pOrdMin (a b : α) : CmpProg α α :=
  .askP b a fun o => if o == some .lt then .ret b else .ret a

/-- `Ord::max(self, other)`: "returns the second argument if the comparison determines them to be equal". -/
def pOrdMax (a b : α) : CmpProg α α :=
  .askP b a fun o => if o == some .lt then .ret a else .ret b

/-- `Ord::clamp(self, min, max)`: `assert!(min <= max)`, then `min` if `self < min`, `max` if
`self > max`, else `self`. -/
def pClamp (a lo hi : α) : CmpProg α α :=
  .askP lo hi fun o =>
    if o == some .lt || o == some .eq then
      .askP a lo fun o1 =>
        if o1 == some .lt then .ret lo
        else .askP a hi fun o2 => if o2 == some .gt then .ret hi else .ret a
    else .fail

/-- `impl Ord for [T]`: the first unequal pair decides, then the lengths. -/
def pLex : List α → List α → CmpProg α Ordering
  | [], [] => .ret .eq
  | [], _ :: _ => .ret .lt
  | _ :: _, [] => .ret .gt
  | x :: xs, y :: ys => .ask x y fun o =>
    match o with
    | .eq => pLex xs ys
    | o => .ret o

/-- `impl PartialOrd for [T]`. -/
def pLexP : List α → List α → CmpProg α (Option Ordering)
  | [], [] => .ret (some .eq)
  | [], _ :: _ => .ret (some .lt)
  | _ :: _, [] => .ret (some .gt)
  | x :: xs, y :: ys => .askP x y fun o =>
    match o with
    | some .eq => pLexP xs ys
    | o => .ret o

/-- `impl PartialEq for [T]`: same length and all elements `==`. -/
def pSliceEq : List α → List α → CmpProg α Bool
  | [], [] => .ret true
  | x :: xs, y :: ys => .askEq x y fun e => if e then pSliceEq xs ys else .ret false
  | _, _ => .ret false

/-- `BTreeSet::insert` on the ascending list of members: an equal member stays ("the entry is not
updated"); the flag is the method's return value. -/
def pSetInsert (x : α) : List α → CmpProg α (List α × Bool)
  | [] => .ret ([x], true)
  | y :: ys => .ask x y fun o =>
    match o with
    | .lt => .ret (x :: y :: ys, true)
    | .eq => .ret (y :: ys, false)
    | .gt => (pSetInsert x ys).bind (fun r => .ret (y :: r.1, r.2))

/-- Inserting a sequence into an empty set: final members and the returned flags. -/
def pSetGo (s : List α) (flags : List Bool) : List α → CmpProg α (List α × List Bool)
  | [] => .ret (s, flags.reverse)
  | x :: xs => (pSetInsert x s).bind (fun r => pSetGo r.1 (r.2 :: flags) xs)

def pSet (l : List α) : CmpProg α (List α × List Bool) := pSetGo [] [] l

/-- `BTreeMap::insert(k, v)` on the ascending list of entries `(key, value)`: for an equal key "the
key is not updated", the value is. -/
def pMapInsert (x v : α) : List (α × α) → CmpProg α (List (α × α))
  | [] => .ret [(x, v)]
  | e :: es => .ask x e.1 fun o =>
    match o with
    | .lt => .ret ((x, v) :: e :: es)
    | .eq => .ret ((e.1, v) :: es)
    | .gt => (pMapInsert x v es).bind (fun r => .ret (e :: r))

def pMapGo (m : List (α × α)) : List α → CmpProg α (List (α × α))
  | [] => .ret m
  | x :: xs => (pMapInsert x x m).bind (fun r => pMapGo r xs)

/-- Every element inserted with itself as value: the value tells which of equal elements came last. -/
def pMap (l : List α) : CmpProg α (List (α × α)) := pMapGo [] l

/-- `Vec::dedup`: of consecutive `==` elements the first stays. -/
def pDedupGo (last : α) (acc : List α) : List α → CmpProg α (List α)
  | [] => .ret acc.reverse
  | y :: ys => .askEq y last fun e => if e then pDedupGo last acc ys else pDedupGo y (y :: acc) ys

def pDedup : List α → CmpProg α (List α)
  | [] => .ret []
  | x :: xs => pDedupGo x [x] xs

end programs

/-! ### `f64::total_cmp` on bit patterns -/

/-- core: `let mut l = a.to_bits() as i64; l ^= (((l >> 63) as u64) >> 1) as i64;` — for a pattern with
the sign bit set the `i64` is `n − 2^64`, flipping its low 63 bits gives `−(n − 2^63) − 1`. -/
def totalKey (n : Nat) : Int :=
  if n < 2 ^ 63 then (n : Int) else -((n - 2 ^ 63 : Nat) : Int) - 1

/-- `f64::total_cmp`. -/
def totalCmp (m n : Nat) : Ordering := compare (totalKey m) (totalKey n)

end MahfModel.Objective
