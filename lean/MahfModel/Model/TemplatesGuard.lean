/-
C16 — "runs … without error or panic", the part that is decidable from the wiring: the documented SIZE
PRECONDITIONS of the components (tournament not larger than the population, enough individuals for a selection
without repetition or a DE selection, exactly one individual for `CloneSingle` and the annealing acceptance,
operands of equal size for `KeepBetterAtIndex`, a population in DE format for `DEMutation`, two populations for a
replacement, …).

* `guardOf` (`Model/TemplatesSize.lean`) — the precondition of each component as read from its Rust body; on every
  size probe where it holds the real component must succeed (a refusal implies a violated `guardOf`).
* `gexec`   — the size interpreter `sexec`, made to STOP WITH `.guard` when a component is reached whose
  precondition does not hold (`Err`/panic in the code); `.stop` covers everything else that ends a run early (fuel,
  a failure injected by the oracle = any other error, an impossible pick).
* `gabs`    — the precondition decided on intervals: true only if it holds for EVERY concretisation.
* `safeOf`  — the interval analysis `sizeOf` (checked loop invariants, hull at branches) that in addition demands
  `gabs` at every leaf.
Soundness (`Proofs/C16Guard.lean`): if `safeOf` answers, no execution of `gexec` ever ends in `.guard`.
Not covered: chemical reaction optimisation (its else-branch is guarded by a population-size CONDITION and its
synthesis relies on `pc = 1`, both outside the size abstraction), numeric failure modes, components without a
modelled precondition (`guardOf = none`: swarm, firefly, black-hole and ant-colony components).
-/
import MahfModel.Model.TemplatesSize
namespace MahfModel.Tpl

/-- The component's size precondition holds (`true` also where none is modelled). -/
def guardC (k : LeafKind) (a b : Nat) (s : List Nat) : Bool := (guardOf k a b s).getD true

def Itv.isExact (x : Itv) : Bool := x.hi == some x.lo

/-- The precondition holds for every stack of sizes inside the intervals. -/
def gabs (k : LeafKind) (a b : Nat) (st : AbsStack) : Bool :=
  match k, st with
  | .All, st | .None, st | .DuplicatePopulation, st | .ClearPopulation, st
  | .NPointCrossover, st | .UniformCrossover, st | .ArithmeticCrossover, st | .NormalMutation, st =>
    decide (1 ≤ st.length)
  | .CloneSingle, st => (match st with | x :: _ => x.isExact && x.lo == 1 | [] => false)
  | .FullyRandom, st => (match st with | x :: _ => a == 0 || decide (1 ≤ x.lo) | [] => false)
  | .RandomWithoutRepetition, st => (match st with | x :: _ => decide (a ≤ x.lo) | [] => false)
  | .Tournament, st => (match st with | x :: _ => decide (b ≤ x.lo) && (a == 0 || decide (1 ≤ b)) | [] => false)
  | .DERand, st => (match st with | x :: _ => decide (2 * a + 1 ≤ x.lo) | [] => false)
  | .DEBest, st | .DECurrentToBest, st =>
    (match st with | x :: _ => decide (2 * a ≤ x.lo) && decide (1 ≤ x.lo) | [] => false)
  | .DeterministicFitnessProportional, st =>
    (match st with | x :: _ => decide (a ≤ b) && decide (1 ≤ x.lo) | [] => false)
  | .DEMutation, st => (match st with | x :: _ => x.isExact && x.lo % (2 * a + 1) == 0 | [] => false)
  | .MuPlusLambda, st | .Generational, st | .RandomReplacement, st | .Merge, st | .DiscardOffspring, st
  | .InterleavePopulations, st => decide (2 ≤ st.length)
  | .KeepBetterAtIndex, st =>
    (match st with | x :: y :: _ => x.isExact && y.isExact && x.lo == y.lo | _ => false)
  | .ExponentialAnnealingAcceptance, st =>
    (match st with | x :: y :: _ => x.isExact && y.isExact && x.lo == 1 && y.lo == 1 | _ => false)
  | _, _ => true

inductive GRes where
  | ok (s : SSt)
  /-- a component was reached whose size precondition does not hold -/
  | guard
  /-- out of fuel, another failure (oracle), or a pick outside what the component can produce -/
  | stop
  deriving Repr

mutual
  def gexec (o : SOracle) : Nat → SComp → SSt → GRes
    | 0, _, _ => .stop
    | fuel + 1, c, s =>
      match c with
      | .leaf k a b =>
        if o.fails s.tick then .stop
        else if guardC k a b s.stack then
          match leafStep k a b (o.pick s.tick) s.stack with
          | none => .stop
          | some st => .ok { s with stack := st, tick := s.tick + 1 }
        else .guard
      | .seq cs => gexecs o fuel cs s
      | .loop body => gloop o fuel body s
      | .branch t e =>
        let s' := { s with tick := s.tick + 1 }
        if o.cond s.tick then gexec o fuel t s' else gexec o fuel e s'
      | .scope body => gexec o fuel body s
  termination_by structural fuel => fuel
  def gexecs (o : SOracle) : Nat → SComps → SSt → GRes
    | 0, _, _ => .stop
    | fuel + 1, cs, s =>
      match cs with
      | .nil => .ok s
      | .cons c rest =>
        match gexec o fuel c s with
        | .ok s' => gexecs o fuel rest s'
        | r => r
  termination_by structural fuel => fuel
  def gloop (o : SOracle) : Nat → SComp → SSt → GRes
    | 0, _, _ => .stop
    | fuel + 1, body, s =>
      let s0 := { s with tick := s.tick + 1 }
      if o.cond s.tick then
        match gexec o fuel body s0 with
        | .ok s1 => gloop o fuel body s1
        | r => r
      else .ok s0
  termination_by structural fuel => fuel
end

mutual
  /-- `sizeOf` without a bound to meet, demanding every leaf's precondition on the way. -/
  def safeOf : SComp → AbsStack → Option AbsStack
    | .leaf k a b, st => if gabs k a b st then sizeStep k a b st else none
    | .seq cs, st => safesOf cs st
    | .loop body, st =>
      let inv := findInv (safeOf body) 8 3 st
      match safeOf body inv with
      | none => none
      | some out => if stackLe st inv && stackLe out inv then some inv else none
    | .branch t e, st =>
      match safeOf t st, safeOf e st with
      | some x, some y => stackJoin x y
      | _, _ => none
    | .scope body, st => safeOf body st
  def safesOf : SComps → AbsStack → Option AbsStack
    | .nil, st => some st
    | .cons c cs, st =>
      match safeOf c st with
      | none => none
      | some st' => safesOf cs st'
end

/-- The verdict of the per-template theorems: started on the empty stack, every component of the tree finds its
size precondition satisfied in every execution. -/
def guardsSafe (t : SComp) : Bool := (safeOf t []).isSome

end MahfModel.Tpl
