/-
C16 — "performs exactly the requested number of iterations": the loops of the shipped templates with their
conditions and the `Iterations` counter, a static check, and an interpreter for which the check is proved
sound (`Proofs/C16Iter.lean`).

What the code does (`components/control_flow.rs`, `conditions/common.rs`, `state/mod.rs`):
* `Loop::init` inserts `Iterations(0)` into the registry it is initialised in.  `Configuration::optimize`
  initialises the whole tree once in the base state; `Scope::execute` creates a child state and initialises
  its body THERE, on every execution.  So all loops of one *scope level* (the top level, or the body of one
  `Scope` up to nested scopes) share one counter, which is reset when the level is entered, and a loop always
  finds the counter of its own level first (innermost registry).
* `Loop::execute`: `while condition.evaluate() { body.execute(); Iterations += 1 }` — the counter is NOT reset
  when a loop starts.
* `LessThanN::iterations(n)` is `Iterations < n`; `And`/`Or` evaluate all operands.
* No component other than `Loop` writes `Iterations` (validated on every executed leaf step of every run).
* `LessThanN<L>::init` inserts `Progress<L>`; `evaluate` sets it to `value / n`.  The inertia-weight schedule of
  `real_pso` (`mapping::Linear`) and the deviation schedule of `real_iwo` (`mapping::Polynomial`) READ
  `Progress<ValueOf<Iterations>>` through their input lens and return `Err` when it is in no visible registry,
  i.e. when no condition with an iteration bound has been initialised in an enclosing scope level (`rp` leaves,
  `prog`).

`ctrs` is the stack of counters, one per entered scope level (head = innermost).  A condition is
`iterLt n` (the iteration bound), `both n` (`iterations(n) & c`), `either n` (`iterations(n) | c`) or `other`;
the non-iteration part is an oracle.  Ghost state: `exact` — every loop execution completed so far made a
number of passes that its condition allows (`iterLt n`: exactly `n`; `both n`: at most `n`; `either n`: at
least `n`); `passes` — the nesting depth of every completed pass.
-/
import MahfModel.Model.Templates
namespace MahfModel.Tpl

inductive LCond where
  | iterLt (n : Nat)
  | both (n : Nat)
  | either (n : Nat)
  | other
  deriving DecidableEq, Repr, Inhabited

/-- Value of the condition when the visible counter is `ctr` and the non-iteration part says `b`. -/
def LCond.eval : LCond → Nat → Bool → Bool
  | .iterLt n, ctr, _ => decide (ctr < n)
  | .both n, ctr, b => decide (ctr < n) && b
  | .either n, ctr, b => decide (ctr < n) || b
  | .other, _, b => b

/-- Is `p` a number of passes the condition allows for one execution of its loop? -/
def LCond.okCount : LCond → Nat → Bool
  | .iterLt n, p => p == n
  | .both n, p => decide (p ≤ n)
  | .either n, p => decide (n ≤ p)
  | .other, _ => true

/-- Does initialising the condition insert `Progress<ValueOf<Iterations>>`? -/
def LCond.hasBound : LCond → Bool
  | .iterLt _ | .both _ | .either _ => true
  | .other => false

mutual
  inductive LComp where
    /-- `rp`: the component reads `Progress<ValueOf<Iterations>>` -/
    | leaf (rp : Bool)
    | seq (cs : LComps)
    | loop (c : LCond) (body : LComp)
    | branch (thn : LComp) (els : LComp)
    | scope (body : LComp)
  inductive LComps where
    | nil
    | cons (c : LComp) (cs : LComps)
end

mutual
  /-- Number of `Loop` nodes that belong to this scope level (not below a nested `Scope`), counting loops
  nested in loops. -/
  def directLoops : LComp → Nat
    | .leaf _ => 0
    | .seq cs => directLoopsL cs
    | .loop _ b => 1 + directLoops b
    | .branch t e => directLoops t + directLoops e
    | .scope _ => 0
  def directLoopsL : LComps → Nat
    | .nil => 0
    | .cons c cs => directLoops c + directLoopsL cs
end

mutual
  /-- Every `Scope` body is a level with at most one loop. -/
  def scopesOk : LComp → Bool
    | .leaf _ => true
    | .seq cs => scopesOkL cs
    | .loop _ b => scopesOk b
    | .branch t e => scopesOk t && scopesOk e
    | .scope b => decide (directLoops b ≤ 1) && scopesOk b
  def scopesOkL : LComps → Bool
    | .nil => true
    | .cons c cs => scopesOk c && scopesOkL cs
end

/-- The static check the per-template theorems evaluate: every scope level (the top level included) contains
at most one loop, i.e. no loop shares its counter with a loop around it or next to it. -/
def itersExact (c : LComp) : Bool := decide (directLoops c ≤ 1) && scopesOk c

mutual
  /-- Initialising this scope level inserts `Progress<ValueOf<Iterations>>`: one of its loops has an iteration
  bound in its condition. -/
  def levelProg : LComp → Bool
    | .leaf _ => false
    | .seq cs => levelProgL cs
    | .loop c b => c.hasBound || levelProg b
    | .branch t e => levelProg t || levelProg e
    | .scope _ => false
  def levelProgL : LComps → Bool
    | .nil => false
    | .cons c cs => levelProg c || levelProgL cs
end

mutual
  /-- Every component that reads the iteration progress finds it (`vis`: it is in an enclosing level). -/
  def progOk (vis : Bool) : LComp → Bool
    | .leaf rp => !rp || vis
    | .seq cs => progOkL vis cs
    | .loop _ b => progOk vis b
    | .branch t e => progOk vis t && progOk vis e
    | .scope b => progOk (vis || levelProg b) b
  def progOkL (vis : Bool) : LComps → Bool
    | .nil => true
    | .cons c cs => progOk vis c && progOkL vis cs
end

def progOkTop (c : LComp) : Bool := progOk (levelProg c) c

mutual
  /-- The same configuration with another termination condition: the condition of every loop of the top scope
  level replaced by `k` (loops below a `Scope` keep theirs). -/
  def LComp.withCond (k : LCond) : LComp → LComp
    | .leaf rp => .leaf rp
    | .seq cs => .seq (LComps.withCond k cs)
    | .loop _ b => .loop k (LComp.withCond k b)
    | .branch t e => .branch (LComp.withCond k t) (LComp.withCond k e)
    | .scope b => .scope b
  def LComps.withCond (k : LCond) : LComps → LComps
    | .nil => .nil
    | .cons c cs => .cons (LComp.withCond k c) (LComps.withCond k cs)
end

/-! ### Interpreter -/

structure LOracle where
  cond : Nat → Bool
  fails : Nat → Bool

structure LSt where
  ctrs : List Nat
  /-- `Progress<ValueOf<Iterations>>` is in a visible registry -/
  prog : Bool
  tick : Nat
  exact : Bool
  passes : List Nat
  deriving Repr

def bump : List Nat → List Nat
  | [] => []
  | c :: r => (c + 1) :: r

mutual
  /-- `d` = number of loops around the component (for the pass log). -/
  def lexec (o : LOracle) : Nat → Nat → LComp → LSt → Option LSt
    | 0, _, _, _ => none
    | fuel + 1, d, c, s =>
      match c with
      | .leaf rp =>
        if o.fails s.tick || (rp && !s.prog) then none else some { s with tick := s.tick + 1 }
      | .seq cs => lexecs o fuel d cs s
      | .loop c b => lloop o fuel d c b 0 s
      | .branch t e =>
        let s' := { s with tick := s.tick + 1 }
        if o.cond s.tick then lexec o fuel d t s' else lexec o fuel d e s'
      | .scope b =>
        -- child state: the body is initialised in it (its loops get a fresh counter), dropped afterwards
        match lexec o fuel d b { s with ctrs := 0 :: s.ctrs, prog := s.prog || levelProg b } with
        | none => none
        | some s1 => some { s1 with ctrs := s1.ctrs.tail, prog := s.prog }
  termination_by structural fuel => fuel
  def lexecs (o : LOracle) : Nat → Nat → LComps → LSt → Option LSt
    | 0, _, _, _ => none
    | fuel + 1, d, cs, s =>
      match cs with
      | .nil => some s
      | .cons c rest =>
        match lexec o fuel d c s with
        | none => none
        | some s' => lexecs o fuel d rest s'
  termination_by structural fuel => fuel
  /-- `p` = passes made so far by THIS execution of the loop. -/
  def lloop (o : LOracle) : Nat → Nat → LCond → LComp → Nat → LSt → Option LSt
    | 0, _, _, _, _, _ => none
    | fuel + 1, d, c, b, p, s =>
      match s.ctrs with
      | [] => none                                   -- no `Iterations` anywhere: `Err`
      | ctr :: _ =>
        let s0 := { s with tick := s.tick + 1 }
        if c.eval ctr (o.cond s.tick) then
          match lexec o fuel (d + 1) b s0 with
          | none => none
          | some s1 => lloop o fuel d c b (p + 1) { s1 with ctrs := bump s1.ctrs, passes := d :: s1.passes }
        else some { s0 with exact := s0.exact && c.okCount p }
  termination_by structural fuel => fuel
end

/-- The state `Configuration::optimize` starts configuration `c` from: one level, counter 0, the conditions of
its top level initialised. -/
def LSt.init (c : LComp) : LSt := { ctrs := [0], prog := levelProg c, tick := 0, exact := true, passes := [] }

/-- Completed passes at nesting depth `d`. -/
def passesAt (d : Nat) (s : LSt) : Nat := (s.passes.filter (· == d)).length

/-! ### Translation from the serialised tree -/
open MahfModel Sexp

def isIterationsLens : Sexp → Bool
  | .list [.atom "N", .atom "ValueOf", .list [.atom "str", .atom t]] => t == "mahf::state::common::Iterations"
  | _ => false

/-- `LessThanN` over the `Iterations` lens ↦ its bound. -/
def iterBound? : Sexp → Option Nat
  | .list (.atom "S" :: .atom "LessThanN" :: fields) =>
    match field? "n" fields, field? "lens" fields with
    | some n, some l => if isIterationsLens l then nat? n else none
    | _, _ => none
  | _ => none

def LCond.ofSexp : Sexp → LCond
  | .list [.atom "N", .atom "And", .list [.atom "seq", a, b]] =>
    match iterBound? a, iterBound? b with
    | some n, none => .both n
    | none, some n => .both n
    | _, _ => .other
  | .list [.atom "N", .atom "Or", .list [.atom "seq", a, b]] =>
    match iterBound? a, iterBound? b with
    | some n, none => .either n
    | none, some n => .either n
    | _, _ => .other
  | s => match iterBound? s with
    | some n => .iterLt n
    | none => .other

/-- A component whose input lens is `ValueOf<Progress<ValueOf<Iterations>>>`. -/
def readsIterProgress (fields : List Sexp) : Bool :=
  match field? "input_lens" fields with
  | some (.list [.atom "N", .atom "ValueOf", .list [.atom "str", .atom t]]) =>
    t == "mahf::state::common::Progress<mahf::lens::common::ValueOf<mahf::state::common::Iterations>>"
  | _ => false

mutual
  def LComp.ofSexp : Nat → Sexp → LComp
    | 0, _ => .leaf false
    | fuel + 1, s =>
      match s with
      | .list (.atom "seq" :: xs) => .seq (LComps.ofSexps fuel xs)
      | .list (.atom "S" :: .atom "Loop" :: fields) =>
        match field? "while" fields, field? "do" fields with
        | some c, some b => .loop (LCond.ofSexp c) (LComp.ofSexp fuel b)
        | _, _ => .leaf false
      | .list (.atom "S" :: .atom "Branch" :: fields) =>
        match field? "if_body" fields, field? "else_body" fields with
        | some t, some (.atom "none") => .branch (LComp.ofSexp fuel t) (.seq .nil)
        | some t, some (.list [.atom "some", e]) => .branch (LComp.ofSexp fuel t) (LComp.ofSexp fuel e)
        | _, _ => .leaf false
      | .list (.atom "S" :: .atom "Scope" :: fields) =>
        match field? "body" fields with
        | some b => .scope (LComp.ofSexp fuel b)
        | none => .leaf false
      | .list (.atom "S" :: _ :: fields) => .leaf (readsIterProgress fields)
      | _ => .leaf false
  def LComps.ofSexps : Nat → List Sexp → LComps
    | 0, _ => .nil
    | _ + 1, [] => .nil
    | fuel + 1, x :: xs => .cons (LComp.ofSexp fuel x) (LComps.ofSexps fuel xs)
end

def LCond.toLean : LCond → String
  | .iterLt n => s!"(.iterLt {n})"
  | .both n => s!"(.both {n})"
  | .either n => s!"(.either {n})"
  | .other => ".other"

mutual
  def LComp.toLean : LComp → String
    | .leaf rp => if rp then "(.leaf true)" else "(.leaf false)"
    | .seq cs => s!"(.seq {LComps.toLeans cs})"
    | .loop c b => s!"(.loop {c.toLean} {LComp.toLean b})"
    | .branch t e => s!"(.branch {LComp.toLean t} {LComp.toLean e})"
    | .scope b => s!"(.scope {LComp.toLean b})"
  def LComps.toLeans : LComps → String
    | .nil => ".nil"
    | .cons c cs => s!"(.cons {LComp.toLean c} {LComps.toLeans cs})"
end

mutual
  /-- Conditions of the loops of the top scope level, outermost first. -/
  def topConds : LComp → List LCond
    | .leaf _ => []
    | .seq cs => topCondsL cs
    | .loop c b => c :: topConds b
    | .branch t e => topConds t ++ topConds e
    | .scope _ => []
  def topCondsL : LComps → List LCond
    | .nil => []
    | .cons c cs => topConds c ++ topCondsL cs
end

mutual
  /-- Conditions of all loops below a `Scope`, in order. -/
  def scopedConds : LComp → List LCond
    | .leaf _ => []
    | .seq cs => scopedCondsL cs
    | .loop _ b => scopedConds b
    | .branch t e => scopedConds t ++ scopedConds e
    | .scope b => topConds b ++ scopedConds b
  def scopedCondsL : LComps → List LCond
    | .nil => []
    | .cons c cs => scopedConds c ++ scopedCondsL cs
end

end MahfModel.Tpl
