/-
C13 — model of the variation operators of mahf:
  * functional helpers  src/components/mutation/functional.rs, src/components/recombination/functional.rs
  * components          src/components/mutation/{common,de}.rs, src/components/recombination/{mod,common,de}.rs

Code-shaped: slices are lists, every Rust panic (contract violation, index out of bounds, slice
range error, `unwrap` on `None`, arithmetic overflow) is the outcome `none`.  Randomised
components are functions of an explicit witness (chosen indices, masks, draws).
Numeric code is generic over the carrier `F` (core classes only).
-/
import MahfModel.Model.Sexp
namespace MahfModel.Variation

variable {α : Type}

/-! ## 1. mutation/functional.rs -/

/-- `slice.swap(i, j)`: panics when an index is out of range. -/
def swapAt (l : List α) (i j : Nat) : Option (List α) :=
  match l[i]?, l[j]? with
  | some a, some b => some ((l.set i b).set j a)
  | _, _ => none

/-- A sequence of `swap` calls. -/
def swapPairs (l : List α) : List (Nat × Nat) → Option (List α)
  | [] => some l
  | (i, j) :: ps =>
    match swapAt l i j with
    | some l' => swapPairs l' ps
    | none => none

/-- itertools `circular_tuple_windows::<(_, _)>()`: `(x₀,x₁), …, (x_{n-2},x_{n-1}), (x_{n-1},x₀)`. -/
def circularWindows (xs : List Nat) : List (Nat × Nat) :=
  match xs with
  | [] => []
  | x :: rest => xs.zip (rest ++ [x])

/-- `circular_swap`: contract `indices.len() > 1`, then
`for (i, j) in indices.iter().rev().circular_tuple_windows().skip(1) { permutation.swap(i, j) }`. -/
def circularSwap (l : List α) (indices : List Nat) : Option (List α) :=
  if indices.length ≤ 1 then none
  else swapPairs l ((circularWindows indices.reverse).drop 1)

/-- The `for _ in 0..n-2` loop of `circular_swap2`: swap the last two buffer entries, drop the last. -/
def circularSwap2Loop (l : List α) (buffer : List Nat) : Nat → Option (List α)
  | 0 => some l
  | k + 1 =>
    match buffer[buffer.length - 1]?, buffer[buffer.length - 2]? with
    | some x, some y =>
      match swapAt l x y with
      | some l' => circularSwap2Loop l' buffer.dropLast k
      | none => none
    | _, _ => none

/-- `circular_swap2`. -/
def circularSwap2 (l : List α) (indices : List Nat) : Option (List α) :=
  if indices.length ≤ 1 then none
  else
    let n := indices.length
    match indices[n - 1]?, indices[0]? with
    | some x, some y =>
      match swapAt l x y with
      | some l' => if n > 2 then circularSwap2Loop l' indices (n - 2) else some l'
      | none => none
    | _, _ => none

/-- `slice.rotate_right(k)` (requires `k ≤ len`). -/
def rotRight (l : List α) (k : Nat) : Option (List α) :=
  if k ≤ l.length then some (l.drop (l.length - k) ++ l.take (l.length - k)) else none

/-- `slice.rotate_left(k)` (requires `k ≤ len`). -/
def rotLeft (l : List α) (k : Nat) : Option (List α) :=
  if k ≤ l.length then some (l.drop k ++ l.take k) else none

/-- The three `contracts::requires` shared by both translocation helpers. -/
def translocContract (len s e i : Nat) : Bool :=
  decide (i < len) && decide (s < len) && decide (e ≤ len)

/-- `translocate_slice(permutation, s..e, index)`. `e - s` overflows (panic) when `e < s`. -/
def translocateSlice (l : List α) (s e i : Nat) : Option (List α) :=
  if !translocContract l.length s e i then none
  else if e < s then none                              -- `range.end - range.start` underflow
  else
    let chunk := e - s
    if ¬ (i + chunk ≤ l.length) then none               -- assert!
    else if i < s then                                  -- permutation[i..e].rotate_right(chunk)
      match rotRight ((l.drop i).take (e - i)) chunk with
      | some seg => some (l.take i ++ seg ++ l.drop e)
      | none => none
    else if s < i then                                  -- permutation[s..i+chunk].rotate_left(chunk)
      match rotLeft ((l.drop s).take (i + chunk - s)) chunk with
      | some seg => some (l.take s ++ seg ++ l.drop (i + chunk))
      | none => none
    else some l

/-- `translocate_slice2`: the assertion computes `(index + end) - start`; `drain(s..e)` panics when
`e < s`; then `splice(index..index, slice)`. -/
def translocateSlice2 (l : List α) (s e i : Nat) : Option (List α) :=
  if !translocContract l.length s e i then none
  else if i + e < s then none                           -- subtraction underflow inside the assert
  else if ¬ (i + e - s ≤ l.length) then none            -- assert!
  else if e < s then none                               -- drain: slice index starts after its end
  else
    let copy := l.take s ++ l.drop e
    let slice := (l.drop s).take (e - s)
    if copy.length < i then none                        -- splice range out of bounds
    else some (copy.take i ++ slice ++ copy.drop i)

/-! ## 2. recombination/functional.rs -/

/-- `child2[idx..].swap_with_slice(&mut child1[idx..])`. -/
def swapTails (c1 c2 : List α) (idx : Nat) : Option (List α × List α) :=
  if c1.length < idx ∨ c2.length < idx then none
  else if c1.length - idx ≠ c2.length - idx then none
  else some (c1.take idx ++ c2.drop idx, c2.take idx ++ c1.drop idx)

/-- `child2[..idx].swap_with_slice(&mut child1[..idx])`. -/
def swapHeads (c1 c2 : List α) (idx : Nat) : Option (List α × List α) :=
  if c1.length < idx ∨ c2.length < idx then none
  else some (c2.take idx ++ c1.drop idx, c1.take idx ++ c2.drop idx)

/-- The `for (i, &idx) in indices.iter().enumerate()` loop of `multi_point_crossover`. -/
def mpxLoop (p1 p2 : List α) (n : Nat) : Nat → List Nat → List α × List α → Option (List α × List α)
  | _, [], c => some c
  | i, idx :: rest, (c1, c2) =>
    if p1.length ≠ p2.length then
      if i < n - 1 then
        match swapHeads c1 c2 idx with
        | some c => mpxLoop p1 p2 n (i + 1) rest c
        | none => none
      else if p1.length < idx ∨ p2.length < idx then none   -- `&parent[idx..]`
      else mpxLoop p1 p2 n (i + 1) rest (c1.take idx ++ p2.drop idx, c2.take idx ++ p1.drop idx)
    else
      match swapTails c1 c2 idx with
      | some c => mpxLoop p1 p2 n (i + 1) rest c
      | none => none

/-- `multi_point_crossover` with its three contracts. -/
def multiPointCrossover (p1 p2 : List α) (indices : List Nat) : Option (List α × List α) :=
  if indices.isEmpty then none
  else if ¬ indices.length < p1.length then none
  else if ¬ indices.length < p2.length then none
  else mpxLoop p1 p2 indices.length 0 indices (p1, p2)

/-- The `for (i, &value) in mask.iter().enumerate()` loop of `uniform_crossover`. -/
def uxLoop : Nat → List Bool → List α × List α → Option (List α × List α)
  | _, [], c => some c
  | i, m :: rest, (c1, c2) =>
    if m then
      match c1[i]?, c2[i]? with
      | some a, some b => uxLoop (i + 1) rest (c1.set i b, c2.set i a)
      | _, _ => none
    else uxLoop (i + 1) rest (c1, c2)

/-- `uniform_crossover` with its two contracts. -/
def uniformCrossover (p1 p2 : List α) (mask : List Bool) : Option (List α × List α) :=
  if mask.length < p1.length then none
  else if mask.length < p2.length then none
  else uxLoop 0 mask (p1, p2)

section Arith
variable {F : Type} [Add F] [Sub F] [Mul F] [OfNat F 1]

/-- The `multizip((parent1, parent2, alphas)).enumerate()` loop of `arithmetic_crossover`. -/
def axLoop : Nat → List F → List F → List F → List F × List F → List F × List F
  | i, a :: as, b :: bs, al :: als, (c1, c2) =>
    axLoop (i + 1) as bs als (c1.set i (al * a + (1 - al) * b), c2.set i (al * b + (1 - al) * a))
  | _, _, _, _, c => c

/-- `arithmetic_crossover` with its two contracts. -/
def arithmeticCrossover (p1 p2 alphas : List F) : Option (List F × List F) :=
  if alphas.length < p1.length then none
  else if alphas.length < p2.length then none
  else some (axLoop 0 p1 p2 alphas (p1, p2))
end Arith

section Cycle
variable [BEq α]

/-- `iter().position(|r| r == x)`. -/
def position (l : List α) (x : α) : Option Nat := l.findIdx? (· == x)

/-- `valid_permutation`: all elements distinct. -/
def validPermutation : List α → Bool
  | [] => true
  | x :: xs => !xs.contains x && validPermutation xs

/-- `while cycles[pos] < 0 { cycles[pos] = n; pos = parent1.position(parent2[pos]).unwrap() }`.
Every pass marks one more negative entry, so `cycles.length + 1` units of fuel always suffice. -/
def ccWhile (p1 p2 : List α) (cn : Int) : Nat → Nat → List Int → Option (List Int)
  | 0, _, _ => none
  | fuel + 1, pos, cycles =>
    match cycles[pos]? with
    | none => none
    | some c =>
      if c < 0 then
        match p2[pos]? with
        | none => none
        | some x =>
          match position p1 x with
          | none => none                                   -- `.unwrap()` on `None`
          | some pos' => ccWhile p1 p2 cn fuel pos' (cycles.set pos cn)
      else some cycles

/-- `for pos in 0..len { while …; cycle_number += 1 }`. -/
def ccFor (p1 p2 : List α) : List Nat → Int → List Int → Option (List Int)
  | [], _, cycles => some cycles
  | start :: rest, cn, cycles =>
    match ccWhile p1 p2 cn (cycles.length + 1) start cycles with
    | some cycles' => ccFor p1 p2 rest (cn + 1) cycles'
    | none => none

/-- `for (p1, p2, n) in multizip(..) { if n % 2 != 0 { (p1, p2) } else { (p2, p1) } }`. -/
def ccChildren : List α → List α → List Int → List α × List α
  | a :: as, b :: bs, n :: ns =>
    let (c1, c2) := ccChildren as bs ns
    if n % 2 != 0 then (a :: c1, b :: c2) else (b :: c1, a :: c2)
  | _, _, _ => ([], [])

/-- `cycle_crossover` with its three contracts. -/
def cycleCrossover (p1 p2 : List α) : Option (List α × List α) :=
  if p1.length ≠ p2.length then none
  else if !validPermutation p1 then none
  else if !validPermutation p2 then none
  else
    match ccFor p1 p2 (List.range p1.length) 1 (List.replicate p1.length (-1)) with
    | some cycles => some (ccChildren p1 p2 cycles)
    | none => none
end Cycle

/-! ## 3. Executable property predicates for the helpers (step O) -/

def allBelow (idx : List Nat) (n : Nat) : Bool := idx.all (· < n)

def nodupNat : List Nat → Bool
  | [] => true
  | x :: xs => !xs.contains x && nodupNat xs

/-- A valid input of the circular swaps: at least two, distinct, in-range indices. -/
def cswapValid (len : Nat) (idx : List Nat) : Bool :=
  decide (2 ≤ idx.length) && nodupNat idx && allBelow idx len

/-- Closed form: the element at `i_k` moves to `i_{(k+1) mod n}`, everything else stays. -/
def cswapSpec [Inhabited α] (l : List α) (idx : List Nat) : List α :=
  (List.range l.length).map fun p =>
    if idx.contains p then
      let k := idx.idxOf p
      l[idx[(k + idx.length - 1) % idx.length]!]!
    else l[p]!

/-- What the property demands of the pair of outputs of `circular_swap`/`circular_swap2`. -/
def cswapHolds (l : List Nat) (idx : List Nat) (r1 r2 : Option (List Nat)) : Bool :=
  if cswapValid l.length idx then
    match r1, r2 with
    | some a, some b => a == b && a.isPerm l && a == cswapSpec l idx
    | _, _ => false
  else true

/-- A valid input of the translocation helpers = the code's own contracts plus a well-formed,
fitting range. -/
def translocValid (len s e i : Nat) : Bool :=
  translocContract len s e i && decide (s ≤ e) && decide (i + (e - s) ≤ len)

/-- Specification: take the slice out, put it back at `index` of the remainder. -/
def translocSpec (l : List α) (s e i : Nat) : List α :=
  let rest := l.take s ++ l.drop e
  rest.take i ++ (l.drop s).take (e - s) ++ rest.drop i

def translocHolds (l : List Nat) (s e i : Nat) (r1 r2 : Option (List Nat)) : Bool :=
  if translocValid l.length s e i then
    match r1, r2 with
    | some a, some b => a == b && a.isPerm l && a == translocSpec l s e i
    | _, _ => false
  else true

/-- Position-wise: each position of the children holds the two parental genes of that position. -/
def genesConserved [BEq α] (p1 p2 c1 c2 : List α) : Bool :=
  c1.length == p1.length && c2.length == p2.length && p1.length == p2.length &&
  (List.range p1.length).all fun i =>
    match p1[i]?, p2[i]?, c1[i]?, c2[i]? with
    | some a, some b, some x, some y => (x == a && y == b) || (x == b && y == a)
    | _, _, _, _ => false

def mpxValid (len1 len2 : Nat) (idx : List Nat) : Bool :=
  decide (len1 = len2) && !idx.isEmpty && decide (idx.length < len1) && allBelow idx (len1 + 1)

/-- Closed form of the multi-point crossover on parents of equal length: position `i` comes from
the other parent iff an odd number of cut points is `≤ i`. -/
def mpxSpec (p1 p2 : List α) (idx : List Nat) : List α × List α :=
  let pick := fun (i : Nat) => (idx.countP (· ≤ i)) % 2 == 1
  ((List.range p1.length).zipWith (fun i (ab : α × α) => if pick i then ab.2 else ab.1) (p1.zip p2),
   (List.range p1.length).zipWith (fun i (ab : α × α) => if pick i then ab.1 else ab.2) (p1.zip p2))

def mpxHolds (p1 p2 : List Nat) (idx : List Nat) (r : Option (List Nat × List Nat)) : Bool :=
  if mpxValid p1.length p2.length idx then
    match r with
    | some (c1, c2) => genesConserved p1 p2 c1 c2 && (c1, c2) == mpxSpec p1 p2 idx
    | none => false
  else true

def uxValid (len1 len2 : Nat) (mask : List Bool) : Bool :=
  decide (len1 = len2) && decide (mask.length = len1)

def uxSpec (p1 p2 : List α) (mask : List Bool) : List α × List α :=
  (mask.zipWith (fun m (ab : α × α) => if m then ab.2 else ab.1) (p1.zip p2),
   mask.zipWith (fun m (ab : α × α) => if m then ab.1 else ab.2) (p1.zip p2))

def uxHolds (p1 p2 : List Nat) (mask : List Bool) (r : Option (List Nat × List Nat)) : Bool :=
  if uxValid p1.length p2.length mask then
    match r with
    | some (c1, c2) => genesConserved p1 p2 c1 c2 && (c1, c2) == uxSpec p1 p2 mask
    | none => false
  else true

/-- Cycle crossover is specified on two permutations of the same elements. -/
def cxValid (p1 p2 : List Nat) : Bool := nodupNat p1 && p1.isPerm p2

def cxHolds (p1 p2 : List Nat) (r : Option (List Nat × List Nat)) : Bool :=
  if cxValid p1 p2 then
    match r with
    | some (c1, c2) => genesConserved p1 p2 c1 c2 && c1.isPerm p1 && c2.isPerm p1
    | none => false
  else true

/-! ## 4. Components as functions of explicit witnesses (DESIGN §5.5)

`execute` outcomes: `ok v`, `err` (an `ensure!`/`Err` return), `panic`. -/

inductive Outcome (β : Type) where
  | ok (v : β) | err | panic
  deriving Repr, BEq, DecidableEq

/-- Sequencing of per-solution outcomes over a population (the `for solution in …` loops). -/
def Outcome.mapPop {β γ : Type} (f : β → γ → Outcome β) : List β → List γ → Outcome (List β)
  | x :: xs, w :: ws =>
    match f x w with
    | .ok y =>
      match Outcome.mapPop f xs ws with
      | .ok ys => .ok (y :: ys)
      | .err => .err
      | .panic => .panic
    | .err => .err
    | .panic => .panic
  | xs, _ => .ok xs

/-! ### 4.1 rate-gated real / bit mutations (`if rng.gen_bool(rm) { *x = … }`) -/

/-- The gate fired on the positions of `mask`; there the coordinate is replaced by `vals`. -/
def gated : List Bool → List α → List α → List α
  | m :: ms, v :: vs, x :: xs => (if m then v else x) :: gated ms vs xs
  | _, _, xs => xs

/-- `gen_bool(0)` never fires, `gen_bool(1)` always fires. -/
def maskLegal (rmZero rmOne : Bool) (mask : List Bool) (n : Nat) : Bool :=
  mask.length == n && (!rmZero || mask.all (!·)) && (!rmOne || mask.all id)

/-- `NormalMutation` / `UniformMutation`: `*x += delta`. -/
def addDeltas {F : Type} [Add F] (mask : List Bool) (deltas sol : List F) : List F :=
  gated mask (List.zipWith (· + ·) sol deltas) sol

/-- `BitFlipMutation`: `*x = !*x`. -/
def bitFlip (mask : List Bool) (sol : List Bool) : List Bool := gated mask (sol.map (!·)) sol

/-- `PartialRandomSpread` / `PartialRandomBitstring`: `*x = fresh value`. -/
def resample (mask : List Bool) (fresh sol : List α) : List α := gated mask fresh sol

/-- How a parameter value looks to the guards: a finite number of the carrier, `±∞` or NaN. -/
inductive Param (F : Type) where
  | fin (x : F) | posInf | negInf | nan
  deriving Repr, DecidableEq

section Guards
variable {F : Type} [LE F] [DecidableLE F] [OfNat F 0] [OfNat F 1] [OfNat F 2]

/-- `MutationRate::value`: `ensure!((0.0..=1.0).contains(&rm))`. -/
def rateGuard : Param F → Bool
  | .fin x => decide (0 ≤ x) && decide (x ≤ 1)
  | _ => false

/-- `Normal::new(0., σ)` (rand_distr 0.4.3) fails exactly for a non-finite `σ`; a negative `σ` is accepted. -/
def normalStrengthGuard : Param F → Bool
  | .fin _ => true
  | _ => false

/-- `UniformMutation`: `ensure!(bound >= 0.)`, then `Uniform::new_inclusive(0., bound)`, which panics
for an infinite bound (a finite bound is assumed not to overflow the sampler's scale). -/
def uniformBoundGuard : Param F → Outcome Unit
  | .fin x => if 0 ≤ x then .ok () else .err
  | .posInf => .panic
  | _ => .err

/-- `NormalMutation::execute`: strength first, then rate. -/
def normalExec {β : Type} (strength rate : Param F) (result : β) : Outcome β :=
  if !normalStrengthGuard strength then .err else if !rateGuard rate then .err else .ok result

/-- `UniformMutation::execute`: bound guard, sampler construction, then rate. -/
def uniformExec {β : Type} (bound rate : Param F) (result : β) : Outcome β :=
  match uniformBoundGuard bound with
  | .err => .err
  | .panic => .panic
  | .ok _ => if rateGuard rate then .ok result else .err

/-- `BitFlipMutation`, `PartialRandomSpread`, `PartialRandomBitstring`, `ScrambleMutation`: only the rate is guarded
(`PartialRandomBitstring`'s `gen_bool(p)` panics for `p ∉ [0,1]` as soon as a gate fires). -/
def rateExec {β : Type} (rate : Param F) (result : β) : Outcome β :=
  if rateGuard rate then .ok result else .err

/-- `SwapMutation::from_params`: `ensure!(num_swap >= 2)`. -/
def swapCtorGuard (numSwap : Nat) : Bool := decide (2 ≤ numSwap)

/-- `DEMutation::from_params`: `y ∈ {1,2}` and `(0.0..=2.0).contains(&f)`. -/
def deCtorGuard (y : Nat) : Param F → Bool
  | .fin f => (y == 1 || y == 2) && decide (0 ≤ f) && decide (f ≤ 2)
  | _ => false
end Guards

/-! ### 4.2 permutation mutations -/

/-- `SwapMutation::execute` on one solution; witness = the `num_swap` sampled indices. -/
def swapMutation (numSwap : Nat) (sol : List α) (w : List Nat) : Outcome (List α) :=
  if sol.length < numSwap then .err
  else match circularSwap sol w with
    | some r => .ok r
    | none => .panic

def swapLegal (numSwap n : Nat) (w : List Nat) : Bool :=
  w.length == numSwap && nodupNat w && allBelow w n

/-- `solution[start..end].reverse()`. -/
def reverseSlice (sol : List α) (s e : Nat) : Option (List α) :=
  if e < s ∨ sol.length < e then none
  else some (sol.take s ++ ((sol.drop s).take (e - s)).reverse ++ sol.drop e)

/-- `InversionMutation`: `choose_multiple(2)` yields two indices only if the solution has two
positions; otherwise the `if let [start, end]` does not match and nothing happens. -/
def inversionMutation (sol : List α) (w : Option (Nat × Nat)) : Option (List α) :=
  match w with
  | none => some sol
  | some (s, e) => reverseSlice sol s e

def inversionLegal (n : Nat) (w : Option (Nat × Nat)) : Bool :=
  match w with
  | none => n < 2
  | some (s, e) => decide (2 ≤ n) && decide (s < e) && decide (e < n)

/-- `InsertionMutation`: `translocate_slice(solution, element..element + 1, index)`. -/
def insertionMutation (sol : List α) (w : Nat × Nat) : Option (List α) :=
  translocateSlice sol w.1 (w.1 + 1) w.2

def insertionLegal (n : Nat) (w : Nat × Nat) : Bool := decide (w.1 < n) && decide (w.2 < n)

/-- `TranslocationMutation`: two sorted distinct indices and `index ∈ 0..=len-(end-start)`. -/
def translocationMutation (sol : List α) (w : Option (Nat × Nat × Nat)) : Option (List α) :=
  match w with
  | none => some sol
  | some (s, e, i) => translocateSlice sol s e i

def translocationLegal (n : Nat) (w : Option (Nat × Nat × Nat)) : Bool :=
  match w with
  | none => n < 2
  | some (s, e, i) => decide (2 ≤ n) && decide (s < e) && decide (e < n) && decide (i + (e - s) ≤ n)

/-- `slice.shuffle(rng)` as a function of its witness: `σ[k]` = source position of the element at `k`. -/
def permuteBy (σ : List Nat) (l : List α) : Option (List α) := σ.mapM (l[·]?)

/-- `ScrambleMutation`: `if gen_bool(rm) { solution.shuffle(rng) }`. -/
def scrambleMutation (sol : List α) (σ : List Nat) : Option (List α) := permuteBy σ sol

def scrambleLegal (rmZero : Bool) (n : Nat) (σ : List Nat) : Bool :=
  σ.isPerm (List.range n) && (!rmZero || σ == List.range n)

/-! ### 4.3 the `recombination` frame (recombination/mod.rs) -/

inductive OptPair (β : Type) where
  | none | single (c : β) | both (c1 c2 : β)
  deriving Repr, BEq, DecidableEq

/-- `OptionalPair::from_pair`. -/
def OptPair.fromPair {β : Type} (c : β × β) (both : Bool) : OptPair β :=
  if both then .both c.1 c.2 else .single c.1

/-- `if rng.gen::<f64>() < self.pc`: the crossover decision for the uniform draw `u ∈ [0,1)`. -/
def crossedBy {F : Type} [LT F] [DecidableLT F] (u pc : F) : Bool := decide (u < pc)

/-- One `recombine` call: the uniform draw `u`; crossover happens iff `u < pc` (`crossed`);
a panicking crossover helper is `none`. -/
def recombine {β : Type} (crossed : Bool) (children : Option (β × β)) (insertBoth : Bool) : Option (OptPair β) :=
  if crossed then children.map (OptPair.fromPair · insertBoth) else some .none

/-- `NPointCrossover::recombine`: `dim = min(len1, len2)`, `indices = (0..dim).choose_multiple(rng, n)`
(the witness `cuts`: `min n dim` distinct positions below `dim`), then `multi_point_crossover`.
`NPointCrossover::new` accepts every `n`. -/
def nPointRecombine (crossed : Bool) (cuts : List Nat) (insertBoth : Bool) (p1 p2 : List α) :
    Option (OptPair (List α)) :=
  recombine crossed (multiPointCrossover p1 p2 cuts) insertBoth

def nPointLegal (n dim : Nat) (cuts : List Nat) : Bool :=
  cuts.length == min n dim && nodupNat cuts && allBelow cuts dim

/-- `UniformCrossover::recombine`: a mask of `min(len1, len2)` fair coin flips. -/
def uniformRecombine (crossed : Bool) (mask : List Bool) (insertBoth : Bool) (p1 p2 : List α) :
    Option (OptPair (List α)) :=
  recombine crossed (uniformCrossover p1 p2 mask) insertBoth

/-- `for chunk in solutions.chunks(2)`: a pair yields both parents / one child / two children, an
odd remainder passes through. `rs` = the results of the successive `recombine` calls. -/
def frame {β : Type} : List β → List (OptPair β) → List β
  | p1 :: p2 :: rest, r :: rs =>
    match r with
    | .none => p1 :: p2 :: frame rest rs
    | .single c => c :: frame rest rs
    | .both c1 c2 => c1 :: c2 :: frame rest rs
  | ps, _ => ps

/-- Number of `recombine` calls on a population of `n` parents. -/
def numPairs (n : Nat) : Nat := n / 2

def countNone {β : Type} : List (OptPair β) → Nat
  | [] => 0
  | .none :: rs => countNone rs + 1
  | _ :: rs => countNone rs
def countSingle {β : Type} : List (OptPair β) → Nat
  | [] => 0
  | .single _ :: rs => countSingle rs + 1
  | _ :: rs => countSingle rs
def countBoth {β : Type} : List (OptPair β) → Nat
  | [] => 0
  | .both _ _ :: rs => countBoth rs + 1
  | _ :: rs => countBoth rs

/-! ### 4.4 Differential evolution -/

section DE
variable {F : Type} [Add F] [Sub F] [Mul F]

/-- `for (x, s1, s2) in multizip((base.iter_mut(), s1, s2)) { *x += f * (s1 - s2) }`. -/
def deAdd (f : F) : List F → List F → List F → List F
  | x :: xs, a :: as, b :: bs => (x + f * (a - b)) :: deAdd f xs as bs
  | xs, _, _ => xs

/-- The pairs of the remainder of a chunk, applied to the base in order. -/
def dePairs (f : F) (base : List F) : List (List F) → List F
  | s1 :: s2 :: rest => dePairs f (deAdd f base s1 s2) rest
  | _ => base

/-- `chunks_exact_mut(size)`: one mutated base per full chunk (`fuel` ≥ number of chunks). -/
def deChunks (f : F) (size : Nat) : Nat → List (List F) → List (List F)
  | 0, _ => []
  | fuel + 1, pop =>
    if pop.length < size ∨ size = 0 then []
    else
      match pop.take size with
      | base :: remainder => dePairs f base remainder :: deChunks f size fuel (pop.drop size)
      | [] => []

/-- `DEMutation::execute`: `Err` unless the population length is a multiple of `2y+1`; afterwards
`retain(i % size == 0)` keeps exactly the mutated bases. -/
def deMutation (y : Nat) (f : F) (pop : List (List F)) : Outcome (List (List F)) :=
  let size := y * 2 + 1
  if pop.length % size ≠ 0 then .err else .ok (deChunks f size pop.length pop)
end DE

/-- DE crossovers write `mutation[i] = base[i]` on the positions of `mask`
(indexing `0..dimension`: a solution shorter than the dimension panics). -/
def deCross (dim : Nat) (mask : List Bool) (mutant base : List α) : Option (List α) :=
  if mutant.length < dim ∨ base.length < dim then none
  else some (gated mask base mutant)

/-- Binomial: the forced index guarantees at least one position; `pc = 1` takes all, `pc = 0`
(all draws positive) only the forced one. -/
def deBinLegal (pcZero pcOne : Bool) (dim : Nat) (mask : List Bool) : Bool :=
  mask.length == dim && mask.any id && (!pcOne || mask.all id) && (!pcZero || mask.count true == 1)

/-- The positions `start, start+1, … (mod dim)` of a cyclic run of length `run`. -/
def cyclicRun (dim start run : Nat) : List Bool :=
  (List.range dim).map fun i => decide ((i + dim - start) % dim < run)

/-- Exponential: a cyclic run of length `1..=dim` from the sampled index; `pc = 0` stops after one,
`pc = 1` only when the run closes. -/
def deExpLegal (pcZero pcOne : Bool) (dim : Nat) (mask : List Bool) : Bool :=
  (List.range dim).any fun start => (List.range dim).any fun r =>
    mask == cyclicRun dim start (r + 1) && (!pcOne || r + 1 == dim) && (!pcZero || r == 0)

/-- `gen_range(0..problem.dimension())` panics for a zero-dimensional problem as soon as there is a
(mutant, base) pair to cross; otherwise `deCross` per pair. -/
def deCrossExec (dim : Nat) (mask : List Bool) (mutant base : List α) : Option (List α) :=
  if dim = 0 then none else deCross dim mask mutant base

/-! ## 5. Parameters in the state: `init`, run-time adaptation, `execute` reads the STATE

`Component::init` of the rate-gated mutations inserts `MutationStrength<Self>` / `MutationRate<Self>`
with the constructor's values; anything may overwrite them afterwards (`set_value`, a mapping
component as in `heuristics/iwo.rs`); `execute` reads the values from the state, never `self.*`. -/

/-- The two adaptable states of one component instance. -/
structure MutParams (F : Type) where
  strength : Param F
  rate : Param F

/-- `init`: `state.insert(MutationStrength::<Self>::new(self.std_dev)); state.insert(MutationRate::<Self>::new(self.rm))`. -/
def mutInit {F : Type} (strength rate : Param F) : MutParams F := ⟨strength, rate⟩

/-- Whatever happens between `init` and `execute`: each state is kept (`none`) or overwritten. -/
def mutAdapt {F : Type} (s : MutParams F) (newStrength newRate : Option (Param F)) : MutParams F :=
  ⟨newStrength.getD s.strength, newRate.getD s.rate⟩

section StateRuns
variable {F : Type} [LE F] [DecidableLE F] [OfNat F 0] [OfNat F 1] [OfNat F 2]

/-- `gen_bool(rm)` never fires: the rate is the number 0. -/
def rateIsZero : Param F → Bool
  | .fin x => decide (x ≤ 0) && decide (0 ≤ x)
  | _ => false

/-- `gen_bool(rm)` always fires: the rate is the number 1. -/
def rateIsOne : Param F → Bool
  | .fin x => decide (x ≤ 1) && decide (1 ≤ x)
  | _ => false

/-- The rate-gated loop over the whole population: one mask and one list of replacement values per
solution (`for solution in population { for x in solution { if gen_bool(rm) { *x = … } } }`). -/
def gatedPop : List (List Bool) → List (List α) → List (List α) → List (List α)
  | m :: ms, v :: vs, s :: ss => gated m v s :: gatedPop ms vs ss
  | _, _, ss => ss

/-- Legal witness of a whole execution: one legal mask per solution. -/
def masksLegal (rate : Param F) : List (List Bool) → List (List α) → Bool
  | m :: ms, s :: ss => maskLegal (rateIsZero rate) (rateIsOne rate) m s.length && masksLegal rate ms ss
  | [], [] => true
  | _, _ => false

/-- `init` with the constructor's values, adaptation, then `NormalMutation::execute` on the state. -/
def normalRun (ctorStrength ctorRate : Param F) (newStrength newRate : Option (Param F))
    (masks : List (List Bool)) (vals pop : List (List α)) : Outcome (List (List α)) :=
  let st := mutAdapt (mutInit ctorStrength ctorRate) newStrength newRate
  normalExec st.strength st.rate (gatedPop masks vals pop)

/-- Likewise `UniformMutation`. -/
def uniformRun (ctorBound ctorRate : Param F) (newBound newRate : Option (Param F))
    (masks : List (List Bool)) (vals pop : List (List α)) : Outcome (List (List α)) :=
  let st := mutAdapt (mutInit ctorBound ctorRate) newBound newRate
  uniformExec st.strength st.rate (gatedPop masks vals pop)

/-- `BitFlipMutation`, `PartialRandomSpread`, `PartialRandomBitstring`: only a rate is stored. -/
def rateRun (ctorRate : Param F) (newRate : Option (Param F))
    (masks : List (List Bool)) (vals pop : List (List α)) : Outcome (List (List α)) :=
  let st := mutAdapt (mutInit ctorRate ctorRate) none newRate
  rateExec st.rate (gatedPop masks vals pop)
end StateRuns

/-! ## 6. Constructors: which parameters each public constructor stores -/

/-- The public constructors of the rate-gated mutations (`new`, `new_with_id`, `from_params` store
their arguments unchanged). -/
inductive MutCtor where
  | new            -- `new`, `new_with_id::<I>`, `from_params`
  | newDev         -- `NormalMutation::new_dev(std_dev)`          : rate 1
  | newBound       -- `UniformMutation::new_bound(bound)`        : rate 1
  | newFull        -- `PartialRandomSpread::new_full()`, `ScrambleMutation::new_full()`, `PartialRandomBitstring::new_full(p)` : rate 1
  | newUniform     -- `PartialRandomBitstring::new_uniform(rm)`  : p = 0.5
  | newUniformFull -- `PartialRandomBitstring::new_uniform_full()` : p = 0.5, rate 1
  deriving Repr, DecidableEq

/-- `(p, rate)` stored by a constructor called with `(p, rate)` (arguments the constructor does not
take are ignored); `half` is the literal `0.5`. -/
def mutCtorParams {F : Type} [OfNat F 1] (half : F) (c : MutCtor) (p rate : F) : F × F :=
  match c with
  | .new => (p, rate)
  | .newDev | .newBound | .newFull => (p, 1)
  | .newUniform => (half, rate)
  | .newUniformFull => (half, 1)

/-- The constructors of the four crossover components. -/
inductive RecCtor where
  | new | newInsertSingle | newInsertBoth
  deriving Repr, DecidableEq

/-- The `insert_both` flag a crossover constructor stores. -/
def recCtorBoth (c : RecCtor) (both : Bool) : Bool :=
  match c with
  | .new => both
  | .newInsertSingle => false
  | .newInsertBoth => true

/-! ## 7. `recombination()` as a whole (recombination/mod.rs:51-88)

`pop`, `for chunk in solutions.chunks(2)`, one `recombine` call per pair, `push`. A panic inside a
`recombine` call (helper contract) aborts the whole execution: `none`. -/

/-- What a pair contributes to the new population. -/
def emitPair {β : Type} (p1 p2 : β) : OptPair β → List β
  | .none => [p1, p2]
  | .single c => [c]
  | .both c1 c2 => [c1, c2]

/-- `recombination(component, …)`: `rec p1 p2 w` is the component's `recombine` on the pair as a
function of the pair's witness `w`; an odd remainder passes through. -/
def recombinationRun {β W : Type} (rec : β → β → W → Option (OptPair β)) : List β → List W → Option (List β)
  | p1 :: p2 :: rest, w :: ws =>
    match rec p1 p2 w with
    | none => none
    | some r =>
      match recombinationRun rec rest ws with
      | none => none
      | some out => some (emitPair p1 p2 r ++ out)
  | ps, _ => some ps

/-- `recombine` of the four shipped crossovers: the uniform draw `u` decides through `u < pc`, the
helper (a function of the rest of the witness) is called only when the pair is crossed. -/
def gateRecombine {β W F : Type} [LT F] [DecidableLT F] (pc : F) (insertBoth : Bool)
    (helper : β → β → W → Option (β × β)) (p1 p2 : β) (w : F × W) : Option (OptPair β) :=
  if crossedBy w.1 pc then (helper p1 p2 w.2).map (OptPair.fromPair · insertBoth) else some .none

/-! ## 8. `mutation()` — the default `execute` for implementors of `Mutation` (mutation/mod.rs:44-57)

`pop`; `for solution in population { component.mutate(solution, …)? }`; `push`. The `?` returns before
the `push`: on the first `Err` the population is gone and the stack is one lower. -/

/-- The loop: solutions mutated so far, or the first `Err`. -/
def mutateAll {β : Type} (mutate : β → Option β) : List β → Option (List β)
  | [] => some []
  | x :: xs =>
    match mutate x with
    | none => none
    | some y => (mutateAll mutate xs).map (y :: ·)

/-- `mutation()` on a stack of populations (top first): result flag (`true` = `Ok`) and the stack afterwards;
an empty stack panics in `pop` (`none`). -/
def mutationRun {β : Type} (mutate : β → Option β) : List (List β) → Option (Bool × List (List β))
  | [] => none
  | top :: rest =>
    match mutateAll mutate top with
    | some top' => some (true, top' :: rest)
    | none => some (false, rest)

end MahfModel.Variation
