/-
C13 — model of the variation operators of mahf:
  * functional helpers  src/components/mutation/functional.rs, src/components/recombination/functional.rs
  * components          src/components/mutation/{common,de}.rs, src/components/recombination/{mod,common,de}.rs

Code-shaped: slices are lists, every Rust panic (contract violation, index out of bounds, slice
range error, `unwrap` on `None`, arithmetic overflow) is the outcome `none`.  Randomised
components are functions of an explicit witness (chosen indices, masks, draws).
Numeric code is generic over the carrier `F` (core classes only).
-/
import MahfModel.Model.Sexp
namespace MahfModel.Variation

variable {α : Type}

/-! ## 1. mutation/functional.rs -/

/-- `slice.swap(i, j)`: panics when an index is out of range. -/
def swapAt (l : List α) (i j : Nat) : Option (List α) :=
  match l[i]?, l[j]? with
  | some a, some b => some ((l.set i b).set j a)
  | _, _ => none

/-- A sequence of `swap` calls. -/
def swapPairs (l : List α) : List (Nat × Nat) → Option (List α)
  | [] => some l
  | (i, j) :: ps =>
    match swapAt l i j with
    | some l' => swapPairs l' ps
    | none => none

/-- itertools `circular_tuple_windows::<(_, _)>()`: `(x₀,x₁), …, (x_{n-2},x_{n-1}), (x_{n-1},x₀)`. -/
def circularWindows (xs : List Nat) : List (Nat × Nat) :=
  match xs with
  | [] => []
  | x :: rest => xs.zip (rest ++ [x])

/-- `circular_swap`: contract `indices.len() > 1`, then
`for (i, j) in indices.iter().rev().circular_tuple_windows().skip(1) { permutation.swap(i, j) }`. -/
def circularSwap (l : List α) (indices : List Nat) : Option (List α) :=
  if indices.length ≤ 1 then none
  else swapPairs l ((circularWindows indices.reverse).drop 1)

/-- The `for _ in 0..n-2` loop of `circular_swap2`: swap the last two buffer entries, drop the last. -/
def circularSwap2Loop (l : List α) (buffer : List Nat) : Nat → Option (List α)
  | 0 => some l
  | k + 1 =>
    match buffer[buffer.length - 1]?, buffer[buffer.length - 2]? with
    | some x, some y =>
      match swapAt l x y with
      | some l' => circularSwap2Loop l' buffer.dropLast k
      | none => none
    | _, _ => none

/-- `circular_swap2`. -/
def circularSwap2 (l : List α) (indices : List Nat) : Option (List α) :=
  if indices.length ≤ 1 then none
  else
    let n := indices.length
    match indices[n - 1]?, indices[0]? with
    | some x, some y =>
      match swapAt l x y with
      | some l' => if n > 2 then circularSwap2Loop l' indices (n - 2) else some l'
      | none => none
    | _, _ => none

/-- `slice.rotate_right(k)` (requires `k ≤ len`). -/
def rotRight (l : List α) (k : Nat) : Option (List α) :=
  if k ≤ l.length then some (l.drop (l.length - k) ++ l.take (l.length - k)) else none

/-- `slice.rotate_left(k)` (requires `k ≤ len`). -/
def rotLeft (l : List α) (k : Nat) : Option (List α) :=
  if k ≤ l.length then some (l.drop k ++ l.take k) else none

/-- The three `contracts::requires` shared by both translocation helpers. -/
def translocContract (len s e i : Nat) : Bool :=
  decide (i < len) && decide (s < len) && decide (e ≤ len)

/-- `translocate_slice(permutation, s..e, index)`. `e - s` overflows (panic) when `e < s`. -/
def translocateSlice (l : List α) (s e i : Nat) : Option (List α) :=
  if !translocContract l.length s e i then none
  else if e < s then none                              -- `range.end - range.start` underflow
  else
    let chunk := e - s
    if ¬ (i + chunk ≤ l.length) then none               -- assert!
    else if i < s then                                  -- permutation[i..e].rotate_right(chunk)
      match rotRight ((l.drop i).take (e - i)) chunk with
      | some seg => some (l.take i ++ seg ++ l.drop e)
      | none => none
    else if s < i then                                  -- permutation[s..i+chunk].rotate_left(chunk)
      match rotLeft ((l.drop s).take (i + chunk - s)) chunk with
      | some seg => some (l.take s ++ seg ++ l.drop (i + chunk))
      | none => none
    else some l

/-- `translocate_slice2`: the assertion computes `(index + end) - start`; `drain(s..e)` panics when
`e < s`; then `splice(index..index, slice)`. -/
def translocateSlice2 (l : List α) (s e i : Nat) : Option (List α) :=
  if !translocContract l.length s e i then none
  else if i + e < s then none                           -- subtraction underflow inside the assert
  else if ¬ (i + e - s ≤ l.length) then none            -- assert!
  else if e < s then none                               -- drain: slice index starts after its end
  else
    let copy := l.take s ++ l.drop e
    let slice := (l.drop s).take (e - s)
    if copy.length < i then none                        -- splice range out of bounds
    else some (copy.take i ++ slice ++ copy.drop i)

/-! ## 2. recombination/functional.rs -/

/-- `child2[idx..].swap_with_slice(&mut child1[idx..])`. -/
def swapTails (c1 c2 : List α) (idx : Nat) : Option (List α × List α) :=
  if c1.length < idx ∨ c2.length < idx then none
  else if c1.length - idx ≠ c2.length - idx then none
  else some (c1.take idx ++ c2.drop idx, c2.take idx ++ c1.drop idx)

/-- `child2[..idx].swap_with_slice(&mut child1[..idx])`. -/
def swapHeads (c1 c2 : List α) (idx : Nat) : Option (List α × List α) :=
  if c1.length < idx ∨ c2.length < idx then none
  else some (c2.take idx ++ c1.drop idx, c1.take idx ++ c2.drop idx)

/-- The `for (i, &idx) in indices.iter().enumerate()` loop of `multi_point_crossover`. -/
def mpxLoop (p1 p2 : List α) (n : Nat) : Nat → List Nat → List α × List α → Option (List α × List α)
  | _, [], c => some c
  | i, idx :: rest, (c1, c2) =>
    if p1.length ≠ p2.length then
      if i < n - 1 then
        match swapHeads c1 c2 idx with
        | some c => mpxLoop p1 p2 n (i + 1) rest c
        | none => none
      else if p1.length < idx ∨ p2.length < idx then none   -- `&parent[idx..]`
      else mpxLoop p1 p2 n (i + 1) rest (c1.take idx ++ p2.drop idx, c2.take idx ++ p1.drop idx)
    else
      match swapTails c1 c2 idx with
      | some c => mpxLoop p1 p2 n (i + 1) rest c
      | none => none

/-- `multi_point_crossover` with its three contracts. -/
def multiPointCrossover (p1 p2 : List α) (indices : List Nat) : Option (List α × List α) :=
  if indices.isEmpty then none
  else if ¬ indices.length < p1.length then none
  else if ¬ indices.length < p2.length then none
  else mpxLoop p1 p2 indices.length 0 indices (p1, p2)

/-- The `for (i, &value) in mask.iter().enumerate()` loop of `uniform_crossover`. -/
def uxLoop : Nat → List Bool → List α × List α → Option (List α × List α)
  | _, [], c => some c
  | i, m :: rest, (c1, c2) =>
    if m then
      match c1[i]?, c2[i]? with
      | some a, some b => uxLoop (i + 1) rest (c1.set i b, c2.set i a)
      | _, _ => none
    else uxLoop (i + 1) rest (c1, c2)

/-- `uniform_crossover` with its two contracts. -/
def uniformCrossover (p1 p2 : List α) (mask : List Bool) : Option (List α × List α) :=
  if mask.length < p1.length then none
  else if mask.length < p2.length then none
  else uxLoop 0 mask (p1, p2)

section Arith
variable {F : Type} [Add F] [Sub F] [Mul F] [OfNat F 1]

/-- The `multizip((parent1, parent2, alphas)).enumerate()` loop of `arithmetic_crossover`. -/
def axLoop : Nat → List F → List F → List F → List F × List F → List F × List F
  | i, a :: as, b :: bs, al :: als, (c1, c2) =>
    axLoop (i + 1) as bs als (c1.set i (al * a + (1 - al) * b), c2.set i (al * b + (1 - al) * a))
  | _, _, _, _, c => c

/-- `arithmetic_crossover` with its two contracts. -/
def arithmeticCrossover (p1 p2 alphas : List F) : Option (List F × List F) :=
  if alphas.length < p1.length then none
  else if alphas.length < p2.length then none
  else some (axLoop 0 p1 p2 alphas (p1, p2))
end Arith

section Cycle
variable [BEq α]

/-- `iter().position(|r| r == x)`. -/
def position (l : List α) (x : α) : Option Nat := l.findIdx? (· == x)

/-- `valid_permutation`: all elements distinct. -/
def validPermutation : List α → Bool
  | [] => true
  | x :: xs => !xs.contains x && validPermutation xs

/-- `while cycles[pos] < 0 { cycles[pos] = n; pos = parent1.position(parent2[pos]).unwrap() }`.
Every pass marks one more negative entry, so `cycles.length + 1` units of fuel always suffice. -/
def ccWhile (p1 p2 : List α) (cn : Int) : Nat → Nat → List Int → Option (List Int)
  | 0, _, _ => none
  | fuel + 1, pos, cycles =>
    match cycles[pos]? with
    | none => none
    | some c =>
      if c < 0 then
        match p2[pos]? with
        | none => none
        | some x =>
          match position p1 x with
          | none => none                                   -- `.unwrap()` on `None`
          | some pos' => ccWhile p1 p2 cn fuel pos' (cycles.set pos cn)
      else some cycles

/-- `for pos in 0..len { while …; cycle_number += 1 }`. -/
def ccFor (p1 p2 : List α) : List Nat → Int → List Int → Option (List Int)
  | [], _, cycles => some cycles
  | start :: rest, cn, cycles =>
    match ccWhile p1 p2 cn (cycles.length + 1) start cycles with
    | some cycles' => ccFor p1 p2 rest (cn + 1) cycles'
    | none => none

/-- `for (p1, p2, n) in multizip(..) { if n % 2 != 0 { (p1, p2) } else { (p2, p1) } }`. -/
def ccChildren : List α → List α → List Int → List α × List α
  | a :: as, b :: bs, n :: ns =>
    let (c1, c2) := ccChildren as bs ns
    if n % 2 != 0 then (a :: c1, b :: c2) else (b :: c1, a :: c2)
  | _, _, _ => ([], [])

/-- `cycle_crossover` with its three contracts. -/
def cycleCrossover (p1 p2 : List α) : Option (List α × List α) :=
  if p1.length ≠ p2.length then none
  else if !validPermutation p1 then none
  else if !validPermutation p2 then none
  else
    match ccFor p1 p2 (List.range p1.length) 1 (List.replicate p1.length (-1)) with
    | some cycles => some (ccChildren p1 p2 cycles)
    | none => none
end Cycle

/-! ## 3. Executable property predicates for the helpers (step O) -/

def allBelow (idx : List Nat) (n : Nat) : Bool := idx.all (· < n)

def nodupNat : List Nat → Bool
  | [] => true
  | x :: xs => !xs.contains x && nodupNat xs

/-- A valid input of the circular swaps: at least two, distinct, in-range indices. -/
def cswapValid (len : Nat) (idx : List Nat) : Bool :=
  decide (2 ≤ idx.length) && nodupNat idx && allBelow idx len

/-- Closed form: the element at `i_k` moves to `i_{(k+1) mod n}`, everything else stays. -/
def cswapSpec [Inhabited α] (l : List α) (idx : List Nat) : List α :=
  (List.range l.length).map fun p =>
    if idx.contains p then
      let k := idx.idxOf p
      l[idx[(k + idx.length - 1) % idx.length]!]!
    else l[p]!

/-- What the property demands of the pair of outputs of `circular_swap`/`circular_swap2`. -/
def cswapHolds (l : List Nat) (idx : List Nat) (r1 r2 : Option (List Nat)) : Bool :=
  if cswapValid l.length idx then
    match r1, r2 with
    | some a, some b => a == b && a.isPerm l && a == cswapSpec l idx
    | _, _ => false
  else true

/-- A valid input of the translocation helpers = the code's own contracts plus a well-formed,
fitting range. -/
def translocValid (len s e i : Nat) : Bool :=
  translocContract len s e i && decide (s ≤ e) && decide (i + (e - s) ≤ len)

/-- Specification: take the slice out, put it back at `index` of the remainder. -/
def translocSpec (l : List α) (s e i : Nat) : List α :=
  let rest := l.take s ++ l.drop e
  rest.take i ++ (l.drop s).take (e - s) ++ rest.drop i

def translocHolds (l : List Nat) (s e i : Nat) (r1 r2 : Option (List Nat)) : Bool :=
  if translocValid l.length s e i then
    match r1, r2 with
    | some a, some b => a == b && a.isPerm l && a == translocSpec l s e i
    | _, _ => false
  else true

/-- Position-wise: each position of the children holds the two parental genes of that position. -/
def genesConserved [BEq α] (p1 p2 c1 c2 : List α) : Bool :=
  c1.length == p1.length && c2.length == p2.length && p1.length == p2.length &&
  (List.range p1.length).all fun i =>
    match p1[i]?, p2[i]?, c1[i]?, c2[i]? with
    | some a, some b, some x, some y => (x == a && y == b) || (x == b && y == a)
    | _, _, _, _ => false

def mpxValid (len1 len2 : Nat) (idx : List Nat) : Bool :=
  decide (len1 = len2) && !idx.isEmpty && decide (idx.length < len1) && allBelow idx (len1 + 1)

/-- Closed form of the multi-point crossover on parents of equal length: position `i` comes from
the other parent iff an odd number of cut points is `≤ i`. -/
def mpxSpec (p1 p2 : List α) (idx : List Nat) : List α × List α :=
  let pick := fun (i : Nat) => (idx.countP (· ≤ i)) % 2 == 1
  ((List.range p1.length).zipWith (fun i (ab : α × α) => if pick i then ab.2 else ab.1) (p1.zip p2),
   (List.range p1.length).zipWith (fun i (ab : α × α) => if pick i then ab.1 else ab.2) (p1.zip p2))

def mpxHolds (p1 p2 : List Nat) (idx : List Nat) (r : Option (List Nat × List Nat)) : Bool :=
  if mpxValid p1.length p2.length idx then
    match r with
    | some (c1, c2) => genesConserved p1 p2 c1 c2 && (c1, c2) == mpxSpec p1 p2 idx
    | none => false
  else true

def uxValid (len1 len2 : Nat) (mask : List Bool) : Bool :=
  decide (len1 = len2) && decide (mask.length = len1)

def uxSpec (p1 p2 : List α) (mask : List Bool) : List α × List α :=
  (mask.zipWith (fun m (ab : α × α) => if m then ab.2 else ab.1) (p1.zip p2),
   mask.zipWith (fun m (ab : α × α) => if m then ab.1 else ab.2) (p1.zip p2))

def uxHolds (p1 p2 : List Nat) (mask : List Bool) (r : Option (List Nat × List Nat)) : Bool :=
  if uxValid p1.length p2.length mask then
    match r with
    | some (c1, c2) => genesConserved p1 p2 c1 c2 && (c1, c2) == uxSpec p1 p2 mask
    | none => false
  else true

/-- Cycle crossover is specified on two permutations of the same elements. -/
def cxValid (p1 p2 : List Nat) : Bool := nodupNat p1 && p1.isPerm p2

def cxHolds (p1 p2 : List Nat) (r : Option (List Nat × List Nat)) : Bool :=
  if cxValid p1 p2 then
    match r with
    | some (c1, c2) => genesConserved p1 p2 c1 c2 && c1.isPerm p1 && c2.isPerm p1
    | none => false
  else true

end MahfModel.Variation
