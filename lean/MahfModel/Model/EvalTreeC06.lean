/-
C06 — configuration TREES with evaluation steps, run through `Configuration::run`, several runs on one `State`.

The component tree is what `Configuration::builder()` produces from
`push` / `pop` (debug components acting on the population stack), `evaluate_with::<I>()` (`PopulationEvaluator<I>`),
`scope_` (`Scope`), `while_(LessThanN::iterations(k) | LessThanN::evaluations(n))` (`Loop`) and
`if_` / `if_else_(LessThanN::evaluations(n))` (`Branch`).  The interpreter follows the code phase by phase:

* `Configuration::run` = `init` (every `PopulationEvaluator` OUTSIDE scopes inserts `Evaluations(0)`, every `Loop`
  outside scopes inserts `Iterations(0)`), `require` (every `PopulationEvaluator<I>` outside scopes demands
  `Evaluator<P, I>`; `Scope::require` is the default no-op), `execute`;
* `Scope::execute` = child registry, `init` / `require` / `execute` of the body inside it, child dropped (also on `Err`);
  populations and evaluators live in the outermost registry and are found through the parents;
* `PopulationEvaluator::execute` = `try_pop`; if there was a population: `holding::<Evaluator<P, I>>` (`Err` if it is not
  registered — the popped population is lost), `Evaluations += len` on the innermost visible counter (panics if there is
  none), push back;
* `Loop::execute` = `while cond { body; Iterations += 1 }` on the innermost visible `Iterations`;
* a second `run` on the same state starts from what the first left: the population stack and the top-level counters.

The harness adds recording debug components (`TRec`); they do not touch the state.
-/
import MahfModel.Model.PopMachineWire
namespace MahfModel.EvalTree
open MahfModel MahfModel.PopMachine

mutual
  inductive TStep (O : Type) where
    | push (p : List (Ind O))
    | pop
    | eval (id : String)
    | scope (body : TSteps O)
    /-- `while iterations < k` -/
    | loopIter (k : Nat) (body : TSteps O)
    /-- `while evaluations < n` -/
    | loopEvals (n : Nat) (body : TSteps O)
    /-- `if evaluations < n { thn } [else { els }]` -/
    | branch (n : Nat) (thn : TSteps O) (hasElse : Bool) (els : TSteps O)
  inductive TSteps (O : Type) where
    | nil
    | cons (s : TStep O) (rest : TSteps O)
end

/-- What the recording debug components write. -/
inductive TRec (O : Type) where
  /-- after an evaluation step: visible counter before / after, the objective calls made, the top population -/
  | ev (e0 e1 : Option Nat) (calls : List Nat) (top : Option (List (Ind O)))
  /-- first component of a scope body / first component after the scope -/
  | enter | leave
  /-- first component of a loop body / first component after the loop, with the visible counter -/
  | pass (e : Option Nat) | exit (e : Option Nat)
  /-- first component of the then / else arm, first component after the branch -/
  | thn | els | join

inductive Res where
  | ok | required | exec | panic | fuel
  deriving DecidableEq, Repr

inductive LoopKind where
  | iter | evals
  deriving DecidableEq, Repr

structure TSt (O : Type) where
  stack : List (List (Ind O)) := []
  /-- ghost: every solution the objective function was invoked on, over all runs -/
  calls : List Nat := []
  /-- `Evaluations` per registry level, innermost first (`none`: this level has none) -/
  counters : List (Option Nat) := [none]
  /-- `Iterations` per registry level, innermost first -/
  iters : List (Option Nat) := [none]
  recs : List (TRec O) := []
  /-- ghost: the identifiers of the evaluation steps whose evaluator was applied -/
  evalLog : List String := []

section Static
variable {O : Type}

mutual
  /-- an evaluation step outside nested scopes (its `init` inserts the counter at THIS level) -/
  def evalHere : TStep O → Bool
    | .eval _ => true
    | .scope _ => false
    | .loopIter _ b => evalHeres b
    | .loopEvals _ b => evalHeres b
    | .branch _ t he e => evalHeres t || (he && evalHeres e)
    | _ => false
  def evalHeres : TSteps O → Bool
    | .nil => false
    | .cons s r => evalHere s || evalHeres r
end

mutual
  /-- a loop outside nested scopes (its `init` inserts `Iterations(0)` at this level) -/
  def loopHere : TStep O → Bool
    | .loopIter _ _ => true
    | .loopEvals _ _ => true
    | .branch _ t he e => loopHeres t || (he && loopHeres e)
    | _ => false
  def loopHeres : TSteps O → Bool
    | .nil => false
    | .cons s r => loopHere s || loopHeres r
end

mutual
  /-- the identifiers `require` of this level demands (`Scope` does not forward `require`) -/
  def reqIds : TStep O → List String
    | .eval id => [id]
    | .scope _ => []
    | .loopIter _ b => reqIdss b
    | .loopEvals _ b => reqIdss b
    | .branch _ t he e => reqIdss t ++ (if he then reqIdss e else [])
    | _ => []
  def reqIdss : TSteps O → List String
    | .nil => []
    | .cons s r => reqIds s ++ reqIdss r
end

mutual
  /-- the identifiers of all evaluation steps of the tree, scopes included -/
  def allIds : TStep O → List String
    | .eval id => [id]
    | .scope b => allIdss b
    | .loopIter _ b => allIdss b
    | .loopEvals _ b => allIdss b
    | .branch _ t he e => allIdss t ++ (if he then allIdss e else [])
    | _ => []
  def allIdss : TSteps O → List String
    | .nil => []
    | .cons s r => allIds s ++ allIdss r
end

mutual
  /-- no evaluation step sits inside a `Scope` -/
  def noScopedEval : TStep O → Bool
    | .scope b => (allIdss b).isEmpty
    | .loopIter _ b => noScopedEvals b
    | .loopEvals _ b => noScopedEvals b
    | .branch _ t he e => noScopedEvals t && (!he || noScopedEvals e)
    | _ => true
  def noScopedEvals : TSteps O → Bool
    | .nil => true
    | .cons s r => noScopedEval s && noScopedEvals r
end

/-- the innermost visible value (`State::get_value` walks up through the parents) -/
def visible : List (Option Nat) → Option Nat
  | [] => none
  | some v :: _ => some v
  | none :: r => visible r

/-- `+= k` on the innermost visible value -/
def bump (k : Nat) : List (Option Nat) → List (Option Nat)
  | [] => []
  | some v :: r => some (v + k) :: r
  | none :: r => none :: bump k r

def initLevel (b : Bool) (c : Option Nat) : Option Nat := if b then some 0 else c

def initHead (b : Bool) : List (Option Nat) → List (Option Nat)
  | [] => [initLevel b none]
  | c :: cs => initLevel b c :: cs

def allRegistered (reg : List String) (ids : List String) : Bool := ids.all reg.contains

end Static

section Exec
variable {O : Type}

def condValue (kind : LoopKind) (s : TSt O) : Option Nat :=
  match kind with
  | .iter => visible s.iters
  | .evals => visible s.counters

def addRec (s : TSt O) (r : TRec O) : TSt O := { s with recs := s.recs ++ [r] }

/-- `PopulationEvaluator::<I>::execute` (followed by the recording component). -/
def evalT (f : Nat → O) (reg : List String) (id : String) (s : TSt O) : TSt O × Res :=
  match s.stack with
  | [] => (addRec s (.ev (visible s.counters) (visible s.counters) [] none), .ok)
  | p :: rest =>
    if !reg.contains id then ({ s with stack := rest }, .exec)
    else match visible s.counters with
      | none => ({ s with stack := rest, calls := s.calls ++ p.map (·.sol), evalLog := s.evalLog ++ [id] }, .panic)
      | some v =>
        ({ s with stack := p.map (Ind.evaluateWith f) :: rest, calls := s.calls ++ p.map (·.sol),
                  counters := bump p.length s.counters, evalLog := s.evalLog ++ [id],
                  recs := s.recs ++ [.ev (some v) (visible (bump p.length s.counters)) (p.map (·.sol))
                                         (some (p.map (Ind.evaluateWith f)))] }, .ok)

/-- leaving a scope: the child registry is dropped -/
def dropLevel (s : TSt O) : TSt O := { s with counters := s.counters.tail, iters := s.iters.tail }

mutual
  def execT (f : Nat → O) (reg : List String) : Nat → TStep O → TSt O → TSt O × Res
    | 0, _, s => (s, .fuel)
    | fuel + 1, c, s =>
      match c with
      | .push p => ({ s with stack := p :: s.stack }, .ok)
      | .pop =>
        match s.stack with
        | [] => (s, .panic)
        | _ :: r => ({ s with stack := r }, .ok)
      | .eval id => evalT f reg id s
      | .scope body =>
        -- child registry; `init` of the body; `require` of the body; `execute`
        if !allRegistered reg (reqIdss body) then (s, .required)
        else
          let s1 : TSt O := { s with counters := initLevel (evalHeres body) none :: s.counters,
                                     iters := initLevel (loopHeres body) none :: s.iters,
                                     recs := s.recs ++ [.enter] }
          match execsT f reg fuel body s1 with
          | (s2, .ok) => (addRec (dropLevel s2) .leave, .ok)
          | (s2, r) => (dropLevel s2, r)
      | .loopIter k body => loopT f reg fuel .iter k body s
      | .loopEvals n body => loopT f reg fuel .evals n body s
      | .branch n thn hasElse els =>
        match visible s.counters with
        | none => (s, .exec)
        | some v =>
          if v < n then
            match execsT f reg fuel thn (addRec s .thn) with
            | (s2, .ok) => (addRec s2 .join, .ok)
            | (s2, r) => (s2, r)
          else if hasElse then
            match execsT f reg fuel els (addRec s .els) with
            | (s2, .ok) => (addRec s2 .join, .ok)
            | (s2, r) => (s2, r)
          else (addRec s .join, .ok)
  def execsT (f : Nat → O) (reg : List String) : Nat → TSteps O → TSt O → TSt O × Res
    | 0, _, s => (s, .fuel)
    | fuel + 1, cs, s =>
      match cs with
      | .nil => (s, .ok)
      | .cons c rest =>
        match execT f reg fuel c s with
        | (s1, .ok) => execsT f reg fuel rest s1
        | (s1, r) => (s1, r)
  def loopT (f : Nat → O) (reg : List String) : Nat → LoopKind → Nat → TSteps O → TSt O → TSt O × Res
    | 0, _, _, _, s => (s, .fuel)
    | fuel + 1, kind, bound, body, s =>
      match condValue kind s with
      | none => (s, .exec)
      | some v =>
        if v < bound then
          match execsT f reg fuel body (addRec s (.pass (visible s.counters))) with
          | (s2, .ok) =>
            match visible s2.iters with
            | none => (s2, .exec)
            | some _ => loopT f reg fuel kind bound body { s2 with iters := bump 1 s2.iters }
          | (s2, r) => (s2, r)
        else (addRec s (.exit (visible s.counters)), .ok)
end

/-- `init` of a configuration on the state it is given. -/
def initT (body : TSteps O) (s : TSt O) : TSt O :=
  { s with counters := initHead (evalHeres body) s.counters, iters := initHead (loopHeres body) s.iters, recs := [] }

/-- `Configuration::run(problem, &mut state)`. -/
def runT (f : Nat → O) (reg : List String) (fuel : Nat) (body : TSteps O) (s : TSt O) : TSt O × Res :=
  let s0 := initT body s
  if !allRegistered reg (reqIdss body) then (s0, .required) else execsT f reg fuel body s0

/-- What is observed after a run: result, the trace, `state.evaluations()`, objective calls of this run, the stack. -/
structure RunOut (O : Type) where
  res : Res
  recs : List (TRec O)
  evals : Option Nat
  ncalls : Nat
  stack : List (List (Ind O))

/-- Consecutive runs on one state; the sequence stops after the first run that does not return `Ok`. -/
def runsT (f : Nat → O) (reg : List String) (fuel : Nat) : List (TSteps O) → TSt O → List (RunOut O)
  | [], _ => []
  | b :: bs, s =>
    match runT f reg fuel b s with
    | (s1, r) =>
      let out : RunOut O := ⟨r, s1.recs, s1.counters.getLastD none, s1.calls.length - s.calls.length, s1.stack⟩
      if r == .ok then out :: runsT f reg fuel bs s1 else [out]

end Exec

/-! ## The property on the implementation's trace (step O) -/
section Oracle
open Wire

/-- Spec-side state while the implementation's trace is walked. -/
structure OSt where
  /-- solution ids of the population stack as prescribed by the input's `push` / `pop` steps -/
  stack : List (List Nat)
  /-- objective calls of this run so far -/
  calls : Nat := 0
  /-- an evaluation step ran inside a `Scope`: its count went to a counter that shadows the reported one -/
  lost : Bool := false
  depth : Nat := 0
  /-- enclosing scopes that carry their own counter -/
  inner : Nat := 0

inductive W (α : Type) where
  | ok (a : α) | trunc | bad (cls : String)

def OSt.exact (st : OSt) : Bool := !st.lost && st.inner == 0

/-- The evaluation step's clause: same solutions in the same order, everyone carries `f sol`, each called exactly once,
the visible counter advanced by exactly the population size (and, where no scope shadows it, equal to the number of
objective calls of this run before and after). -/
def checkEval (f : Nat → Int) (reg : List String) (id : String) (st : OSt)
    (e0 e1 : Option Nat) (calls : List Nat) (top : Option (List I)) : W OSt :=
  if !reg.contains id then .bad "missing-evaluator-executed"
  else if st.exact && e0 != some st.calls then .bad "count"
  else match st.stack, top with
    | [], none => if e1 == e0 && calls.isEmpty then .ok st else .bad "count"
    | sols :: _, some t =>
      if t.map (·.sol) != sols then .bad "order"
      else if !(t.all fun i => i.obj == some (f i.sol)) then .bad "wrong-value"
      else if sortNat calls != sortNat sols then .bad "count"
      else match e0 with
        | none => .bad "count"
        | some v =>
          if e1 != some (v + sols.length) then .bad "count"
          else .ok { st with calls := st.calls + sols.length, lost := st.lost || st.depth > 0 }
    | _, _ => .bad "leak"

mutual
  def walkT (f : Nat → Int) (reg : List String) : Nat → TStep Int → OSt → List (TRec Int) → W (OSt × List (TRec Int))
    | 0, _, _, _ => .bad "fuel"
    | fuel + 1, c, st, recs =>
      match c with
      | .push p => .ok ({ st with stack := p.map (·.sol) :: st.stack }, recs)
      | .pop => .ok ({ st with stack := st.stack.tail }, recs)
      | .eval id =>
        match recs with
        | [] => .trunc
        | .ev e0 e1 calls top :: rest =>
          match checkEval f reg id st e0 e1 calls top with
          | .ok st' => .ok (st', rest)
          | .trunc => .trunc
          | .bad c => .bad c
        | _ :: _ => .bad "trace"
      | .scope body =>
        match recs with
        | [] => .trunc
        | .enter :: rest =>
          if !allRegistered reg (reqIdss body) then .bad "missing-evaluator-executed"
          else
            match walksT f reg fuel body { st with depth := st.depth + 1, inner := st.inner + (if evalHeres body then 1 else 0) } rest with
            | .ok (st', rest') =>
              match rest' with
              | [] => .trunc
              | .leave :: rest'' => .ok ({ st' with depth := st.depth, inner := st.inner }, rest'')
              | _ :: _ => .bad "trace"
            | .trunc => .trunc
            | .bad c => .bad c
        | _ :: _ => .bad "trace"
      | .loopIter k body => walkLoop f reg fuel .iter k body st recs
      | .loopEvals n body => walkLoop f reg fuel .evals n body st recs
      | .branch _ thn hasElse els =>
        match recs with
        | [] => .trunc
        | .thn :: rest => walkJoin (walksT f reg fuel thn st rest)
        | .els :: rest => if hasElse then walkJoin (walksT f reg fuel els st rest) else .bad "trace"
        | .join :: rest => if hasElse then .bad "trace" else .ok (st, rest)
        | _ :: _ => .bad "trace"
  def walksT (f : Nat → Int) (reg : List String) : Nat → TSteps Int → OSt → List (TRec Int) → W (OSt × List (TRec Int))
    | 0, _, _, _ => .bad "fuel"
    | fuel + 1, cs, st, recs =>
      match cs with
      | .nil => .ok (st, recs)
      | .cons c rest =>
        match walkT f reg fuel c st recs with
        | .ok (st', recs') => walksT f reg fuel rest st' recs'
        | .trunc => .trunc
        | .bad c => .bad c
  def walkLoop (f : Nat → Int) (reg : List String) : Nat → LoopKind → Nat → TSteps Int → OSt → List (TRec Int) → W (OSt × List (TRec Int))
    | 0, _, _, _, _, _ => .bad "fuel"
    | fuel + 1, kind, bound, body, st, recs =>
      match recs with
      | [] => .trunc
      | .pass e :: rest =>
        if st.exact && e.isSome && e != some st.calls then .bad "count"
        -- a pass of a budget loop starts below the budget
        else if kind == .evals && !(match e with | some v => v < bound | none => false) then .bad "budget"
        else
          match walksT f reg fuel body st rest with
          | .ok (st', rest') => walkLoop f reg fuel kind bound body st' rest'
          | .trunc => .trunc
          | .bad c => .bad c
      | .exit e :: rest =>
        if st.exact && e.isSome && e != some st.calls then .bad "count"
        -- a budget loop ends only when the budget is used up
        else if kind == .evals && !(match e with | some v => bound ≤ v | none => false) then .bad "budget"
        else .ok (st, rest)
      | _ :: _ => .bad "trace"
  def walkJoin : W (OSt × List (TRec Int)) → W (OSt × List (TRec Int))
    | .ok (st', rest') =>
      match rest' with
      | [] => .trunc
      | .join :: rest'' => .ok (st', rest'')
      | _ :: _ => .bad "trace"
    | .trunc => .trunc
    | .bad c => .bad c
end

/-- One run, judged on what the implementation reported. `stack0`: solution ids of the stack the run started from.
`modelRes`: what the model says about inputs outside the quantifier (`pop()` on an empty stack, a condition on a
counter that does not exist). Returns the deviation class, `"-"` if none. -/
def holdsRun (f : Nat → Int) (reg : List String) (fuel : Nat) (body : TSteps Int) (stack0 : List (List Nat))
    (modelRes : Res) (io : RunOut Int) (implPanic : Bool) : String :=
  let missing := !allRegistered reg (allIdss body)
  if implPanic then (if modelRes == .panic then "-" else "panic")
  else
  -- a run whose configuration has no evaluation step outside scopes does not own the top-level counter (no `init`
  -- resets it): what the counter shows during such a run is not compared
  let w := walksT f reg fuel body { stack := stack0, lost := !evalHeres body } io.recs
  if missing then
    -- "if no evaluator with the requested identifier is registered the run fails with an error before anything executes"
    match w with
    | .bad c => c
    | _ =>
      if io.res == .ok then "no-error"
      else if !io.recs.isEmpty || io.ncalls != 0 || io.stack.map (·.map (·.sol)) != stack0 then "executed-before-error"
      else "-"
  else if modelRes != .ok then "-"
  else if io.res != .ok then "err"
  else match w with
    | .bad c => c
    | .trunc => "trace"
    | .ok (st, rest) =>
      if !rest.isEmpty then "trace"
      else if io.stack.map (·.map (·.sol)) != st.stack then "leak"
      else if (allIdss body).isEmpty then (if io.ncalls != 0 then "count" else "-")
      -- "the reported number of evaluations equals the number of objective-function invocations actually made"
      else if io.ncalls != st.calls then "count"
      else if io.evals != some io.ncalls then "count"
      else "-"

end Oracle

/-! ## Wire format -/
namespace Wire
open MahfModel.PopMachine.Wire Sexp

mutual
  def step? : Nat → Sexp → Option (TStep Int)
    | 0, _ => none
    | fuel + 1, s =>
      match s with
      | .list [.atom "push", p] => (pop? p).map .push
      | .list [.atom "pop"] => some .pop
      | .list [.atom "eval", .atom id] => some (.eval id)
      | .list (.atom "scope" :: body) => (steps? fuel body).map .scope
      | .list [.atom "loop-iter", k, .list (.atom "body" :: body)] => do
        pure (.loopIter (← nat? k) (← steps? fuel body))
      | .list [.atom "loop-evals", n, .list (.atom "body" :: body)] => do
        pure (.loopEvals (← nat? n) (← steps? fuel body))
      | .list [.atom "branch", n, .list (.atom "then" :: t)] => do
        pure (.branch (← nat? n) (← steps? fuel t) false .nil)
      | .list [.atom "branch", n, .list (.atom "then" :: t), .list (.atom "else" :: e)] => do
        pure (.branch (← nat? n) (← steps? fuel t) true (← steps? fuel e))
      | _ => none
  def steps? : Nat → List Sexp → Option (TSteps Int)
    | 0, _ => none
    | _ + 1, [] => some .nil
    | fuel + 1, x :: xs => do
      pure (.cons (← step? fuel x) (← steps? fuel xs))
end

def ofRec (par : Bool) : TRec Int → Sexp
  | .ev e0 e1 calls top =>
    .list [.atom "ev", ofOptNat e0, ofOptNat e1, .list (.atom "calls" :: (if par then sortNat calls else calls).map ofNat),
           match top with | none => .atom "notop" | some p => .list (.atom "top" :: p.map ofInd)]
  | .enter => .list [.atom "in"]
  | .leave => .list [.atom "out"]
  | .pass e => .list [.atom "p", ofOptNat e]
  | .exit e => .list [.atom "x", ofOptNat e]
  | .thn => .list [.atom "bt"]
  | .els => .list [.atom "be"]
  | .join => .list [.atom "bx"]

def rec? : Sexp → Option (TRec Int)
  | .list [.atom "ev", e0, e1, .list (.atom "calls" :: cs), t] => do
    let t ← match t with
      | .atom "notop" => some none
      | .list (.atom "top" :: is) => (is.mapM ind?).map some
      | _ => none
    pure (.ev (← optNat? e0) (← optNat? e1) (← cs.mapM nat?) t)
  | .list [.atom "in"] => some .enter
  | .list [.atom "out"] => some .leave
  | .list [.atom "p", e] => (optNat? e).map .pass
  | .list [.atom "x", e] => (optNat? e).map .exit
  | .list [.atom "bt"] => some .thn
  | .list [.atom "be"] => some .els
  | .list [.atom "bx"] => some .join
  | _ => none

def ofRes : Res → Sexp
  | .ok => .atom "ok"
  | .panic => .atom "panic"
  -- which `Err` it is (message text) is not compared: how far the run got is in the trace
  | .required => .list [.atom "e", .atom "err"]
  | .exec => .list [.atom "e", .atom "err"]
  | .fuel => .atom "diverges"

def res? : Sexp → Option Res
  | .atom "ok" => some .ok
  | .atom "panic" => some .panic
  | .list [.atom "e", .atom _] => some .required
  | _ => none

def ofRunOut (par : Bool) (o : RunOut Int) : Sexp :=
  if o.res == .panic then .list [.atom "run", .list [.atom "res", .atom "panic"]]
  else .list [.atom "run", .list [.atom "res", ofRes o.res], .list (.atom "evs" :: o.recs.map (ofRec par)),
              C06.finalSexp o.evals o.ncalls o.stack]

/-- `none` in the second component: the run panicked (nothing else is reported). -/
def runOut? : Sexp → Option (RunOut Int × Bool)
  | .list [.atom "run", .list [.atom "res", .atom "panic"]] => some (⟨.panic, [], none, 0, []⟩, true)
  | .list [.atom "run", .list [.atom "res", r], .list (.atom "evs" :: rs),
           .list [.atom "final", .list [.atom "evals", e], .list [.atom "ncalls", c], .list (.atom "stack" :: ps)]] => do
    pure (⟨← res? r, ← rs.mapM rec?, ← optNat? e, ← nat? c, ← ps.mapM pop?⟩, false)
  | _ => none

def fuelT : Nat := 100000

/-- O over the runs: each run is judged from the stack the implementation reported after the previous one. -/
def holdsRuns (f : Nat → Int) (reg : List String) : List (TSteps Int) → List (List Nat) → List Res → List (RunOut Int × Bool) → String
  | [], _, _, [] => "-"
  | [], _, _, _ :: _ => "trace"
  | _ :: _, _, _, [] => "trace"
  | b :: bs, stack0, ms, (io, pan) :: ios =>
    let mres := ms.headD .ok
    let c := holdsRun f reg fuelT b stack0 mres io pan
    if c != "-" then c
    else if pan || io.res != .ok then (if ios.isEmpty then "-" else "trace")
    else holdsRuns f reg bs (io.stack.map (·.map (·.sol))) (ms.drop 1) ios

/-- `(cfgruns (ev seq|par T) (reg ID…) (f x…) (cfgs (cfg STEP…)…) (order i…))` -/
def cfgruns (input implOut : Sexp) : Option Verdict := do
  let args ← tagged? "cfgruns" input
  match args, implOut with
  | [.list [.atom "ev", .atom kind, _], .list (.atom "reg" :: reg), ft, .list (.atom "cfgs" :: cs), .list (.atom "order" :: order)],
    .list outs =>
    let par := kind == "par"
    let reg ← reg.mapM atom?
    let tab ← ftab? ft
    let f := fOf tab
    let cfgs ← cs.mapM fun c => match c with
      | .list (.atom "cfg" :: ss) => steps? 64 ss
      | _ => none
    let order ← order.mapM nat?
    let bodies := order.filterMap fun i => cfgs[i]?
    let mouts := runsT f reg fuelT bodies ({} : TSt Int)
    let model := Sexp.list (mouts.map (ofRunOut par))
    let ios ← outs.mapM runOut?
    let implCanon := Sexp.list (ios.map fun (o, _) => ofRunOut par o)
    let agree := Sexp.beq model implCanon
    -- the runs after a failed one are not executed (neither by the harness nor by the model)
    let cls := holdsRuns f reg bodies [] (mouts.map (·.res)) ios
    pure { agree, holds := cls == "-", cls, model }
  | _, _ => none

/-- `(direct (ev seq|par T) (reg ID…) (f x…) (id I) (init 0|1) (stack POP…))`: one `PopulationEvaluator<I>` executed
directly (`init` if asked, then `execute`; no `require`). -/
def direct (input implOut : Sexp) : Option Verdict := do
  let args ← tagged? "direct" input
  match args with
  | [.list [.atom "ev", .atom kind, _], .list (.atom "reg" :: reg), ft, .list [.atom "id", .atom id], .list [.atom "init", ini],
     .list (.atom "stack" :: ps)] =>
    let par := kind == "par"
    let reg ← reg.mapM atom?
    let tab ← ftab? ft
    let f := fOf tab
    let ini := (← nat? ini) == 1
    let stack ← ps.mapM pop?
    let s0 : TSt Int := { stack, counters := [if ini then some 0 else none] }
    let (s1, r) := evalT f reg id s0
    let canon := fun (res : Sexp) (evals : Option Nat) (calls : List Nat) (st : List (List I)) =>
      Sexp.list [.list [.atom "res", res], .list [.atom "evals", ofOptNat evals],
                 .list (.atom "calls" :: (if par then sortNat calls else calls).map ofNat), .list (.atom "stack" :: st.map ofPop)]
    let mres : Sexp := match r with | .ok => .atom "ok" | .panic => .atom "panic" | _ => .atom "err"
    let model := if r == .panic then Sexp.list [.list [.atom "res", .atom "panic"]]
                 else canon mres (visible s1.counters) s1.calls s1.stack
    match implOut with
    | .list [.list [.atom "res", .atom "panic"]] =>
      pure { agree := r == .panic, holds := r == .panic, cls := if r == .panic then "-" else "panic", model }
    | .list [.list [.atom "res", res], .list [.atom "evals", e], .list (.atom "calls" :: cs), .list (.atom "stack" :: st)] =>
      let e ← optNat? e
      let cs ← cs.mapM nat?
      let st ← st.mapM pop?
      -- error path without the evaluator: whether the popped population is dropped (as the code does) or handed back
      -- is not pinned
      let handedBack := r == .exec && Sexp.beq (canon mres (visible s1.counters) s1.calls stack) (canon res e cs st)
      let agree := Sexp.beq model (canon res e cs st) || handedBack
      let e0 : Option Nat := if ini then some 0 else none
      let okRes := Sexp.beq res (.atom "ok")
      let cls :=
        match stack with
        | [] => if !cs.isEmpty || e != e0 then "count" else if !okRes then "err" else "-"
        | p :: rest =>
          if !reg.contains id then
            -- no evaluator with the requested identifier: an error, nothing evaluated, nothing counted
            (if okRes then "missing-evaluator-executed" else if !cs.isEmpty || e != e0 then "count" else "-")
          else if r == .panic then "-"
          else if !okRes then "err"
          else match st with
            | [] => "leak"
            | top :: rest' =>
              if top.map (·.sol) != p.map (·.sol) then "order"
              else if !(top.all fun i => i.obj == some (f i.sol)) then "wrong-value"
              else if sortNat cs != sortNat (p.map (·.sol)) then "count"
              else if e != some p.length then "count"
              else if rest'.length != rest.length then "leak" else "-"
      pure { agree, holds := cls == "-", cls, model }
    | _ => none
  | _ => none

end Wire
end MahfModel.EvalTree
