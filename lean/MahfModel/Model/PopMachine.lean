/-
PopMachine — model of `mahf::Individual` (src/problems/individual.rs), the collection helpers of
src/population.rs, `PopulationEvaluator` / `BestIndividualUpdate` (src/components/evaluation.rs),
`BestIndividual::update` (src/state/common.rs), the elitist archive (src/components/archive.rs) and
the scoping of the `Evaluations` / `BestIndividual` states in nested `Scope`s
(src/components/control_flow.rs).  Shared by C05, C06, C07.

Code-shaped: every function follows the Rust body; a Rust panic is `none` (documented per function).
Solutions are abstract ids (`Nat`), the objective function is a parameter `f : Nat → O`, objective
values live in any type `O` with a decidable `<` (the drivers use order-preserving integer keys of the
IEEE bit patterns, the theorems any linear order).
-/
import MahfModel.Model.Sexp
namespace MahfModel.PopMachine

/-- `Individual<P>`: an encoded solution with an optional cached objective value. -/
structure Ind (O : Type) where
  sol : Nat
  obj : Option O
  deriving DecidableEq, Repr

namespace Ind
variable {O : Type}

/-- `Individual::new(solution, objective)` — raw writer. -/
def new (s : Nat) (o : O) : Ind O := ⟨s, some o⟩
/-- `Individual::new_unevaluated(solution)`. -/
def newUnevaluated (s : Nat) : Ind O := ⟨s, none⟩
/-- `evaluate_with(objective_fn)`: `self.objective = Some(objective_fn(&self.solution))`. -/
def evaluateWith (g : Nat → O) (i : Ind O) : Ind O := ⟨i.sol, some (g i.sol)⟩
/-- `set_objective(o)` — raw writer; returns whether a value was overwritten. -/
def setObjective (i : Ind O) (o : O) : Ind O × Bool := (⟨i.sol, some o⟩, i.obj.isSome)
/-- `solution()`. -/
def solution (i : Ind O) : Nat := i.sol
/-- `solution_mut()`: `self.objective = None; &mut self.solution`. `w` is what the caller then writes
through the reference (`none`: nothing is written). -/
def solutionMut (i : Ind O) (w : Option Nat) : Ind O := ⟨w.getD i.sol, none⟩
/-- `into_solution()`. -/
def intoSolution (i : Ind O) : Nat := i.sol
/-- `Clone::clone`. -/
def clone (i : Ind O) : Ind O := ⟨i.sol, i.obj⟩
/-- `Clone::clone_from(&mut self, source)` (the derived behaviour: `*self = source.clone()`). -/
def cloneFrom (_tgt src : Ind O) : Ind O := ⟨src.sol, src.obj⟩
/-- `is_evaluated()`. -/
def isEvaluated (i : Ind O) : Bool := i.obj.isSome
/-- `get_objective()`. -/
def getObjective (i : Ind O) : Option O := i.obj
/-- `objective()`: `self.objective.as_ref().unwrap()` — `none` is the panic. -/
def objective (i : Ind O) : Option O := i.obj
end Ind

section Collections
variable {O : Type}

/-- `as_solutions()`. -/
def asSolutions (p : List (Ind O)) : List Nat := p.map Ind.solution
/-- `as_solutions_mut()`: `solution_mut` on EVERY individual; `ws` are the writes made afterwards
(position-wise, missing = no write). -/
def asSolutionsMut : List (Ind O) → List (Option Nat) → List (Ind O)
  | [], _ => []
  | i :: is, [] => i.solutionMut none :: asSolutionsMut is []
  | i :: is, w :: ws => i.solutionMut w :: asSolutionsMut is ws
/-- `into_solutions()`. -/
def intoSolutions (p : List (Ind O)) : List Nat := p.map Ind.intoSolution
/-- `into_individuals()`: `new_unevaluated` on every solution. -/
def intoIndividuals (ss : List Nat) : List (Ind O) := ss.map Ind.newUnevaluated

/-- `Vec::clone_from(&mut self, source)`: truncate to the source's length, `clone_from` element-wise on
the common prefix, extend with clones of the rest. -/
def vecCloneFrom (p src : List (Ind O)) : List (Ind O) :=
  List.zipWith Ind.cloneFrom p src ++ (src.drop p.length).map Ind.clone

inductive SingleErr where
  | empty | tooMany (n : Nat)
  deriving DecidableEq, Repr

/-- `into_single()` / `into_single_ref()`. -/
def intoSingle : List (Ind O) → Except SingleErr (Ind O)
  | [] => .error .empty
  | [i] => .ok i
  | i :: j :: r => .error (.tooMany (i :: j :: r).length)

/-- Pairs every individual with its objective value; `none` if some `objective()` would panic. -/
def keyed : List (Ind O) → Option (List (Ind O × O))
  | [] => some []
  | i :: is =>
    match i.obj, keyed is with
    | some o, some r => some ((i, o) :: r)
    | _, _ => none

variable [LT O] [DecidableLT O]

/-- `Iterator::min_by_key`: `reduce(|x, y| if key(x) > key(y) { y } else { x })` — the FIRST minimum. -/
def minByKey {α : Type} (key : α → O) : List α → Option α
  | [] => none
  | x :: xs => some (xs.foldl (fun m y => if key y < key m then y else m) x)

/-- `best_individual()`: `min_by_key(|i| i.objective())`. Outer `none`: panic (an unevaluated member);
inner `none`: empty population. -/
def bestIndividual (p : List (Ind O)) : Option (Option (Ind O)) :=
  match keyed p with
  | none => none
  | some kp => some ((minByKey (·.2) kp).map (·.1))

/-- `BestIndividual::update(candidate)`; `none`: panic (`objective()` on an unevaluated individual,
only reached when a best individual is present). -/
def bestUpdate (best : Option (Ind O)) (c : Ind O) : Option (Option (Ind O) × Bool) :=
  match best with
  | none => some (some c.clone, true)
  | some b =>
    match c.obj, b.obj with
    | some co, some bo => if co < bo then some (some c.clone, true) else some (some b, false)
    | _, _ => none

/-- Stable insertion by key (one admissible resolution of `sort_unstable_by_key`). -/
def insertByKey {α : Type} (key : α → O) (x : α) : List α → List α
  | [] => [x]
  | y :: ys => if key y < key x then y :: insertByKey key x ys else x :: y :: ys

def sortByKey {α : Type} (key : α → O) : List α → List α
  | [] => []
  | x :: xs => insertByKey key x (sortByKey key xs)

/-- `ElitistArchive::update(population, k)`: `extend_from_slice; sort_unstable_by_key(objective);
truncate(k)`. `none`: panic — `objective()` on an unevaluated member, which the sort only calls when
there are at least two elements. -/
def archiveUpdate (arch pop : List (Ind O)) (k : Nat) : Option (List (Ind O)) :=
  let all := arch ++ pop
  if all.length < 2 then some (all.take k)
  else (keyed all).map fun l => ((sortByKey (·.2) l).take k).map (·.1)

end Collections

section Into
variable {O : Type} [DecidableEq O]

/-- `ElitistArchiveIntoPopulation`: `for e in elitists { if !population.contains(e) { push(e.clone()) } }`. -/
def archiveInto (arch pop : List (Ind O)) : List (Ind O) :=
  arch.foldl (fun p e => if p.contains e then p else p ++ [e.clone]) pop

end Into

/-! ### The machine: population stack (head = top), best-so-far, evaluation counter, archive, ghost call log. -/

structure PM (O : Type) where
  stack : List (List (Ind O)) := []
  best : Option (Ind O) := none
  evals : Nat := 0
  /-- ghost: the solutions the objective function was invoked on, in invocation order -/
  calls : List Nat := []
  archive : List (Ind O) := []
  deriving Repr

section Machine
variable {O : Type}

/-- `PopulationEvaluator::execute`: `try_pop`; if there is a population: evaluate every individual
(in order, once), `Evaluations += len`, push it back. Empty stack: no-op. -/
def evalStep (f : Nat → O) (pm : PM O) : PM O :=
  match pm.stack with
  | [] => pm
  | p :: rest =>
    { pm with stack := p.map (Ind.evaluateWith f) :: rest,
              evals := pm.evals + p.length,
              calls := pm.calls ++ p.map Ind.solution }

variable [LT O] [DecidableLT O]

/-- `BestIndividualUpdate::execute`: `current()` (panics on an empty stack), `best_individual()`
(panics on an unevaluated member), `update(best)` if there is one. -/
def bestUpdateStep (pm : PM O) : Option (PM O) :=
  match pm.stack with
  | [] => none
  | p :: _ =>
    match bestIndividual p with
    | none => none
    | some none => some pm
    | some (some c) => (bestUpdate pm.best c).map fun r => { pm with best := r.1 }

/-- `ElitistArchiveUpdate(k)::execute`. -/
def archiveUpdateStep (k : Nat) (pm : PM O) : Option (PM O) :=
  match pm.stack with
  | [] => none
  | p :: _ => (archiveUpdate pm.archive p k).map fun a => { pm with archive := a }

/-- `ElitistArchiveIntoPopulation::execute`. -/
def archiveIntoStep [DecidableEq O] (pm : PM O) : Option (PM O) :=
  match pm.stack with
  | [] => none
  | p :: rest => some { pm with stack := archiveInto pm.archive p :: rest }

/-- Operations of the machine, at the granularity C05–C07 talk about. -/
inductive PMOp where
  /-- an initialiser / generator: pushes new, unevaluated individuals -/
  | init (sols : List Nat)
  /-- a selection: pushes clones of members of the current population (indices; out of range: skipped) -/
  | select (idx : List Nat)
  /-- anything that goes through `as_solutions_mut` (mutation, boundary repair, velocity update …) -/
  | mutate (writes : List (Option Nat))
  /-- recombination: pops the population and pushes `into_individuals` of the children -/
  | recombine (children : List Nat)
  /-- firefly-style move of member `i`: clone, `solution_mut` write, evaluate through the evaluator,
      `Evaluations += 1` -/
  | moveEval (i : Nat) (s : Nat)
  | eval
  | bestUpdate
  | archiveUpdate (k : Nat)
  | archiveInto
  /-- a replacement: pops the offspring and merges it into the parents, then keeps the given
      positions of the merged population -/
  | replace (keep : List Nat)
  | pop
  deriving Repr

def pick (p : List (Ind O)) (idx : List Nat) : List (Ind O) :=
  idx.filterMap fun k => (p[k]?).map Ind.clone

/-- One step; `none` is a panic. -/
def pmStep [DecidableEq O] (f : Nat → O) (pm : PM O) : PMOp → Option (PM O)
  | .init sols => some { pm with stack := intoIndividuals sols :: pm.stack }
  | .select idx =>
    match pm.stack with
    | [] => none
    | p :: rest => some { pm with stack := pick p idx :: p :: rest }
  | .mutate ws =>
    match pm.stack with
    | [] => none
    | p :: rest => some { pm with stack := asSolutionsMut p ws :: rest }
  | .recombine cs =>
    match pm.stack with
    | [] => none
    | _ :: rest => some { pm with stack := intoIndividuals cs :: rest }
  | .moveEval i s =>
    match pm.stack with
    | [] => none
    | p :: rest =>
      match p[i]? with
      | none => none
      | some x =>
        let moved := (x.clone.solutionMut (some s)).evaluateWith f
        some { pm with stack := p.set i moved :: rest, evals := pm.evals + 1, calls := pm.calls ++ [s] }
  | .eval => some (evalStep f pm)
  | .bestUpdate => bestUpdateStep pm
  | .archiveUpdate k => archiveUpdateStep k pm
  | .archiveInto => archiveIntoStep pm
  | .replace keep =>
    match pm.stack with
    | off :: par :: rest => some { pm with stack := pick (par ++ off) keep :: rest }
    | _ => none
  | .pop =>
    match pm.stack with
    | [] => none
    | _ :: rest => some { pm with stack := rest }

/-- A sequence of steps; stops at the first panic. -/
def pmRun [DecidableEq O] (f : Nat → O) : PM O → List PMOp → Option (PM O)
  | pm, [] => some pm
  | pm, op :: ops =>
    match pmStep f pm op with
    | none => none
    | some pm' => pmRun f pm' ops

/-- `Loop` guarded by `LessThanN::evaluations(n)`: `while evals < n { body }` (fuel = pass bound). -/
def budgetLoop (n : Nat) (body : PM O → PM O) : Nat → PM O → Option (PM O)
  | 0, _ => none
  | fuel + 1, pm => if pm.evals < n then budgetLoop n body fuel (body pm) else some pm

end Machine

/-! ### Individual-level API histories (C05). A small "heap" of individuals: a list. -/

inductive ApiOp (O : Type) where
  | new (s : Nat) (o : O)            -- push `Individual::new(s, o)`
  | newU (s : Nat)                   -- push `new_unevaluated(s)`
  | eval (i : Nat)                   -- `evaluate_with(f)` on member i
  | evalW (i : Nat) (o : O)          -- `evaluate_with(|_| o)` — raw
  | setObj (i : Nat) (o : O)         -- raw
  | sol (i : Nat)
  | solMut (i : Nat) (w : Option Nat)
  | intoSol (i : Nat)                -- removes member i
  | clone (i : Nat)                  -- pushes a clone
  | cloneFrom (i j : Nat)            -- `p[i].clone_from(&p[j])`
  | vecCloneFrom (src : List (Ind O))    -- `p.clone_from(&src)` on the whole `Vec`
  | sliceCloneFrom (src : List (Ind O))  -- `p.clone_from_slice(&src)` (panics on a length mismatch)
  | isEval (i : Nat) | getObj (i : Nat) | objective (i : Nat)
  | eq (i j : Nat)
  | asSols
  | asSolsMut (ws : List (Option Nat))
  | intoSols                         -- consumes the whole list
  | intoInds (ss : List Nat)         -- appends `into_individuals(ss)`
  | single | singleRef
  | best
  deriving Repr

inductive ApiOut (O : Type) where
  | unit | skip | panic
  | bool (b : Bool) | nat (n : Nat) | nats (ns : List Nat)
  | obj (o : Option O)
  | ind (i : Option (Ind O))
  | errEmpty | errMany (n : Nat)
  deriving Repr

section Api
variable {O : Type} [LT O] [DecidableLT O] [DecidableEq O]

def apiStep (f : Nat → O) (p : List (Ind O)) : ApiOp O → List (Ind O) × ApiOut O
  | .new s o => (p ++ [Ind.new s o], .unit)
  | .newU s => (p ++ [Ind.newUnevaluated s], .unit)
  | .eval i =>
    match p[i]? with
    | some x => (p.set i (x.evaluateWith f), .unit)
    | none => (p, .skip)
  | .evalW i o =>
    match p[i]? with
    | some x => (p.set i (x.evaluateWith fun _ => o), .unit)
    | none => (p, .skip)
  | .setObj i o =>
    match p[i]? with
    | some x => (p.set i (x.setObjective o).1, .bool (x.setObjective o).2)
    | none => (p, .skip)
  | .sol i =>
    match p[i]? with
    | some x => (p, .nat x.solution)
    | none => (p, .skip)
  | .solMut i w =>
    match p[i]? with
    | some x => (p.set i (x.solutionMut w), .unit)
    | none => (p, .skip)
  | .intoSol i =>
    match p[i]? with
    | some x => (p.eraseIdx i, .nat x.intoSolution)
    | none => (p, .skip)
  | .clone i =>
    match p[i]? with
    | some x => (p ++ [x.clone], .unit)
    | none => (p, .skip)
  | .cloneFrom i j =>
    match p[i]?, p[j]? with
    | some x, some y => (p.set i (x.cloneFrom y), .unit)
    | _, _ => (p, .skip)
  | .vecCloneFrom src => (vecCloneFrom p src, .unit)
  | .sliceCloneFrom src =>
    if p.length = src.length then (List.zipWith Ind.cloneFrom p src, .unit) else (p, .panic)
  | .isEval i =>
    match p[i]? with
    | some x => (p, .bool x.isEvaluated)
    | none => (p, .skip)
  | .getObj i =>
    match p[i]? with
    | some x => (p, .obj x.getObjective)
    | none => (p, .skip)
  | .objective i =>
    match p[i]? with
    | some x => (p, match x.objective with | some o => .obj (some o) | none => .panic)
    | none => (p, .skip)
  | .eq i j =>
    match p[i]?, p[j]? with
    | some x, some y => (p, .bool (decide (x = y)))
    | _, _ => (p, .skip)
  | .asSols => (p, .nats (asSolutions p))
  | .asSolsMut ws => (asSolutionsMut p ws, .unit)
  | .intoSols => ([], .nats (intoSolutions p))
  | .intoInds ss => (p ++ intoIndividuals ss, .unit)
  | .single | .singleRef =>
    match intoSingle p with
    | .ok i => (p, .ind (some i))
    | .error .empty => (p, .errEmpty)
    | .error (.tooMany n) => (p, .errMany n)
  | .best =>
    match bestIndividual p with
    | none => (p, .panic)
    | some r => (p, .ind r)

def apiRun (f : Nat → O) : List (Ind O) → List (ApiOp O) → List (Ind O) × List (List (Ind O) × ApiOut O)
  | p, [] => (p, [])
  | p, op :: ops =>
    let r := apiStep f p op
    let rest := apiRun f r.1 ops
    (rest.1, (r.1, r.2) :: rest.2)

end Api

/-! ### Scoped counters (C06 run level) and scoped best-so-far (C07 run level).

`Scope::execute` runs `init` of its body inside a child registry. `PopulationEvaluator::init` inserts
`Evaluations(0)` and `BestIndividualUpdate::init` inserts an empty `BestIndividual` INTO THAT CHILD;
both shadow the caller's states and are dropped when the scope ends. Populations live in the
outermost registry and are shared. -/

inductive Ev (O : Type) where
  /-- a `Scope` begins; the flags say whether its body contains an evaluator / a best-update
      (whose `init` then shadows the counter / the best individual) -/
  | enter (hasEval hasBest : Bool)
  | exit
  /-- an evaluation step on a population of `n` individuals; `vals`: the values it obtained -/
  | eval (n : Nat) (vals : List O)
  /-- a component that evaluates single individuals itself and counts each (firefly update) -/
  | selfEval (vals : List O)
  /-- `BestIndividualUpdate` on a population with these objective values (in order) -/
  | update (pop : List O)
  /-- any other leaf component -/
  | other
  deriving Repr

structure Scoped (O : Type) where
  /-- visible counters, innermost first; never empty in a run -/
  counters : List Nat := [0]
  /-- visible best objective values, innermost first -/
  bests : List (Option O) := [none]
  /-- ghost: every value the objective function returned -/
  returned : List O := []
  /-- what each open scope shadowed (counter?, best?), innermost first -/
  frames : List (Bool × Bool) := []
  deriving Repr

section ScopedSec
variable {O : Type} [LT O] [DecidableLT O]

def addTop (k : Nat) : List Nat → List Nat
  | [] => []
  | c :: cs => (c + k) :: cs

/-- Feeding objective values one population at a time: first minimum, replace iff strictly better. -/
def feedBest (b : Option O) (pop : List O) : Option O :=
  match minByKey id pop with
  | none => b
  | some c =>
    match b with
    | none => some c
    | some bo => if c < bo then some c else some bo

def setTop (v : Option O) : List (Option O) → List (Option O)
  | [] => []
  | _ :: bs => v :: bs

def scopedStep (s : Scoped O) : Ev O → Scoped O
  | .enter he hb =>
    { s with counters := if he then 0 :: s.counters else s.counters,
             bests := if hb then none :: s.bests else s.bests,
             frames := (he, hb) :: s.frames }
  | .exit =>
    match s.frames with
    | [] => s
    | (he, hb) :: fr =>
      { s with counters := if he then s.counters.drop 1 else s.counters,
               bests := if hb then s.bests.drop 1 else s.bests,
               frames := fr }
  | .eval n vals => { s with counters := addTop n s.counters, returned := s.returned ++ vals }
  | .selfEval vals => { s with counters := addTop vals.length s.counters, returned := s.returned ++ vals }
  | .update pop => { s with bests := setTop (feedBest (s.bests.headD none) pop) s.bests }
  | .other => s

def scopedRun (s : Scoped O) (evs : List (Ev O)) : Scoped O := evs.foldl scopedStep s

/-- What `state.evaluations()` reports at the end of the run (outermost counter). -/
def reportedEvals (s : Scoped O) : Nat := s.counters.getLastD 0
/-- What `state.best_objective_value()` reports at the end of the run. -/
def reportedBest (s : Scoped O) : Option O := s.bests.getLastD none

/-- Minimum of a list (first minimum), `none` if empty. -/
def listMin (l : List O) : Option O := minByKey id l

end ScopedSec

end MahfModel.PopMachine
