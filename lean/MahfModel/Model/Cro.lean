/-
C20 — model of the chemical-reaction-optimisation state updates
(src/components/misc/cro.rs: OnWallIneffectiveCollisionUpdate, DecompositionUpdate,
IntermolecularIneffectiveCollisionUpdate, SynthesisUpdate, ChemicalReactionInit) and of the two
criteria (src/conditions/cro.rs).

Generic over the numeric carrier `F` (core classes only).  The population stack is a list whose
HEAD is the top.  Random draws are explicit parameters (witnesses).  Code-shaped: populations are
popped before they are validated, reactants are located by *equality*, indexing a too short
molecule list panics.

Which of several *equal* individuals is taken as the reactant is a witness: `onWallAt`,
`decompositionAt`, `intermolecularAt`, `synthesisAt` take the index (indices) the reactant(s) were
found at; whether a reactant exists at all (the `Err` / `unwrap` outcomes) is decided as the code
does.  `onWall` … `synthesis` instantiate the witness with the code's choice (first match, second
reactant first match elsewhere).  `Rx` / `Step` / `runSteps` model a history of updates as the CRO
loop produces it (two populations pushed, one update).
-/
import MahfModel.Model.Sexp
namespace MahfModel.Cro

structure Ind (F : Type) where
  tag : Nat
  obj : F
  deriving Repr

/-- `Individual::eq`: same solution and same objective value. -/
instance {F : Type} [BEq F] : BEq (Ind F) := ⟨fun a b => a.tag == b.tag && a.obj == b.obj⟩

structure Mol (F : Type) where
  ke : F
  numHit : Nat
  minHit : Nat
  best : Ind F
  deriving Repr

abbrev Pop (F : Type) := List (Ind F)

structure St (F : Type) where
  /-- head = top -/
  stack : List (Pop F)
  mols : List (Mol F)
  buffer : F

inductive Status where
  | ok | err | panic
  deriving Repr, DecidableEq

/-- Result of an update: how it ended, the state it left behind (a Rust `Err` or panic leaves the
half-updated state), and how many random draws it asked for. -/
structure Res (F : Type) where
  status : Status
  st : St F
  draws : Nat := 0

section
variable {F : Type}

/-- `iter().position(|i| i == r)` -/
def position [BEq F] : Pop F → Ind F → Option Nat
  | [], _ => none
  | x :: xs, r => if x == r then some 0 else (position xs r).map (· + 1)

/-- `iter().enumerate().position(|(idx, i)| idx != skip && i == r)` (counting from `k`). -/
def positionOtherFrom [BEq F] : Pop F → Nat → Nat → Ind F → Option Nat
  | [], _, _, _ => none
  | x :: xs, k, skip, r => if k != skip && x == r then some k else positionOtherFrom xs (k + 1) skip r

def positionOther [BEq F] (l : Pop F) (skip : Nat) (r : Ind F) : Option Nat :=
  positionOtherFrom l 0 skip r

/-- `Molecule::new` -/
def Mol.new (ke : F) (i : Ind F) : Mol F := { ke, numHit := 0, minHit := 0, best := i }

/-- `num_hit += 1` -/
def Mol.hit (m : Mol F) : Mol F := { m with numHit := m.numHit + 1 }

/-- `Molecule::update_best` -/
def Mol.updateBest [LT F] [DecidableLT F] (m : Mol F) (i : Ind F) : Mol F :=
  if i.obj < m.best.obj then { m with best := i, minHit := m.numHit } else m

def sumF [Add F] [OfNat F 0] : List F → F
  | [] => 0
  | x :: xs => x + sumF xs

/-- Σ objective values + Σ kinetic energies + buffer. -/
def energy [Add F] [OfNat F 0] (pop : Pop F) (mols : List (Mol F)) (buffer : F) : F :=
  sumF (pop.map (·.obj)) + sumF (mols.map (·.ke)) + buffer

/-- Total energy when the population sits at depth `d` of the stack. -/
def St.energyAt [Add F] [OfNat F 0] (st : St F) (d : Nat) : F :=
  energy (st.stack.getD d []) st.mols st.buffer

variable [BEq F] [Add F] [Sub F] [Mul F] [LT F] [LE F] [DecidableLT F] [DecidableLE F] [OfNat F 0] [OfNat F 1]

/-- Is `i` the index of an individual equal to `r`? -/
def isAt (pop : Pop F) (i : Nat) (r : Ind F) : Bool :=
  match pop[i]? with
  | some x => x == r
  | none => false

/-- `OnWallIneffectiveCollisionUpdate::execute`; `alpha` is the draw `gen_range(lr..1.0)`, `wi` the
index the reactant was found at. -/
def onWallAt (lr alpha : F) (wi : Nat) (st : St F) : Res F :=
  match st.stack with
  | pPop :: rPop :: pop :: rest =>
    match pPop with
    | [p] =>
      match rPop with
      | [r] =>
        match position pop r with
        | none => ⟨.err, { st with stack := pop :: rest }, 0⟩
        | some _ =>
          let i := wi
          match st.mols[i]? with
          | none => ⟨.panic, { st with stack := pop :: rest }, 0⟩
          | some m =>
            let m1 := m.hit
            let tot := r.obj + m1.ke
            let prod := p.obj
            if prod ≤ tot then
              if lr < 1 then
                let buffer' := st.buffer + (tot - prod) * (1 - alpha)
                let m2 := m1.updateBest p
                let m3 := { m2 with ke := (tot - prod) * alpha }
                ⟨.ok, { stack := pop.set i p :: rest, mols := st.mols.set i m3, buffer := buffer' }, 1⟩
              else ⟨.panic, { st with stack := pop :: rest, mols := st.mols.set i m1 }, 0⟩
            else ⟨.ok, { st with stack := pop :: rest, mols := st.mols.set i m1 }, 0⟩
      | _ => ⟨.err, { st with stack := pop :: rest }, 0⟩
    | _ => ⟨.err, { st with stack := rPop :: pop :: rest }, 0⟩
  | _ => ⟨.err, st, 0⟩

/-- `DecompositionUpdate::execute`. `dA` is the split draw when the reactant has enough energy;
`δ1 δ2` are the two buffer draws and `dB` the split draw of the buffer-assisted branch. -/
def decompositionAt (dA δ1 δ2 dB : F) (wi : Nat) (st : St F) : Res F :=
  match st.stack with
  | pPop :: rPop :: pop :: rest =>
    match pPop with
    | [p1, p2] =>
      match rPop with
      | [r] =>
        match position pop r with
        | none => ⟨.err, { st with stack := pop :: rest }, 0⟩
        | some _ =>
          let i := wi
          match st.mols[i]? with
          | none => ⟨.panic, { st with stack := pop :: rest }, 0⟩
          | some m =>
            let tot := r.obj + m.ke
            let prods := p1.obj + p2.obj
            if prods ≤ tot then
              let de := tot - prods
              ⟨.ok, { stack := (pop.set i p1 ++ [p2]) :: rest,
                      mols := st.mols.set i (Mol.new (de * dA) p1) ++ [Mol.new (de * (1 - dA)) p2],
                      buffer := st.buffer }, 1⟩
            else
              let deltas := δ1 * δ2
              let de := tot + deltas * st.buffer - prods
              if de < 0 then
                ⟨.ok, { st with stack := pop :: rest, mols := st.mols.set i m.hit }, 2⟩
              else
                ⟨.ok, { stack := (pop.set i p1 ++ [p2]) :: rest,
                        mols := st.mols.set i (Mol.new (de * dB) p1) ++ [Mol.new (de * (1 - dB)) p2],
                        buffer := st.buffer * (1 - deltas) }, 3⟩
      | _ => ⟨.err, { st with stack := pop :: rest }, 0⟩
    | _ => ⟨.err, { st with stack := rPop :: pop :: rest }, 0⟩
  | _ => ⟨.err, st, 0⟩

/-- `IntermolecularIneffectiveCollisionUpdate::execute`; `d4 = gen_range(0.0..=1.0)`. -/
def intermolecularAt (d4 : F) (wi wj : Nat) (st : St F) : Res F :=
  match st.stack with
  | pPop :: rPop :: pop :: rest =>
    match pPop with
    | [p1, p2] =>
      match rPop with
      | [r1, r2] =>
        match position pop r1 with
        | none => ⟨.err, { st with stack := pop :: rest }, 0⟩
        | some i0 =>
          match positionOther pop i0 r2 with
          | none => ⟨.err, { st with stack := pop :: rest }, 0⟩
          | some _ =>
            let i := wi
            let j := wj
            match st.mols[i]?, st.mols[j]? with
            | some mi, some mj =>
              let mi := mi.hit
              let mj := mj.hit
              let tot := (r1.obj + mi.ke) + (r2.obj + mj.ke)
              let prods := p1.obj + p2.obj
              let ce := tot - prods
              if 0 ≤ ce then
                let mi' := ({ mi with ke := ce * d4 } : Mol F).updateBest p1
                let mj' := ({ mj with ke := ce * (1 - d4) } : Mol F).updateBest p2
                ⟨.ok, { stack := ((pop.set i p1).set j p2) :: rest,
                        mols := (st.mols.set i mi').set j mj', buffer := st.buffer }, 1⟩
              else
                ⟨.ok, { st with stack := pop :: rest, mols := (st.mols.set i mi).set j mj }, 0⟩
            | some mi, none =>
              -- `reaction[r1_idx].num_hit += 1` succeeded, the second index panics
              ⟨.panic, { st with stack := pop :: rest, mols := st.mols.set i mi.hit }, 0⟩
            | none, _ => ⟨.panic, { st with stack := pop :: rest }, 0⟩
      | _ => ⟨.err, { st with stack := pop :: rest }, 0⟩
    | _ => ⟨.err, { st with stack := rPop :: pop :: rest }, 0⟩
  | _ => ⟨.err, st, 0⟩

/-- `SynthesisUpdate::execute` (no draw). The first reactant lookup `unwrap()`s. -/
def synthesisAt (wi wj : Nat) (st : St F) : Res F :=
  match st.stack with
  | pPop :: rPop :: pop :: rest =>
    match pPop with
    | [p] =>
      match rPop with
      | [r1, r2] =>
        match position pop r1 with
        | none => ⟨.panic, { st with stack := pop :: rest }, 0⟩
        | some i0 =>
          match positionOther pop i0 r2 with
          | none => ⟨.err, { st with stack := pop :: rest }, 0⟩
          | some _ =>
            let i := wi
            let j := wj
            match st.mols[i]?, st.mols[j]? with
            | some mi, some mj =>
              let tot := (r1.obj + mi.ke) + (r2.obj + mj.ke)
              let prod := p.obj
              if prod ≤ tot then
                ⟨.ok, { stack := ((pop.set i p).eraseIdx j) :: rest,
                        mols := (st.mols.set i (Mol.new (tot - prod) p)).eraseIdx j,
                        buffer := st.buffer }, 0⟩
              else ⟨.ok, { st with stack := pop :: rest }, 0⟩
            | _, _ => ⟨.panic, { st with stack := pop :: rest }, 0⟩
      | _ => ⟨.err, { st with stack := pop :: rest }, 0⟩
    | _ => ⟨.err, { st with stack := rPop :: pop :: rest }, 0⟩
  | _ => ⟨.err, st, 0⟩

/-! ### The code's choice of reactant: first match; second reactant first match elsewhere -/

/-- Index the code finds a single reactant at (`position`). -/
def firstIdx (st : St F) : Nat :=
  match st.stack with
  | _ :: (r :: _) :: pop :: _ => (position pop r).getD 0
  | _ => 0

/-- Index the code finds the second of two reactants at (`position` skipping the first's index). -/
def secondIdx (st : St F) : Nat :=
  match st.stack with
  | _ :: (r1 :: r2 :: _) :: pop :: _ =>
    match position pop r1 with
    | some i => (positionOther pop i r2).getD 0
    | none => 0
  | _ => 0

def onWall (lr alpha : F) (st : St F) : Res F := onWallAt lr alpha (firstIdx st) st
def decomposition (dA δ1 δ2 dB : F) (st : St F) : Res F := decompositionAt dA δ1 δ2 dB (firstIdx st) st
def intermolecular (d4 : F) (st : St F) : Res F := intermolecularAt d4 (firstIdx st) (secondIdx st) st
def synthesis (st : St F) : Res F := synthesisAt (firstIdx st) (secondIdx st) st

/-- A single-reactant witness is legal when it points at an individual equal to the reactant
(vacuously legal when the frame is malformed or no such individual exists: it is not used then). -/
def legal1 (wi : Nat) (st : St F) : Bool :=
  match st.stack with
  | _ :: [r] :: pop :: _ => (position pop r).isNone || isAt pop wi r
  | _ => true

/-- Two-reactant witnesses: distinct indices of individuals equal to the first / second reactant. -/
def legal2 (wi wj : Nat) (st : St F) : Bool :=
  match st.stack with
  | _ :: [r1, r2] :: pop :: _ =>
    match position pop r1 with
    | none => true
    | some i0 =>
      match positionOther pop i0 r2 with
      | none => true
      | some _ => isAt pop wi r1 && isAt pop wj r2 && wi != wj
  | _ => true

/-- `ChemicalReactionInit::execute`: one fresh molecule per individual of the current population. -/
def init (ke : F) (st : St F) : St F :=
  { st with mols := (st.stack.headD []).map (Mol.new ke) }

/-- Result of a criterion. -/
inductive Crit where
  | val (b : Bool) | err | panic
  deriving Repr, DecidableEq

/-- `DecompositionCriterion::evaluate`: the molecule at the index of `peek(0)`'s single individual
inside `peek(1)`; `num_hit − min_hit > alpha` (u32 subtraction: underflow panics in debug builds). -/
def decompositionCriterion (alpha : Nat) (st : St F) : Crit :=
  match st.stack with
  | [] => .panic
  | sel :: below =>
    match sel with
    | [s] =>
      match below with
      | [] => .panic
      | pop :: _ =>
        match position pop s with
        | none => .panic
        | some i =>
          match st.mols[i]? with
          | none => .panic
          | some m => if m.numHit < m.minHit then .panic else .val (decide (m.numHit - m.minHit > alpha))
    | _ => .err

/-- `SynthesisCriterion::evaluate`: both selected molecules have kinetic energy `≤ beta`. Both
lookups are plain first-match `position(..).unwrap()`s. -/
def synthesisCriterion (beta : F) (st : St F) : Crit :=
  match st.stack with
  | [] => .panic
  | sel :: below =>
    match sel with
    | [s1, s2] =>
      match below with
      | [] => .panic
      | pop :: _ =>
        match position pop s1 with
        | none => .panic
        | some i =>
          match st.mols[i]? with
          | none => .panic
          | some mi =>
            match position pop s2 with
            | none => .panic
            | some j =>
              match st.mols[j]? with
              | none => .panic
              | some mj => .val (decide (mi.ke ≤ beta) && decide (mj.ke ≤ beta))
    | _ => .err

/-! ### Histories: what the CRO loop does to population, molecules and buffer

One pass of the loop selects reactant(s), derives product(s) from them (both are *pushed* on the
stack, the population below is not touched) and calls one update. -/

/-- One reaction update with all its witnesses (draws and reactant indices). -/
inductive Rx (F : Type) where
  | onWall (lr alpha : F) (wi : Nat)
  | decomp (dA δ1 δ2 dB : F) (wi : Nat)
  | inter (d4 : F) (wi wj : Nat)
  | synth (wi wj : Nat)

def Rx.apply : Rx F → St F → Res F
  | .onWall lr a wi, st => onWallAt lr a wi st
  | .decomp dA δ1 δ2 dB wi, st => decompositionAt dA δ1 δ2 dB wi st
  | .inter d4 wi wj, st => intermolecularAt d4 wi wj st
  | .synth wi wj, st => synthesisAt wi wj st

def Rx.legalIdx : Rx F → St F → Bool
  | .onWall _ _ wi, st => legal1 wi st
  | .decomp _ _ _ _ wi, st => legal1 wi st
  | .inter _ wi wj, st => legal2 wi wj st
  | .synth wi wj, st => legal2 wi wj st

structure Step (F : Type) where
  reactants : Pop F
  products : Pop F
  rx : Rx F

/-- The state the update sees: products on top of the reactants on top of the old stack. -/
def Step.pushed (s : Step F) (st : St F) : St F :=
  { st with stack := s.products :: s.reactants :: st.stack }

def Step.apply (s : Step F) (st : St F) : Res F := s.rx.apply (s.pushed st)

/-- Runs a history of steps; `none` as soon as an update does not return `Ok`. -/
def runSteps : List (Step F) → St F → Option (St F)
  | [], st => some st
  | s :: ss, st =>
    let r := s.apply st
    match r.status with
    | .ok => runSteps ss r.st
    | _ => none

/-- Every step's index witnesses are legal in the state it is applied to. -/
def runLegalIdx : List (Step F) → St F → Bool
  | [], _ => true
  | s :: ss, st => s.rx.legalIdx (s.pushed st) && runLegalIdx ss (s.apply st).st

end
end MahfModel.Cro
