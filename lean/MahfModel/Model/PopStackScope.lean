/-
C04 — the population stack read through a `State`: programs with scopes and FAILING steps.

`Populations` lives in one registry of the `State`'s registry chain (src/state/registry/mod.rs: every
registry has an optional parent; `find` / `find_mut` walk towards the root).  `State::with_inner_state`
(src/state/mod.rs), which backs the `Scope` component (src/components/control_flow.rs), takes the
registry out of the state, makes it the parent of a fresh child, runs the body on the child, puts the
parent back and only then looks at the body's result — so a body that returns `Err` leaves the caller
with the registry chain it had, including the population stack as the executed part of the body left it.

Code-shaped model: a `Chain` of registries (each either holds a `Populations` or not), operations that
look the stack up through the chain, `with_inner_state` with its take / child / restore / result order,
`Block`'s `?` (the first failing step ends the body; the rest is never executed), the five ways a scope
is entered in the harness (`Kind`).  Abstract specification: the same program on a plain stack, where a
scope is transparent and a failing step only ends the body it is in.

Outputs are one per program node in program order (`skip` for a node that was never reached), so that the
witnesses of the real run (see `PopStack`) can be attached syntactically.
-/
import MahfModel.Model.PopStack
namespace MahfModel.PopStack

/-- How a scope is entered.  All of them run `State::with_inner_state`. -/
inductive Kind where
  | closure    -- `state.with_inner_state(|s| { step?; step?; … Ok(()) })`
  | comp       -- `Scope::new(body).execute(problem, state)`
  | config     -- `Configuration::builder().scope_(|b| b.do_(…)…).build().run(problem, state)`
  | initFail   -- `Scope::new_with(|_| Err(..), body, |_, _| Ok(()))`: fails before the body runs
  | mergeFail  -- `Scope::new_with(|_| Ok(()), body, |_, _| Err(..))`: fails after the parent is back
  deriving DecidableEq, Repr

def Kind.runsBody : Kind → Bool
  | .initFail => false
  | _ => true

def Kind.mergeOk : Kind → Bool
  | .mergeFail => false
  | _ => true

mutual
/-- A step of a program on a `State`. -/
inductive Item where
  | op (o : Op)                       -- a stack operation / utility component; `RotatePopulations` may return `Err`
  | fail                              -- a step that returns `Err` without touching anything
  | failing (o : Op)                  -- a step that performs `o` on the stack and then returns `Err`
  | try_ (i : Item)                   -- the caller looks at the result of `i` and carries on
  | scope (k : Kind) (body : Items)   -- `body` in a child scope
  /-- `state.holding::<Populations>(|pops, _| { ops on pops; if ok { Ok(()) } else { Err(..) } })`: the stack is taken out
  of the registry that owns it, edited directly, and goes back into that registry whatever the closure returns. -/
  | hold (ok : Bool) (ops : List Op)
/-- A `Block` / closure body: steps chained with `?`. -/
inductive Items where
  | nil
  | cons (i : Item) (is : Items)
end

/-- One output per program node. -/
inductive SOut where
  | out (o : Out)   -- what the operation returned
  | failed          -- `fail` was executed
  | skip            -- never reached
  | sOk | sErr      -- result of the scope
  | sPanic          -- `with_inner_state` found no parent to go back to (`registry.unwrap()`)
  deriving DecidableEq, Repr

mutual
def Item.skips : Item → List SOut
  | .op _ => [.skip]
  | .fail => [.skip]
  | .failing _ => [.skip]
  | .try_ i => i.skips
  | .scope _ b => .skip :: b.skips
  | .hold _ ops => .skip :: ops.map fun _ => .skip
def Items.skips : Items → List SOut
  | .nil => []
  | .cons i is => i.skips ++ is.skips
end

def Out.isErr : Out → Bool
  | .err => true
  | .errH _ => true
  | _ => false

/-! ### The registry chain -/

/-- A registry, as far as the population stack is concerned: does its map hold `Populations`, and which. -/
abbrev Reg := Option Stk
/-- Head = the registry the `State` holds; behind it its parents, the root last. -/
abbrev Chain := List Reg

/-- `StateRegistry::find::<Populations>`: the first registry on the way to the root that has one. -/
def find : Chain → Option Stk
  | [] => none
  | some s :: _ => some s
  | none :: r => find r

/-- Writing through `find_mut::<Populations>`. -/
def put : Chain → Stk → Chain
  | [], _ => []
  | some _ :: r, s => some s :: r
  | none :: r, s => none :: put r s

/-- A stack operation on a `State`: `state.populations()` / `populations_mut()` panic when no registry of the
chain holds `Populations`. -/
def stepC (c : Chain) (op : Op) : Chain × Out :=
  match find c with
  | some s => (put c (step s op).1, (step s op).2)
  | none => (c, .panic)

/-- The end of `with_inner_state`: `into_parent` splits the child off, `registry.unwrap()` panics when there
is no parent (the state then keeps the empty registry `std::mem::take` left behind). -/
def restore (c1 : Chain) : Option Chain :=
  match c1 with
  | _ :: p :: rest => some (p :: rest)
  | _ => none

mutual
/-- Chain afterwards, outputs (one per node), `true` = `Ok`. -/
def execItem (c : Chain) : Item → Chain × List SOut × Bool
  | .op o => ((stepC c o).1, [.out (stepC c o).2], !(stepC c o).2.isErr)
  | .fail => (c, [.failed], false)
  | .failing o => ((stepC c o).1, [.out (stepC c o).2], false)
  | .try_ i => ((execItem c i).1, (execItem c i).2.1, true)
  | .scope k body =>
    -- `let registry = take(&mut self.registry); let mut state = registry.into_child().into();`
    let child : Chain := none :: c
    -- `let result = f(&mut state);`  (`state_init` first: a failing one returns before the body)
    let r := if k.runsBody then execItems child body else (child, body.skips, false)
    -- `let (registry, child) = from(state).into_parent(); self.registry = registry.unwrap(); result?;`
    match restore r.1 with
    | some c' =>
      let ok := r.2.2 && k.mergeOk
      (c', (if ok then SOut.sOk else SOut.sErr) :: r.2.1, ok)
    | none => ([none], SOut.sPanic :: r.2.1, false)
  | .hold ok ops =>
    -- `find_mut::<T>()?` (the first registry towards the root that owns the stack), marker in, `T` out, `f`,
    -- `find_mut::<Marker<T>>()` = that same registry, `T` back in, then the closure's result
    match find c with
    | some s => (put c (run s ops).1, (if ok then SOut.sOk else SOut.sErr) :: (run s ops).2.map SOut.out, ok)
    | none => (c, SOut.sErr :: ops.map fun _ => SOut.skip, false)
def execItems (c : Chain) : Items → Chain × List SOut × Bool
  | .nil => (c, [], true)
  | .cons i is =>
    if (execItem c i).2.2 then
      ((execItems (execItem c i).1 is).1, (execItem c i).2.1 ++ (execItems (execItem c i).1 is).2.1,
        (execItems (execItem c i).1 is).2.2)
    else ((execItem c i).1, (execItem c i).2.1 ++ is.skips, false)
end

/-! ### Abstract specification: a plain stack; scopes are transparent, an `Err` ends the body it is in. -/

mutual
def specItem (s : Spec) : Item → Spec × List SOut × Bool
  | .op o => ((specStep s o).1, [.out (specStep s o).2], !(specStep s o).2.isErr)
  | .fail => (s, [.failed], false)
  | .failing o => ((specStep s o).1, [.out (specStep s o).2], false)
  | .try_ i => ((specItem s i).1, (specItem s i).2.1, true)
  | .scope k body =>
    let r := if k.runsBody then specItems s body else (s, body.skips, false)
    let ok := r.2.2 && k.mergeOk
    (r.1, (if ok then SOut.sOk else SOut.sErr) :: r.2.1, ok)
  | .hold ok ops => ((specRun s ops).1, (if ok then SOut.sOk else SOut.sErr) :: (specRun s ops).2.map SOut.out, ok)
def specItems (s : Spec) : Items → Spec × List SOut × Bool
  | .nil => (s, [], true)
  | .cons i is =>
    if (specItem s i).2.2 then
      ((specItems (specItem s i).1 is).1, (specItem s i).2.1 ++ (specItems (specItem s i).1 is).2.1,
        (specItems (specItem s i).1 is).2.2)
    else ((specItem s i).1, (specItem s i).2.1 ++ is.skips, false)
end

/-- The caller of the top level looks at every result and carries on with the same `State`. -/
def Items.tryAll : Items → Items
  | .nil => .nil
  | .cons i is => .cons (.try_ i) is.tryAll

def Items.ofOps : List Op → Items
  | [] => .nil
  | o :: os => .cons (.op o) (Items.ofOps os)

def Items.append : Items → Items → Items
  | .nil, b => b
  | .cons i is, b => .cons i (is.append b)

mutual
/-- The operations of a program in program order. -/
def Item.ops : Item → List Op
  | .op o => [o]
  | .fail => []
  | .failing o => [o]
  | .try_ i => i.ops
  | .scope _ b => b.ops
  | .hold _ os => os
def Items.ops : Items → List Op
  | .nil => []
  | .cons i is => i.ops ++ is.ops
end

/-- What the executed operations returned, in order. -/
def opOuts : List SOut → List Out
  | [] => []
  | .out o :: r => o :: opOuts r
  | _ :: r => opOuts r

/-! ### Wire format -/
open MahfModel Sexp

def Kind.parse? : String → Option Kind
  | "cl" => some .closure
  | "sc" => some .comp
  | "cf" => some .config
  | "if" => some .initFail
  | "mf" => some .mergeFail
  | _ => none

/-- The output that belongs to the next node (`none` once the implementation's outputs are used up). -/
def nextOut (outs : List Sexp) : Option Sexp × List Sexp :=
  match outs with
  | [] => (none, [])
  | o :: r => (some o, r)

def witnessed (op : Op) (o : Option Sexp) : Op :=
  match o with
  | some x => op.withWitness x
  | none => op

/-- `ITEM ∈ OP | (hold OP*) | (hold-err OP*) | (fail) | (failing OP) | (try ITEM) | (cl ITEM*) | (sc ITEM*) | (cf ITEM*) | (if ITEM*) | (mf ITEM*)`.
The implementation's outputs (one per node, program order) are consumed alongside and supply the witnesses. -/
def parseItem : Nat → Sexp → List Sexp → Option (Item × List Sexp)
  | 0, _, _ => none
  | n + 1, x, outs =>
    let items (xs : List Sexp) (outs : List Sexp) : Option (Items × List Sexp) :=
      xs.foldr (fun x k => fun outs => do
        let (i, outs') ← parseItem n x outs
        let (is, outs'') ← k outs'
        pure (Items.cons i is, outs'')) (fun outs => some (Items.nil, outs)) outs
    match x with
    | .list [.atom "fail"] => some (.fail, (nextOut outs).2)
    | .list [.atom "failing", o] => do
      let op ← Op.parse? o
      pure (.failing (witnessed op (nextOut outs).1), (nextOut outs).2)
    | .list [.atom "try", i] => (parseItem n i outs).map fun p => (.try_ p.1, p.2)
    | .list (.atom "hold" :: xs) => do
      let ops ← xs.mapM Op.parseBase?
      pure (.hold true ops, (nextOut outs).2.drop ops.length)
    | .list (.atom "hold-err" :: xs) => do
      let ops ← xs.mapM Op.parseBase?
      pure (.hold false ops, (nextOut outs).2.drop ops.length)
    | .list (.atom h :: xs) =>
      match Kind.parse? h with
      | some k => do
        let (b, outs') ← items xs (nextOut outs).2
        pure (.scope k b, outs')
      | none => do
        let op ← Op.parse? x
        pure (.op (witnessed op (nextOut outs).1), (nextOut outs).2)
    | _ => none

def parseTop (xs : List Sexp) (outs : List Sexp) : Option Items :=
  (xs.foldr (fun x k => fun outs => do
      let (i, outs') ← parseItem 64 x outs
      let (is, outs'') ← k outs'
      pure (Items.cons i is, outs'')) (fun outs => some (Items.nil, outs)) outs).map (·.1)

def SOut.toSexp : SOut → Sexp
  | .out o => o.toSexp
  | .failed => .atom "failed"
  | .skip => .atom "skip"
  | .sOk => .atom "sok"
  | .sErr => .atom "serr"
  | .sPanic => .atom "spanic"

/-- Input `(ops ITEM*)`: the caller executes every top-level item on one `State` whose root registry holds an
empty `Populations` and carries on whatever the result.  Implementation output `((outs out*) (stack P*))`, with
`(stack panic)` when the final read of the stack panics; model / spec output in the same shape. -/
def handleCaseS (input implOut : Sexp) : Option (Sexp × Sexp) := do
  let xs ← tagged? "ops" input
  let implOuts :=
    match implOut with
    | .list (o :: _) => (tagged? "outs" o).getD []
    | _ => []
  let prog := (← parseTop xs implOuts).tryAll
  let r := execItems [some []] prog
  let rs := specItems [] prog
  let stackM :=
    match find r.1 with
    | some s => (abs s).map Pop.toSexp
    | none => [Sexp.atom "panic"]
  let modelOut := Sexp.list [.list (.atom "outs" :: r.2.1.map SOut.toSexp), .list (.atom "stack" :: stackM)]
  let specOut := Sexp.list [.list (.atom "outs" :: rs.2.1.map SOut.toSexp),
                            .list (.atom "stack" :: rs.1.map Pop.toSexp)]
  pure (modelOut, specOut)

end MahfModel.PopStack
