/-
C05 driver side for state snapshots: component-level cases (`comp`) and the leaf transitions observed in
template runs (`run`) are sent as REAL before/after snapshots of everything the state holds
(`(snap (stack POP*) (best IND*) (arch IND*) (pbest IND*) (gbest IND*) (mols IND*))`, solutions interned per
case, objective table `(f …)` recomputed by the harness with `raw_f`).

* O (`holds`): `allValidB f (allInds after)` — the predicate of the theorems (`all_valid_b_iff`) on the
  implementation's state.
* K (`agree`): components with an exact model (`memStep`: evaluator, best update, archive update / re-insertion,
  duplication, PSO memories, `ChemicalReactionInit`, the four CRO reactions — nondeterministic over the Boolean
  energy witness) must produce exactly the model's state; every other component must satisfy `leafCheck` of its
  kind (`leaf_check_sound`); a component that ended with `Err` or a panic must at least satisfy `noNewValues`.

A state that is used again for another instance (`(comp … (reinit …))`, `(rerun …)`): the snapshots around the
components' `init` are compared with the init model (`initOpsOf`, `memRun`), and O is evaluated with the
objective table of the NEW instance right after the `init`s and after every later step; the class names the
memory that holds the stale value (`stalePlace`).

Also the API histories with a tie-agnostic `best_individual` (any member with a minimal objective value is
accepted as the answer; which one is returned is not part of the property).
-/
import MahfModel.Model.PopMachineWire
import MahfModel.Model.PopMachineMem
namespace MahfModel.PopMachine.WireC05
open MahfModel Sexp MahfModel.PopMachine MahfModel.PopMachine.Wire

abbrev X := PMX Int

def inds? (tag : String) (s : Sexp) : Option (List I) := do
  let xs ← tagged? tag s
  xs.mapM ind?

def snap? : Sexp → Option X
  | .list [.atom "snap", st, b, a, pb, gb, ms] => do
    let pops ← tagged? "stack" st
    let stack ← pops.mapM pop?
    let best ← inds? "best" b
    let arch ← inds? "arch" a
    let pbest ← inds? "pbest" pb
    let gbest ← inds? "gbest" gb
    let mols ← inds? "mols" ms
    pure { pm := { stack, best := best.head?, archive := arch }, pbest, gbest := gbest.head?, mols }
  | _ => none

def ofSnap (x : X) : Sexp :=
  .list [.atom "snap", .list (.atom "stack" :: x.pm.stack.map ofPop), .list (.atom "best" :: x.pm.best.toList.map ofInd),
         .list (.atom "arch" :: x.pm.archive.map ofInd), .list (.atom "pbest" :: x.pbest.map ofInd),
         .list (.atom "gbest" :: x.gbest.toList.map ofInd), .list (.atom "mols" :: x.mols.map ofInd)]

/-- Individuals ordered by (objective key, solution id), unevaluated first: canonical order of a multiset. -/
def indLe (a b : I) : Bool :=
  match a.obj, b.obj with
  | none, none => a.sol ≤ b.sol
  | none, some _ => true
  | some _, none => false
  | some x, some y => x < y || (x == y && a.sol ≤ b.sol)

def insertInd (x : I) : List I → List I
  | [] => [x]
  | y :: ys => if indLe x y then x :: y :: ys else y :: insertInd x ys
def sortInds : List I → List I
  | [] => []
  | x :: xs => insertInd x (sortInds xs)

/-- Agreement of two snapshots in what C05 talks about (`evals` / `calls` are not observed). The population
stack is compared exactly. The memories (best-so-far, archive, swarm and molecule memories) are compared by
their OBJECTIVE VALUES position-wise (the archive as a multiset): which of several equally good individuals a
memory keeps (`<` or `<=`, first or last minimum, order of equal keys after `sort_unstable`) is not part of
the property; that every entry is an exact copy of an individual of the state is checked separately by
`noNewValues`. -/
def snapEq (a b : X) : Bool :=
  a.pm.stack == b.pm.stack && a.pm.best.map (·.obj) == b.pm.best.map (·.obj) &&
  (sortInds a.pm.archive).map (·.obj) == (sortInds b.pm.archive).map (·.obj) &&
  a.pbest.map (·.obj) == b.pbest.map (·.obj) && a.gbest.map (·.obj) == b.gbest.map (·.obj) &&
  a.mols.map (·.obj) == b.mols.map (·.obj)

def kindOf (name : String) : Kind :=
  if name == "PopulationEvaluator" then .evalAll
  else if ["Saturation", "Toroidal", "Mirror", "CompleteOneTailedNormalCorrection", "NormalMutation", "UniformMutation",
           "BitFlipMutation", "PartialRandomSpread", "PartialRandomBitstring", "ScrambleMutation", "SwapMutation",
           "InversionMutation", "InsertionMutation", "TranslocationMutation", "ParticleVelocitiesUpdate",
           "BlackHoleParticlesUpdate", "EventHorizon", "DEBinomialCrossover", "DEExponentialCrossover"].contains name then .unevalTop
  else if ["BestIndividualUpdate", "ElitistArchiveUpdate", "Logger", "GeometricCooling", "Linear", "Polynomial",
           "ParticleVelocitiesInit", "PersonalBestParticlesInit", "PersonalBestParticlesUpdate", "GlobalBestParticleUpdate",
           "ChemicalReactionInit", "AsPheromoneUpdate", "MinMaxPheromoneUpdate", "StepsWithoutImprovementUpdate",
           "RandomRange", "Noop"].contains name then .keep
  else if ["RandomSpread", "RandomPermutation", "RandomBitstring", "Empty"].contains name then .pushNew
  else if ["All", "Tournament", "FullyRandom", "RandomWithoutRepetition", "RouletteWheel", "StochasticUniversalSampling",
           "LinearRank", "ExponentialRank", "CloneSingle", "DeterministicFitnessProportional", "DERand", "DEBest",
           "DECurrentToBest"].contains name then .copy
  else if ["NPointCrossover", "UniformCrossover", "ArithmeticCrossover", "CycleCrossover", "AcoGeneration", "DEMutation"].contains name then .newTop
  else if ["MuPlusLambda", "Generational", "Merge", "KeepBetterAtIndex", "DiscardOffspring", "RandomReplacement",
           "ExponentialAnnealingAcceptance"].contains name then .merge
  else if name == "FireflyPositionsUpdate" then .selfEval
  else .any

def kindName : Kind → String
  | .evalAll => "evalAll" | .unevalTop => "unevalTop" | .keep => "keep" | .pushNew => "pushNew" | .copy => "copy"
  | .newTop => "newTop" | .merge => "merge" | .selfEval => "selfEval" | .any => "any"

/-- The exact models: the candidate `MemOp`s of a component (several = the legal witnesses). -/
def exactOps (name : String) (k : Nat) : List MemOp :=
  if name == "PopulationEvaluator" then [.base .eval]
  else if name == "BestIndividualUpdate" then [.base .bestUpdate]
  else if name == "ElitistArchiveUpdate" then [.base (.archiveUpdate k)]
  else if name == "ElitistArchiveIntoPopulation" then [.base .archiveInto]
  else if name == "DuplicatePopulation" then [.duplicate]
  else if name == "PersonalBestParticlesInit" then [.pbestInit]
  else if name == "PersonalBestParticlesUpdate" then [.pbestUpdate]
  else if name == "GlobalBestParticleUpdate" then [.gbestUpdate]
  else if name == "ChemicalReactionInit" then [.croInit]
  else if name == "OnWallIneffectiveCollisionUpdate" then [.onWall true, .onWall false]
  else if name == "DecompositionUpdate" then [.decomposition true, .decomposition false]
  else if name == "IntermolecularIneffectiveCollisionUpdate" then [.intermolecular true, .intermolecular false]
  else if name == "SynthesisUpdate" then [.synthesis true, .synthesis false]
  else []

/-- The `init` of a component, as far as C05 observes it (a component that is not listed has no `init`, or one
that does not touch any individual). -/
def initOpsOf (name : String) : List MemOp :=
  if name == "PopulationEvaluator" then [.initEvals]
  else if name == "BestIndividualUpdate" then [.initBest]
  else if name == "ElitistArchiveUpdate" then [.initArchive]
  else if name == "PersonalBestParticlesInit" then [.initPbest]
  else if name == "GlobalBestParticleUpdate" then [.initGbest]
  else if name == "ChemicalReactionInit" then [.initMols]
  else []

/-- Where the first individual with a value that does not belong to its solution sits (names as in the harness's
own audit). -/
def stalePlace (f : Nat → Int) (x : X) : String :=
  if !allValidB f x.pm.stack.flatten then "stack"
  else if !allValidB f x.pm.best.toList then "best"
  else if !allValidB f x.pm.archive then "archive"
  else if !allValidB f x.pbest then "pso-personal"
  else if !allValidB f x.gbest.toList then "pso-global"
  else if !allValidB f x.mols then "cro-molecule"
  else "none"

def outMatches (res : String) (after : X) : Out X → Bool
  | .ok x => res == "ok" && snapEq x after
  | .err x => res == "err" && snapEq x after
  | .panic => res == "panic"

def ofOutX : Out X → Sexp
  | .ok x => .list [.atom "ok", ofSnap x]
  | .err x => .list [.atom "err", ofSnap x]
  | .panic => .atom "panic"

/-- Components that read objective values with `objective()` (a documented panic on an unevaluated individual). -/
def needsObjectives (name : String) : Bool :=
  ["BestIndividualUpdate", "ElitistArchiveUpdate", "PersonalBestParticlesUpdate", "GlobalBestParticleUpdate",
   "OnWallIneffectiveCollisionUpdate", "DecompositionUpdate", "IntermolecularIneffectiveCollisionUpdate", "SynthesisUpdate"].contains name

/-- K for one observed execution: `(agree, what the model says)`. When a component that reads objective values
meets an unevaluated individual, "the better one" is not defined: whether and where it panics is outside the
property (a single element is never compared by a sort, `min_by_key` may or may not look at its key) — only
`noNewValues` is demanded there. -/
def judge (name : String) (k : Nat) (f : Nat → Int) (res : String) (before after : X) : Bool × Sexp :=
  if needsObjectives name && (allInds before).any (·.obj.isNone) then
    (noNewValues before after, .list [.atom "kind", .atom "any"])
  else
  match exactOps name k with
  | [] =>
    let kind := kindOf name
    let ok := if res == "ok" then leafCheck f kind before after else noNewValues before after
    (ok, .list [.atom "kind", .atom (kindName kind)])
  | ops =>
    let outs := ops.map (memStep f before)
    let copies := if (kindOf name).evaluates then freshOrCopy f (allInds before) (allInds after) else noNewValues before after
    (outs.any (outMatches res after) && copies, .list (.atom "model" :: outs.map ofOutX))

/-- `(NAME? (res R)? (f …) (before SNAP) (after SNAP))` pieces → verdict pieces `(agree, stale, model)`. -/
def judgeRecord (name : String) (k : Nat) (res : String) (ft before after : Sexp) : Option (Bool × Bool × Sexp) := do
  let tab ← ftab? ft
  let f := fOf tab
  let b ← match before with | .list [.atom "before", s] => snap? s | _ => none
  -- after a panic the state may not be readable any more (`(snap)`): nothing to compare
  match after with
  | .list [.atom "after", .list [.atom "snap"]] => pure (res == "panic", false, .atom "unreadable")
  | .list [.atom "after", s] =>
    let a ← snap? s
    let (agree, model) := judge name k f res b a
    pure (agree, !allValidB f (allInds a), model)
  | _ => none

def findTag (tag : String) : List Sexp → Option (List Sexp)
  | [] => none
  | x :: xs => match tagged? tag x with | some r => some r | none => findTag tag xs

/-- first parameter as a natural number (the archive capacity travels as a float) -/
def firstParamNat (rest : List Sexp) : Nat :=
  match findTag "params" rest with
  | some (p :: _) => match float? p with | some v => v.toUInt64.toNat | none => 0
  | _ => 0

def comp (input implOut : Sexp) : Option Verdict := do
  match input with
  | .list (.atom "comp" :: .atom name :: rest) =>
    match implOut with
    | .list [.list [.atom "res", .atom "setup"]] => pure { agree := true, holds := true, model := .atom "setup" }
    | .list [.list [.atom "res", .atom res], ft, before, after] =>
      let (agree, stale, model) ← judgeRecord name (firstParamNat rest) res ft before after
      pure { agree, holds := !stale, cls := if stale then "stale" else "-", model }
    -- a state used again for another instance: `(reinit S0 SI)` are the snapshots around the components' `init`
    | .list [.list [.atom "res", .atom res], ft, before, after, .list [.atom "reinit", s0, si]] =>
      let (agree, stale, model) ← judgeRecord name (firstParamNat rest) res ft before after
      let tab ← ftab? ft
      let f := fOf tab
      let x0 ← snap? s0
      let xi ← snap? si
      let preName := match findTag "pre" rest with | some (.atom n :: _) => n | _ => ""
      let initOut := memRun f x0 (initOpsOf preName ++ initOpsOf name)
      let initAgree := match initOut with | .ok x => snapEq x xi | _ => false
      let staleI := !allValidB f (allInds xi)
      let place := if staleI then stalePlace f xi
                   else match after with | .list [.atom "after", a] => (match snap? a with | some xa => stalePlace f xa | none => "none") | _ => "none"
      pure { agree := agree && initAgree, holds := !stale && !staleI,
             cls := if stale || staleI then "stale-" ++ place else "-",
             model := .list [.list [.atom "init", ofOutX initOut], model] }
    | _ => none
  | _ => none

def leafRecord : Sexp → Option (String × Bool × Bool)
  | .list [.atom name, ft, before, after] => do
    let (agree, stale, _) ← judgeRecord name 0 "ok" ft before after
    pure (name, agree, stale)
  | _ => none

/-- One audited run: `(agree, no stale value, place of the first stale value, model)`. -/
def runRecord (implOut : Sexp) : Option (Bool × Bool × String × Sexp) := do
  match implOut with
  | .list [.list [.atom "out", _], .list [.atom "steps", _], .list [.atom "checked", _], .list [.atom "evaluated", _],
           .list [.atom "stale", st], .list (.atom "leaves" :: ls)] =>
    let rs ← ls.mapM leafRecord
    let leavesOk := rs.all fun r => r.2.1
    let noStale := (match st with | .atom "none" => true | _ => false) && rs.all fun r => !r.2.2
    let place := match st with
      | .list (.atom p :: _) => p
      | _ => "leaf"
    let model := Sexp.list [.list [.atom "stale", .atom "none"],
                            .list (.atom "mismatch" :: (rs.filter (!·.2.1)).map fun r => .atom r.1)]
    pure (leavesOk, noStale, place, model)
  | _ => none

def run (_input implOut : Sexp) : Option Verdict := do
  let (agree, noStale, _, model) ← runRecord implOut
  pure { agree, holds := noStale, cls := if noStale then "-" else "stale", model }

/-- Consecutive runs on one state (`(rerun …)`): every run is judged like a single run, against the objective
function of its own instance; the class names the memory that holds the first stale value. -/
def rerun (_input implOut : Sexp) : Option Verdict := do
  match implOut with
  | .list [.list (.atom "runs" :: rs)] =>
    let recs ← rs.mapM runRecord
    let agree := recs.all fun r => r.1
    let holds := recs.all fun r => r.2.1
    let place := match recs.find? (fun r => !r.2.1) with | some r => r.2.2.1 | none => "-"
    pure { agree, holds, cls := if holds then "-" else "stale-" ++ place,
           model := .list (.atom "runs" :: recs.map fun r => r.2.2.2) }
  | _ => none

/-! API histories, `best_individual` tie-agnostic. -/

/-- The implementation's answer to `best_individual` is legal: a member with a minimal objective value
(all members evaluated). -/
def bestLegal (p : List I) : Sexp → Bool
  | .list [.atom "i", s] =>
    match ind? s with
    | some x => p.contains x && p.all fun y => match x.obj, y.obj with | some a, some b => a ≤ b | _, _ => false
    | none => false
  | _ => false

def isBest : ApiOp Int → Bool
  | .best => true
  | _ => false

def walk (f : Nat → Int) : List I → List Bool → List (ApiOp Int) → List Sexp → Option (List Sexp × String)
  | _, _, [], [] => some ([], "-")
  | p, t, op :: ops, o :: outs => do
    let r := apiStep f p op
    let t' := C05.taintStep f p t op
    let (ret, implPop) ← match o with
      | .list [ret, ip] => (pop? ip).map fun q => (ret, q)
      | _ => none
    let c := C05.holdsStep f op t' implPop
    let (ms, cs) ← walk f r.1 t' ops outs
    let out := if isBest op && bestLegal p ret then ret else C05.ofOut r.2
    pure (Sexp.list [out, ofPop r.1] :: ms, if c != "-" then c else cs)
  | _, _, _, _ => none

def api (input implOut : Sexp) : Option Verdict := do
  let args ← tagged? "api" input
  match args, implOut with
  | [_, .list (.atom "ops" :: os)], .list [ft, .list (.atom "steps" :: outs)] =>
    let ops ← os.mapM C05.ApiOp.parse?
    let tab ← ftab? ft
    let f := fOf tab
    let (ms, cls) ← walk f [] [] ops outs
    let model := Sexp.list [ft, .list (.atom "steps" :: ms)]
    pure { agree := Sexp.beq model implOut, holds := cls == "-", cls, model }
  | _, _ => none

end MahfModel.PopMachine.WireC05
