/-
C10 — model of the shipped conditions (src/conditions/common.rs, logical.rs), of `Loop`
(src/components/control_flow.rs) and of the `gen_bool` word → bool mapping of rand 0.8.

Code-shaped; numbers that the code only compares or divides are kept generic over the carrier
(core classes only), so the driver instantiates `Float` / `Nat` and the theorems an ordered field.
-/
import MahfModel.Model.Sexp
import MahfModel.Model.Objective
namespace MahfModel.Conditions

/-- A panic is an outcome. -/
inductive Outcome (α : Type) where
  | ok (a : α)
  | panic
  deriving DecidableEq, Repr

/-! ### LessThanN  (common.rs:168-186)
`let value = lens.get(..)?; state.set_value::<Progress<L>>(value.into() / self.n.into()); Ok(value < self.n)` -/

/-- Returns the verdict and the progress value written to the state. `toF` is `Into<f64>`. -/
def lessThanN {V F : Type} [LT V] [DecidableLT V] [Div F] (toF : V → F) (n value : V) : Bool × F :=
  (decide (value < n), toF value / toF n)

/-! ### EveryN  (common.rs:251-261), on `u32`:
`Ok(value.checked_rem(self.n).map_or(value == 0, |rem| rem == 0))` -/

/-- `u32::checked_rem`: `None` for a zero divisor. -/
def checkedRem (value n : Nat) : Option Nat :=
  if n = 0 then none else some (value % n)

def everyN (n value : Nat) : Bool :=
  match checkedRem value n with
  | none => value == 0
  | some rem => rem == 0

/-! ### OptimumReached  (common.rs:466-498) -/

/-- `from_params`: `ensure!(epsilon >= 0.)`. -/
def optimumReachedNew {F : Type} [LE F] [DecidableLE F] [OfNat F 0] (eps : F) : Option F :=
  if (0 : F) ≤ eps then some eps else none

/-- `if let Some(o) = state.best_objective_value() { o.value() <= known_optimum.value() + epsilon } else { false }`. -/
def optimumReached {F : Type} [Add F] [LE F] [DecidableLE F] (eps : F) (best : Option F) (optimum : F) : Bool :=
  match best with
  | some b => decide (b ≤ optimum + eps)
  | none => false

/-! ### ChangeOf with its two checkers  (common.rs:262-436) -/

/-- `PartialEqChecker::eq`. -/
def partialEq {V : Type} [DecidableEq V] (a b : V) : Bool := decide (a = b)

/-- `DeltaEqChecker::eq` on an unsigned type:
`let diff = match (a, b) { (a, b) if a < b => b - a, (a, b) => a - b }; diff < threshold`. -/
def deltaEq (threshold a b : Nat) : Bool :=
  let diff := if a < b then b - a else a - b
  decide (diff < threshold)

/-- `DeltaEqChecker::eq` on any ordered type with subtraction (the documented use is
`DeltaEqChecker<SingleObjective>` over the best objective value). -/
def deltaEqG {V : Type} [LT V] [DecidableLT V] [Sub V] (threshold a b : V) : Bool :=
  let diff := if a < b then b - a else a - b
  decide (diff < threshold)

/-- `DeltaEqChecker<SingleObjective>::eq` on exact double values, as far as it can be decided
without knowing how a non-zero finite difference rounds (C09: `a - b` is the derived operator,
`<` is `partial_cmp == Some(Less)`): equal finite values have the exact difference 0; a NaN or
+inf difference is never `< threshold`; a −inf difference is below every legal threshold;
for any other finite difference the rounded value would be needed (`none`). -/
def deltaEqObj (threshold a b : Objective.F64) : Option Bool :=
  match a, b with
  | .fin x, .fin y =>
    if x = y then some (Objective.objLt (.fin 0) threshold)
    else if (if Objective.objLt a b then Objective.subC b a else Objective.subC a b) = .pinf then some false
    else none
  | _, _ =>
    match (if Objective.objLt a b then Objective.subC b a else Objective.subC a b) with
    | .nan => some false
    | .pinf => some false
    | .ninf => some (Objective.legal threshold)
    | .fin => none

/-- One evaluation: `changed = match previous { Some(p) => !checker.eq(current, p), None => true };
if changed { *previous = Some(current) }`. Returns the verdict and the new `Previous`. -/
def changeOfStep {V : Type} (eqv : V → V → Bool) (prev : Option V) (cur : V) : Bool × Option V :=
  let changed := match prev with
    | some p => !eqv cur p
    | none => true
  (changed, if changed then some cur else prev)

/-- The verdicts over a history of observed values, starting from `prev`
(`init` inserts `Previous(None)`). -/
def changeOfRun {V : Type} (eqv : V → V → Bool) (prev : Option V) : List V → List Bool
  | [] => []
  | v :: vs =>
    let r := changeOfStep eqv prev v
    r.1 :: changeOfRun eqv r.2 vs

/-- The `Previous` state after a history. -/
def changeOfState {V : Type} (eqv : V → V → Bool) (prev : Option V) : List V → Option V
  | [] => prev
  | v :: vs => changeOfState eqv (changeOfStep eqv prev v).2 vs

/-- Specification side: the value carried by the last `true` in a list of (value, fired) pairs. -/
def lastReported {V : Type} : List V → List Bool → Option V
  | v :: vs, b :: bs =>
    match lastReported vs bs with
    | some r => some r
    | none => if b then some v else none
  | _, _ => none

/-! ### ChangeOf inside a `State`: `init`, re-initialisation, several conditions, scopes

`ChangeOf::init` is `state.insert(Previous::<L>::default())` — it always (re)sets the remembered
value in the TOP registry; `evaluate` borrows `Previous<L>` from the innermost registry that holds
one (`Err` if none does). The state is keyed by the lens type `L` (fix f8eea3e). `Loop::execute`
re-initialises its condition on every entry; `Scope::execute` runs `body.init` and `body.execute`
in a child registry that is dropped afterwards. -/

/-- One condition with explicit (re-)initialisations: history entries are `none` = `init`,
`some v` = an evaluation observing `v`. The slot is `none` while no `Previous` state exists
(then `evaluate` errs: output `none`). -/
def changeOfRunR {V : Type} (eqv : V → V → Bool) : Option (Option V) → List (Option V) → List (Option Bool)
  | _, [] => []
  | _, none :: es => changeOfRunR eqv (some none) es
  | none, some _ :: es => none :: changeOfRunR eqv none es
  | some prev, some v :: es =>
    let r := changeOfStep eqv prev v
    some r.1 :: changeOfRunR eqv (some r.2) es

/-- A ChangeOf condition: which lens it observes, under which key its `Previous` state is stored
(in the code: the lens type, `Previous<L>`) and its checker (`none` = `PartialEqChecker`,
`some t` = `DeltaEqChecker` with threshold `t`). -/
structure CondSpec where
  lens : Nat
  key : Nat
  th : Option Nat

def CondSpec.eqv (c : CondSpec) : Nat → Nat → Bool :=
  match c.th with
  | none => partialEq
  | some t => deltaEq t

/-- One registry level: key ↦ `Previous` (absent = `none`). -/
abbrev Frame := Nat → Option (Option Nat)

def upd {α : Type} (f : Nat → α) (k : Nat) (a : α) : Nat → α := fun x => if x = k then a else f x

/-- `vals`: the observed states (they live in the root registry); `stack`: registries, innermost first. -/
structure MSt where
  vals : Nat → Nat
  stack : List Frame

/-- `try_borrow_value_mut`: the innermost registry that contains the key. -/
def findSlot : List Frame → Nat → Option (Option Nat)
  | [], _ => none
  | f :: fs, k =>
    match f k with
    | some p => some p
    | none => findSlot fs k

def writeSlot : List Frame → Nat → Option Nat → List Frame
  | [], _, _ => []
  | f :: fs, k, p =>
    match f k with
    | some _ => upd f k (some p) :: fs
    | none => f :: writeSlot fs k p

/-- `state.insert(Previous::default())`: into the top registry. -/
def initSlot : List Frame → Nat → List Frame
  | [], _ => []
  | f :: fs, k => upd f k (some none) :: fs

inductive Ev where
  | set (lens v : Nat)     -- the observed state changes
  | eval (c : Nat)         -- condition `c` is evaluated
  | init (c : Nat)         -- condition `c` is (re-)initialised
  deriving DecidableEq, Repr

/-- One event; an evaluation yields `(c, some verdict)` or `(c, none)` for `Err`. -/
def evStep (condOf : Nat → CondSpec) (s : MSt) : Ev → MSt × Option (Nat × Option Bool)
  | .set l v => ({ s with vals := upd s.vals l v }, none)
  | .init c => ({ s with stack := initSlot s.stack (condOf c).key }, none)
  | .eval c =>
    let k := (condOf c).key
    match findSlot s.stack k with
    | none => (s, some (c, none))
    | some prev =>
      let r := changeOfStep (condOf c).eqv prev (s.vals (condOf c).lens)
      ({ s with stack := writeSlot s.stack k r.2 }, some (c, some r.1))

def runFlat (condOf : Nat → CondSpec) (s : MSt) : List Ev → List (Nat × Option Bool)
  | [] => []
  | e :: es =>
    let r := evStep condOf s e
    match r.2 with
    | some o => o :: runFlat condOf r.1 es
    | none => runFlat condOf r.1 es

mutual
  inductive Item where
    | ev (e : Ev)
    | scope (body : Items)
  inductive Items where
    | nil
    | cons (i : Item) (is : Items)
end

/-- `Block::init`: every child's `init`, in order. A component that evaluates a condition
initialises it (as `Loop` and `Branch` do); `Scope::init` does nothing. -/
def initItems (condOf : Nat → CondSpec) : Items → MSt → MSt
  | .nil, s => s
  | .cons (.ev (.eval c)) is, s => initItems condOf is (evStep condOf s (.init c)).1
  | .cons _ is, s => initItems condOf is s

mutual
  def execItem (condOf : Nat → CondSpec) : Item → MSt → List (Nat × Option Bool) → MSt × List (Nat × Option Bool)
    | .ev e, s, log =>
      let r := evStep condOf s e
      match r.2 with
      | some o => (r.1, log ++ [o])
      | none => (r.1, log)
    | .scope body, s, log =>
      -- `with_inner_state`: child registry, `body.init`, `body.execute`, child dropped
      let s1 : MSt := { s with stack := (fun _ => none) :: s.stack }
      let s2 := initItems condOf body s1
      let r := execItems condOf body s2 log
      ({ r.1 with stack := r.1.stack.tail }, r.2)
  def execItems (condOf : Nat → CondSpec) : Items → MSt → List (Nat × Option Bool) → MSt × List (Nat × Option Bool)
    | .nil, s, log => (s, log)
    | .cons i is, s, log =>
      let r := execItem condOf i s log
      execItems condOf is r.1 r.2
end

/-- `root.init(..); root.execute(..)` on a fresh state whose observed values are all 0. -/
def runItems (condOf : Nat → CondSpec) (items : Items) : List (Nat × Option Bool) :=
  let s0 : MSt := { vals := fun _ => 0, stack := [fun _ => none] }
  (execItems condOf items (initItems condOf items s0) []).2

def Items.ofList : List Ev → Items
  | [] => .nil
  | e :: es => .cons (.ev e) (Items.ofList es)

/-- Specification side: the history condition `c` sees — its own inits and the values it observes. -/
def histOf (condOf : Nat → CondSpec) (c : Nat) (vals : Nat → Nat) : List Ev → List (Option Nat)
  | [] => []
  | .set l v :: es => histOf condOf c (upd vals l v) es
  | .init c' :: es => if c' = c then none :: histOf condOf c vals es else histOf condOf c vals es
  | .eval c' :: es =>
    if c' = c then some (vals (condOf c).lens) :: histOf condOf c vals es else histOf condOf c vals es

/-- The conditions occurring in a list of events. -/
def condsIn : List Ev → List Nat
  | [] => []
  | .set _ _ :: es => condsIn es
  | .init c :: es => c :: condsIn es
  | .eval c :: es => c :: condsIn es

/-- A real `Loop` whose condition is a ChangeOf over an observed value, entered `entries` times;
the body writes the next value of `script` (if any) and counts passes. Returns passes per entry.
Every entry re-initialises the condition (`prev = none`). -/
def loopChangeGo (eqv : Nat → Nat → Bool) : Nat → Option Nat → Nat → List Nat → Nat → Option (Nat × Nat × List Nat)
  | 0, _, _, _, _ => none
  | fuel + 1, prev, value, script, passes =>
    let r := changeOfStep eqv prev value
    if r.1 then
      match script with
      | v :: rest => loopChangeGo eqv fuel r.2 v rest (passes + 1)
      | [] => loopChangeGo eqv fuel r.2 value [] (passes + 1)
    else some (passes, value, script)

def loopChangeRun (eqv : Nat → Nat → Bool) : Nat → Nat → List Nat → Option (List Nat)
  | 0, _, _ => some []
  | entries + 1, value, script =>
    match loopChangeGo eqv (script.length + 3) none value script 0 with
    | none => none
    | some (passes, value', script') =>
      match loopChangeRun eqv entries value' script' with
      | none => none
      | some ps => some (passes :: ps)

/-! ### And / Or / Not  (logical.rs) over scripted operands

`And::evaluate`: `self.0.iter().map(|c| c.evaluate(..)).collect::<Result<Vec<_>, _>>()?.into_iter().all(|x| x)`
— `collect` into `Result` stops at the first `Err`, otherwise every operand is evaluated, in order. -/

mutual
  inductive Form where
    | leaf (tag : Nat) (operand : Nat)
    | and (fs : Forms)
    | or (fs : Forms)
    | not (f : Form)
  inductive Forms where
    | nil
    | cons (f : Form) (fs : Forms)
end

/-- Outcome of a scripted operand: a Boolean or an error. -/
inductive Res where
  | val (b : Bool)
  | err
  deriving DecidableEq, Repr

abbrev Env := Nat → Res

def allB : List Bool → Bool
  | [] => true
  | b :: bs => b && allB bs

def anyB : List Bool → Bool
  | [] => false
  | b :: bs => b || anyB bs

mutual
  /-- Returns the result and the log of evaluated leaf tags (in evaluation order, appended to `log`). -/
  def eval (env : Env) : Form → List Nat → Res × List Nat
    | .leaf tag operand, log => (env operand, log ++ [tag])
    | .and fs, log =>
      match evalAll env fs log with
      | (some bs, log') => (.val (allB bs), log')
      | (none, log') => (.err, log')
    | .or fs, log =>
      match evalAll env fs log with
      | (some bs, log') => (.val (anyB bs), log')
      | (none, log') => (.err, log')
    | .not f, log =>
      match eval env f log with
      | (.val b, log') => (.val (!b), log')
      | (.err, log') => (.err, log')
  /-- `iter().map(evaluate).collect::<Result<Vec<bool>, _>>()`. -/
  def evalAll (env : Env) : Forms → List Nat → Option (List Bool) × List Nat
    | .nil, log => (some [], log)
    | .cons f fs, log =>
      match eval env f log with
      | (.err, log') => (none, log')
      | (.val b, log') =>
        match evalAll env fs log' with
        | (some bs, log'') => (some (b :: bs), log'')
        | (none, log'') => (none, log'')
end

/-! Specification side: Boolean semantics and the left-to-right list of leaves. -/
mutual
  def sem (env : Nat → Bool) : Form → Bool
    | .leaf _ operand => env operand
    | .and fs => semAll env fs
    | .or fs => semAny env fs
    | .not f => !sem env f
  def semAll (env : Nat → Bool) : Forms → Bool
    | .nil => true
    | .cons f fs => sem env f && semAll env fs
  def semAny (env : Nat → Bool) : Forms → Bool
    | .nil => false
    | .cons f fs => sem env f || semAny env fs
end

mutual
  def leaves : Form → List Nat
    | .leaf tag _ => [tag]
    | .and fs => leavesAll fs
    | .or fs => leavesAll fs
    | .not f => leaves f
  def leavesAll : Forms → List Nat
    | .nil => []
    | .cons f fs => leaves f ++ leavesAll fs
end

mutual
  /-- Does some leaf of the formula err under `env`? -/
  def errFree (env : Env) : Form → Bool
    | .leaf _ operand => env operand != .err
    | .and fs => errFreeAll env fs
    | .or fs => errFreeAll env fs
    | .not f => errFree env f
  def errFreeAll (env : Env) : Forms → Bool
    | .nil => true
    | .cons f fs => errFree env f && errFreeAll env fs
end

def Res.toBool : Res → Bool
  | .val b => b
  | .err => false

/-! ### RandomChance  (common.rs:71-78) through `Rng::gen_bool` of rand 0.8
(`Bernoulli::new(p).unwrap()`, `sample`: `if p_int == ALWAYS_TRUE { return true }; rng.gen::<u64>() < p_int`). -/

inductive Bern where
  | invalid               -- `new` returned `Err` → `unwrap` panics
  | always                -- `p == 1.0`: `ALWAYS_TRUE`, consumes no word
  | thr (pInt : Nat)      -- `(p * 2^64) as u64`
  deriving DecidableEq, Repr

/-- `Bernoulli::new` on the exact value of `p`. For `0 ≤ p < 1`, `p · 2^64` is computed exactly
(scaling by a power of two, no overflow) and `as u64` truncates: with `p = k · 2^-1074` this is
`⌊k / 2^1010⌋` (`wordUnit = 2^1010` is `2^-64` in units of `2^-1074`). -/
def wordUnit : Nat := 2 ^ 1010

def bernoulliNew (p : Objective.F64) : Bern :=
  match p with
  | .fin k =>
    if 0 ≤ k ∧ k < (Objective.scale : Int) then .thr (k.toNat / wordUnit)
    else if k = (Objective.scale : Int) then .always
    else .invalid
  | _ => .invalid

/-- One evaluation given the remaining scripted words: the verdict and the remaining words. -/
def randomChance (b : Bern) (words : List Nat) : Outcome (Bool × List Nat) :=
  match b with
  | .invalid => .panic
  | .always => .ok (true, words)
  | .thr m =>
    match words with
    | w :: ws => .ok (decide (w < m), ws)
    | [] => .panic   -- the script ran dry (never happens with a real generator)

/-- Successive evaluations on a word script. -/
def randomChanceRun (b : Bern) : Nat → List Nat → Outcome (List Bool × List Nat)
  | 0, ws => .ok ([], ws)
  | k + 1, ws =>
    match randomChance b ws with
    | .panic => .panic
    | .ok (r, ws') =>
      match randomChanceRun b k ws' with
      | .panic => .panic
      | .ok (rs, ws'') => .ok (r :: rs, ws'')

/-! ### Loop  (control_flow.rs:197-204) guarded by `LessThanN` over a counter

`condition.init` (Progress := 0.0); `while condition.evaluate()? { body.execute()?; *Iterations += 1 }`.
The body is a counting body that adds `step` to the observed counter itself (for `Iterations` the
loop does it: `step = 1`). Ghost counters `tests` and `passes`. -/

structure LoopSt (F : Type) where
  counter : Nat
  progress : F
  tests : Nat
  passes : Nat

/-- `fuel` bounds the number of condition evaluations; `none` = fuel exhausted. -/
def loopGo {F : Type} [Div F] (toF : Nat → F) (n step : Nat) : Nat → LoopSt F → Option (LoopSt F)
  | 0, _ => none
  | fuel + 1, s =>
    let r := lessThanN toF n s.counter
    let s1 : LoopSt F := { s with progress := r.2, tests := s.tests + 1 }
    if r.1 then loopGo toF n step fuel { s1 with counter := s1.counter + step, passes := s1.passes + 1 }
    else some s1

/-- `Loop::init` inserts `Iterations(0)`; `execute` re-initialises the condition (`Progress::default()`). -/
def loopRun {F : Type} [Div F] [OfNat F 0] (toF : Nat → F) (n step counter0 fuel : Nat) : Option (LoopSt F) :=
  loopGo toF n step fuel { counter := counter0, progress := 0, tests := 0, passes := 0 }

/-! ### Wire format -/
open MahfModel Sexp

def resSexp : Res → Sexp
  | .val b => ofBool b
  | .err => .atom "err"

def res? : Sexp → Option Res
  | .atom "t" => some (.val true)
  | .atom "f" => some (.val false)
  | .atom "e" => some .err
  | _ => none

/-- Operands are written `a`, `b`, `c` (0, 1, 2). -/
def operand? : Sexp → Option Nat
  | .atom "a" => some 0
  | .atom "b" => some 1
  | .atom "c" => some 2
  | _ => none

/-- Parses `(l X)`, `(and F*)`, `(or F*)`, `(not F)` and the operator forms `(and2 F G)` (`F & G` =
`And::new([F, G])`), `(or2 F G)` (`F | G`), `(not1 F)` (`!F`, logical.rs `impl ops::…`); leaf tags are assigned in reading order
(`next` is the first free tag). Fuel = nesting bound of the parser (total). -/
def parseForm : Nat → Sexp → Nat → Option (Form × Nat)
  | 0, _, _ => none
  | fuel + 1, s, next =>
    match s with
    | .list [.atom "l", x] => (operand? x).map fun o => (Form.leaf next o, next + 1)
    | .list [.atom "not", f] => (parseForm fuel f next).map fun (g, n') => (Form.not g, n')
    | .list (.atom "and" :: fs) => (parseForms fuel fs next).map fun (gs, n') => (Form.and gs, n')
    | .list (.atom "or" :: fs) => (parseForms fuel fs next).map fun (gs, n') => (Form.or gs, n')
    | .list [.atom "not1", f] => (parseForm fuel f next).map fun (g, n') => (Form.not g, n')
    | .list [.atom "and2", f, g] => (parseForms fuel [f, g] next).map fun (gs, n') => (Form.and gs, n')
    | .list [.atom "or2", f, g] => (parseForms fuel [f, g] next).map fun (gs, n') => (Form.or gs, n')
    | _ => none
where
  parseForms (fuel : Nat) : List Sexp → Nat → Option (Forms × Nat)
    | [], next => some (.nil, next)
    | f :: fs, next =>
      match parseForm fuel f next with
      | none => none
      | some (g, n') =>
        match parseForms fuel fs n' with
        | none => none
        | some (gs, n'') => some (.cons g gs, n'')

end MahfModel.Conditions
